import IbModel.Util.Wire
import IbModel.Model.Validation
import IbModel.Generated.Tables
/-!
Driver handlers for C17 (see `harness/src/c17.rs` for the request grammar):
`VALIDATE <skip|log|ff> <rec|kv> <mode|short> <COLL> <seq|par:N|par:none> <rows>`, `COMBINE <results>`,
`VPIPE <skip|log|ff> <rec|kv> <COLL> <seq|par:N|par:none> <steps> <rows>`; `COLL` = `c0` | `c1[+entries]` |
`cp[+entries]` (the collector before the run: absent / healthy / poisoned, with the entries it already holds).
-/
namespace IB.D17
open IB.Wire IB.Validation

/-- the harness' table-driven record: carries its own verdict -/
structure Rec where
  id : Int
  errs : VResult Nat

def Rec.validate (r : Rec) : VResult Nat := r.errs

def digits (cs : List Nat) : String := String.join (cs.map toString)

def renderSpec : VResult Nat → String
  | none => "V"
  | some cs => "E" ++ digits cs

def renderRec (r : Rec) : String := toString r.id ++ ":" ++ renderSpec r.errs
def renderKv (kv : Int × Rec) : String := toString kv.1 ++ "=" ++ renderRec kv.2

def digit? (c : Char) : Option Nat :=
  if '0' ≤ c ∧ c ≤ '9' then some (c.toNat - '0'.toNat) else none

def spec? (s : String) : Option (VResult Nat) :=
  match s.toList with
  | ['V'] => some none
  | 'E' :: ds => (ds.mapM digit?).map some
  | _ => none

def rec? (s : String) : Option Rec :=
  match s.splitOn ":" with
  | [i, sp] => do pure ⟨← parseInt? i, ← spec? sp⟩
  | _ => none

def kv? (s : String) : Option (Int × Rec) :=
  match s.splitOn "=" with
  | [k, r] => do pure (← parseInt? k, ← rec? r)
  | _ => none

def listOf? {β : Type} (one : String → Option β) (s : String) : Option (List β) :=
  if s == "-" then some [] else (s.splitOn ",").mapM one

def mode? : String → Option Mode
  | "skip" => some .skipInvalid
  | "log" => some .logAndContinue
  | "ff" => some .failFast
  | _ => none

/-- `<record_id|none>/E<digits>` -/
def entry? (s : String) : Option (RecordError Nat) :=
  match s.splitOn "/" with
  | [i, sp] =>
    match spec? sp with
    | some (some cs) => some ⟨if i == "none" then none else some i, cs⟩
    | _ => none
  | _ => none

/-- collector state before the run: `c0` (none passed) | `c1` | `cp` (poisoned), optionally `+<entries>`;
    result = (a collector is passed, its state) -/
def coll? (s : String) : Option (Bool × Collector Nat) :=
  match s.splitOn "+" with
  | ["c0"] => some (false, ⟨[], false⟩)
  | ["c1"] => some (true, ⟨[], false⟩)
  | ["cp"] => some (true, ⟨[], true⟩)
  | ["c1", es] => (es.splitOn ",").mapM entry? |>.map (fun l => (true, ⟨l, false⟩))
  | ["cp", es] => (es.splitOn ",").mapM entry? |>.map (fun l => (true, ⟨l, true⟩))
  | _ => none

inductive Exec
  | seq
  | par (n : Nat)
  /-- `collect_par(_, None)`: the planner suggests a machine-dependent partition count -/
  | parNone
  deriving DecidableEq

def exec? (s : String) : Option Exec :=
  if s == "seq" then some .seq
  else if s == "par:none" then some .parNone
  else match s.splitOn ":" with
    | ["par", n] => (parseNat? n).map .par
    | _ => none

def insertStr (x : String) : List String → List String
  | [] => [x]
  | y :: ys => if x < y then x :: y :: ys else y :: insertStr x ys

def sortStr (l : List String) : List String := l.foldr insertStr []

def joinOrDash (l : List String) : String := if l.isEmpty then "-" else ",".intercalate l

def renderEntry (e : RecordError Nat) : String :=
  (e.recordId.getD "none") ++ "/E" ++ digits e.errors

/-- `c0` = the collector before the run; the run's pushes (`r.collector`, one admissible order) are absorbed
    into it; the first `|c0|` entries of the result are printed in order (`pre=`), the rest in order for a
    sequential run, sorted for a parallel run (any interleaving is admissible), sorted without ids for `par:none`
    (the ids depend on the machine's partition count; output and payload multiset do not:
    `run_any_partitioning`, `log_accounts`) -/
def renderRun {α : Type} (render : α → String) (exec : Exec) (fullPanic : Bool) (c0 : Collector Nat)
    (r : Run α Nat) : String :=
  match r.output with
  | some kept =>
    let final := (c0.absorb r.collector).entries
    let k := c0.entries.length
    let rest := final.drop k
    let log := match exec with
      | .seq => rest.map renderEntry
      | .par _ => sortStr (rest.map renderEntry)
      | .parNone => sortStr (rest.map (fun e => "E" ++ digits e.errors))
    "OK kept=" ++ joinOrDash (kept.map render) ++ " pre=" ++ joinOrDash ((final.take k).map renderEntry)
      ++ " log=" ++ joinOrDash log
  | none =>
    if exec == .seq && fullPanic then
      match r.panics with
      | [(i, es)] => "PANIC at=" ++ toString i ++ ":E" ++ digits es
      | _ => "BAD-OP"
    else "PANIC"

/-- `par:none` is evaluated on one partition: output, failure and the multiset of logged error lists are the
    same for every partitioning (theorems `run_any_partitioning`, `failfast_run_iff`, `log_accounts`), and only
    those are rendered for it -/
def run {α : Type} (op : List α → Outcome α Nat) (exec : Exec) (rows : List α) : Run α Nat :=
  match exec with
  | .seq => runSeq op rows
  | .par n => runPar op n rows
  | .parNone => runSeq op rows

/-- which (mode, shape, api, collector) combinations the public builders offer -/
def apiOk (mode : Mode) (keyed short coll : Bool) : Bool :=
  if short then !coll && (mode == .skipInvalid || (mode == .failFast && !keyed)) else true

def handleValidate : List String → String
  | [m, shape, api, c, e, rows] =>
    match mode? m, coll? c, exec? e with
    | some mode, some (coll, c0), some exec =>
      let short? : Option Bool := if api == "short" then some true else if api == "mode" then some false else none
      match short?, shape with
      | some short, "rec" =>
        if !apiOk mode false short coll then "BAD-OP" else
        match listOf? rec? rows with
        | some rs => renderRun renderRec exec true c0 (run (validateOp Rec.validate mode coll) exec rs)
        | none => "BAD-OP"
      | some short, "kv" =>
        if !apiOk mode true short coll then "BAD-OP" else
        match listOf? kv? rows with
        | some rs => renderRun renderKv exec true c0 (run (validateValuesOp Rec.validate mode coll) exec rs)
        | none => "BAD-OP"
      | _, _ => "BAD-OP"
    | _, _, _ => "BAD-OP"
  | _ => "BAD-OP"

def handleCombine : List String → String
  | [parts] =>
    match listOf? spec? parts with
    | some rs =>
      match combineValidations rs with
      | none => "OK"
      | some es => "ERR " ++ (if es.isEmpty then "-" else digits es)
    | none => "BAD-OP"
  | _ => "BAD-OP"

/-! ### `VPIPE`: a block of element-wise steps around validators, through the planner's reorder pass -/

inductive Step
  | inc | heal | brk | odd | val
  deriving DecidableEq

def step? : String → Option Step
  | "inc" => some .inc
  | "heal" => some .heal
  | "brk" => some .brk
  | "odd" => some .odd
  | "val" => some .val
  | _ => none

def lookupFlags (table : List (String × Bool × Bool × Bool × Nat)) (name : String) : Option Flags :=
  (table.find? (fun r => r.1 == name)).map flagsOfRow

def modeTok : Mode → String
  | .skipInvalid => "skip"
  | .logAndContinue => "log"
  | .failFast => "ff"

/-- flags of each step, as dumped from the running code (`keyed`: map_values / filter_values /
    validate_values_with_mode, else map / filter / validate_with_mode) -/
def stepFlags? (keyed : Bool) (mode : Mode) (coll : Bool) : Step → Option Flags
  | .inc | .heal | .brk =>
    if keyed then lookupFlags IB.Generated.valueStepFlags "map_values" else lookupFlags IB.Generated.elemStepFlags "map"
  | .odd =>
    if keyed then lookupFlags IB.Generated.valueStepFlags "filter_values"
    else lookupFlags IB.Generated.elemStepFlags "filter"
  | .val => lookupFlags IB.Generated.validateOpFlags
      ((if keyed then "validate_values_with_mode:" else "validate_with_mode:") ++ modeTok mode ++ ":"
        ++ (if coll then "c1" else "c0"))

def incRec (r : Rec) : Rec := ⟨r.id, r.errs.map (fun cs => cs.map (fun c => (c + 1) % 10))⟩
def healRec (r : Rec) : Rec :=
  match r.errs with
  | some cs => if cs.all (fun c => c % 2 == 0) then ⟨r.id, none⟩ else r
  | none => r
def brkRec (r : Rec) : Rec :=
  match r.errs with
  | none => if r.id % 3 == 0 then ⟨r.id, some [(r.id % 10).toNat]⟩ else r
  | some _ => r
def oddRec (r : Rec) : Bool := r.id % 2 != 0

def onVal {κ : Type} (f : Rec → Rec) (kv : κ × Rec) : κ × Rec := (kv.1, f kv.2)

/-- the steps as operators of the model's fused block -/
def blockOfKv (mode : Mode) (coll : Bool) : Step → BlockOp (Int × Rec) Nat
  | .inc => .map (onVal incRec)
  | .heal => .map (onVal healRec)
  | .brk => .map (onVal brkRec)
  | .odd => .filter (fun kv => oddRec kv.2)
  | .val => .validator (validateValuesOp Rec.validate mode coll)

def blockOfRec (mode : Mode) (coll : Bool) : Step → BlockOp Rec Nat
  | .inc => .map incRec
  | .heal => .map healRec
  | .brk => .map brkRec
  | .odd => .filter oddRec
  | .val => .validator (validateOp Rec.validate mode coll)

def handleVpipe : List String → String
  | [m, shape, c, e, steps, rows] =>
    match mode? m, coll? c, exec? e, (steps.splitOn "+").mapM step? with
    | some mode, some (coll, c0), some exec, some steps =>
      let keyed? : Option Bool := if shape == "kv" then some true else if shape == "rec" then some false else none
      match keyed? with
      | none => "BAD-OP"
      | some keyed =>
      match steps.mapM (fun s => (stepFlags? keyed mode coll s).map (fun f => (s, f))) with
      | some tagged =>
        -- the planner fuses the adjacent stateless nodes into one block and runs its reorder pass on it
        let planned := (reorderBlock (fun (sf : Step × Flags) => sf.2) tagged).map (·.1)
        if keyed then
          match listOf? kv? rows with
          | some rs => renderRun renderKv exec false c0 (run (blockOp (planned.map (blockOfKv mode coll))) exec rs)
          | none => "BAD-OP"
        else
          match listOf? rec? rows with
          | some rs => renderRun renderRec exec false c0 (run (blockOp (planned.map (blockOfRec mode coll))) exec rs)
          | none => "BAD-OP"
      | none => "BAD-OP"
    | _, _, _, _ => "BAD-OP"
  | _ => "BAD-OP"

def handlers : List (String × (List String → String)) :=
  [("VALIDATE", handleValidate), ("COMBINE", handleCombine), ("VPIPE", handleVpipe)]

end IB.D17
