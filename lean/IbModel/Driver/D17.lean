import IbModel.Util.Wire
import IbModel.Model.Validation
import IbModel.Generated.Tables
/-!
Driver handlers for C17 (see `harness/src/c17.rs` for the request grammar):
`VALIDATE <skip|log|ff> <rec|kv> <mode|short> <c0|c1> <seq|par:N> <rows>`, `COMBINE <results>`,
`VPIPE <skip|log|ff> <c0|c1> <seq|par:N> <steps> <rows>`.
-/
namespace IB.D17
open IB.Wire IB.Validation

/-- the harness' table-driven record: carries its own verdict -/
structure Rec where
  id : Int
  errs : VResult Nat

def Rec.validate (r : Rec) : VResult Nat := r.errs

def digits (cs : List Nat) : String := String.join (cs.map toString)

def renderSpec : VResult Nat → String
  | none => "V"
  | some cs => "E" ++ digits cs

def renderRec (r : Rec) : String := toString r.id ++ ":" ++ renderSpec r.errs
def renderKv (kv : Int × Rec) : String := toString kv.1 ++ "=" ++ renderRec kv.2

def digit? (c : Char) : Option Nat :=
  if '0' ≤ c ∧ c ≤ '9' then some (c.toNat - '0'.toNat) else none

def spec? (s : String) : Option (VResult Nat) :=
  match s.toList with
  | ['V'] => some none
  | 'E' :: ds => (ds.mapM digit?).map some
  | _ => none

def rec? (s : String) : Option Rec :=
  match s.splitOn ":" with
  | [i, sp] => do pure ⟨← parseInt? i, ← spec? sp⟩
  | _ => none

def kv? (s : String) : Option (Int × Rec) :=
  match s.splitOn "=" with
  | [k, r] => do pure (← parseInt? k, ← rec? r)
  | _ => none

def listOf? {β : Type} (one : String → Option β) (s : String) : Option (List β) :=
  if s == "-" then some [] else (s.splitOn ",").mapM one

def mode? : String → Option Mode
  | "skip" => some .skipInvalid
  | "log" => some .logAndContinue
  | "ff" => some .failFast
  | _ => none

def coll? : String → Option Bool
  | "c0" => some false
  | "c1" => some true
  | _ => none

/-- `none` = sequential, `some n` = parallel with `Some(n)` partitions -/
def exec? (s : String) : Option (Option Nat) :=
  if s == "seq" then some none
  else match s.splitOn ":" with
    | ["par", n] => (parseNat? n).map some
    | _ => none

def insertStr (x : String) : List String → List String
  | [] => [x]
  | y :: ys => if x < y then x :: y :: ys else y :: insertStr x ys

def sortStr (l : List String) : List String := l.foldr insertStr []

def joinOrDash (l : List String) : String := if l.isEmpty then "-" else ",".intercalate l

def renderEntry (e : RecordError Nat) : String :=
  (e.recordId.getD "none") ++ "/E" ++ digits e.errors

def renderRun {α : Type} (render : α → String) (seq : Bool) (fullPanic : Bool) (r : Run α Nat) : String :=
  match r.output with
  | some kept =>
    "OK kept=" ++ joinOrDash (kept.map render) ++ " log=" ++ joinOrDash (sortStr (r.collector.map renderEntry))
  | none =>
    if seq && fullPanic then
      match r.panics with
      | [(i, es)] => "PANIC at=" ++ toString i ++ ":E" ++ digits es
      | _ => "BAD-OP"
    else "PANIC"

def run {α : Type} (op : List α → Outcome α Nat) (exec : Option Nat) (rows : List α) : Run α Nat :=
  match exec with
  | none => runSeq op rows
  | some n => runPar op n rows

/-- which (mode, shape, api, collector) combinations the public builders offer -/
def apiOk (mode : Mode) (keyed short coll : Bool) : Bool :=
  if short then !coll && (mode == .skipInvalid || (mode == .failFast && !keyed)) else true

def handleValidate : List String → String
  | [m, shape, api, c, e, rows] =>
    match mode? m, coll? c, exec? e with
    | some mode, some coll, some exec =>
      let short? : Option Bool := if api == "short" then some true else if api == "mode" then some false else none
      match short?, shape with
      | some short, "rec" =>
        if !apiOk mode false short coll then "BAD-OP" else
        match listOf? rec? rows with
        | some rs => renderRun renderRec exec.isNone true (run (validateOp Rec.validate mode coll) exec rs)
        | none => "BAD-OP"
      | some short, "kv" =>
        if !apiOk mode true short coll then "BAD-OP" else
        match listOf? kv? rows with
        | some rs => renderRun renderKv exec.isNone true (run (validateValuesOp Rec.validate mode coll) exec rs)
        | none => "BAD-OP"
      | _, _ => "BAD-OP"
    | _, _, _ => "BAD-OP"
  | _ => "BAD-OP"

def handleCombine : List String → String
  | [parts] =>
    match listOf? spec? parts with
    | some rs =>
      match combineValidations rs with
      | none => "OK"
      | some es => "ERR " ++ (if es.isEmpty then "-" else digits es)
    | none => "BAD-OP"
  | _ => "BAD-OP"

/-! ### `VPIPE`: a keyed block of value steps around validators, through the planner's reorder pass -/

inductive Step
  | inc | heal | odd | val
  deriving DecidableEq

def step? : String → Option Step
  | "inc" => some .inc
  | "heal" => some .heal
  | "odd" => some .odd
  | "val" => some .val
  | _ => none

def lookupFlags (table : List (String × Bool × Bool × Bool × Nat)) (name : String) : Option Flags :=
  (table.find? (fun r => r.1 == name)).map flagsOfRow

def modeTok : Mode → String
  | .skipInvalid => "skip"
  | .logAndContinue => "log"
  | .failFast => "ff"

/-- flags of each step, as dumped from the running code -/
def stepFlags? (mode : Mode) (coll : Bool) : Step → Option Flags
  | .inc | .heal => lookupFlags IB.Generated.valueStepFlags "map_values"
  | .odd => lookupFlags IB.Generated.valueStepFlags "filter_values"
  | .val => lookupFlags IB.Generated.validateOpFlags
      ("validate_values_with_mode:" ++ modeTok mode ++ ":" ++ (if coll then "c1" else "c0"))

def incRec (r : Rec) : Rec := ⟨r.id, r.errs.map (fun cs => cs.map (fun c => (c + 1) % 10))⟩
def healRec (r : Rec) : Rec :=
  match r.errs with
  | some cs => if cs.all (fun c => c % 2 == 0) then ⟨r.id, none⟩ else r
  | none => r
def oddRec (r : Rec) : Bool := r.id % 2 != 0

/-- `ops.iter().fold(p, |acc, op| op.apply(acc))` on one partition; a panicking validator ends the partition -/
def applySteps (mode : Mode) (coll : Bool) : List Step → Outcome (Int × Rec) Nat → Outcome (Int × Rec) Nat
  | [], st => st
  | s :: rest, st =>
    if st.panic.isSome then st else
    match s with
    | .inc => applySteps mode coll rest { st with valid := st.valid.map (fun kv => (kv.1, incRec kv.2)) }
    | .heal => applySteps mode coll rest { st with valid := st.valid.map (fun kv => (kv.1, healRec kv.2)) }
    | .odd => applySteps mode coll rest { st with valid := st.valid.filter (fun kv => oddRec kv.2) }
    | .val =>
      let o := validateValuesOp Rec.validate mode coll st.valid
      applySteps mode coll rest ⟨o.valid, st.pushes ++ o.pushes, o.panic⟩

def handleVpipe : List String → String
  | [m, c, e, steps, rows] =>
    match mode? m, coll? c, exec? e, (steps.splitOn "+").mapM step?, listOf? kv? rows with
    | some mode, some coll, some exec, some steps, some rs =>
      match steps.mapM (fun s => (stepFlags? mode coll s).map (fun f => (s, f))) with
      | some tagged =>
        -- the planner fuses the adjacent stateless nodes into one block and runs its reorder pass on it
        let planned := (reorderBlock (fun (sf : Step × Flags) => sf.2) tagged).map (·.1)
        renderRun renderKv exec.isNone false
          (run (fun part => applySteps mode coll planned ⟨part, [], none⟩) exec rs)
      | none => "BAD-OP"
    | _, _, _, _, _ => "BAD-OP"
  | _ => "BAD-OP"

def handlers : List (String × (List String → String)) :=
  [("VALIDATE", handleValidate), ("COMBINE", handleCombine), ("VPIPE", handleVpipe)]

end IB.D17
