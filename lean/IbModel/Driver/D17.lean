import IbModel.Util.Wire
import IbModel.Model.Validation
import IbModel.Generated.Tables
/-!
Driver handlers for C17 (see `harness/src/c17.rs` for the request grammar):
`VALIDATE <skip|log|ff> <rec|kv> <mode|short> <COLL> <seq|par:N|par:none> <rows>`, `COMBINE <results>`,
`VPIPE <skip|log|ff> <rec|kv> <COLL> <seq|par:N|par:none> <steps> <rows>`,
`VJOIN <skip|log|ff> <COLL> <EXEC> <lsteps|-> <lrows> <rsteps|-> <rrows>`, `BIG <skip|log|ff> <rec|kv> <COLL> <EXEC> <len> <period> <v|i>`;
`COLL` = `c0` | `c1[+entries]` | `cp[+entries]` (the collector before the run: absent / healthy / poisoned, with the
entries it already holds); `EXEC` = `seq` | `par:N` | `par:none` | `ckseq` | `ckpar:N` (`ck…` = the same run through
`Runner { checkpoint_config: Some(enabled) }`: by `validate_checkpointed_is_plain` the checkpointing engines return
the very `Run` of the plain ones, so the model evaluates them as `seq` / `par:N`).
-/
namespace IB.D17
open IB.Wire IB.Validation

/-- the harness' table-driven record: carries its own verdict -/
structure Rec where
  id : Int
  errs : VResult Nat

def Rec.validate (r : Rec) : VResult Nat := r.errs

def digits (cs : List Nat) : String := String.join (cs.map toString)

def renderSpec : VResult Nat → String
  | none => "V"
  | some cs => "E" ++ digits cs

def renderRec (r : Rec) : String := toString r.id ++ ":" ++ renderSpec r.errs
def renderKv (kv : Int × Rec) : String := toString kv.1 ++ "=" ++ renderRec kv.2

def digit? (c : Char) : Option Nat :=
  if '0' ≤ c ∧ c ≤ '9' then some (c.toNat - '0'.toNat) else none

def spec? (s : String) : Option (VResult Nat) :=
  match s.toList with
  | ['V'] => some none
  | 'E' :: ds => (ds.mapM digit?).map some
  | _ => none

def rec? (s : String) : Option Rec :=
  match s.splitOn ":" with
  | [i, sp] => do pure ⟨← parseInt? i, ← spec? sp⟩
  | _ => none

def kv? (s : String) : Option (Int × Rec) :=
  match s.splitOn "=" with
  | [k, r] => do pure (← parseInt? k, ← rec? r)
  | _ => none

def listOf? {β : Type} (one : String → Option β) (s : String) : Option (List β) :=
  if s == "-" then some [] else (s.splitOn ",").mapM one

def mode? : String → Option Mode
  | "skip" => some .skipInvalid
  | "log" => some .logAndContinue
  | "ff" => some .failFast
  | _ => none

/-- `<record_id|none>/E<digits>` -/
def entry? (s : String) : Option (RecordError Nat) :=
  match s.splitOn "/" with
  | [i, sp] =>
    match spec? sp with
    | some (some cs) => some ⟨if i == "none" then none else some i, cs⟩
    | _ => none
  | _ => none

/-- collector state before the run: `c0` (none passed) | `c1` | `cp` (poisoned), optionally `+<entries>`;
    result = (a collector is passed, its state) -/
def coll? (s : String) : Option (Bool × Collector Nat) :=
  match s.splitOn "+" with
  | ["c0"] => some (false, ⟨[], false⟩)
  | ["c1"] => some (true, ⟨[], false⟩)
  | ["cp"] => some (true, ⟨[], true⟩)
  | ["c1", es] => (es.splitOn ",").mapM entry? |>.map (fun l => (true, ⟨l, false⟩))
  | ["cp", es] => (es.splitOn ",").mapM entry? |>.map (fun l => (true, ⟨l, true⟩))
  | _ => none

inductive Exec
  | seq
  | par (n : Nat)
  /-- `collect_par(_, None)`: the planner suggests a machine-dependent partition count -/
  | parNone
  deriving DecidableEq

def exec? (s : String) : Option Exec :=
  if s == "seq" || s == "ckseq" then some .seq
  else if s == "par:none" then some .parNone
  else match s.splitOn ":" with
    | ["par", n] => (parseNat? n).map .par
    | ["ckpar", n] => (parseNat? n).map .par
    | _ => none

def insertStr (x : String) : List String → List String
  | [] => [x]
  | y :: ys => if x < y then x :: y :: ys else y :: insertStr x ys

def sortStr (l : List String) : List String := l.foldr insertStr []

def joinOrDash (l : List String) : String := if l.isEmpty then "-" else ",".intercalate l

def renderEntry (e : RecordError Nat) : String :=
  (e.recordId.getD "none") ++ "/E" ++ digits e.errors

/-- `hashOrder`: the request has a barrier (`gbk`): the rows leave it grouped by key in `HashMap` order, so the kept
    rows are rendered sorted and the log without ids, sorted (`after_barrier_accounts`: kept rows and logged error
    lists are determined up to order). `keptUnordered`: a join emits its rows in the `HashMap` order of the keys.
    `c0` = the collector before the run; the run's pushes (`r.collector`, one admissible order) are absorbed
    into it; the first `|c0|` entries of the result are printed in order (`pre=`), the rest in order for a
    sequential run, sorted for a parallel run (any interleaving is admissible), sorted without ids for `par:none`
    (the ids depend on the machine's partition count; output and payload multiset do not:
    `run_any_partitioning`, `log_accounts`) -/
def renderRun {α : Type} (render : α → String) (exec : Exec) (fullPanic : Bool) (c0 : Collector Nat)
    (r : Run α Nat) (hashOrder : Bool := false) (keptUnordered : Bool := false) : String :=
  match r.output with
  | some kept =>
    let final := (c0.absorb r.collector).entries
    let k := c0.entries.length
    let rest := final.drop k
    let log := if hashOrder then sortStr (rest.map (fun e => "E" ++ digits e.errors)) else match exec with
      | .seq => rest.map renderEntry
      | .par _ => sortStr (rest.map renderEntry)
      | .parNone => sortStr (rest.map (fun e => "E" ++ digits e.errors))
    let keptS := if hashOrder || keptUnordered then sortStr (kept.map render) else kept.map render
    "OK kept=" ++ joinOrDash keptS ++ " pre=" ++ joinOrDash ((final.take k).map renderEntry)
      ++ " log=" ++ joinOrDash log
  | none =>
    if exec == .seq && fullPanic then
      match r.panics with
      | [(i, es)] => "PANIC at=" ++ toString i ++ ":E" ++ digits es
      | _ => "BAD-OP"
    else "PANIC"

/-- `par:none` is evaluated on one partition: output, failure and the multiset of logged error lists are the
    same for every partitioning (theorems `run_any_partitioning`, `failfast_run_iff`, `log_accounts`), and only
    those are rendered for it -/
def run {α : Type} (op : List α → Outcome α Nat) (exec : Exec) (rows : List α) : Run α Nat :=
  match exec with
  | .seq => runSeq op rows
  | .par n => runPar op n rows
  | .parNone => runSeq op rows

/-- the source partitions of a run (`par:none`: one, see `run`) -/
def partsOf {α : Type} (exec : Exec) (rows : List α) : List (List α) :=
  match exec with
  | .seq => [rows]
  | .par n => sourcePartitions n rows
  | .parNone => [rows]

/-- which (mode, shape, api, collector) combinations the public builders offer -/
def apiOk (mode : Mode) (keyed short coll : Bool) : Bool :=
  if short then !coll && (mode == .skipInvalid || (mode == .failFast && !keyed)) else true

def handleValidate : List String → String
  | [m, shape, api, c, e, rows] =>
    match mode? m, coll? c, exec? e with
    | some mode, some (coll, c0), some exec =>
      let short? : Option Bool := if api == "short" then some true else if api == "mode" then some false else none
      match short?, shape with
      | some short, "rec" =>
        if !apiOk mode false short coll then "BAD-OP" else
        match listOf? rec? rows with
        | some rs => renderRun renderRec exec true c0 (run (validateOp Rec.validate mode coll) exec rs)
        | none => "BAD-OP"
      | some short, "kv" =>
        if !apiOk mode true short coll then "BAD-OP" else
        match listOf? kv? rows with
        | some rs => renderRun renderKv exec true c0 (run (validateValuesOp Rec.validate mode coll) exec rs)
        | none => "BAD-OP"
      | _, _ => "BAD-OP"
    | _, _, _ => "BAD-OP"
  | _ => "BAD-OP"

def handleCombine : List String → String
  | [parts] =>
    match listOf? spec? parts with
    | some rs =>
      match combineValidations rs with
      | none => "OK"
      | some es => "ERR " ++ (if es.isEmpty then "-" else digits es)
    | none => "BAD-OP"
  | _ => "BAD-OP"

/-! ### `VPIPE`: blocks of element-wise steps around validators, through the planner's reorder pass; barriers -/

inductive Step
  | inc | heal | brk | odd | val
  /-- pseudo-steps standing for the operators a `gbk` token puts into the neighbouring blocks: `key_by` in front of
      the barrier (unkeyed shape only) and the ungrouping `flat_map` behind it. Identity on the model's rows; they
      are here for their capability flags (the planner looks at every operator of a fused block). -/
  | keyBy | ungroup
  deriving DecidableEq

def step? : String → Option Step
  | "inc" => some .inc
  | "heal" => some .heal
  | "brk" => some .brk
  | "odd" => some .odd
  | "val" => some .val
  | _ => none

def lookupFlags (table : List (String × Bool × Bool × Bool × Nat)) (name : String) : Option Flags :=
  (table.find? (fun r => r.1 == name)).map flagsOfRow

def modeTok : Mode → String
  | .skipInvalid => "skip"
  | .logAndContinue => "log"
  | .failFast => "ff"

/-- flags of each step, as dumped from the running code (`keyed`: map_values / filter_values /
    validate_values_with_mode, else map / filter / validate_with_mode) -/
def stepFlags? (keyed : Bool) (mode : Mode) (coll : Bool) : Step → Option Flags
  | .inc | .heal | .brk =>
    if keyed then lookupFlags IB.Generated.valueStepFlags "map_values" else lookupFlags IB.Generated.elemStepFlags "map"
  | .odd =>
    if keyed then lookupFlags IB.Generated.valueStepFlags "filter_values"
    else lookupFlags IB.Generated.elemStepFlags "filter"
  | .val => lookupFlags IB.Generated.validateOpFlags
      ((if keyed then "validate_values_with_mode:" else "validate_with_mode:") ++ modeTok mode ++ ":"
        ++ (if coll then "c1" else "c0"))
  | .keyBy => lookupFlags IB.Generated.barrierStepFlags "key_by"
  | .ungroup => lookupFlags IB.Generated.barrierStepFlags "flat_map"

def incRec (r : Rec) : Rec := ⟨r.id, r.errs.map (fun cs => cs.map (fun c => (c + 1) % 10))⟩
def healRec (r : Rec) : Rec :=
  match r.errs with
  | some cs => if cs.all (fun c => c % 2 == 0) then ⟨r.id, none⟩ else r
  | none => r
def brkRec (r : Rec) : Rec :=
  match r.errs with
  | none => if r.id % 3 == 0 then ⟨r.id, some [(r.id % 10).toNat]⟩ else r
  | some _ => r
def oddRec (r : Rec) : Bool := r.id % 2 != 0

def onVal {κ : Type} (f : Rec → Rec) (kv : κ × Rec) : κ × Rec := (kv.1, f kv.2)

/-- the steps as operators of the model's fused block -/
def blockOfKv (mode : Mode) (coll : Bool) : Step → BlockOp (Int × Rec) Nat
  | .inc => .map (onVal incRec)
  | .heal => .map (onVal healRec)
  | .brk => .map (onVal brkRec)
  | .odd => .filter (fun kv => oddRec kv.2)
  | .val => .validator (validateValuesOp Rec.validate mode coll)
  | .keyBy | .ungroup => .map id

def blockOfRec (mode : Mode) (coll : Bool) : Step → BlockOp Rec Nat
  | .inc => .map incRec
  | .heal => .map healRec
  | .brk => .map brkRec
  | .odd => .filter oddRec
  | .val => .validator (validateOp Rec.validate mode coll)
  | .keyBy | .ungroup => .map id

/-- split the step tokens at every `gbk` -/
def splitStages : List String → List (List String)
  | [] => [[]]
  | t :: ts =>
    match splitStages ts with
    | [] => [[t]]     -- unreachable
    | st :: rest => if t == "gbk" then [] :: st :: rest else (t :: st) :: rest

/-- the operators of the fused blocks as the builder calls create them: a `gbk` ends a block (after a `key_by` in
    the unkeyed shape) and starts the next one with the ungrouping `flat_map` -/
def decorate (keyed : Bool) : List (List Step) → List (List Step)
  | [] => []
  | [last] => [last]
  | st :: next :: rest =>
    (if keyed then st else st ++ [.keyBy]) ::
      (match decorate keyed (next :: rest) with
       | [] => []
       | n :: r => (.ungroup :: n) :: r)

/-- the harness' key of an unkeyed record at a `gbk` (`key_of(id) = (id * 7 + 3) % 5`, Rust's truncating `%`) -/
def keyOfId (i : Int) : Int := (i * 7 + 3).tmod 5

def handleVpipe : List String → String
  | [m, shape, c, e, steps, rows] =>
    match mode? m, coll? c, exec? e, (splitStages (steps.splitOn "+")).mapM (fun st => st.mapM step?) with
    | some mode, some (coll, c0), some exec, some stages0 =>
      let keyed? : Option Bool := if shape == "kv" then some true else if shape == "rec" then some false else none
      match keyed? with
      | none => "BAD-OP"
      | some keyed =>
      let stages := decorate keyed stages0
      -- the planner fuses the adjacent stateless nodes into one block per stage and runs its reorder pass on each
      let plan : List Step → Option (List Step) := fun st =>
        (st.mapM (fun s => (stepFlags? keyed mode coll s).map (fun f => (s, f)))).map
          (fun tagged => (reorderBlock (fun (sf : Step × Flags) => sf.2) tagged).map (·.1))
      match stages.mapM plan with
      | some (first :: later) =>
        let barrier := !later.isEmpty
        if keyed then
          match listOf? kv? rows with
          | some rs =>
            renderRun renderKv exec false c0
              (runStages (regroupBy (fun kv : Int × Rec => kv.1)) (blockOp (first.map (blockOfKv mode coll)))
                (later.map (fun st => blockOp (st.map (blockOfKv mode coll)))) (partsOf exec rs)) barrier
          | none => "BAD-OP"
        else
          match listOf? rec? rows with
          | some rs =>
            renderRun renderRec exec false c0
              (runStages (regroupBy (fun r : Rec => keyOfId r.id)) (blockOp (first.map (blockOfRec mode coll)))
                (later.map (fun st => blockOp (st.map (blockOfRec mode coll)))) (partsOf exec rs)) barrier
          | none => "BAD-OP"
      | _ => "BAD-OP"
    | _, _, _, _ => "BAD-OP"
  | _ => "BAD-OP"

/-! ### `VJOIN`: `join_inner` of two keyed collections whose sides are blocks with validators

The two sub-chains of a `CoGroup` are taken from the graph as written (`chain_from`); the planner's passes run on
the main chain only, so no reorder pass is applied to the sides. -/

def renderJoined (row : Int × (Rec × Rec)) : String :=
  toString row.1 ++ "=" ++ renderRec row.2.1 ++ "&" ++ renderRec row.2.2

def sideSteps? (s : String) : Option (List Step) :=
  if s == "-" then some [] else (s.splitOn "+").mapM step?

def handleVjoin : List String → String
  | [m, c, e, lsteps, lrows, rsteps, rrows] =>
    match mode? m, coll? c, exec? e, sideSteps? lsteps, sideSteps? rsteps, listOf? kv? lrows, listOf? kv? rrows with
    | some mode, some (coll, c0), some exec, some ls, some rs, some lr, some rr =>
      if exec == .parNone then "BAD-OP" else
      renderRun renderJoined exec false c0
        (runJoin (blockOp (ls.map (blockOfKv mode coll))) (blockOp (rs.map (blockOfKv mode coll)))
          innerJoin (partsOf exec lr) (partsOf exec rr)) false true
    | _, _, _, _, _, _, _ => "BAD-OP"
  | _ => "BAD-OP"

/-! ### `BIG`: one large formula-generated input, answered by counts and checksums -/

def hashMod : Nat := 1000000007

def strHash (s : String) : Nat := s.foldl (fun h ch => (h * 131 + ch.toNat) % hashMod) 7

/-- order-dependent -/
def seqHash (l : List String) : Nat := l.foldl (fun h s => (h * 1000003 + strHash s) % hashMod) 1

/-- order-independent -/
def sumHash (l : List String) : Nat := l.foldl (fun h s => (h + strHash s) % hashMod) 0

/-- row `i` of a `BIG` input: pattern `v`: valid iff `i % period = period - 1`; pattern `i` (`inv`): INVALID iff
    `i % period = period - 1`; an invalid row has four errors spelling `i` backwards -/
def bigRec (period : Nat) (inv : Bool) (i : Nat) : Rec :=
  ⟨Int.ofNat i, if (i % period == period - 1) != inv then none else some [i % 10, i / 10 % 10, i / 100 % 10, i / 1000 % 10]⟩

def bigKey (i : Nat) : Int := Int.ofNat ((i * 7 + 3) % 5)

def renderBig {α : Type} (render : α → String) (exec : Exec) (c0 : Collector Nat) (r : Run α Nat) : String :=
  match r.output with
  | some kept =>
    let final := (c0.absorb r.collector).entries
    let k := c0.entries.length
    let rest := (final.drop k).map renderEntry
    "OK kept=" ++ toString kept.length ++ " khash=" ++ toString (seqHash (kept.map render))
      ++ " pre=" ++ joinOrDash ((final.take k).map renderEntry)
      ++ " log=" ++ toString rest.length ++ " lsum=" ++ toString (sumHash rest)
      ++ " lseq=" ++ toString (if exec == .seq then seqHash rest else 0)
  | none =>
    if exec == .seq then
      match r.panics with
      | [(i, es)] => "PANIC at=" ++ toString i ++ ":E" ++ digits es
      | _ => "BAD-OP"
    else "PANIC"

def handleBig : List String → String
  | [m, shape, c, e, len, period, pat] =>
    let inv? : Option Bool := if pat == "v" then some false else if pat == "i" then some true else none
    match mode? m, coll? c, exec? e, parseNat? len, parseNat? period, inv? with
    | some mode, some (coll, c0), some exec, some len, some period, some inv =>
      if period == 0 || exec == .parNone then "BAD-OP" else
      let recs := (List.range len).map (bigRec period inv)
      if shape == "rec" then
        renderBig renderRec exec c0 (run (validateOp Rec.validate mode coll) exec recs)
      else if shape == "kv" then
        let kvs := (List.range len).map (fun i => (bigKey i, bigRec period inv i))
        renderBig renderKv exec c0 (run (validateValuesOp Rec.validate mode coll) exec kvs)
      else "BAD-OP"
    | _, _, _, _, _, _ => "BAD-OP"
  | _ => "BAD-OP"

def handlers : List (String × (List String → String)) :=
  [("VALIDATE", handleValidate), ("COMBINE", handleCombine), ("VPIPE", handleVpipe), ("VJOIN", handleVjoin),
   ("BIG", handleBig)]

end IB.D17
