import IbModel.Util.Wire
/-! Driver handlers for C17 (request kinds served for that property). -/
namespace IB.D17

def handlers : List (String × (List String → String)) := []

end IB.D17
