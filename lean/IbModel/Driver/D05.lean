import IbModel.Util.Wire
/-! Driver handlers for C05 (request kinds served for that property). -/
namespace IB.D05

def handlers : List (String × (List String → String)) := []

end IB.D05
