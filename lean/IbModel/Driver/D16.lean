import IbModel.Util.Wire
import IbModel.Model.Metrics
import IbModel.Model.MetricsRun
import IbModel.Driver.PipeParse
import IbModel.Driver.D01
/-!
Driver handlers for C16.

`METRICS init=<name:val,…|-> th=<ops>/<ops>/… sched=<i,i,…|->`
   ops: `i:<name>:<n>` increment, `s:<name>:<n>` set, `rc:<name>:<n>` register counter,
        `rg:<name>:<tag>` register gauge, `st` record_start, `en` record_end, `el` elapsed,
        `js` to_json, `sn` snapshot; an empty thread is `-`.
   answer: `snap=<sorted name:val> el=T|F json=<sorted key:val> secs=<sections per call, per thread> complete=T|F`
   (`json` = the members of `to_json()` WITH their values: `c<n>`/`g<n>` for a stored metric, `T` for the
    execution-time member; the schedule is replayed with the model's CURRENT `increment_counter`; if it ends
    early the remaining threads are drained in thread order, `complete=F`).
`STRESS init=<n|none> threads=<t> per=<p> amounts=<a,b,…>`  answer: `final=<n>`
`MRUN coll=0|1 pre=<ops|-> runs=<ok|pe|ee>,… mode=<seq|par:N> canon=<seq|deep> src <rows> ; <steps>`
   the pipeline is DESCRIBED (same grammar as `PIPE`); the model plans and executes it inside `runCollectProg`
   answer: `coll=F res= <r> ;; <r> …` or `coll=T el=… start=… json=… snap=… take=T|F after=T|F res= <r> ;; …`
   where `<r>` is the `PIPE` answer of an `ok` run (`OK <rows>` / `ERR …` / `PANIC` / `HANG`), `pe`, or `ee`.
`MSLEEP sleep=<S> ticks=<w0.a.b.w1,…> mode=… canon=… src … ; …`  one run per tick group: the stamps are read at
   `a`, `b`; the harness's own clock brackets the run at `w0`, `w1`; the closure sleeps `S`.
   answer: `el=<in|below|above|none>,… jt=<T|F>,… res= <r> ;; …` (`in`: S ≤ elapsed ≤ w1 - w0; `jt`: the
   `execution_time_ms` member of `to_json()` is the elapsed time)
`MPOISON how=overflow|usermetric|none checks=0|1 mode=… canon=… src … ; …`   answer: `c=<n|-> res= <r>`
`MOVF checks=0|1 init=<n|none|g> add=<v>`   one `increment_counter("c", v)` at the `u64` boundary;
   answer: `call=ok|PANIC snap=<…>`
`SMOKE`   answer: `ok` (every public call returns when made on one thread; oracle-only)
`LOCKSITES`   answer: `sites=<method:locks,…> uncovered=0` (guard acquisitions COUNTED by the hook while each public
   method runs once, vs the model's table; `uncovered` = acquisitions without a yield point + unrecognised lock
   expressions in src/metrics.rs)
`MJSON sum0=<hex16> ops=<op;op;…|->`   calls made one after the other on a fresh collector, then the export is read
   ops: `rc:<name>:<n>` register counter, `rg:<name>:<hex16>:<desc>` gauge, `rh:<name>:<hex16.hex16…|_>:<desc>`
        histogram, `ru:<name>:<valtok>:<desc>` user metric, `s:<name>:<n>` set, `i:<name>:<n>` increment, `st`, `en`;
        `<name>` = hex of the UTF-8 bytes (`_` = the empty name), `<desc>` = `-` (None) or `d<hex>`,
        `<hex16>` = the bits of an `f64`, `<valtok>` = canonical rendering of a JSON value (opaque to the model)
   answer: `snap=<name>=<valtok>,… json=<name>=<valtok>~<desc>,… file=<as json>` (sorted; the execution-time
        member's value is `T`; `file` = `save_to_file` parsed back)
`MHELD which=start|end mode=<seq|par:N>`   answer: `el=T|F jt=T|F res= <r>` (a run whose stamp call met a held pipeline lock)
`MHELDC init=<…> call=<op>`   answer: `snap=… el=T|F` (one call made while another thread held the collector's mutex)
`MCONTEND nodes=<n> observers=<k>`   answer: `missing=<runs without both stamps> wrong=<runs with another result>`
`FIRSTINC a=<x> b=<y>`   answer: `lost=<n>` (fresh collectors on which two racing first increments did not add up)
`MMID mid=<ev,…|-> mode=… canon=… src … ; …`  one run with a collector attached, during which (inside the pipeline's
   closure) the listed events happen: an op of the `METRICS` grammar on the USER's handle, or `take`
   (`Pipeline::take_metrics`). answer: `att=T|F el=T|F start=T|F snap=… json=… res= <r>` (the user's handle afterwards)
-/
namespace IB.D16
open IB IB.Wire IB.Metrics

/-- `GaugeMetric::new(k, n as f64)` for a small integer `n` -/
def gaugeOfNat (n : Nat) : MetricVal := .other (.gauge (bitsOfF64 (Float.ofNat n)) none)

def val? (s : String) : Option MetricVal :=
  if s.startsWith "c" then (parseNat? (s.drop 1).toString).map MetricVal.counter
  else if s.startsWith "g" then (parseNat? (s.drop 1).toString).map gaugeOfNat
  else none

/-- the `METRICS` rendering: a counter `c<n>`, a gauge `g<value as u64>`, anything else `?` -/
def valStr : MetricVal → String
  | .counter n => "c" ++ toString n
  | .other (.gauge b _) => "g" ++ toString (f64OfBits b).toUInt64.toNat
  | .other _ => "?"

def okName (s : String) : Bool := !s.isEmpty && s.toList.all (fun ch => ch.isAlphanum || ch == '_')

def init? (s : String) : Option (List (String × MetricVal)) :=
  if s == "-" then some [] else
  (s.splitOn ",").mapM (fun kv =>
    match kv.splitOn ":" with
    | [k, v] => if okName k then (val? v).map (fun v => (k, v)) else none
    | _ => none)

def op? (s : String) : Option Op :=
  match s.splitOn ":" with
  | ["i", k, n] => if okName k then (parseNat? n).map (Op.inc k) else none
  | ["s", k, n] => if okName k then (parseNat? n).map (Op.set k) else none
  | ["rc", k, n] => if okName k then (parseNat? n).map (fun n => Op.register k (.counter n)) else none
  | ["rg", k, n] => if okName k then (parseNat? n).map (fun n => Op.register k (gaugeOfNat n)) else none
  | ["st"] => some .recordStart
  | ["en"] => some .recordEnd
  | ["el"] => some .readElapsed
  | ["js"] => some .toJson
  | ["sn"] => some .snapshot
  | _ => none

def ops? (s : String) : Option (List Op) :=
  if s == "-" then some [] else (s.splitOn ",").mapM op?

def threads? (s : String) : Option (List (List Op)) := (s.splitOn "/").mapM ops?

def sched? (s : String) : Option (List Nat) :=
  if s == "-" then some [] else (s.splitOn ",").mapM parseNat?

def sortStrs (l : List String) : List String := l.mergeSort (fun a b => decide (a ≤ b))

def joinOr (sep : String) (l : List String) : String := if l.isEmpty then "-" else sep.intercalate l

def snapStr (c : Collector) : String :=
  joinOr "," (sortStrs ((snapshot c).map (fun kv => kv.1 ++ ":" ++ valStr kv.2)))

def keysStr (c : Collector) : String := joinOr "," (sortStrs (jsonKeys c))

def entryStr : JsonEntry → String
  | .metric v => valStr v
  | .execTime _ => "T"

/-- members of `to_json()` with their values -/
def jsonStr (c : Collector) : String :=
  joinOr "," (sortStrs ((toJson c).map (fun kv => kv.1 ++ ":" ++ entryStr kv.2)))

def secsStr (ths : List Thread) : String :=
  "/".intercalate (ths.map (fun t => joinOr "." (t.secs.reverse.map toString)))

/-- the initial collector: the listed metrics registered one after the other on an empty collector -/
def mkCollector (ini : List (String × MetricVal)) : Collector :=
  ini.foldl (fun c kv => register kv.1 kv.2 c) Collector.empty

def handleMetrics (args : List String) : String :=
  match kv? "init" args, kv? "th" args, kv? "sched" args with
  | some i, some t, some s =>
    if args.length != 3 then "BAD-OP" else
    match init? i, threads? t, sched? s with
    | some ini, some ths, some sched =>
      let s0 := Sys.init (mkCollector ini) ths
      let s1 := run currentImpl sched s0
      let complete := s1.complete
      let s2 := run currentImpl (drainSchedule s1) s1
      s!"snap={snapStr s2.c} el={boolStr (elapsed s2.c).isSome} json={jsonStr s2.c} secs={secsStr s2.ths} complete={boolStr complete}"
    | _, _, _ => "BAD-OP"
  | _, _, _ => "BAD-OP"

def handleStress (args : List String) : String :=
  match kv? "init" args, kv? "threads" args, kv? "per" args, kv? "amounts" args with
  | some i, some t, some p, some a =>
    if args.length != 4 then "BAD-OP" else
    let ini : Option (List (String × MetricVal)) :=
      if i == "none" then some [] else (parseNat? i).map (fun n => [("ctr", MetricVal.counter n)])
    match ini, parseNat? t, parseNat? p, (a.splitOn ",").mapM parseNat? with
    | some ini, some t, some p, some (a0 :: as) =>
      let amts := a0 :: as
      let ths := (List.range t).map (fun j => List.replicate p (Op.inc "ctr" (amts.getD (j % amts.length) 0)))
      let s0 := Sys.init (mkCollector ini) ths
      let s1 := run currentImpl (drainSchedule s0) s0
      s!"final={counterVal "ctr" s1.c} complete={boolStr s1.complete}"
    | _, _, _, _ => "BAD-OP"
  | _, _, _, _ => "BAD-OP"

def mode? (m : String) : Option RunMode :=
  if m == "seq" then some .seq
  else if m.startsWith "par:" then (parseNat? (m.drop 4).toString).map RunMode.par
  else none

def renderRun (canon : String) : Except RunErr Part → String
  | .ok rows => D01.render canon (.ok rows)
  | .error (.engine e) => D01.render canon (.error e)
  | .error .plan => "pe"
  | .error .execType => "ee"

/-- one modelled `run_collect`: `ok` (valid terminal, right element type), `pe` (planning error),
    `ee` (execution error: wrong element type) -/
def runOne (kind : String) (m : RunMode) (canon : String) (t0 t1 : Nat) (p : Pipe Graph) :
    Option (String × Pipe Graph) :=
  let go (tok tyok : Bool) : String × Pipe Graph :=
    let r := runCollectProg m tok tyok t0 t1 p
    (renderRun canon r.1, r.2)
  match kind with
  | "ok" => some (go true true)
  | "pe" => some (go false true)
  | "ee" => some (go true false)
  | _ => none

def runsLoop (m : RunMode) (canon : String) : List String → Nat → Pipe Graph → List String →
    Option (List String × Pipe Graph)
  | [], _, p, acc => some (acc.reverse, p)
  | kind :: rs, now, p, acc =>
    match runOne kind m canon now (now + 1) p with
    | some (res, p') => runsLoop m canon rs (now + 2) p' (res :: acc)
    | none => none

def resStr (res : List String) : String := "res= " ++ " ;; ".intercalate res

def handleMrun (args : List String) : String :=
  match args with
  | a0 :: a1 :: a2 :: rest =>
    match kv? "coll" [a0], kv? "pre" [a1], kv? "runs" [a2], PipeParse.parseReq rest with
    | some cflag, some pre, some runs, some q =>
      match ops? pre, (cflag == "0" || cflag == "1"), mode? q.mode with
      | some preOps, true, some m =>
        let c0 := preOps.foldl (fun c op => applyOp 0 op c) Collector.empty
        let p0 : Pipe Graph := ⟨⟨q.src, q.steps⟩, none⟩
        let p1 := if cflag == "1" then p0.setMetrics c0 else p0
        match runsLoop m q.canon (runs.splitOn ",") 1 p1 [] with
        | some (res, p2) =>
          match p2.getMetrics with
          | none => s!"coll=F {resStr res}"
          | some c =>
            -- `start` is observed as: after one more `record_end`, is an elapsed time available?
            let startSet := (elapsed (recordEnd 1000000 c)).isSome
            let tk := p2.takeMetrics
            s!"coll=T el={boolStr (elapsed c).isSome} start={boolStr startSet} json={jsonStr c} snap={snapStr c} take={boolStr tk.1.isSome} after={boolStr tk.2.getMetrics.isSome} {resStr res}"
        | none => "BAD-OP"
      | _, _, _ => "BAD-OP"
    | _, _, _, _ => "BAD-OP"
  | _ => "BAD-OP"

def ticks? (s : String) : Option (List (Nat × Nat × Nat × Nat)) :=
  (s.splitOn ",").mapM (fun g =>
    match (g.splitOn ".").mapM parseNat? with
    | some [w0, a, b, w1] => some (w0, a, b, w1)
    | _ => none)

def sleepLoop (m : RunMode) (canon : String) (sl : Nat) : List (Nat × Nat × Nat × Nat) → Pipe Graph →
    List String → List String → List String → List String × List String × List String
  | [], _, els, jts, res => (els.reverse, jts.reverse, res.reverse)
  | (w0, a, b, w1) :: rest, p, els, jts, res =>
    let r := runCollectProg m true true a b p
    let (cls, jt) :=
      match r.2.getMetrics with
      | none => ("none", "F")
      | some c =>
        match elapsed c with
        | none => ("none", boolStr (getJ execKey (toJson c)).isNone)
        | some d =>
          ((if d < sl then "below" else if d > w1 - w0 then "above" else "in"),
           boolStr (getJ execKey (toJson c) == some (.execTime d)))
    sleepLoop m canon sl rest r.2 (cls :: els) (jt :: jts) (renderRun canon r.1 :: res)

def handleMsleep (args : List String) : String :=
  match args with
  | a0 :: a1 :: rest =>
    match kv? "sleep" [a0], kv? "ticks" [a1], PipeParse.parseReq rest with
    | some sl, some tk, some q =>
      match parseNat? sl, ticks? tk, mode? q.mode with
      | some sl, some tks, some m =>
        let p : Pipe Graph := (⟨⟨q.src, q.steps⟩, none⟩ : Pipe Graph).setMetrics Collector.empty
        let (els, jts, res) := sleepLoop m q.canon sl tks p [] [] []
        s!"el={",".intercalate els} jt={",".intercalate jts} {resStr res}"
      | _, _, _ => "BAD-OP"
    | _, _, _ => "BAD-OP"
  | _ => "BAD-OP"

/-- `MPOISON`: a collector one of whose callers panicked inside a critical section (the `u64` overflow of
    `count + value` with overflow checks on; a user metric whose `value()` panics during `snapshot()`) is
    attached; the stored state is what `incAtomic64` says, and the run's result is computed by the program model. -/
def handleMpoison (args : List String) : String :=
  match args with
  | a0 :: a1 :: rest =>
    match kv? "how" [a0], kv? "checks" [a1], PipeParse.parseReq rest with
    | some how, some ck, some q =>
      match mode? q.mode, (ck == "0" || ck == "1") with
      | some m, true =>
        let coll : Option Collector :=
          if how == "overflow" then
            let c := setCounter "c" (u64Bound - 1) Collector.empty
            some ((incAtomic64 (ck == "1") "c" 1 c).getD c)
          else if how == "usermetric" then some (register "boom" (.other (.user "n" none)) Collector.empty)
          else if how == "none" then some (setCounter "c" 1 Collector.empty)
          else none
        match coll with
        | some c =>
          let r := runCollectProg m true true 1 2 ((⟨⟨q.src, q.steps⟩, none⟩ : Pipe Graph).setMetrics c)
          let cv := if how == "usermetric" then "-" else toString (counterVal "c" c)
          s!"c={cv} {resStr [renderRun q.canon r.1]}"
        | none => "BAD-OP"
      | _, _ => "BAD-OP"
    | _, _, _ => "BAD-OP"
  | _ => "BAD-OP"

/-- `MOVF`: one `increment_counter("c", add)` on a collector holding `c = init` -/
def handleMovf (args : List String) : String :=
  match kv? "checks" args, kv? "init" args, kv? "add" args with
  | some ck, some ini, some add =>
    if args.length != 3 || !(ck == "0" || ck == "1") then "BAD-OP" else
    let c0 : Option Collector :=
      if ini == "none" then some Collector.empty
      else if ini == "g" then some (register "c" (gaugeOfNat 1) Collector.empty)
      else (parseNat? ini).map (fun n => setCounter "c" n Collector.empty)
    match c0, parseNat? add with
    | some c, some v =>
      if v ≥ u64Bound || counterVal "c" c ≥ u64Bound then "BAD-OP" else
      match incAtomic64 (ck == "1") "c" v c with
      | some c' => s!"call=ok snap={snapStr c'}"
      | none => s!"call=PANIC snap={snapStr c}"
    | _, _ => "BAD-OP"
  | _, _, _ => "BAD-OP"

/-! ### `MJSON`: the export over the whole value space -/

/-- a name travels as the hex of its UTF-8 bytes; the model keeps it as the string of those BYTES (one
    `Char` per byte), so that name equality is byte equality, as for a Rust `String` -/
def name? (h : String) : Option String :=
  if h == "_" then some "" else
  if h.isEmpty then none else (hexToBytes? h.toList).map (fun bs => String.ofList (bs.map Char.ofNat))

def nameHex (s : String) : String :=
  if s.isEmpty then "_" else bytesToHex (s.toList.map (·.toNat))

def hexNat? (h : String) : Option Nat :=
  if h.isEmpty then none else
  h.toList.foldlM (fun acc ch => (hexDigit? ch).map (fun d => acc * 16 + d)) 0

def bits? (h : String) : Option Nat := if h.length == 16 then hexNat? h else none

def hex16 (n : Nat) : String :=
  String.ofList ((List.range 16).reverse.map (fun i => nibble ((n >>> (4 * i)) % 16)))

def desc? (s : String) : Option (Option String) :=
  if s == "-" then some none
  else if s.startsWith "d" then
    let h := (s.drop 1).toString
    if h.isEmpty then some (some "") else (name? h).map some
  else none

def descStr : Option String → String
  | none => "-"
  | some d => "d" ++ (if d.isEmpty then "" else nameHex d)

def numTok : JNum → String
  | .uint n => "u" ++ toString n
  | .float b => "f" ++ hex16 b
  | .null => "n"

def valTok : JVal → String
  | .num x => numTok x
  | .obj fields =>
    "{" ++ "|".intercalate (sortStrs (fields.map (fun kv => nameHex kv.1 ++ ">" ++ numTok kv.2))) ++ "}"
  | .opaque t => t

def okTok (s : String) : Bool :=
  !s.isEmpty && s.toList.all (fun ch => ch.isAlphanum || ch == '[' || ch == ']' || ch == '{' || ch == '}' ||
    ch == '|' || ch == '>' || ch == '-' || ch == '_')

inductive JOp
  | reg (k : String) (m : MetricVal)
  | set (k : String) (n : Nat)
  | inc (k : String) (n : Nat)
  | st
  | en

def jop? (s : String) : Option JOp :=
  match s.splitOn ":" with
  | ["rc", k, n] => do
      let k ← name? k
      let n ← parseNat? n
      if n < u64Bound then pure (.reg k (.counter n)) else none
  | ["rg", k, b, d] => do pure (.reg (← name? k) (.other (.gauge (← bits? b) (← desc? d))))
  | ["rh", k, vs, d] => do
      let vals ← if vs == "_" then some [] else (vs.splitOn ".").mapM bits?
      pure (.reg (← name? k) (.other (.hist vals (← desc? d))))
  | ["ru", k, v, d] => if okTok v then do pure (.reg (← name? k) (.other (.user v (← desc? d)))) else none
  | ["s", k, n] => do
      let k ← name? k
      let n ← parseNat? n
      if n < u64Bound then pure (.set k n) else none
  | ["i", k, n] => do
      let k ← name? k
      let n ← parseNat? n
      if n < u64Bound then pure (.inc k n) else none
  | ["st"] => some .st
  | ["en"] => some .en
  | _ => none

/-- one call at model time `now`; `none` = the `u64` addition of `increment_counter` overflowed (never generated) -/
def applyJOp (now : Nat) (c : Collector) : JOp → Option Collector
  | .reg k m => some (register k m c)
  | .set k n => some (setCounter k n c)
  | .inc k n => incAtomic64 true k n c
  | .st => some (recordStart now c)
  | .en => some (recordEnd now c)

def snapFull (sum0 : Nat) (c : Collector) : String :=
  joinOr "," (sortStrs ((snapshot c).map (fun kv => nameHex kv.1 ++ "=" ++ valTok (kv.2.value sum0))))

def entryFull (sum0 : Nat) : JsonEntry → String
  | .execTime _ => "T~" ++ descStr (JsonEntry.execTime 0).description
  | e => valTok (e.value sum0) ++ "~" ++ descStr e.description

def jsonFull (sum0 : Nat) (doc : List (String × JsonEntry)) : String :=
  joinOr "," (sortStrs (doc.map (fun kv => nameHex kv.1 ++ "=" ++ entryFull sum0 kv.2)))

def handleMjson (args : List String) : String :=
  match kv? "sum0" args, kv? "ops" args with
  | some s0, some ops =>
    if args.length != 2 then "BAD-OP" else
    match bits? s0, (if ops == "-" then some [] else (ops.splitOn ";").mapM jop?) with
    | some sum0, some jops =>
      let rec go (now : Nat) (c : Collector) : List JOp → Option Collector
        | [] => some c
        | o :: r => match applyJOp now c o with
          | some c' => go (now + 1) c' r
          | none => none
      match go 1 Collector.empty jops with
      | some c =>
        -- `save_to_file`: the serialiser is the identity on the model's document (what a parser reads back)
        s!"snap={snapFull sum0 c} json={jsonFull sum0 (toJson c)} file={jsonFull sum0 (saveToFile id c)}"
      | none => "BAD-OP"
    | _, _ => "BAD-OP"
  | _, _ => "BAD-OP"

/-! ### `MMID`: things happening to the user's handle / the slot while the engine runs -/

def mid? (s : String) : Option (List MidEvent) :=
  if s == "-" then some [] else
  (s.splitOn ",").mapM (fun e => if e == "take" then some MidEvent.take else (op? e).map MidEvent.userOp)

def handleMmid (args : List String) : String :=
  match args with
  | a0 :: rest =>
    match kv? "mid" [a0], PipeParse.parseReq rest with
    | some md, some q =>
      match mid? md, mode? q.mode with
      | some mid, some m =>
        let p : SharedPipe Graph := ⟨⟨q.src, q.steps⟩, true, Collector.empty⟩
        let r := runCollectShared (planOf true) (execMode m true) 1 2 mid p
        let c := r.2.cell
        s!"att={boolStr r.2.attached} el={boolStr (elapsed c).isSome} start={boolStr c.start.isSome} snap={snapStr c} json={jsonStr c} {resStr [renderRun q.canon r.1]}"
      | _, _ => "BAD-OP"
    | _, _ => "BAD-OP"
  | _ => "BAD-OP"

/-- `FIRSTINC a=<x> b=<y>`: two threads that both start `increment_counter` on an ABSENT name; by
    `inc_atomic_sum` every schedule ends at `x + y`. The model runs both orders and reports how many lose. -/
def handleFirstInc (args : List String) : String :=
  match kv? "a" args, kv? "b" args with
  | some a, some b =>
    if args.length != 2 then "BAD-OP" else
    match parseNat? a, parseNat? b with
    | some a, some b =>
      let s0 := Sys.init Collector.empty [[Op.inc "k" a], [Op.inc "k" b]]
      let lost := ([[0, 1], [1, 0]].filter (fun sched => counterVal "k" (run currentImpl sched s0).c != a + b)).length
      s!"lost={lost}"
    | _, _ => "BAD-OP"
  | _, _ => "BAD-OP"

/-- `MHELD which=start|end mode=…`: `record_metrics_start` / `_end` WAIT for the pipeline lock (`lock()`), so a
    lock held by another thread only delays the stamp: the modelled run has both (`elapsed_after_success`). -/
def handleMheld (args : List String) : String :=
  match kv? "which" args, kv? "mode" args with
  | some w, some md =>
    if args.length != 2 || !(w == "start" || w == "end") then "BAD-OP" else
    match mode? md with
    | some m =>
      let g : Graph := ⟨[.int 5], [.map (.add 1)]⟩
      let r := runCollectProg m true true 1 2 ((⟨g, none⟩ : Pipe Graph).setMetrics Collector.empty)
      match r.2.getMetrics with
      | some c =>
        s!"el={boolStr (elapsed c).isSome} jt={boolStr (getJ execKey (toJson c)).isSome} {resStr [renderRun "seq" r.1]}"
      | none => "el=F jt=F res= -"
    | none => "BAD-OP"
  | _, _ => "BAD-OP"

/-- `MHELDC init=… call=<op>`: a call that finds the collector's mutex held WAITS; its effect is the sequential one -/
def handleMheldc (args : List String) : String :=
  match kv? "init" args, kv? "call" args with
  | some i, some o =>
    if args.length != 2 then "BAD-OP" else
    match init? i, op? o with
    | some ini, some op =>
      -- the harness puts a `record_start` before a tested `record_end` and a `record_end` behind a tested `record_start`
      let c0 := if op == Op.recordEnd then recordStart 0 (mkCollector ini) else mkCollector ini
      let c1 := runCall currentImpl 1 op c0
      let c := if op == Op.recordStart then recordEnd 2 c1 else c1
      s!"snap={snapStr c} el={boolStr (elapsed c).isSome}"
    | _, _ => "BAD-OP"
  | _, _ => "BAD-OP"

/-- `MCONTEND nodes=<n> observers=<k>`: whatever other threads do to the pipeline GRAPH meanwhile, every run with
    a fresh collector attached ends with both stamps; the model runs one such run and counts what is missing -/
def handleMcontend (args : List String) : String :=
  match kv? "nodes" args, kv? "observers" args with
  | some n, some k =>
    if args.length != 2 || (parseNat? n).isNone || (parseNat? k).isNone then "BAD-OP" else
    let g : Graph := ⟨[.int 1, .int 2, .int 3, .int 4], [.map (.mul 10)]⟩
    let r := runCollectProg .seq true true 1 2 ((⟨g, none⟩ : Pipe Graph).setMetrics Collector.empty)
    let missing := match r.2.getMetrics with
      | some c => if (elapsed c).isSome && (getJ execKey (toJson c)).isSome then 0 else 1
      | none => 1
    let wrong := if renderRun "seq" r.1 == "OK L4 I10 I20 I30 I40" then 0 else 1
    s!"missing={missing} wrong={wrong}"
  | _, _ => "BAD-OP"

/-- `LOCKSITES` ↦ the model's table of lock acquisitions per method, all covered by a yield point -/
def handleLockSites (args : List String) : String :=
  if !args.isEmpty then "BAD-OP" else
  s!"sites={joinOr "," (lockSites.map (fun kv => kv.1 ++ ":" ++ toString kv.2))} uncovered=0"

/-- `SMOKE`: judged by the harness oracle only (every call returns, on one thread); the model has no
    notion of a call that does not return -/
def handleSmoke (args : List String) : String := if args.isEmpty then "ok" else "BAD-OP"

def handlers : List (String × (List String → String)) :=
  [("LOCKSITES", handleLockSites), ("MPOISON", handleMpoison), ("METRICS", handleMetrics), ("STRESS", handleStress),
   ("MRUN", handleMrun), ("MSLEEP", handleMsleep), ("MOVF", handleMovf), ("SMOKE", handleSmoke),
   ("MJSON", handleMjson), ("MMID", handleMmid), ("FIRSTINC", handleFirstInc),
   ("MHELD", handleMheld), ("MCONTEND", handleMcontend), ("MHELDC", handleMheldc)]

end IB.D16
