import IbModel.Util.Wire
/-! Driver handlers for C16 (request kinds served for that property). -/
namespace IB.D16

def handlers : List (String × (List String → String)) := []

end IB.D16
