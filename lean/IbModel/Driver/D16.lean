import IbModel.Util.Wire
import IbModel.Model.Metrics
/-!
Driver handlers for C16.

`METRICS init=<name:val,…|-> th=<ops>/<ops>/… sched=<i,i,…|->`
   ops: `i:<name>:<n>` increment, `s:<name>:<n>` set, `rc:<name>:<n>` register counter,
        `rg:<name>:<tag>` register gauge, `st` record_start, `en` record_end, `el` elapsed,
        `js` to_json, `sn` snapshot; an empty thread is `-`.
   answer: `snap=<sorted name:val> el=T|F keys=<sorted keys> secs=<sections per call, per thread> complete=T|F`
   (the schedule is replayed with the model's CURRENT `increment_counter`; if it ends early the
    remaining threads are drained in thread order, `complete=F`).
`STRESS init=<n|none> threads=<t> per=<p> amounts=<a,b,…>`  answer: `final=<n>`
`MRUN coll=0|1 pre=<ops|-> runs=<ok|pe|ee>:<token>,…`   answer: `res=… coll=… el=… start=… keys=…`
`MPOISON how=overflow|usermetric|none want=<token>`   answer: `res=ok:<token>`
`LOCKSITES`   answer: `sites=<method:locks,…> uncovered=0` (source scan of src/metrics.rs vs the model's table)
-/
namespace IB.D16
open IB.Wire IB.Metrics

def val? (s : String) : Option MetricVal :=
  if s.startsWith "c" then (parseNat? (s.drop 1).toString).map MetricVal.counter
  else if s.startsWith "g" then (parseNat? (s.drop 1).toString).map MetricVal.other
  else none

def valStr : MetricVal → String
  | .counter n => "c" ++ toString n
  | .other t => "g" ++ toString t

def okName (s : String) : Bool := !s.isEmpty && s.toList.all (fun ch => ch.isAlphanum || ch == '_')

def init? (s : String) : Option (List (String × MetricVal)) :=
  if s == "-" then some [] else
  (s.splitOn ",").mapM (fun kv =>
    match kv.splitOn ":" with
    | [k, v] => if okName k then (val? v).map (fun v => (k, v)) else none
    | _ => none)

def op? (s : String) : Option Op :=
  match s.splitOn ":" with
  | ["i", k, n] => if okName k then (parseNat? n).map (Op.inc k) else none
  | ["s", k, n] => if okName k then (parseNat? n).map (Op.set k) else none
  | ["rc", k, n] => if okName k then (parseNat? n).map (fun n => Op.register k (.counter n)) else none
  | ["rg", k, n] => if okName k then (parseNat? n).map (fun n => Op.register k (.other n)) else none
  | ["st"] => some .recordStart
  | ["en"] => some .recordEnd
  | ["el"] => some .readElapsed
  | ["js"] => some .toJson
  | ["sn"] => some .snapshot
  | _ => none

def ops? (s : String) : Option (List Op) :=
  if s == "-" then some [] else (s.splitOn ",").mapM op?

def threads? (s : String) : Option (List (List Op)) := (s.splitOn "/").mapM ops?

def sched? (s : String) : Option (List Nat) :=
  if s == "-" then some [] else (s.splitOn ",").mapM parseNat?

def sortStrs (l : List String) : List String := l.mergeSort (fun a b => decide (a ≤ b))

def joinOr (sep : String) (l : List String) : String := if l.isEmpty then "-" else sep.intercalate l

def snapStr (c : Collector) : String :=
  joinOr "," (sortStrs ((snapshot c).map (fun kv => kv.1 ++ ":" ++ valStr kv.2)))

def keysStr (c : Collector) : String := joinOr "," (sortStrs (jsonKeys c))

def secsStr (ths : List Thread) : String :=
  "/".intercalate (ths.map (fun t => joinOr "." (t.secs.reverse.map toString)))

/-- the initial collector: the listed metrics registered one after the other on an empty collector -/
def mkCollector (ini : List (String × MetricVal)) : Collector :=
  ini.foldl (fun c kv => register kv.1 kv.2 c) Collector.empty

def handleMetrics (args : List String) : String :=
  match kv? "init" args, kv? "th" args, kv? "sched" args with
  | some i, some t, some s =>
    if args.length != 3 then "BAD-OP" else
    match init? i, threads? t, sched? s with
    | some ini, some ths, some sched =>
      let s0 := Sys.init (mkCollector ini) ths
      let s1 := run currentImpl sched s0
      let complete := s1.complete
      let s2 := run currentImpl (drainSchedule s1) s1
      s!"snap={snapStr s2.c} el={boolStr (elapsed s2.c).isSome} keys={keysStr s2.c} secs={secsStr s2.ths} complete={boolStr complete}"
    | _, _, _ => "BAD-OP"
  | _, _, _ => "BAD-OP"

def handleStress (args : List String) : String :=
  match kv? "init" args, kv? "threads" args, kv? "per" args, kv? "amounts" args with
  | some i, some t, some p, some a =>
    if args.length != 4 then "BAD-OP" else
    let ini : Option (List (String × MetricVal)) :=
      if i == "none" then some [] else (parseNat? i).map (fun n => [("ctr", MetricVal.counter n)])
    match ini, parseNat? t, parseNat? p, (a.splitOn ",").mapM parseNat? with
    | some ini, some t, some p, some (a0 :: as) =>
      let amts := a0 :: as
      let ths := (List.range t).map (fun j => List.replicate p (Op.inc "ctr" (amts.getD (j % amts.length) 0)))
      let s0 := Sys.init (mkCollector ini) ths
      let s1 := run currentImpl (drainSchedule s0) s0
      s!"final={counterVal "ctr" s1.c} complete={boolStr s1.complete}"
    | _, _, _, _ => "BAD-OP"
  | _, _, _, _ => "BAD-OP"

/-- one modelled `run_collect`: `ok` (plan and execution succeed), `pe` (planning error), `ee` (execution error) -/
def runOne (kind tok : String) (now : Nat) (p : Pipe Unit) : Option (String × Pipe Unit) :=
  let go (b e : Bool) : String × Pipe Unit :=
    let r := runCollect (ε := String) (χ := Unit) (ρ := String)
      (fun _ => if b then .ok () else .error "pe")
      (fun _ => if e then .ok tok else .error "ee") now (now + 1) p
    (match r.1 with | .ok t => "ok:" ++ t | .error e => e, r.2)
  match kind with
  | "ok" => some (go true true)
  | "pe" => some (go false true)
  | "ee" => some (go true false)
  | _ => none

def runsLoop : List String → Nat → Pipe Unit → List String → Option (List String × Pipe Unit)
  | [], _, p, acc => some (acc.reverse, p)
  | r :: rs, now, p, acc =>
    match r.splitOn ":" with
    | [kind, tok] =>
      match runOne kind tok now p with
      | some (res, p') => runsLoop rs (now + 2) p' (res :: acc)
      | none => none
    | _ => none

def handleMrun (args : List String) : String :=
  match kv? "coll" args, kv? "pre" args, kv? "runs" args with
  | some cflag, some pre, some runs =>
    if args.length != 3 then "BAD-OP" else
    match ops? pre, (cflag == "0" || cflag == "1") with
    | some preOps, true =>
      let c0 := preOps.foldl (fun c op => applyOp 0 op c) Collector.empty
      let p0 : Pipe Unit := ⟨(), none⟩
      let p1 := if cflag == "1" then p0.setMetrics c0 else p0
      match runsLoop (runs.splitOn ",") 1 p1 [] with
      | some (res, p2) =>
        match p2.getMetrics with
        | none => s!"res={",".intercalate res} coll=F"
        | some c =>
          -- `start` is observed as: after one more `record_end`, is an elapsed time available?
          let startSet := (elapsed (recordEnd 1000000 c)).isSome
          s!"res={",".intercalate res} coll=T el={boolStr (elapsed c).isSome} start={boolStr startSet} keys={keysStr c} snap={snapStr c}"
      | none => "BAD-OP"
    | _, _ => "BAD-OP"
  | _, _, _ => "BAD-OP"

/-- `LOCKSITES` ↦ the model's table of lock acquisitions per method, all covered by a yield point -/
def handleLockSites (args : List String) : String :=
  if !args.isEmpty then "BAD-OP" else
  s!"sites={joinOr "," (lockSites.map (fun kv => kv.1 ++ ":" ++ toString kv.2))} uncovered=0"

/-- `MPOISON how=<…> want=<token>`: a collector that survived a panic of one of its callers is attached;
    the modelled `run_collect` returns the pipeline's own result (`metrics_do_not_affect_result`). -/
def handleMpoison (args : List String) : String :=
  match kv? "how" args, kv? "want" args with
  | some how, some tok =>
    if args.length != 2 || !(["overflow", "usermetric", "none"].contains how) then "BAD-OP" else
    match runOne "ok" tok 1 ⟨(), some Collector.empty⟩ with
    | some (res, _) => "res=" ++ res
    | none => "BAD-OP"
  | _, _ => "BAD-OP"

def handlers : List (String × (List String → String)) :=
  [("LOCKSITES", handleLockSites), ("MPOISON", handleMpoison), ("METRICS", handleMetrics), ("STRESS", handleStress), ("MRUN", handleMrun)]

end IB.D16
