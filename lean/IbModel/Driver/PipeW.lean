import IbModel.Util.Wire
import IbModel.Driver.D01
import IbModel.Proofs.TypedRun
/-!
Driver handler `PIPEW mode=<seq|par:N|noreorder> ty=<t0> src <rows> ; typed steps`: an element-wise program over
TWO element types, run on the tag-carrying model of `Proofs/ElementwiseTyped.lean` (`TPart`, `typedOp`,
`typedSource`, `TStep`; `typedChain`, `concatT` of `Proofs/TypedRun.lean` — the definitions
`Props/C02.lean::no_type_panic_*`, `reorder_type_panic`, `typed_run_*` are about)
through the same planner (`optimise`) and engines (`execSeq`, `execPar`) as every other pipeline.

Element-type tags: 0 = `V`, 1 = `W`, 2 = `(V, V)`, 3 = `(V, W)`. An operator whose input partition carries another
tag than the one its builder knew answers `none` (= the downcast `expect` panicked).
-/
namespace IB.PipeW
open IB IB.Wire IB.PipeParse

def tstep? : List String → Option (TStep × List String)
  | "map" :: r => (fn? r).map (fun p => (⟨0, 0, .map p.1.eval⟩, p.2))
  | "filter" :: r => (pred? r).map (fun p => (⟨0, 0, .filter p.1.eval⟩, p.2))
  | "key_by" :: r => (keyfn? r).map (fun p => (⟨0, 2, .keyBy p.1.eval⟩, p.2))
  | "map_vw" :: r => (fn? r).map (fun p => (⟨0, 1, .map p.1.eval⟩, p.2))
  | "filter_w" :: r => (pred? r).map (fun p => (⟨1, 1, .filter p.1.eval⟩, p.2))
  | "map_wv" :: r => (fn? r).map (fun p => (⟨1, 0, .map p.1.eval⟩, p.2))
  | "map_ww" :: r => (fn? r).map (fun p => (⟨1, 1, .map p.1.eval⟩, p.2))
  | "key_by_w" :: r => (keyfn? r).map (fun p => (⟨1, 3, .keyBy p.1.eval⟩, p.2))
  | "map_values" :: r => (fn? r).map (fun p => (⟨2, 2, .mapValues p.1.eval⟩, p.2))
  | "filter_values" :: r => (pred? r).map (fun p => (⟨2, 2, .filterValues p.1.eval⟩, p.2))
  | "map_values_batches" :: n :: "each" :: r => do
      let n ← parseNat? n
      let (f, r) ← fn? r
      pure (⟨2, 2, .mapValuesBatches n (BatchFn.each f).eval⟩, r)
  | "map_values_vw" :: r => (fn? r).map (fun p => (⟨2, 3, .mapValues p.1.eval⟩, p.2))
  | "values" :: r => some (⟨2, 0, .map Val.value⟩, r)
  | "filter_values_w" :: r => (pred? r).map (fun p => (⟨3, 3, .filterValues p.1.eval⟩, p.2))
  | "map_values_ww" :: r => (fn? r).map (fun p => (⟨3, 3, .mapValues p.1.eval⟩, p.2))
  | "map_values_wv" :: r => (fn? r).map (fun p => (⟨3, 2, .mapValues p.1.eval⟩, p.2))
  | "map_values_batches_w" :: n :: "each" :: r => do
      let n ← parseNat? n
      let (f, r) ← fn? r
      pure (⟨3, 3, .mapValuesBatches n (BatchFn.each f).eval⟩, r)
  | "values_w" :: r => some (⟨3, 1, .map Val.value⟩, r)
  | _ => none

def tsteps? : Nat → List String → Option (List TStep)
  | 0, _ => none
  | _ + 1, [] => some []
  | fuel + 1, ";" :: r => do
      let (s, r) ← tstep? r
      let ss ← tsteps? fuel r
      pure (s :: ss)
  | _, _ => none

def renderT (want : Nat) (r : M TPart) : String :=
  match r with
  | .error e => D01.render "seq" (.error e)
  | .ok none => "PANIC"
  | .ok (some (t, rows)) =>
    if t != want then "ERR terminal-type-mismatch"
    else if rows.any D01.hasErr then "PANIC"
    else "OK ty=" ++ toString t ++ " " ++ (Val.ofList rows).enc

def handlePipeW : List String → String
  | m :: t :: "src" :: toks =>
    if !(m.startsWith "mode=" && t.startsWith "ty=") then "BAD-OP" else
    match parseNat? (t.drop 3).toString, rows? toks with
    | some t0, some (src, r) =>
      match tsteps? (r.length + 2) r with
      | some steps =>
        let chain := typedChain t0 src steps
        let want := finalType t0 steps
        let mode := (m.drop 5).toString
        if mode == "seq" then renderT want (execSeq (optimise chain))
        else if mode == "noreorder" then renderT want (execSeq (optimiseNoReorder chain))
        else if mode == "lit" then renderT want (execSeq chain)
        else if mode.startsWith "par:" then
          match parseNat? (mode.drop 4).toString with
          | some n => renderT want (execPar concatT (optimise chain) n)
          | none => "BAD-OP"
        else "BAD-OP"
      | none => "BAD-OP"
    | _, _ => "BAD-OP"
  | _ => "BAD-OP"

end IB.PipeW
