import IbModel.Util.Wire
import IbModel.Model.Sampling
/-!
Driver handlers for C14.

* `RESERVOIR <k> <seed> <values> <sizes> <tree…>` — the combiner driven directly. `values` = comma-separated
  ints (`-` = none); `sizes` = comma-separated leaf sizes (they cut `values` left to right); `tree` = prefix
  tokens `N <t> <t>` (merge left with right), `L<i>` (leaf `i` built by `create` + `add_input`),
  `B<i>` (leaf `i` built by `build_from_group`). Answer `OK <sample>`.
* `SAMPLEPIPE <gvec|gflat|kvec|kflat> <k> <seed> <parts> <rows>` — the four entry points; `parts` =
  comma-separated partition counts; `rows` = ints, or `key:value` pairs for the keyed entry points.
  Answer `seq=<out> p<n>=<out> …` (keyed outputs after a stable sort by key).
* `SAMPLEFILT <gvec|gflat|kvec|kflat> <k> <seed> <parts> <pred> <rows>` — the same with `filter(pred)` between
  the source and the sample (`pred` on the element / on the value of a keyed row); same answer format.
-/
namespace IB.D14
open IB.Wire IB.Sampling

def ints? (s : String) : Option (List Int) :=
  if s == "-" then some [] else (s.splitOn ",").mapM parseInt?

def nats? (s : String) : Option (List Nat) :=
  if s == "-" then some [] else (s.splitOn ",").mapM parseNat?

def kvRow? (s : String) : Option (Int × Int) :=
  match s.splitOn ":" with
  | [k, v] => do pure ((← parseInt? k), (← parseInt? v))
  | _ => none

def kvs? (s : String) : Option (List (Int × Int)) :=
  if s == "-" then some [] else (s.splitOn ",").mapM kvRow?

def encInts (sep : String) (l : List Int) : String :=
  if l.isEmpty then "-" else sep.intercalate (l.map toString)

/-- cut `xs` into consecutive pieces of the given sizes; `none` unless the sizes add up exactly -/
def cut (xs : List Int) : List Nat → Option (List (List Int))
  | [] => if xs.isEmpty then some [] else none
  | s :: rest =>
    if s ≤ xs.length then
      match cut (xs.drop s) rest with
      | some ps => some (xs.take s :: ps)
      | none => none
    else none

inductive Shape where
  | leaf (i : Nat) (lifted : Bool)
  | node (l r : Shape)

/-- prefix parser with fuel; returns the shape and the unread tokens -/
def parseShape : Nat → List String → Option (Shape × List String)
  | 0, _ => none
  | _ + 1, [] => none
  | fuel + 1, t :: ts =>
    if t == "N" then
      match parseShape fuel ts with
      | some (l, ts1) =>
        match parseShape fuel ts1 with
        | some (r, ts2) => some (.node l r, ts2)
        | none => none
      | none => none
    else if t.startsWith "L" then (parseNat? (t.drop 1).toString).map (fun i => (.leaf i false, ts))
    else if t.startsWith "B" then (parseNat? (t.drop 1).toString).map (fun i => (.leaf i true, ts))
    else none

/-- evaluate a shape with the model's combiner; `none` = a leaf index out of range -/
def evalShape (c : Combiner Int (PRAcc UInt64 Int) (List Int)) (parts : List (List Int)) :
    Shape → Option (PRAcc UInt64 Int)
  | .leaf i lifted =>
    match parts[i]? with
    | some p => some (if lifted then c.build p else (Tree.leaf p).eval c)
    | none => none
  | .node l r =>
    match evalShape c parts l, evalShape c parts r with
    | some a, some b => some (c.merge a b)
    | _, _ => none

def handleReservoir : List String → String
  | k :: seed :: vals :: sizes :: tree =>
    match parseNat? k, parseNat? seed, ints? vals, nats? sizes with
    | some k, some seed, some xs, some sz =>
      if seed ≥ 2 ^ 64 then "BAD-OP" else
      match cut xs sz, parseShape (tree.length + 1) tree with
      | some parts, some (sh, []) =>
        let c : Combiner Int (PRAcc UInt64 Int) (List Int) := reservoirSM k (UInt64.ofNat seed)
        match evalShape c parts sh with
        | some a => "OK " ++ encInts "," (c.finish a)
        | none => "BAD-OP"
      | _, _ => "BAD-OP"
    | _, _, _, _ => "BAD-OP"
  | _ => "BAD-OP"

/-! ### pipelines -/

def insertByKey {β : Type} (x : Int × β) : List (Int × β) → List (Int × β)
  | [] => [x]
  | y :: ys => if x.1 ≤ y.1 then x :: y :: ys else y :: insertByKey x ys

/-- stable sort by key (`sort_by_key` in the harness) -/
def sortByKey {β : Type} (l : List (Int × β)) : List (Int × β) := l.foldr insertByKey []

def encGroups (rows : List (Int × List Int)) : String :=
  if rows.isEmpty then "-"
  else ",".intercalate (rows.map (fun r => toString r.1 ++ ":" ++ ".".intercalate (r.2.map toString)))

def encPairs (rows : List (Int × Int)) : String :=
  if rows.isEmpty then "-" else ",".intercalate (rows.map (fun r => toString r.1 ++ ":" ++ toString r.2))

/-- the predicates the harness can put in front of the sample (`from_vec(..).filter(pred)`), on the element
    (global entry points) or on the value of a `(key, value)` row (keyed entry points):
    `all`, `none`, `lt:<c>` (`x < c`), `ge:<c>` (`x ≥ c`), `mod:<m>:<r>` (`x.rem_euclid(m) == r`, `m ≥ 1`) -/
def pred? (s : String) : Option (Int → Bool) :=
  match s.splitOn ":" with
  | ["all"] => some (fun _ => true)
  | ["none"] => some (fun _ => false)
  | ["lt", c] => (parseInt? c).map (fun c => fun x => decide (x < c))
  | ["ge", c] => (parseInt? c).map (fun c => fun x => decide (x ≥ c))
  | ["mod", m, r] =>
    match parseNat? m, parseNat? r with
    | some m, some r => if m == 0 then none else some (fun x => x.emod (Int.ofNat m) == Int.ofNat r)
    | _, _ => none
  | _ => none

/-- canonical output of one run of one entry point; `n = none` is sequential mode; `filt = none` is the plain
    pipeline (`SAMPLEPIPE`), `some p` the pipeline with `filter(p)` before the sample (`SAMPLEFILT`).
    Each of the four entry points has its own model definition. -/
def runEntry (entry : String) (k : Nat) (seed : UInt64) (n : Option Nat) (filt : Option (Int → Bool))
    (xs : List Int) (rows : List (Int × Int)) : Option String :=
  let c : Combiner Int (PRAcc UInt64 Int) (List Int) := reservoirSM k seed
  if entry == "gvec" then        -- exactly one output row
    some (encInts "," (match filt, n with
      | none, none => sampleSeq c xs
      | none, some n => samplePar c n xs
      | some p, none => sampleFilterSeq c p xs
      | some p, some n => sampleFilterPar c n p xs))
  else if entry == "gflat" then  -- the row flattened by the trailing `flat_map`
    some (encInts "," (match filt, n with
      | none, none => sampleFlatSeq c xs
      | none, some n => sampleFlatPar c n xs
      | some p, none => flattenGlobal [sampleFilterSeq c p xs]
      | some p, some n => flattenGlobal [sampleFilterPar c n p xs]))
  else if entry == "kvec" || entry == "kflat" then
    let kd : List (Int × List Int) :=
      match filt, n with
      | none, none => sampleKeyedSeq c rows
      | none, some n => sampleKeyedPar c n rows
      | some p, none => sampleKeyedFilterSeq c (fun r => p r.2) rows
      | some p, some n => sampleKeyedFilterPar c n (fun r => p r.2) rows
    if entry == "kvec" then some (encGroups (sortByKey kd))
    else some (encPairs (sortByKey (flattenKeyed kd)))
  else none

def runAll (entry : String) (k seed : Nat) (ps : List Nat) (filt : Option (Int → Bool)) (rows : String) : String :=
  if seed ≥ 2 ^ 64 then "BAD-OP" else
  let keyed := entry == "kvec" || entry == "kflat"
  let parsed : Option (List Int × List (Int × Int)) :=
    if keyed then (kvs? rows).map (fun r => ([], r)) else (ints? rows).map (fun x => (x, []))
  match parsed with
  | some (xs, kv) =>
    let s := UInt64.ofNat seed
    let outs : List (Option String) :=
      (runEntry entry k s none filt xs kv).map ("seq=" ++ ·) ::
        ps.map (fun n => (runEntry entry k s (some n) filt xs kv).map (fun o => "p" ++ toString n ++ "=" ++ o))
    match outs.mapM id with
    | some l => " ".intercalate l
    | none => "BAD-OP"
  | none => "BAD-OP"

def handlePipe : List String → String
  | [entry, k, seed, parts, rows] =>
    match parseNat? k, parseNat? seed, nats? parts with
    | some k, some seed, some ps => runAll entry k seed ps none rows
    | _, _, _ => "BAD-OP"
  | _ => "BAD-OP"

/-- `SAMPLEFILT <entry> <k> <seed> <parts> <pred> <rows>` -/
def handleFilt : List String → String
  | [entry, k, seed, parts, pred, rows] =>
    match parseNat? k, parseNat? seed, nats? parts, pred? pred with
    | some k, some seed, some ps, some p => runAll entry k seed ps (some p) rows
    | _, _, _, _ => "BAD-OP"
  | _ => "BAD-OP"

def handlers : List (String × (List String → String)) :=
  [("RESERVOIR", handleReservoir), ("SAMPLEPIPE", handlePipe), ("SAMPLEFILT", handleFilt)]

end IB.D14
