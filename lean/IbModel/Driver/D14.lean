import IbModel.Util.Wire
import IbModel.Model.Sampling
/-!
Driver handlers for C14.

* `RESERVOIR <k> <seed> <values> <sizes> <tree…>` — the combiner driven directly. `values` = comma-separated
  ints (`-` = none); `sizes` = comma-separated leaf sizes (they cut `values` left to right); `tree` = prefix
  tokens `N <t> <t>` (merge left with right), `L<i>` (leaf `i` built by `create` + `add_input`),
  `B<i>` (leaf `i` built by `build_from_group`). Answer `OK <sample>`.
* `RESSTATE <k> <seed> <values> <sizes> <tree…>` — the same evaluation, answer = the accumulator itself before
  `finish`: `k=<k> seq=<seq> alive=<alive> heap=<heap.len> store=<slot,…>` with a slot `x` (tombstone) or
  `<priority bit pattern>:<seq>:<value>` (the real side reads them through `PRAcc::verif_slots`).
* `SAMPLEPIPE <gvec|gflat|kvec|kflat> <k> <seed> <pre> <plan> <runs> <rows>` — the four entry points.
  `pre` = the stateless op between `from_vec` and the sample: `-`, `all`, `none`, `lt:<c>`, `ge:<c>`,
  `mod:<m>:<r>` (filters), `map:<a>:<b>` (`x ↦ a·x+b`), `dup:<m>` (`flat_map`: `x.rem_euclid(m)` copies of `x`);
  on the element, or on the value of a keyed row. `plan` = what `run_collect` executed (hook `on_plan`):
  `G` (`CombineGlobal`), `L` (`CombineValues` lifted by the planner: `local_pairs` per partition),
  `U` (`GroupByKey` barrier + `CombineValues{local_groups}`). `runs` = comma-separated `<n>@<s1>.<s2>…`:
  requested partition count and the sizes of the chunks the real `VecOps::split` produced.
  `rows` = ints, or `key:value` pairs. Answer `seq=<out> p<n>=<out> …` (keyed outputs after a stable sort by key).
* `SAMPLEJOIN …` — same arguments; the sample feeds `join_inner` (the join side's chain is executed literally:
  plan `U` for the per-key entry points, `G` for `sample_reservoir`); the right side holds every key once, so the
  answer is the sample itself.
* `SAMPLEGBK <k> <seed> <order1> <order2>` — `from_vec(rows).group_by_key().map(key).sample_reservoir_vec(k, seed)`
  run twice; `order_i` = the order in which run `i` fed the keys to the sampler (hash order, recorded by the
  `map`). Answer `r1=<sample> r2=<sample>`.
* `ORDF64 <a> <b>` — `OrdF64(from_bits(a)).cmp(&OrdF64(from_bits(b)))` → `LT|EQ|GT`.
-/
namespace IB.D14
open IB.Wire IB.Sampling

def ints? (s : String) : Option (List Int) :=
  if s == "-" then some [] else (s.splitOn ",").mapM parseInt?

def nats? (s : String) : Option (List Nat) :=
  if s == "-" then some [] else (s.splitOn ",").mapM parseNat?

def kvRow? (s : String) : Option (Int × Int) :=
  match s.splitOn ":" with
  | [k, v] => do pure ((← parseInt? k), (← parseInt? v))
  | _ => none

def kvs? (s : String) : Option (List (Int × Int)) :=
  if s == "-" then some [] else (s.splitOn ",").mapM kvRow?

def encInts (sep : String) (l : List Int) : String :=
  if l.isEmpty then "-" else sep.intercalate (l.map toString)

inductive Shape where
  | leaf (i : Nat) (lifted : Bool)
  | node (l r : Shape)

/-- prefix parser with fuel; returns the shape and the unread tokens -/
def parseShape : Nat → List String → Option (Shape × List String)
  | 0, _ => none
  | _ + 1, [] => none
  | fuel + 1, t :: ts =>
    if t == "N" then
      match parseShape fuel ts with
      | some (l, ts1) =>
        match parseShape fuel ts1 with
        | some (r, ts2) => some (.node l r, ts2)
        | none => none
      | none => none
    else if t.startsWith "L" then (parseNat? (t.drop 1).toString).map (fun i => (.leaf i false, ts))
    else if t.startsWith "B" then (parseNat? (t.drop 1).toString).map (fun i => (.leaf i true, ts))
    else none

/-- evaluate a shape with the model's combiner; `none` = a leaf index out of range -/
def evalShape (c : Combiner Int (PRAcc UInt64 Int) (List Int)) (parts : List (List Int)) :
    Shape → Option (PRAcc UInt64 Int)
  | .leaf i lifted =>
    match parts[i]? with
    | some p => some (if lifted then c.build p else (Tree.leaf p).eval c)
    | none => none
  | .node l r =>
    match evalShape c parts l, evalShape c parts r with
    | some a, some b => some (c.merge a b)
    | _, _ => none

/-- the accumulator a `RESERVOIR` / `RESSTATE` request denotes -/
def reservoirAcc : List String → Option (Combiner Int (PRAcc UInt64 Int) (List Int) × PRAcc UInt64 Int)
  | k :: seed :: vals :: sizes :: tree =>
    match parseNat? k, parseNat? seed, ints? vals, nats? sizes with
    | some k, some seed, some xs, some sz =>
      if seed ≥ 2 ^ 64 then none else
      match cutSizes xs sz, parseShape (tree.length + 1) tree with
      | some parts, some (sh, []) =>
        let c : Combiner Int (PRAcc UInt64 Int) (List Int) := reservoirSM k (UInt64.ofNat seed)
        (evalShape c parts sh).map (fun a => (c, a))
      | _, _ => none
    | _, _, _, _ => none
  | _ => none

def handleReservoir (args : List String) : String :=
  match reservoirAcc args with
  | some (c, a) => "OK " ++ encInts "," (c.finish a)
  | none => "BAD-OP"

def encSlot : Option (Nat × Nat × Int) → String
  | none => "x"
  | some (m, s, v) => toString (prioBits m) ++ ":" ++ toString s ++ ":" ++ toString v

def handleResState (args : List String) : String :=
  match reservoirAcc args with
  | some (_, a) =>
    "k=" ++ toString a.k ++ " seq=" ++ toString a.seq ++ " alive=" ++ toString a.alive ++
      " heap=" ++ toString a.heap.length ++ " store=" ++
      (if a.store.isEmpty then "-" else ",".intercalate (a.store.map encSlot))
  | none => "BAD-OP"

/-! ### pipelines -/

def insertByKey {β : Type} (x : Int × β) : List (Int × β) → List (Int × β)
  | [] => [x]
  | y :: ys => if x.1 ≤ y.1 then x :: y :: ys else y :: insertByKey x ys

/-- stable sort by key (`sort_by_key` in the harness) -/
def sortByKey {β : Type} (l : List (Int × β)) : List (Int × β) := l.foldr insertByKey []

def encGroups (rows : List (Int × List Int)) : String :=
  if rows.isEmpty then "-"
  else ",".intercalate (rows.map (fun r => toString r.1 ++ ":" ++ ".".intercalate (r.2.map toString)))

def encPairs (rows : List (Int × Int)) : String :=
  if rows.isEmpty then "-" else ",".intercalate (rows.map (fun r => toString r.1 ++ ":" ++ toString r.2))

/-- the stateless op the harness can put in front of the sample, as the `flat_map` it is to the engine:
    `-` (no op: `none`), filters `all`, `none`, `lt:<c>`, `ge:<c>`, `mod:<m>:<r>` (`x.rem_euclid(m) == r`, `m ≥ 1`),
    `map:<a>:<b>` (`x ↦ a·x + b`), `dup:<m>` (`x.rem_euclid(m)` copies of `x`, `m ≥ 1`) -/
def pre? (s : String) : Option (Option (Int → List Int)) :=
  match s.splitOn ":" with
  | ["-"] => some none
  | ["all"] => some (some (filterG (fun _ => true)))
  | ["none"] => some (some (filterG (fun _ => false)))
  | ["lt", c] => (parseInt? c).map (fun c => some (filterG (fun x => decide (x < c))))
  | ["ge", c] => (parseInt? c).map (fun c => some (filterG (fun x => decide (x ≥ c))))
  | ["mod", m, r] =>
    match parseNat? m, parseNat? r with
    | some m, some r =>
      if m == 0 then none else some (some (filterG (fun x => x.emod (Int.ofNat m) == Int.ofNat r)))
    | _, _ => none
  | ["map", a, b] =>
    match parseInt? a, parseInt? b with
    | some a, some b => some (some (fun x => [a * x + b]))
    | _, _ => none
  | ["dup", m] =>
    match parseNat? m with
    | some m => if m == 0 then none else some (some (fun x => List.replicate (x.emod (Int.ofNat m)).toNat x))
    | none => none
  | _ => none

/-- the op on a keyed row: on the value, the key is kept -/
def onValue (g : Int → List Int) : Int × Int → List (Int × Int) := fun r => (g r.2).map (fun v => (r.1, v))

/-- one run: requested partition count and the chunk sizes the real split produced -/
def run? (s : String) : Option (Nat × List Nat) :=
  match s.splitOn "@" with
  | [n, sz] => do pure ((← parseNat? n), (← (sz.splitOn ".").mapM parseNat?))
  | _ => none

def runs? (s : String) : Option (List (Nat × List Nat)) :=
  if s == "-" then some [] else (s.splitOn ",").mapM run?

/-- canonical output of one run of one entry point over the partitions `ps` / `kps` the engine started from
    (sequential mode: the one partition holding the whole source). Each entry point × plan has its own model
    definition; `none` = unknown entry / plan combination. -/
def runEntry (entry plan : String) (k : Nat) (seed : UInt64) (pre : Option (Int → List Int))
    (ps : List (List Int)) (kps : List (List (Int × Int))) : Option String :=
  let c : Combiner Int (PRAcc UInt64 Int) (List Int) := reservoirSM k seed
  if entry == "gvec" || entry == "gflat" then
    if plan != "G" then none else
    let row : List Int := match pre with
      | none => sampleParts c ps
      | some g => samplePreParts c g ps
    -- `gvec`: exactly one output row; `gflat`: the row flattened by the trailing `flat_map`
    some (encInts "," (if entry == "gvec" then row else flattenGlobal [row]))
  else if entry == "kvec" || entry == "kflat" then
    let kd? : Option (List (Int × List Int)) :=
      if plan == "L" then
        some (match pre with
          | none => sampleKeyedParts c kps
          | some g => sampleKeyedPreParts c (onValue g) kps)
      else if plan == "U" then
        some (match pre with
          | none => sampleKeyedUnlifted c kps
          | some g => sampleKeyedPreUnlifted c (onValue g) kps)
      else none
    kd?.map (fun kd =>
      if entry == "kvec" then encGroups (sortByKey kd) else encPairs (sortByKey (flattenKeyed kd)))
  else none

def runAll (entry plan : String) (k seed : Nat) (runs : List (Nat × List Nat)) (pre : Option (Int → List Int))
    (rows : String) : String :=
  if seed ≥ 2 ^ 64 then "BAD-OP" else
  let keyed := entry == "kvec" || entry == "kflat"
  let parsed : Option (List Int × List (Int × Int)) :=
    if keyed then (kvs? rows).map (fun r => ([], r)) else (ints? rows).map (fun x => (x, []))
  match parsed with
  | some (xs, kv) =>
    let s := UInt64.ofNat seed
    let one (label : String) (sizes : Option (List Nat)) : Option String :=
      -- `none` = sequential mode: one partition holding everything
      let cut : Option (List (List Int) × List (List (Int × Int))) :=
        match sizes with
        | none => some ([xs], [kv])
        | some sz => do pure ((← cutSizes xs (if keyed then [0] else sz)), (← cutSizes kv (if keyed then sz else [0])))
      match cut with
      | some (ps, kps) => (runEntry entry plan k s pre ps kps).map (fun o => label ++ "=" ++ o)
      | none => none
    let outs : List (Option String) :=
      one "seq" none :: runs.map (fun r => one ("p" ++ toString r.1) (some r.2))
    match outs.mapM id with
    | some l => " ".intercalate l
    | none => "BAD-OP"
  | none => "BAD-OP"

/-- `SAMPLEPIPE|SAMPLEJOIN <entry> <k> <seed> <pre> <plan> <runs> <rows>` -/
def handlePipe : List String → String
  | [entry, k, seed, pre, plan, runs, rows] =>
    match parseNat? k, parseNat? seed, pre? pre, runs? runs with
    | some k, some seed, some g, some rs => runAll entry plan k seed rs g rows
    | _, _, _, _ => "BAD-OP"
  | _ => "BAD-OP"

/-- `SAMPLEGBK <k> <seed> <order1> <order2>`: after the barrier there is ONE partition, laid out in hash order -/
def handleGbk : List String → String
  | [k, seed, o1, o2] =>
    match parseNat? k, parseNat? seed, ints? o1, ints? o2 with
    | some k, some seed, some a, some b =>
      if seed ≥ 2 ^ 64 then "BAD-OP" else
      let c : Combiner Int (PRAcc UInt64 Int) (List Int) := reservoirSM k (UInt64.ofNat seed)
      "r1=" ++ encInts "," (sampleParts c [a]) ++ " r2=" ++ encInts "," (sampleParts c [b])
    | _, _, _, _ => "BAD-OP"
  | _ => "BAD-OP"

def handleOrd : List String → String
  | [a, b] =>
    match parseNat? a, parseNat? b with
    | some a, some b =>
      if a ≥ 2 ^ 64 || b ≥ 2 ^ 64 then "BAD-OP" else
      match totalCmp a b with
      | .lt => "LT" | .eq => "EQ" | .gt => "GT"
    | _, _ => "BAD-OP"
  | _ => "BAD-OP"

def handlers : List (String × (List String → String)) :=
  [("RESERVOIR", handleReservoir), ("RESSTATE", handleResState), ("SAMPLEPIPE", handlePipe),
   ("SAMPLEJOIN", handlePipe), ("SAMPLEGBK", handleGbk), ("ORDF64", handleOrd)]

end IB.D14
