import IbModel.Util.Wire
/-! Driver handlers for C14 (request kinds served for that property). -/
namespace IB.D14

def handlers : List (String × (List String → String)) := []

end IB.D14
