import IbModel.Util.Wire
import IbModel.Model.Assertions
/-! Driver handlers for C20: `ASSERT <eq|unord|kv|grp|maps> <A> | <B>`, `ASSERT size <A> <n>`,
    `ASSERT contains <A> <x>`, `ASSERT <all|any|none> <pred> <A>` ↦ `PASS` | `PANIC`. -/
namespace IB.D20
open IB.Wire IB.Assertions

def ints? (s : String) : Option (List Int) :=
  if s == "-" then some [] else (s.splitOn ",").mapM parseInt?

def kvRow? (s : String) : Option (Int × Int) :=
  match s.splitOn ":" with
  | [k, v] => do pure ((← parseInt? k), (← parseInt? v))
  | _ => none

def kvs? (s : String) : Option (List (Int × Int)) :=
  if s == "-" then some [] else (s.splitOn ",").mapM kvRow?

def grpRow? (s : String) : Option (Int × List Int) :=
  match s.splitOn ":" with
  | [k, vs] => do
      let k ← parseInt? k
      let vs ← if vs == "" then some [] else (vs.splitOn ".").mapM parseInt?
      pure (k, vs)
  | _ => none

def grps? (s : String) : Option (List (Int × List Int)) :=
  if s == "-" then some [] else (s.splitOn ",").mapM grpRow?

def verdict (b : Bool) : String := if b then "PASS" else "PANIC"

/-- the closed predicate library of the harness (`c20.rs::Pred`) -/
def pred? (s : String) : Option (Int → Bool) :=
  match s.splitOn ":" with
  | ["true"] => some (fun _ => true)
  | ["false"] => some (fun _ => false)
  | ["even"] => some (fun x => x % 2 == 0)
  | ["odd"] => some (fun x => x % 2 != 0)
  | ["neg"] => some (fun x => decide (x < 0))
  | ["lt", n] => (parseInt? n).map (fun n x => decide (x < n))
  | ["eq", n] => (parseInt? n).map (fun n x => x == n)
  | ["ne", n] => (parseInt? n).map (fun n x => x != n)
  | _ => none

def handleAssert : List String → String
  | ["eq", a, "|", b] =>
      match ints? a, ints? b with
      | some a, some b => verdict (assertEqual a b)
      | _, _ => "BAD-OP"
  | ["unord", a, "|", b] =>
      match ints? a, ints? b with
      | some a, some b => verdict (assertUnordered a b)
      | _, _ => "BAD-OP"
  | ["kv", a, "|", b] =>
      match kvs? a, kvs? b with
      | some a, some b => verdict (assertKv leInt a b)
      | _, _ => "BAD-OP"
  | ["grp", a, "|", b] =>
      match grps? a, grps? b with
      | some a, some b => verdict (assertGrouped leInt a b)
      | _, _ => "BAD-OP"
  | ["maps", a, "|", b] =>
      match kvs? a, kvs? b with
      | some a, some b => verdict (assertMaps (mkMap a) (mkMap b))
      | _, _ => "BAD-OP"
  | ["size", a, n] =>
      match ints? a, parseNat? n with
      | some a, some n => verdict (assertSize a n)
      | _, _ => "BAD-OP"
  | ["contains", a, x] =>
      match ints? a, parseInt? x with
      | some a, some x => verdict (assertContains a x)
      | _, _ => "BAD-OP"
  | ["all", p, a] =>
      match pred? p, ints? a with
      | some p, some a => verdict (assertAll p a)
      | _, _ => "BAD-OP"
  | ["any", p, a] =>
      match pred? p, ints? a with
      | some p, some a => verdict (assertAny p a)
      | _, _ => "BAD-OP"
  | ["none", p, a] =>
      match pred? p, ints? a with
      | some p, some a => verdict (assertNone p a)
      | _, _ => "BAD-OP"
  | _ => "BAD-OP"

def handlers : List (String × (List String → String)) := [("ASSERT", handleAssert)]

end IB.D20
