import IbModel.Util.Wire
import IbModel.Model.Assertions
/-! Driver handlers for C20: `ASSERT <eq|unord|kv|grp|maps>[/P|/S] <A> | <B>`, `ASSERT size <A> <n>`,
    `ASSERT contains[/P|/S] <A> <x>`, `ASSERT <all|any|none> <pred> <A>`,
    `ASSERT jsonl <F> | <E>`, `ASSERT csv <F> | <E>` ↦ `PASS` | `PANIC`.

    The suffix names the Rust element/key/value type the harness instantiated the generic assertion
    with: none = `i64`, `/P` = `struct P(i64, i64)` (integer `x` ↦ `embP x`), `/S` = `String`
    (`x` ↦ `embS x`); the model evaluates the same generic definition at `Int`, `Int × Int`, `String`
    with the key orders `leInt`, `lePair`, `leStr`.
    File `F`: `missing` (cannot be opened) | `-` (no line) | comma-separated line classes —
    JSONL: `k:v` record, `_` blank, `!` bad; CSV: `h` header `k,v`, `hs` header `v,k`, `a:b` row `a,b`,
    `_` empty line, `!` bad. `E`: `-` | records `k:v`. -/
namespace IB.D20
open IB.Wire IB.Assertions

def ints? (s : String) : Option (List Int) :=
  if s == "-" then some [] else (s.splitOn ",").mapM parseInt?

def kvRow? (s : String) : Option (Int × Int) :=
  match s.splitOn ":" with
  | [k, v] => do pure ((← parseInt? k), (← parseInt? v))
  | _ => none

def kvs? (s : String) : Option (List (Int × Int)) :=
  if s == "-" then some [] else (s.splitOn ",").mapM kvRow?

def grpRow? (s : String) : Option (Int × List Int) :=
  match s.splitOn ":" with
  | [k, vs] => do
      let k ← parseInt? k
      let vs ← if vs == "" then some [] else (vs.splitOn ".").mapM parseInt?
      pure (k, vs)
  | _ => none

def grps? (s : String) : Option (List (Int × List Int)) :=
  if s == "-" then some [] else (s.splitOn ",").mapM grpRow?

def verdict (b : Bool) : String := if b then "PASS" else "PANIC"

/-- the closed predicate library of the harness (`c20.rs::Pred`) -/
def pred? (s : String) : Option (Int → Bool) :=
  match s.splitOn ":" with
  | ["true"] => some (fun _ => true)
  | ["false"] => some (fun _ => false)
  | ["even"] => some (fun x => x % 2 == 0)
  | ["odd"] => some (fun x => x % 2 != 0)
  | ["neg"] => some (fun x => decide (x < 0))
  | ["lt", n] => (parseInt? n).map (fun n x => decide (x < n))
  | ["eq", n] => (parseInt? n).map (fun n x => x == n)
  | ["ne", n] => (parseInt? n).map (fun n x => x != n)
  | _ => none

/-- the element type of a request: how the integers on the wire are embedded -/
structure Ty (τ : Type) where
  emb : Int → τ
  le : τ → τ → Bool

def tyI : Ty Int := ⟨id, leInt⟩
def tyP : Ty (Int × Int) := ⟨embP, lePair⟩
def tyS : Ty String := ⟨embS, leStr⟩

def mapKv {τ : Type} (t : Ty τ) (l : List (Int × Int)) : List (τ × τ) :=
  l.map (fun r => (t.emb r.1, t.emb r.2))

def mapGrp {τ : Type} (t : Ty τ) (l : List (Int × List Int)) : List (τ × List τ) :=
  l.map (fun r => (t.emb r.1, r.2.map t.emb))

/-- the assertions that are generic in the element type, at one type -/
def handleTyped {τ : Type} [DecidableEq τ] (t : Ty τ) : List String → String
  | ["eq", a, "|", b] =>
      match ints? a, ints? b with
      | some a, some b => verdict (assertEqual (a.map t.emb) (b.map t.emb))
      | _, _ => "BAD-OP"
  | ["unord", a, "|", b] =>
      match ints? a, ints? b with
      | some a, some b => verdict (assertUnordered (a.map t.emb) (b.map t.emb))
      | _, _ => "BAD-OP"
  | ["kv", a, "|", b] =>
      match kvs? a, kvs? b with
      | some a, some b => verdict (assertKv t.le (mapKv t a) (mapKv t b))
      | _, _ => "BAD-OP"
  | ["grp", a, "|", b] =>
      match grps? a, grps? b with
      | some a, some b => verdict (assertGrouped t.le (mapGrp t a) (mapGrp t b))
      | _, _ => "BAD-OP"
  | ["maps", a, "|", b] =>
      match kvs? a, kvs? b with
      | some a, some b => verdict (assertMaps (mkMap (mapKv t a)) (mkMap (mapKv t b)))
      | _, _ => "BAD-OP"
  | ["contains", a, x] =>
      match ints? a, parseInt? x with
      | some a, some x => verdict (assertContains (a.map t.emb) (t.emb x))
      | _, _ => "BAD-OP"
  | _ => "BAD-OP"

def jline? (s : String) : Option JLine :=
  if s == "_" then some .blank
  else if s == "!" then some .bad
  else (kvRow? s).map (fun r => .record r.1 r.2)

def cline? (s : String) : Option CLine :=
  if s == "_" then some .empty
  else if s == "!" then some .bad
  else if s == "h" then some .hdr
  else if s == "hs" then some .hdrSwapped
  else (kvRow? s).map (fun r => .row r.1 r.2)

/-- `missing` ↦ `some none`; malformed ↦ `none` -/
def file? {L : Type} (line? : String → Option L) (s : String) : Option (Option (List L)) :=
  if s == "missing" then some none
  else if s == "-" then some (some [])
  else ((s.splitOn ",").mapM line?).map some

def handleAssert : List String → String
  | ["size", a, n] =>
      match ints? a, parseNat? n with
      | some a, some n => verdict (assertSize a n)
      | _, _ => "BAD-OP"
  | ["all", p, a] =>
      match pred? p, ints? a with
      | some p, some a => verdict (assertAll p a)
      | _, _ => "BAD-OP"
  | ["any", p, a] =>
      match pred? p, ints? a with
      | some p, some a => verdict (assertAny p a)
      | _, _ => "BAD-OP"
  | ["none", p, a] =>
      match pred? p, ints? a with
      | some p, some a => verdict (assertNone p a)
      | _, _ => "BAD-OP"
  | ["jsonl", f, "|", e] =>
      match file? jline? f, kvs? e with
      | some f, some e => verdict (assertJsonl JLine.isBlank JLine.parse f e)
      | _, _ => "BAD-OP"
  | ["csv", f, "|", e] =>
      match file? cline? f, kvs? e with
      | some f, some e => verdict (assertCsv CLine.isEmpty CLine.parse f e)
      | _, _ => "BAD-OP"
  | kind :: rest =>
      match kind.splitOn "/" with
      | [k] => handleTyped tyI (k :: rest)
      | [k, "P"] => handleTyped tyP (k :: rest)
      | [k, "S"] => handleTyped tyS (k :: rest)
      | _ => "BAD-OP"
  | _ => "BAD-OP"

def handlers : List (String × (List String → String)) := [("ASSERT", handleAssert)]

end IB.D20
