import IbModel.Util.Wire
import IbModel.Model.Assertions
/-! Driver handlers for C20: `ASSERT <eq|unord|kv|grp> <A> | <B>` ↦ `PASS` | `PANIC`. -/
namespace IB.D20
open IB.Wire IB.Assertions

def ints? (s : String) : Option (List Int) :=
  if s == "-" then some [] else (s.splitOn ",").mapM parseInt?

def kvRow? (s : String) : Option (Int × Int) :=
  match s.splitOn ":" with
  | [k, v] => do pure ((← parseInt? k), (← parseInt? v))
  | _ => none

def kvs? (s : String) : Option (List (Int × Int)) :=
  if s == "-" then some [] else (s.splitOn ",").mapM kvRow?

def grpRow? (s : String) : Option (Int × List Int) :=
  match s.splitOn ":" with
  | [k, vs] => do
      let k ← parseInt? k
      let vs ← if vs == "" then some [] else (vs.splitOn ".").mapM parseInt?
      pure (k, vs)
  | _ => none

def grps? (s : String) : Option (List (Int × List Int)) :=
  if s == "-" then some [] else (s.splitOn ",").mapM grpRow?

def verdict (b : Bool) : String := if b then "PASS" else "PANIC"

def leInt (a b : Int) : Bool := decide (a ≤ b)

def handleAssert : List String → String
  | ["eq", a, "|", b] =>
      match ints? a, ints? b with
      | some a, some b => verdict (assertEqual a b)
      | _, _ => "BAD-OP"
  | ["unord", a, "|", b] =>
      match ints? a, ints? b with
      | some a, some b => verdict (assertUnordered a b)
      | _, _ => "BAD-OP"
  | ["kv", a, "|", b] =>
      match kvs? a, kvs? b with
      | some a, some b => verdict (assertKv leInt a b)
      | _, _ => "BAD-OP"
  | ["grp", a, "|", b] =>
      match grps? a, grps? b with
      | some a, some b => verdict (assertGrouped leInt a b)
      | _, _ => "BAD-OP"
  | _ => "BAD-OP"

def handlers : List (String × (List String → String)) := [("ASSERT", handleAssert)]

end IB.D20
