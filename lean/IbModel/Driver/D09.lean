import IbModel.Util.Wire
import IbModel.Model.Io
/-!
Driver handlers for C09.

* `SHARDS <jsonl|csv|csvh> <total> <per>` / `SHARDS parquet <g1,g2,…|-> <per>`
    ↦ `T<total> R<a-b,…|-> P<sizes|-> S<n> Q<n> V<n>`
  (ranges of `build_*_shards`, partition sizes of `VecOps::split`, length of `clone_any`
  (= `collect_seq`), of the parallel concatenation (= `collect_par`) and of `read_*_vec`).
* `PARWRITE <jsonl|csv|csvh> <n> <shards|none> auto=<a> via=<fn|pc>`
    ↦ `OK B<i:s-e,…|-> W<H|id,…|->` | `PANIC`
* `JSONLRD <hex bytes|-> <per>` (records are JSON integers)
    ↦ `T<total> R<…> SEQ <OK ids|ERR> PAR <OK a,b|c | PANIC> VEC <OK ids|ERR>`
* `SPLITR <len> <parts>` ↦ `split_ranges(len, parts)` as `idx:start-end,…`
* `GLOB <path:count,…>` ↦ `F<file indices in read order> N<total records>`
-/
namespace IB.D09
open IB.Wire IB.Io

def joinWith (sep : String) (xs : List String) : String :=
  if xs.isEmpty then "-" else sep.intercalate xs

def showRanges (rs : List (Nat × Nat)) : String :=
  joinWith "," (rs.map fun r => s!"{r.1}-{r.2}")

def showNats (xs : List Nat) : String := joinWith "," (xs.map toString)

def showBounds (bs : List (Nat × Nat × Nat)) : String :=
  joinWith "," (bs.map fun b => s!"{b.1}:{b.2.1}-{b.2.2}")

def nats? (s : String) : Option (List Nat) :=
  if s == "-" then some [] else (s.splitOn ",").mapM parseNat?

/-- lines carry record ids: `ser = id`, `de = some`, never blank -/
def idDe (n : Nat) : Option Nat := some n

def shardsLines (hdr : Bool) (total per : Nat) : String :=
  -- the file: optional header (`none`) followed by `total` rows
  let rows : List (Option Nat) := (List.range total).map some
  let file := csvWrite hdr none (fun r => r) rows
  let body := csvBody hdr file
  let de : Option Nat → Option Nat := fun l => l
  let blank : Option Nat → Bool := fun _ => false
  let ranges := mkRanges body.length per
  let parts := match splitView blank de body per with
    | some ps => showNats (ps.map List.length)
    | none => "NONE"
  let s := match runSeq blank de body with
    | .ok v => toString v.length
    | _ => "ERR"
  let q := match runPar blank de body per with
    | .ok v => toString v.length
    | .err => "ERR"
    | .panic => "PANIC"
  let v := match csvRead hdr de file with
    | some v => toString v.length
    | none => "ERR"
  s!"T{body.length} R{showRanges ranges} P{parts} S{s} Q{q} V{v}"

def shardsParquet (sizes : List Nat) (per : Nat) : String :=
  -- rows are numbered consecutively across the groups
  let groups : List (List Nat) :=
    (sizes.foldl (fun (acc : Nat × List (List Nat)) sz =>
      (acc.1 + sz, acc.2 ++ [List.range' acc.1 sz])) (0, [])).2
  let ranges := mkGroupRanges groups.length per
  let parts := parquetSplit groups per
  let total := (sizes.foldl (· + ·) 0)
  let s := parquetSeq groups per
  let q := parts.flatten
  let v := parquetAll groups
  let okIds (l : List Nat) : String :=
    if l == List.range l.length then toString l.length else "X"
  s!"T{total} R{showRanges ranges} P{showNats (parts.map List.length)} S{okIds s} Q{okIds q} V{okIds v}"

def handleShards : List String → String
  | ["parquet", gs, per] =>
    match nats? gs, parseNat? per with
    | some gs, some per => shardsParquet gs per
    | _, _ => "BAD-OP"
  | [fmt, total, per] =>
    match parseNat? total, parseNat? per with
    | some total, some per =>
      if fmt == "jsonl" || fmt == "csv" then shardsLines false total per
      else if fmt == "csvh" then shardsLines true total per
      else "BAD-OP"
    | _, _ => "BAD-OP"
  | _ => "BAD-OP"

def shards? (s : String) : Option (Option Nat) :=
  if s == "none" then some none else (parseNat? s).map some

def showCell : Option Nat → String
  | none => "H"
  | some i => toString i

def handleParWrite : List String → String
  | [fmt, n, sh, auto, via] =>
    match parseNat? n, shards? sh, kv? "auto" [auto], kv? "via" [via] with
    | some n, some sh, some auto, some via =>
      match parseNat? auto with
      | none => "BAD-OP"
      | some auto =>
        let data := List.range n
        if fmt == "jsonl" && (via == "fn" || via == "pc") then
          -- PCollection::write_jsonl_par = collect_seq (identity on an in-memory source) + the free fn
          match parWriteJsonl data sh auto with
          | none => "PANIC"
          | some w =>
            let b := if n = 0 then [] else jsonlShardBounds n (shardCount sh auto n)
            s!"OK B{showBounds b} W{showNats w}"
        else if (fmt == "csv" || fmt == "csvh") && via == "fn" then
          let hdr := fmt == "csvh"
          match parWriteCsv hdr (none : Option Nat) some data sh auto with
          | none => "PANIC"
          | some w =>
            let b := if n = 0 then [] else splitRanges n (shardCount sh auto n)
            s!"OK B{showBounds b} W{joinWith "," (w.map showCell)}"
        else if (fmt == "csv" || fmt == "csvh") && via == "pc" then
          -- PCollection::write_csv_par = collect_par(shards) + write_csv_vec
          let hdr := fmt == "csvh"
          let w := csvWrite hdr (none : Option Nat) some (collectParVec data (sh.getD auto))
          s!"OK B- W{joinWith "," (w.map showCell)}"
        else "BAD-OP"
    | _, _, _, _ => "BAD-OP"
  | _ => "BAD-OP"

/-! ### JSONL byte level, records = JSON integers -/

def jsonWs (c : Char) : Bool := c == ' ' || c == '\t' || c == '\n' || c == '\r'

def trimJsonWs (l : List Char) : List Char :=
  ((l.dropWhile jsonWs).reverse.dropWhile jsonWs).reverse

/-- canonical JSON integer in the `i64` range (no leading zeros, no `-0`, no `+`) -/
def deInt (l : List Char) : Option Int :=
  let t := trimJsonWs l
  let (neg, ds) := match t with
    | '-' :: r => (true, r)
    | r => (false, r)
  if ds.isEmpty || !ds.all Char.isDigit then none
  else if ds.length > 1 && ds.head? == some '0' then none
  else
    let n := ds.foldl (fun acc c => acc * 10 + (c.toNat - '0'.toNat)) 0
    if neg && n == 0 then none
    else
      let v : Int := if neg then - (Int.ofNat n) else Int.ofNat n
      if v < -9223372036854775808 || v > 9223372036854775807 then none else some v

def showInts (xs : List Int) : String := joinWith "," (xs.map toString)

def hexToChars? (h : String) : Option (List Char) :=
  if h == "-" then some []
  else do
    let bs ← hexToBytes? h.toList
    let ba := ByteArray.mk (bs.map UInt8.ofNat).toArray
    let s ← String.fromUTF8? ba
    pure s.toList

def handleJsonlRd : List String → String
  | [hex, per] =>
    match hexToChars? hex, parseNat? per with
    | some bytes, some per =>
      let ls := splitLines bytes
      let ranges := mkRanges ls.length per
      let seq := match runSeq blankLine deInt ls with
        | .ok v => "OK " ++ showInts v
        | _ => "ERR"
      let par := match splitView blankLine deInt ls per with
        | some parts => "OK " ++ joinWith "|" (parts.map showInts)
        | none =>
          match runPar blankLine deInt ls per with
          | .ok v => "FALLBACK " ++ showInts v
          | _ => "PANIC"
      let vec := match readAll blankLine deInt ls with
        | some v => "OK " ++ showInts v
        | none => "ERR"
      s!"T{ls.length} R{showRanges ranges} SEQ {seq} PAR {par} VEC {vec}"
    | _, _ => "BAD-OP"
  | _ => "BAD-OP"

/-! ### glob order -/

def pathOf (s : String) : PathC :=
  (s.splitOn "/").map fun c => c.toUTF8.toList.map (·.toNat)

def fileSpec? (idx : Nat) (s : String) : Option (PathC × List Nat) :=
  match s.splitOn ":" with
  | [p, c] => (parseNat? c).map fun c => (pathOf p, List.replicate c idx)
  | _ => none

def handleGlob : List String → String
  | [spec] =>
    let items := if spec == "-" then [] else spec.splitOn ","
    match (items.zipIdx.mapM fun (s, i) => fileSpec? i s) with
    | none => "BAD-OP"
    | some files =>
      -- every file lists its own index once per record; an empty file contributes nothing
      match globRead (readAll (fun _ => false) idDe) files with
      | none => "ERR"
      | some ids =>
        let order := (sortPaths (files.zipIdx.map fun (f, i) => (f.1, i))).map (·.2)
        s!"F{showNats order} N{ids.length} I{showNats ids}"
  | _ => "BAD-OP"

def handleSplitR : List String → String
  | [len, parts] =>
    match parseNat? len, parseNat? parts with
    | some len, some parts => showBounds (splitRanges len parts)
    | _, _ => "BAD-OP"
  | _ => "BAD-OP"

def handlers : List (String × (List String → String)) :=
  [("SHARDS", handleShards), ("SPLITR", handleSplitR), ("PARWRITE", handleParWrite), ("JSONLRD", handleJsonlRd),
   ("GLOB", handleGlob)]

end IB.D09
