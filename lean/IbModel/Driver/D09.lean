import IbModel.Util.Wire
/-! Driver handlers for C09 (request kinds served for that property). -/
namespace IB.D09

def handlers : List (String × (List String → String)) := []

end IB.D09
