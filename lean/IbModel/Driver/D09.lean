import IbModel.Util.Wire
import IbModel.Model.Io
/-!
Driver handlers for C09.

* `SHARDS <jsonl|csv|csvh> <total> <per>` / `SHARDS parquet <g1,g2,…|-> <per>`
    ↦ `T<total> R<a-b,…|-> P<sizes|-> S<n> Q<n> V<n>`
  (ranges of `build_*_shards`, partition sizes of `VecOps::split`, length of `clone_any`
  (= `collect_seq`), of the parallel concatenation (= `collect_par`) and of `read_*_vec`).
* `PARWRITE <jsonl|csv|csvh> <n> <shards|none> auto=<a> via=<fn|pc>`
    ↦ `OK B<i:s-e,…|-> W<H|id,…|->` | `PANIC`
* `JSONLRD <hex bytes|-> <per>` (records are JSON integers)
    ↦ `T<total> R<…> SEQ <OK ids|ERR> PAR <OK a,b|c | PANIC> VEC <OK ids|ERR>`
* `SPLITR <len> <parts>` ↦ `split_ranges(len, parts)` as `idx:start-end,…`
* `GLOB <path:count,…>` ↦ `F<file indices in read order> N<total records>`
* `SHARDS parquetw <n> <per>` — a file written by `write_parquet_vec` (row groups = `pqWrite 1048576`)
* `PQBAD <g1,..|-> <per> <schema|gone>` ↦ `R<ranges> SPLIT <NONE|sizes> SEQ <OK n|ERR> PAR <OK n|PANIC> VEC <OK n|ERR>`
  (every batch undecodable / file vanished after the shards were built)
* `PARFS <jsonl|csv|csvh> <n> <shards|none> auto=<a> pre=<i:k,..|-> tgt=<k|->` ↦ `OK W<H|id,..> L<stale part idx left>`
  (directory with stale part files `i` holding `k` lines and an older target of `k` lines)
* `CSVRD <0|1> <per> <g<int>|b|r,..|->` (all records of the file; `b` = does not deserialise, `r` = reader error)
    ↦ as `JSONLRD`
* `WRJSONL <ints|-> <shards|none> auto=<a>` ↦ `SEQ <hex|-> PAR <hex|-|PANIC>` (bytes of `write_jsonl_vec` / `write_jsonl_par`)
* `RDHELPER <hex path> lit=<count|-> glob=<path:count,..|->` ↦ `N<n> I<owner,..>` | `ERR`
* `MKDIR <writer>` ↦ `OK` | `ERR` (target below a missing directory)
* `PQGROUPS <n>` ↦ row-group sizes of a file written by `write_parquet_vec` from `n` rows
-/
namespace IB.D09
open IB.Wire IB.Io

def joinWith (sep : String) (xs : List String) : String :=
  if xs.isEmpty then "-" else sep.intercalate xs

def showRanges (rs : List (Nat × Nat)) : String :=
  joinWith "," (rs.map fun r => s!"{r.1}-{r.2}")

def showNats (xs : List Nat) : String := joinWith "," (xs.map toString)

def showBounds (bs : List (Nat × Nat × Nat)) : String :=
  joinWith "," (bs.map fun b => s!"{b.1}:{b.2.1}-{b.2.2}")

def nats? (s : String) : Option (List Nat) :=
  if s == "-" then some [] else (s.splitOn ",").mapM parseNat?

/-- lines carry record ids: `ser = id`, `de = some`, never blank -/
def idDe (n : Nat) : Option Nat := some n

def shardsLines (hdr : Bool) (total per : Nat) : String :=
  -- the file: optional header (`none`) followed by `total` rows
  let rows : List (Option Nat) := (List.range total).map some
  let file := csvWrite hdr none (fun r => r) rows
  let body := csvBody hdr file
  let de : Option Nat → Option Nat := fun l => l
  let blank : Option Nat → Bool := fun _ => false
  let ranges := mkRanges body.length per
  let parts := match splitView blank de body per with
    | some ps => showNats (ps.map List.length)
    | none => "NONE"
  let s := match runSeq blank de body with
    | .ok v => toString v.length
    | _ => "ERR"
  let q := match runPar blank de body per with
    | .ok v => toString v.length
    | .err => "ERR"
    | .panic => "PANIC"
  let v := match csvRead hdr de file with
    | some v => toString v.length
    | none => "ERR"
  s!"T{body.length} R{showRanges ranges} P{parts} S{s} Q{q} V{v}"

def shardsParquet (sizes : List Nat) (per : Nat) : String :=
  -- rows are numbered consecutively across the groups
  let groups : List (List Nat) :=
    (sizes.foldl (fun (acc : Nat × List (List Nat)) sz =>
      (acc.1 + sz, acc.2 ++ [List.range' acc.1 sz])) (0, [])).2
  let ranges := mkGroupRanges groups.length per
  let parts := parquetSplit groups per
  let total := (sizes.foldl (· + ·) 0)
  let s := parquetSeq groups per
  let q := parts.flatten
  let v := parquetAll groups
  let okIds (l : List Nat) : String :=
    if l == List.range l.length then toString l.length else "X"
  -- the batch-level definitions (identity decoding) must give the same answers
  let dec : List Nat → Option (List Nat) := readAll (fun _ => false) some
  let same := pqSplit true 1024 dec groups per == some parts && pqSeq true 1024 dec groups per == some s &&
    pqReadAll true 65536 dec groups == some v
  if !same then "MODEL-INCONSISTENT" else
  s!"T{total} R{showRanges ranges} P{showNats (parts.map List.length)} S{okIds s} Q{okIds q} V{okIds v}"

def groupsOf (sizes : List Nat) : List (List Nat) :=
  (sizes.foldl (fun (acc : Nat × List (List Nat)) sz =>
    (acc.1 + sz, acc.2 ++ [List.range' acc.1 sz])) (0, [])).2

def handleShards : List String → String
  | ["parquet", gs, per] =>
    match nats? gs, parseNat? per with
    | some gs, some per => shardsParquet gs per
    | _, _ => "BAD-OP"
  | ["parquetw", n, per] =>
    match parseNat? n, parseNat? per with
    | some n, some per =>
      -- `write_parquet_vec`: default `WriterProperties` ⇒ row groups of at most 1 Mi rows
      shardsParquet ((pqWrite 1048576 (fun r => r) (List.range n)).map List.length) per
    | _, _ => "BAD-OP"
  | [fmt, total, per] =>
    match parseNat? total, parseNat? per with
    | some total, some per =>
      if fmt == "jsonl" || fmt == "csv" then shardsLines false total per
      else if fmt == "csvh" then shardsLines true total per
      else "BAD-OP"
    | _, _ => "BAD-OP"
  | _ => "BAD-OP"

def shards? (s : String) : Option (Option Nat) :=
  if s == "none" then some none else (parseNat? s).map some

def showCell : Option Nat → String
  | none => "H"
  | some i => toString i

def handleParWrite : List String → String
  | [fmt, n, sh, auto, via, hw] =>
    match parseNat? n, shards? sh, kv? "auto" [auto], kv? "via" [via], (kv? "hw" [hw]).bind parseNat? with
    | some n, some sh, some auto, some via, some hw =>
      match parseNat? auto with
      | none => "BAD-OP"
      | some auto =>
        let data := List.range n
        if fmt == "jsonl" && (via == "fn" || via == "pc") then
          -- PCollection::write_jsonl_par = collect_seq (identity on an in-memory source) + the free fn
          match (if via == "pc" then pcWriteJsonlPar data sh auto else parWriteJsonl data sh auto) with
          | none => "PANIC"
          | some w =>
            let b := if n = 0 then [] else jsonlShardBounds n (shardCount sh auto n)
            s!"OK B{showBounds b} W{showNats w}"
        else if (fmt == "csv" || fmt == "csvh") && via == "fn" then
          let hdr := fmt == "csvh"
          match parWriteCsv hdr (none : Option Nat) some data sh auto with
          | none => "PANIC"
          | some w =>
            let b := if n = 0 then [] else splitRanges n (shardCount sh auto n)
            s!"OK B{showBounds b} W{joinWith "," (w.map showCell)}"
        else if (fmt == "csv" || fmt == "csvh") && via == "pc" then
          -- PCollection::write_csv_par = collect_par(threads := shards, partitions := planner suggestion) + write_csv_vec
          let hdr := fmt == "csvh"
          let w := pcWriteCsvPar hdr (none : Option Nat) some data sh hw
          s!"OK B- W{joinWith "," (w.map showCell)}"
        else "BAD-OP"
    | _, _, _, _, _ => "BAD-OP"
  | _ => "BAD-OP"

/-! ### JSONL byte level, records = JSON integers (`deInt` is the model's, see `intCodec`) -/

def showInts (xs : List Int) : String := joinWith "," (xs.map toString)

def hexToChars? (h : String) : Option (List Char) :=
  if h == "-" then some []
  else do
    let bs ← hexToBytes? h.toList
    let ba := ByteArray.mk (bs.map UInt8.ofNat).toArray
    let s ← String.fromUTF8? ba
    pure s.toList

def handleJsonlRd : List String → String
  | [hex, per] =>
    match hexToChars? hex, parseNat? per with
    | some bytes, some per =>
      let ls := splitLines bytes
      let ranges := mkRanges ls.length per
      let seq := match runSeq blankLine deInt ls with
        | .ok v => "OK " ++ showInts v
        | _ => "ERR"
      let par := match splitView blankLine deInt ls per with
        | some parts => "OK " ++ joinWith "|" (parts.map showInts)
        | none =>
          match runPar blankLine deInt ls per with
          | .ok v => "FALLBACK " ++ showInts v
          | _ => "PANIC"
      let vec := match readAll blankLine deInt ls with
        | some v => "OK " ++ showInts v
        | none => "ERR"
      s!"T{ls.length} R{showRanges ranges} SEQ {seq} PAR {par} VEC {vec}"
    | _, _ => "BAD-OP"
  | _ => "BAD-OP"

/-! ### glob order -/

def pathOf (s : String) : PathC :=
  (s.splitOn "/").map fun c => c.toUTF8.toList.map (·.toNat)

def fileSpec? (idx : Nat) (s : String) : Option (PathC × List Nat) :=
  match s.splitOn ":" with
  | [p, c] => (parseNat? c).map fun c => (pathOf p, List.replicate c idx)
  | _ => none

def handleGlob : List String → String
  | [spec] =>
    let items := if spec == "-" then [] else spec.splitOn ","
    match (items.zipIdx.mapM fun (s, i) => fileSpec? i s) with
    | none => "BAD-OP"
    | some files =>
      -- every file lists its own index once per record; an empty file contributes nothing
      match globRead (readAll (fun _ => false) idDe) files with
      | none => "ERR"
      | some ids =>
        let order := (sortPaths (files.zipIdx.map fun (f, i) => (f.1, i))).map (·.2)
        s!"F{showNats order} N{ids.length} I{showNats ids}"
  | _ => "BAD-OP"

def handleSplitR : List String → String
  | [len, parts] =>
    match parseNat? len, parseNat? parts with
    | some len, some parts => showBounds (splitRanges len parts)
    | _, _ => "BAD-OP"
  | _ => "BAD-OP"


/-! ### Parquet failure outcomes -/

def handlePqBad : List String → String
  | [gs, per, kind] =>
    match nats? gs, parseNat? per with
    | some sizes, some per =>
      if kind != "schema" && kind != "gone" then "BAD-OP" else
      let groups := groupsOf sizes
      let opened := kind != "gone"
      -- `schema`: no row of the file deserialises into the requested record type
      let dec : List Nat → Option (List Nat) :=
        readAll (fun _ => false) (fun r => if kind == "schema" then none else some r)
      let ranges := mkGroupRanges groups.length per
      let sp := match pqSplit opened 1024 dec groups per with
        | some ps => showNats (ps.map List.length)
        | none => "NONE"
      let sq := match runSeqP opened 1024 dec groups per with
        | .ok v => s!"OK {v.length}"
        | .err => "ERR"
        | .panic => "PANIC"
      let pr := match runParP opened 1024 dec groups per with
        | .ok v => s!"OK {v.length}"
        | .err => "ERR"
        | .panic => "PANIC"
      let v := match pqReadAll opened 65536 dec groups with
        | some v => s!"OK {v.length}"
        | none => "ERR"
      s!"R{showRanges ranges} SPLIT {sp} SEQ {sq} PAR {pr} VEC {v}"
    | _, _ => "BAD-OP"
  | _ => "BAD-OP"

/-! ### the directory around the parallel writers -/

def pairs? (s : String) : Option (List (Nat × Nat)) :=
  if s == "-" then some []
  else (s.splitOn ",").mapM fun t =>
    match t.splitOn ":" with
    | [a, b] => do pure ((← parseNat? a), (← parseNat? b))
    | _ => none

/-- `k` stale lines (ids from `1000·(i+1)`) -/
def staleLines (i k : Nat) : List Char :=
  writeJsonl (fun (v : Nat) => serNat v) ((List.range k).map (· + 1000 * (i + 1)))

def cellsOf (bytes : List Char) : String :=
  joinWith "," ((splitLines bytes).map fun l => String.ofList l)

def handleParFs : List String → String
  | [fmt, n, sh, auto, pre, tgt] =>
    match parseNat? n, shards? sh, (kv? "auto" [auto]).bind parseNat?, (kv? "pre" [pre]).bind pairs?,
        kv? "tgt" [tgt] with
    | some n, some sh, some auto, some pre, some tgt =>
      let tgt? : Option (Option Nat) := if tgt == "-" then some none else (parseNat? tgt).map some
      match tgt? with
      | none => "BAD-OP"
      | some tgt =>
        let part : Nat → String := fun i => s!"part{i}"
        let fs0 : Fs := fun q =>
          if q == "target" then tgt.map (staleLines 50)
          else (pre.find? fun p => part p.1 == q).map fun p => staleLines p.1 p.2
        let data := List.range n
        let left (fs : Fs) : String := showNats ((pre.filter fun p => (fs (part p.1)).isSome).map (·.1))
        if fmt == "jsonl" then
          match parWriteJsonlFs (fun (v : Nat) => serNat v) part "target" data sh auto fs0 with
          | none => "PANIC"
          | some fs => s!"OK W{cellsOf ((fs "target").getD ['?'])} L{left fs}"
        else if fmt == "csv" || fmt == "csvh" then
          match parWriteCsv (fmt == "csvh") (none : Option Nat) some data sh auto with
          | none => "PANIC"
          | some w =>
            let bytes := (w.map fun c => (showCell c).toList ++ ['\n']).flatten
            let fs := parWriteCsvFs fs0 "target" bytes
            s!"OK W{cellsOf ((fs "target").getD ['?'])} L{left fs}"
        else "BAD-OP"
    | _, _, _, _, _ => "BAD-OP"
  | _ => "BAD-OP"

/-! ### CSV at the record level: good / undeserialisable / reader-error records -/

inductive CsvTok
  | good (v : Int) | bad | ragged

def csvTok? (s : String) : Option CsvTok :=
  if s == "b" then some .bad
  else if s == "r" then some .ragged
  else if s.startsWith "g" then (parseInt? (s.drop 1).toString).map .good
  else none

def csvDe : CsvTok → Option Int
  | .good v => some v
  | _ => none

def handleCsvRd : List String → String
  | [hdr, per, spec] =>
    let toks? := if spec == "-" then some [] else (spec.splitOn ",").mapM csvTok?
    match toks?, parseNat? per with
    | some file, some per =>
      if hdr != "0" && hdr != "1" then "BAD-OP" else
      let h := hdr == "1"
      let body := csvBody h file
      let blank : CsvTok → Bool := fun _ => false
      let ranges := mkRanges body.length per
      let seq := match runSeq blank csvDe body with
        | .ok v => "OK " ++ showInts v
        | _ => "ERR"
      let par := match splitView blank csvDe body per with
        | some parts => "OK " ++ joinWith "|" (parts.map showInts)
        | none =>
          match runPar blank csvDe body per with
          | .ok v => "FALLBACK " ++ showInts v
          | _ => "PANIC"
      let vec := match csvRead h csvDe file with
        | some v => "OK " ++ showInts v
        | none => "ERR"
      s!"T{body.length} R{showRanges ranges} SEQ {seq} PAR {par} VEC {vec}"
    | _, _ => "BAD-OP"
  | _ => "BAD-OP"

/-! ### bytes of the JSONL writers, records = `i64` -/

def hexOfChars (cs : List Char) : String :=
  if cs.isEmpty then "-" else bytesToHex (cs.map Char.toNat)

def i64? (v : Int) : Option I64 :=
  if h : -9223372036854775808 ≤ v ∧ v ≤ 9223372036854775807 then some ⟨v, h⟩ else none

def handleWrJsonl : List String → String
  | [ints, sh, auto] =>
    let vs? : Option (List I64) :=
      if ints == "-" then some [] else (ints.splitOn ",").mapM fun t => (parseInt? t).bind i64?
    match vs?, shards? sh, (kv? "auto" [auto]).bind parseNat? with
    | some vs, some sh, some auto =>
      let par := match parWriteJsonlBytes serI64 vs sh auto with
        | some b => hexOfChars b
        | none => "PANIC"
      s!"SEQ {hexOfChars (writeJsonl serI64 vs)} PAR {par}"
    | _, _, _ => "BAD-OP"
  | _ => "BAD-OP"

/-! ### path helpers -/

def handleRdHelper : List String → String
  | [hexpath, lit, globSpec] =>
    match hexToChars? hexpath, kv? "lit" [lit], kv? "glob" [globSpec] with
    | some path, some lit, some spec =>
      let lit? : Option (Option (List Nat)) :=
        if lit == "-" then some none else (parseNat? lit).map fun c => some (List.replicate c 1000000)
      let items := if spec == "-" then [] else spec.splitOn ","
      match lit?, (items.zipIdx.mapM fun (s, i) => fileSpec? i s) with
      | some literal, some files =>
        match readHelper (readAll (fun _ => false) idDe) path literal files with
        | none => "ERR"
        | some ids => s!"N{ids.length} I{joinWith "," (ids.map fun i => if i == 1000000 then "L" else toString i)}"
      | _, _ => "BAD-OP"
    | _, _, _ => "BAD-OP"
  | _ => "BAD-OP"

/-- row-group sizes of a file written by `write_parquet_vec` from `n` rows -/
def handlePqGroups : List String → String
  | [n] =>
    match parseNat? n with
    | some n => showNats ((pqWrite 1048576 (fun r => r) (List.range n)).map List.length)
    | none => "BAD-OP"
  | _ => "BAD-OP"

def handleMkdir : List String → String
  | [writer] =>
    match writeAt (createsParents writer) false () with
    | some _ => "OK"
    | none => "ERR"
  | _ => "BAD-OP"

def handlers : List (String × (List String → String)) :=
  [("SHARDS", handleShards), ("SPLITR", handleSplitR), ("PARWRITE", handleParWrite), ("JSONLRD", handleJsonlRd),
   ("GLOB", handleGlob), ("PQBAD", handlePqBad), ("PARFS", handleParFs), ("CSVRD", handleCsvRd),
   ("WRJSONL", handleWrJsonl), ("RDHELPER", handleRdHelper), ("MKDIR", handleMkdir), ("PQGROUPS", handlePqGroups)]

end IB.D09
