import IbModel.Driver.PipeParse
import IbModel.Model.ProgramJoinX
/-! Parsing of `PIPEJ` requests: `PIPE` syntax plus the top-level steps
`joinx <kind> other [ rows ; steps ]`, `joinx <kind> shared [ ; steps ] [ ; steps ]`,
`joinx <kind> sibling [ rows ; steps ] [ rows ; steps ]` (driver glue; not the subject of theorems). -/
namespace IB.PipeParseX
open IB IB.Wire IB.PipeParse

/-- `[ rows ; steps ]` -/
def side? (toks : List String) : Option ((List Val × List Step) × List String) :=
  match toks with
  | "[" :: r => do
      let (src, r) ← rows? r
      let (steps, r) ← steps? (r.length + 2) r
      match r with
      | "]" :: r => pure ((src, steps), r)
      | _ => none
  | _ => none

/-- `[ ; steps ]` (no rows) -/
def stepsOnly? (toks : List String) : Option (List Step × List String) :=
  match toks with
  | "[" :: r => do
      let (steps, r) ← steps? (r.length + 2) r
      match r with
      | "]" :: r => pure (steps, r)
      | _ => none
  | _ => none

def xstep? (toks : List String) : Option (XStep × List String) :=
  match toks with
  | "joinx" :: k :: "other" :: r => do
      let k ← kind? k
      let ((src, steps), r) ← side? r
      pure (.joinOther k src steps, r)
  | "joinx" :: k :: "shared" :: r => do
      let k ← kind? k
      let (ls, r) ← stepsOnly? r
      let (rs, r) ← stepsOnly? r
      pure (.joinShared k ls rs, r)
  | "joinx" :: k :: "sibling" :: r => do
      let k ← kind? k
      let ((src, steps), r) ← side? r
      let ((ssrc, ssteps), r) ← side? r
      pure (.joinSibling k src steps ssrc ssteps, r)
  | r => (step? (r.length + 2) r).map (fun p => (.plain p.1, p.2))

def xsteps? : Nat → List String → Option (List XStep)
  | 0, _ => none
  | _, [] => some []
  | fuel + 1, ";" :: r =>
    match xstep? r with
    | some (s, r') => (xsteps? fuel r').map (s :: ·)
    | none => none
  | _, _ => none

structure XReq where
  mode : String
  canon : String
  src : List Val
  steps : List XStep

def parseXReq (toks : List String) : Option XReq :=
  match toks with
  | m :: c :: "src" :: r =>
    if m.startsWith "mode=" && c.startsWith "canon=" then
      match rows? r with
      | some (src, r) =>
        match xsteps? (r.length + 2) r with
        | some steps => some { mode := (m.drop 5).toString, canon := (c.drop 6).toString, src, steps }
        | none => none
      | none => none
    else none
  | _ => none

end IB.PipeParseX
