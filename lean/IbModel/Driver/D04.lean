import IbModel.Util.Wire
/-! Driver handlers for C04 (request kinds served for that property). -/
namespace IB.D04

def handlers : List (String × (List String → String)) := []

end IB.D04
