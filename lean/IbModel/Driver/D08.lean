import IbModel.Util.Wire
import IbModel.Model.Pipeline
/-!
Driver handlers for C08.

`GRAPH <n> <prog_0> … <prog_{n-1}> <schedule>`  — replay one linearisation (schedule = thread id per atomic
step, digits) of `n` thread programs on the model of the shared pipeline graph (`IB.Graph.run`, the very
function the theorems of `Props/C08.lean` are about) and answer with the lock-site trace, the final graph,
the number of user-function calls implied by the threads' traces of user-code runs (`Thread.calls`) and every
operation's outcome:

`n=<nextId> N=<id>:<S|T|K|V|A|G>,… E=<from>-<to>,… T=(<tid><site><#nodes>.<#edges> after the step)… U=<calls> t0=<outcomes> t1=… `

program = ops joined by `;` (`-` = empty):
  `S<rows>`            from_vec of `(k,v)` rows (`k.v` joined by `_`)
  `U<rows>`            from_custom_source with a user `VecOps` over the same rows
  `R<n>/<rows>` / `X<n>/<rows>`  read_jsonl_streaming / read_csv_streaming of a file holding the rows, `n` lines per shard
  `D<ref>/<fn>`        a stateless builder on an existing collection of any element type; fn ∈
                       `a<n>` map v+n | `m<n>` map v*n | `k<m>` map k:=(k+pv) mod m | `f<m>.<r>` filter: keep pv mod m ≠ r |
                       `x<n>` flat_map: pv mod 3 = 0 → nothing, 1 → the row, 2 → the row and the row with v+n |
                       `B<size>.<n>` map_batches(size, v+n) | `T<n>` apply_transform(custom DynOp v+n) |
                       `i<n>` debug_inspect_with (identity, the inspector is a user function)
                       (pv = the value, or the sum of a group; user-function calls are counted per ELEMENT seen)
  `W<ref>/<vfn>`       a value-only builder on a `(k,v)` collection; vfn ∈ `m<c>` map_values v*c (c odd) |
                       `f<r>` filter_values: keep v mod 2 ≠ r | `b<size>.<c>` map_values_batches(size, v*c)
                       (these commute, so the planner's value-only reorder pass — filters first, then by cost hint — is
                       invisible in the rows; it IS visible in the call counts, so `exec` below contains it)
  `G<ref>`             group_by_key of a `(k,v)` collection
  `V<ref>/<bias>`      combine_values(sum+bias) of a `(k,v)` collection
  `L<ref>/<bias>`      combine_values_lifted(sum+bias) of a grouped collection
  `A<ref>/<bias>/<fanout|n>`  combine_globally((Σk mod 2, Σv+bias), fanout) of a `(k,v)` collection
  `Q<ref>/<bias>/<fanout|n>`  combine_globally_lifted of the same combiner
  `J<i|l|r|f><ref>/<ref>`  join_inner / _left / _right / _full of two existing `(k,v)` collections
  `C<ref>/<mode>`      collect; mode `s` collect_seq | `p<parts>` collect_par(None, parts) | `c` collect() |
                       `o` collect_seq_sorted | `q<parts>` collect_par_sorted | `t<threads>` collect_par(threads, None) |
                       `k` / `K<parts>` a `Runner` with checkpointing enabled, sequential / parallel
                       (the model's answer does not depend on the mode)
  `M+` / `M-` / `M?`   set_metrics / take_metrics / get_metrics
ref = `f<k>` pool[k mod len] | `b<k>` pool from the back | `m<k>` own results from the back (else pool)
outcome = `B<id>` built | `C<id>:<sorted rows>` collected | `K` skipped | `P` panicked | `C<id>:ERR…` |
          `M` metrics set | `M1`/`M0` take_metrics returned Some/None | `M?1`/`M?0` get_metrics returned Some/None
row = `k.v` | `k.v.w` (join; `n` = None) | `k.g<v1>+<v2>…` (group, values sorted)

`GINV <nextId> <ids> <edges>` — evaluates the decidable graph invariant on a snapshot taken from the REAL
pipeline after a free-running multi-threaded build (answer `T`/`F`).
-/
namespace IB.D08
open IB.Wire IB.Graph

inductive Fn where
  | add (n : Int) | mul (n : Int) | rekey (m : Nat) | drop (m r : Nat)
  | flat (n : Int) | ident
  | vmul (c : Int) | vfil (r : Nat) | vbat (c : Int)      -- value-only: map_values / filter_values / map_values_batches

inductive Cell where
  | absent | null | val (i : Int) | list (l : List Int)

structure Row where
  k : Int
  v : Cell
  w : Cell

/-- a node inside a join's captured sub-chain (a nested `CoGroup` is only a marker: the engine bails) -/
inductive Flat where
  | src (rows : List Row) | op (f : Fn) | dummy | gbk | cv (b : Int) | cvl (b : Int) | cg (b : Int) | cog

/-- node payload of the driver's instance of the graph model -/
inductive ND where
  | flat (n : Flat) | cog (tag : Nat) (l r : List Flat)

def ND.toFlat : ND → Flat
  | .flat n => n
  | .cog _ _ _ => .cog

def kit : Kit ND := ⟨.flat .dummy, fun tag l r => .cog tag (l.map ND.toFlat) (r.map ND.toFlat)⟩

def Cell.pv : Cell → Int
  | .val i => i
  | .list l => l.sum
  | _ => 0

def Cell.mapv (g : Int → Int) : Cell → Cell
  | .val i => .val (g i)
  | .list l => .list (l.map g)
  | c => c

def applyFn (f : Fn) (rows : List Row) : List Row :=
  match f with
  | .add n => rows.map (fun r => { r with v := r.v.mapv (· + n) })
  | .mul n => rows.map (fun r => { r with v := r.v.mapv (· * n) })
  | .rekey m => rows.map (fun r => { r with k := (r.k + r.v.pv) % (Int.ofNat m) })
  | .drop m r => rows.filter (fun x => x.v.pv % (Int.ofNat m) != Int.ofNat r)
  | .flat n => rows.flatMap (fun r =>
      let m := r.v.pv % 3
      if m == 0 then [] else if m == 1 then [r] else [r, { r with v := r.v.mapv (· + n) }])
  | .ident => rows
  | .vmul c => rows.map (fun r => { r with v := r.v.mapv (· * c) })
  | .vfil q => rows.filter (fun x => x.v.pv % 2 != Int.ofNat q)
  | .vbat c => rows.map (fun r => { r with v := r.v.mapv (· * c) })

/-- `DynOp::value_only() && key_preserving() && reorder_safe_with_value_only()` (collection.rs) -/
def Fn.valueOnly : Fn → Bool
  | .vmul _ | .vfil _ | .vbat _ => true
  | _ => false

/-- `DynOp::cost_hint()`: filter_values 1, map_values_batches 2, map_values 3 -/
def Fn.cost : Fn → Nat
  | .vfil _ => 1
  | .vbat _ => 2
  | .vmul _ => 3
  | _ => 10

/-- planner.rs `fuse_stateless` + `reorder_value_only_runs`: a maximal run of adjacent stateless ops, ALL value-only
    and more than one, is stably sorted by `(cost ≠ 1, cost)` -/
def planRun (ops : List Fn) : List Fn :=
  if ops.length > 1 && ops.all Fn.valueOnly then
    ops.mergeSort (fun a b => decide ((if a.cost == 1 then a.cost else 100 + a.cost) ≤ (if b.cost == 1 then b.cost else 100 + b.cost)))
  else ops

def keysOf (rows : List Row) : List Int := (rows.map (·.k)).eraseDups

def Cell.vals : Cell → List Int
  | .val i => [i]
  | .list l => l
  | _ => []

/-- `group_by_key` -/
def groupRows (rows : List Row) : List Row :=
  (keysOf rows).map (fun k => { k := k, v := .list ((rows.filter (·.k == k)).flatMap (·.v.vals)), w := .absent })

/-- `combine_values(sum+bias)` on pairs, `combine_values_lifted(sum+bias)` on groups (a repeated key's groups are merged) -/
def combineRows (b : Int) (rows : List Row) : List Row :=
  (keysOf rows).map (fun k => { k := k, v := .val (((rows.filter (·.k == k)).map (·.v.pv)).sum + b), w := .absent })

/-- `combine_globally`: always exactly one row -/
def globalRow (b : Int) (rows : List Row) : List Row :=
  [{ k := ((rows.map (·.k)).sum) % 2, v := .val ((rows.map (·.v.pv)).sum + b), w := .absent }]

/-- a chain cut into maximal runs of adjacent stateless ops and the other nodes -/
inductive Seg (α : Type) where
  | run (ops : List Fn)
  | node (n : α)

def segments {α : Type} (isOp : α → Option Fn) : List α → List (Seg α)
  | [] => []
  | n :: rest =>
    match isOp n, segments isOp rest with
    | some f, .run ops :: more => .run (f :: ops) :: more
    | some f, more => .run [f] :: more
    | none, more => .node n :: more

/-- a run of stateless ops on a buffer; every op's user function is called once per element it sees -/
def applyRun (ops : List Fn) (rows : List Row) (cnt : Nat) : List Row × Nat :=
  ops.foldl (fun (acc : List Row × Nat) f => (applyFn f acc.1, acc.2 + acc.1.length)) (rows, cnt)

def Flat.isOp : Flat → Option Fn
  | .op f => some f
  | _ => none

/-- one non-stateless node of a chain: new buffer and the number of user-function calls (`add_input`) it made.
    A source is read the way `exec_seq` reads it (`Model/Pipeline.lean: readSource`, `VecOpsImpl`). -/
def stepFlat (acc : Except String (Option (List Row) × Nat)) (n : Flat) : Except String (Option (List Row) × Nat) :=
  match acc with
  | .error e => .error e
  | .ok (cur, cnt) =>
    match n, cur with
    | .src rows, _ =>
      match (readSource (vecOps Row) rows none).2 with
      | some parts => .ok (some parts.flatten, cnt)
      | none => .error "ERR-unsupported-source"
    | .dummy, _ => .ok (some [], cnt)
    | .cog, _ => .error "ERR-nested"
    | _, none => .error "PANIC"
    | .op f, some rows => .ok (some (applyFn f rows), cnt + rows.length)
    | .gbk, some rows => .ok (some (groupRows rows), cnt)
    | .cv b, some rows => .ok (some (combineRows b rows), cnt + rows.length)
    | .cvl b, some rows => .ok (some (combineRows b rows), cnt + ((rows.map (·.v.vals.length)).sum))
    | .cg b, some rows => .ok (some (globalRow b rows), cnt + rows.length)

def stepSeg (planned : Bool) (acc : Except String (Option (List Row) × Nat)) (sg : Seg Flat) :
    Except String (Option (List Row) × Nat) :=
  match sg with
  | .node n => stepFlat acc n
  | .run ops =>
    match acc with
    | .error e => .error e
    | .ok (none, _) => .error "PANIC"
    | .ok (some rows, cnt) =>
      let r := applyRun (if planned then planRun ops else ops) rows cnt
      .ok (some r.1, r.2)

/-- `run_subplan_seq` on a captured chain (the planner passes do NOT run on a join's sub-chains) -/
def runSub (chain : List Flat) : Except String (List Row × Nat) :=
  match (segments Flat.isOp chain).foldl (stepSeg false) (.ok (none, 0)) with
  | .error e => .error e
  | .ok (some rows, n) => .ok (rows, n)
  | .ok (none, _) => .error "PANIC"

/-- the four `exec` closures of helpers/joins.rs -/
def joinRows (tag : Nat) (l r : List Row) : List Row :=
  let inner := l.flatMap (fun a => (r.filter (fun b => b.k == a.k)).map (fun b => { k := a.k, v := a.v, w := b.v }))
  let lonly := (l.filter (fun a => !(r.any (fun b => b.k == a.k)))).map (fun a => { k := a.k, v := a.v, w := Cell.null })
  let ronly := (r.filter (fun b => !(l.any (fun a => a.k == b.k)))).map (fun b => { k := b.k, v := Cell.null, w := b.v })
  match tag with
  | 0 => inner
  | 1 => inner ++ lonly
  | 2 => inner ++ ronly
  | _ => inner ++ lonly ++ ronly

def ND.isOp : ND → Option Fn
  | .flat (.op f) => some f
  | _ => none

/-- `exec_seq` on the chain a collect planned: stateless fusion + the value-only reorder pass are applied (they decide
    how often each user function is called); the GBK-lifting pass changes neither rows nor call counts. Result rows and
    the number of user-function calls of the run. -/
def exec (chain : List ND) : Except String (List Row × Nat) :=
  let step := fun (acc : Except String (Option (List Row) × Nat)) (sg : Seg ND) =>
    match sg with
    | .run ops => stepSeg true acc (.run ops)
    | .node (.flat f) => stepFlat acc f
    | .node (.cog tag l r) =>
      match acc with
      | .error e => .error e
      | .ok (_, cnt) =>
        match runSub l, runSub r with
        | .ok a, .ok b => .ok (some (joinRows tag a.1 b.1), cnt + a.2 + b.2)
        | .error e, _ => .error e
        | _, .error e => .error e
  match (segments ND.isOp chain).foldl step (.ok (none, 0)) with
  | .error e => .error e
  | .ok (some rows, n) => .ok (rows, n)
  | .ok (none, _) => .error "ERR-empty"

/-! ### wire -/

def showCell : Cell → String
  | .absent => ""
  | .null => "n"
  | .val i => s!"{i}"
  | .list l => "g" ++ "+".intercalate ((l.mergeSort (fun a b => decide (a ≤ b))).map (fun i => s!"{i}"))

def showRow (r : Row) : String :=
  match r.w with
  | .absent => s!"{r.k}.{showCell r.v}"
  | w => s!"{r.k}.{showCell r.v}.{showCell w}"

/-- rows are compared as rendered strings (bytewise; total on distinct rows) -/
def showRows (rows : List Row) : String :=
  if rows.isEmpty then "-" else "_".intercalate ((rows.map showRow).mergeSort (fun a b => !decide (b < a)))

def parseRow? (s : String) : Option Row :=
  match s.splitOn "." with
  | [k, v] => do pure { k := (← parseInt? k), v := .val (← parseInt? v), w := .absent }
  | _ => none

def parseRows? (s : String) : Option (List Row) :=
  if s == "" then some [] else (s.splitOn "_").mapM parseRow?

def parseRef? (s : String) : Option Ref :=
  let body := (s.drop 1).toString
  match s.front, parseNat? body with
  | 'f', some k => some (.front k)
  | 'b', some k => some (.back k)
  | 'm', some k => some (.mine k)
  | _, _ => none

def parseFn? (s : String) : Option Fn :=
  let body := (s.drop 1).toString
  match s.front with
  | 'a' => (parseInt? body).map Fn.add
  | 'm' => (parseInt? body).map Fn.mul
  | 'k' => match parseNat? body with
    | some m => if m = 0 then none else some (.rekey m)
    | none => none
  | 'f' => match body.splitOn "." with
    | [m, r] => match parseNat? m, parseNat? r with
      | some m, some r => if m = 0 then none else some (.drop m r)
      | _, _ => none
    | _ => none
  | 'x' => (parseInt? body).map Fn.flat
  | 'B' => match body.splitOn "." with
    | [sz, n] => match parseNat? sz, parseInt? n with
      | some sz, some n => if sz = 0 then none else some (.add n)
      | _, _ => none
    | _ => none
  | 'T' => (parseInt? body).map Fn.add
  | 'i' => (parseInt? body).map (fun _ => Fn.ident)
  | _ => none

def parseVFn? (s : String) : Option Fn :=
  let body := (s.drop 1).toString
  match s.front with
  | 'm' => (parseInt? body).map Fn.vmul
  | 'f' => match parseNat? body with
    | some r => if r < 2 then some (.vfil r) else none
    | none => none
  | 'b' => match body.splitOn "." with
    | [sz, c] => match parseNat? sz, parseInt? c with
      | some sz, some c => if sz = 0 then none else some (.vbat c)
      | _, _ => none
    | _ => none
  | _ => none

def parseMode? (m : String) : Bool :=
  let num := (parseNat? (m.drop 1).toString).isSome
  m == "s" || m == "c" || m == "o" || m == "k" ||
  ((m.startsWith "p" || m.startsWith "q" || m.startsWith "t" || m.startsWith "K") && num)

def parseJoinTag? (c : Char) : Option Nat :=
  match c with
  | 'i' => some 0
  | 'l' => some 1
  | 'r' => some 2
  | 'f' => some 3
  | _ => none

def parseOp? (s : String) : Option (Op ND) :=
  let body := (s.drop 1).toString
  match s.front with
  | 'S' => (parseRows? body).map (fun rows => Op.source (.flat (.src rows)))
  | 'U' => (parseRows? body).map (fun rows => Op.source (.flat (.src rows)))
  | 'R' | 'X' => match body.splitOn "/" with
    | [n, rows] => match parseNat? n with
      | some n => if n = 0 then none else (parseRows? rows).map (fun rows => Op.source (.flat (.src rows)))
      | none => none
    | _ => none
  | 'W' => match body.splitOn "/" with
    | [r, f] => do pure (Op.derive (← parseRef? r) (some (0, 0)) (.flat (.op (← parseVFn? f))))
    | _ => none
  | 'D' => match body.splitOn "/" with
    | [r, f] => do pure (Op.derive (← parseRef? r) none (.flat (.op (← parseFn? f))))
    | _ => none
  | 'G' => do pure (Op.derive (← parseRef? body) (some (0, 2)) (.flat .gbk))
  | 'V' => match body.splitOn "/" with
    | [r, b] => do pure (Op.derive (← parseRef? r) (some (0, 0)) (.flat (.cv (← parseInt? b))))
    | _ => none
  | 'L' => match body.splitOn "/" with
    | [r, b] => do pure (Op.derive (← parseRef? r) (some (2, 0)) (.flat (.cvl (← parseInt? b))))
    | _ => none
  | 'A' | 'Q' => match body.splitOn "/" with
    | [r, b, fo] =>
      if fo == "n" || (parseNat? fo).isSome then
        do pure (Op.derive (← parseRef? r) (some (0, 0)) (.flat (.cg (← parseInt? b))))
      else none
    | _ => none
  | 'J' => match (body.drop 1).toString.splitOn "/" with
    | [l, r] => do pure (Op.join (← parseRef? l) (← parseRef? r) (← parseJoinTag? body.front))
    | _ => none
  | 'C' => match body.splitOn "/" with
    | [r, m] =>
      if parseMode? m then (parseRef? r).map Op.collect else none
    | _ => none
  | 'M' => if body == "+" then some .setMetrics else if body == "-" then some .takeMetrics
    else if body == "?" then some .getMetrics else none
  | _ => none

def parseProg? (s : String) : Option (List (Op ND)) :=
  if s == "-" then some [] else (s.splitOn ";").mapM parseOp?

def parseSched? (s : String) : Option (List Nat) :=
  if s == "-" then some [] else
  s.toList.mapM (fun ch => if '0' ≤ ch ∧ ch ≤ '9' then some (ch.toNat - '0'.toNat) else none)

def siteCode (s : String) : String :=
  match s with
  | "begin" => "b"
  | "insert_node" => "i"
  | "connect" => "c"
  | "snapshot" => "s"
  | "record_metrics_start" => "m"
  | "record_metrics_end" => "e"
  | "set_metrics" => "M"
  | "take_metrics" => "K"
  | "get_metrics" => "g"
  | _ => "x"

/-- run the schedule, recording the site each step goes through -/
def runTraced (c : Cfg ND) (sched : List Nat) : Cfg ND × String :=
  sched.foldl (fun (acc : Cfg ND × String) i =>
    let site := match acc.1.threads[i]? with
      | some th => siteCode (siteOf th)
      | none => "x"
    let c' := step kit acc.1 i
    (c', acc.2 ++ toString i ++ site ++ toString c'.g.nodes.length ++ "." ++ toString c'.g.edges.length)) (c, "")

def kindOf : ND → String
  | .flat (.src _) => "S"
  | .flat .dummy => "S"
  | .flat (.op _) => "T"
  | .flat .gbk => "K"
  | .flat (.cv _) => "V"
  | .flat (.cvl _) => "V"
  | .flat (.cg _) => "A"
  | .flat .cog => "G"
  | .cog _ _ _ => "G"

def showOutcome : Outcome ND → String
  | .built id => s!"B{id}"
  | .collected x none => s!"C{x}:ERR-missing-node"
  | .collected x (some ch) =>
    match exec ch with
    | .ok r => s!"C{x}:{showRows r.1}"
    | .error e => s!"C{x}:{e}"
  | .skipped => "K"
  | .panicked => "P"
  | .metricsSet => "M"
  | .metricsTaken b => if b then "M1" else "M0"
  | .metricsGot b => if b then "M?1" else "M?0"

/-- user-function calls implied by the traces of user-code runs of all threads (`Cfg.calls`) -/
def userCalls (c : Cfg ND) : Nat :=
  (c.calls.map (fun ch => match exec ch with
    | .ok r => r.2
    | .error _ => 0)).sum

def commaOrDash (l : List String) : String := if l.isEmpty then "-" else ",".intercalate l

def showCfg (c : Cfg ND) (trace : String) : String :=
  let ns := commaOrDash (c.g.nodes.map (fun p => s!"{p.1}:{kindOf p.2}"))
  let es := commaOrDash (c.g.edges.map (fun e => s!"{e.1}-{e.2}"))
  let outs := (c.threads.zipIdx).map (fun (th, i) => s!"t{i}={commaOrDash (th.outs.map showOutcome)}")
  s!"n={c.g.nextId} N={ns} E={es} T={if trace.isEmpty then "-" else trace} U={userCalls c} " ++ " ".intercalate outs

def handleGraph : List String → String
  | nTok :: rest =>
    match parseNat? nTok with
    | none => "BAD-OP"
    | some n =>
      if rest.length != n + 1 then "BAD-OP" else
      match (rest.take n).mapM parseProg?, parseSched? (rest.getD n "") with
      | some progs, some sched =>
        if sched.any (fun i => i ≥ n) then "BAD-OP" else
        let r := runTraced (Cfg.init progs) sched
        showCfg r.1 r.2
      | _, _ => "BAD-OP"
  | _ => "BAD-OP"

/-! ### the graph invariant as a decidable check on a real snapshot -/

def parseNatList? (s : String) : Option (List Nat) :=
  if s == "-" then some [] else (s.splitOn ",").mapM parseNat?

def parseEdges? (s : String) : Option (List (Nat × Nat)) :=
  if s == "-" then some [] else
  (s.splitOn ",").mapM (fun e => match e.splitOn "-" with
    | [a, b] => do pure ((← parseNat? a), (← parseNat? b))
    | _ => none)

/- `graphInvB` is `IB.Graph.graphInvB` (`Model/Pipeline.lean`; `Props/C08.lean: graphInvB_iff`); ids are given sorted -/

def handleGinv : List String → String
  | [n, ids, es] =>
    match parseNat? n, parseNatList? ids, parseEdges? es with
    | some n, some ids, some es => boolStr (graphInvB n ids es)
    | _, _, _ => "BAD-OP"
  | _ => "BAD-OP"

def handlers : List (String × (List String → String)) := [("GRAPH", handleGraph), ("GINV", handleGinv)]

end IB.D08
