import IbModel.Util.Wire
import IbModel.Model.Pipeline
/-!
Driver handlers for C08.

`GRAPH <n> <prog_0> … <prog_{n-1}> <schedule>`  — replay one linearisation (schedule = thread id per atomic
step, digits) of `n` thread programs on the model of the shared pipeline graph (`IB.Graph.run`, the very
function the theorems of `Props/C08.lean` are about) and answer with the lock-site trace, the final graph
and every operation's outcome:

`n=<nextId> N=<id>:<S|T|G>,… E=<from>-<to>,… T=(<tid><site><#nodes>.<#edges> after the step)… t0=<outcomes> t1=… `

program = ops joined by `;` (`-` = empty):
  `S<rows>`            from_vec of `(k,v)` rows (`k.v` joined by `_`)
  `D<ref>/<fn>`        map/filter on an existing collection; fn ∈ `a<n>` v+n | `m<n>` v*n | `k<m>` k:=(k+v) mod m | `f<m>.<r>` keep v mod m ≠ r
  `J<ref>/<ref>`       join_inner of two existing `(k,v)` collections
  `C<ref>/<mode>`      collect (mode `s` | `p<parts>`; the model's answer does not depend on it)
ref = `f<k>` pool[k mod len] | `b<k>` pool from the back | `m<k>` own results from the back (else pool)
outcome = `B<id>` built | `C<id>:<sorted rows>` collected | `K` skipped | `P` panicked | `C<id>:ERR…`

`GINV <nextId> <ids> <edges>` — evaluates the decidable graph invariant on a snapshot taken from the REAL
pipeline after a free-running multi-threaded build (answer `T`/`F`).
-/
namespace IB.D08
open IB.Wire IB.Graph

inductive Fn where
  | add (n : Int) | mul (n : Int) | rekey (m : Nat) | drop (m r : Nat)

structure Row where
  k : Int
  v : Int
  w : Option Int

/-- a node inside a join's captured sub-chain (a nested `CoGroup` is only a marker: the engine bails) -/
inductive Flat where
  | src (rows : List Row) | op (f : Fn) | dummy | cog

/-- node payload of the driver's instance of the graph model -/
inductive ND where
  | src (rows : List Row) | op (f : Fn) | dummy | cog (l r : List Flat)

def ND.flat : ND → Flat
  | .src rows => .src rows
  | .op f => .op f
  | .dummy => .dummy
  | .cog _ _ => .cog

def kit : Kit ND := ⟨.dummy, fun l r => .cog (l.map ND.flat) (r.map ND.flat)⟩

def applyFn (f : Fn) (rows : List Row) : List Row :=
  match f with
  | .add n => rows.map (fun r => { r with v := r.v + n })
  | .mul n => rows.map (fun r => { r with v := r.v * n })
  | .rekey m => rows.map (fun r => { r with k := (r.k + r.v) % (Int.ofNat m) })
  | .drop m r => rows.filter (fun x => x.v % (Int.ofNat m) != Int.ofNat r)

/-- `run_subplan_seq` on a captured chain -/
def runSub (chain : List Flat) : Except String (List Row) :=
  let step := fun (acc : Except String (Option (List Row))) (n : Flat) =>
    match acc with
    | .error e => .error e
    | .ok cur =>
      match n with
      | .src rows => .ok (some rows)
      | .dummy => .ok (some [])
      | .op f => match cur with
        | some rows => .ok (some (applyFn f rows))
        | none => .error "PANIC"
      | .cog => .error "ERR-nested"
  match chain.foldl step (.ok none) with
  | .error e => .error e
  | .ok (some rows) => .ok rows
  | .ok none => .error "PANIC"

def joinInner (l r : List Row) : List Row :=
  l.flatMap (fun a => (r.filter (fun b => b.k == a.k)).map (fun b => { k := a.k, v := a.v, w := some b.v }))

/-- `exec_seq` on the chain a collect planned (the planner passes do not change what a chain of plain
    `map`/`filter` steps computes; that is property C03's business) -/
def exec (chain : List ND) : Except String (List Row) :=
  let step := fun (acc : Except String (Option (List Row))) (n : ND) =>
    match acc with
    | .error e => .error e
    | .ok cur =>
      match n with
      | .src rows => .ok (some rows)
      | .dummy => .ok (some [])
      | .op f => match cur with
        | some rows => .ok (some (applyFn f rows))
        | none => .error "PANIC"
      | .cog l r =>
        match runSub l, runSub r with
        | .ok a, .ok b => .ok (some (joinInner a b))
        | .error e, _ => .error e
        | _, .error e => .error e
  match chain.foldl step (.ok none) with
  | .error e => .error e
  | .ok (some rows) => .ok rows
  | .ok none => .error "ERR-empty"

/-! ### wire -/

def rowLe (a b : Row) : Bool :=
  let wa := a.w.getD 0
  let wb := b.w.getD 0
  a.k < b.k || (a.k == b.k && (a.v < b.v || (a.v == b.v && wa ≤ wb)))

def showRow (r : Row) : String :=
  match r.w with
  | none => s!"{r.k}.{r.v}"
  | some w => s!"{r.k}.{r.v}.{w}"

def showRows (rows : List Row) : String :=
  if rows.isEmpty then "-" else "_".intercalate ((rows.mergeSort rowLe).map showRow)

def parseRow? (s : String) : Option Row :=
  match s.splitOn "." with
  | [k, v] => do pure { k := (← parseInt? k), v := (← parseInt? v), w := none }
  | _ => none

def parseRows? (s : String) : Option (List Row) :=
  if s == "" then some [] else (s.splitOn "_").mapM parseRow?

def parseRef? (s : String) : Option Ref :=
  let body := (s.drop 1).toString
  match s.front, parseNat? body with
  | 'f', some k => some (.front k)
  | 'b', some k => some (.back k)
  | 'm', some k => some (.mine k)
  | _, _ => none

def parseFn? (s : String) : Option Fn :=
  let body := (s.drop 1).toString
  match s.front with
  | 'a' => (parseInt? body).map Fn.add
  | 'm' => (parseInt? body).map Fn.mul
  | 'k' => match parseNat? body with
    | some m => if m = 0 then none else some (.rekey m)
    | none => none
  | 'f' => match body.splitOn "." with
    | [m, r] => match parseNat? m, parseNat? r with
      | some m, some r => if m = 0 then none else some (.drop m r)
      | _, _ => none
    | _ => none
  | _ => none

def parseOp? (s : String) : Option (Op ND) :=
  let body := (s.drop 1).toString
  match s.front with
  | 'S' => (parseRows? body).map (fun rows => Op.source (.src rows))
  | 'D' => match body.splitOn "/" with
    | [r, f] => do pure (Op.derive (← parseRef? r) (.op (← parseFn? f)))
    | _ => none
  | 'J' => match body.splitOn "/" with
    | [l, r] => do pure (Op.join (← parseRef? l) (← parseRef? r))
    | _ => none
  | 'C' => match body.splitOn "/" with
    | [r, m] =>
      if m == "s" || (m.startsWith "p" && (parseNat? (m.drop 1).toString).isSome) then (parseRef? r).map Op.collect
      else none
    | _ => none
  | _ => none

def parseProg? (s : String) : Option (List (Op ND)) :=
  if s == "-" then some [] else (s.splitOn ";").mapM parseOp?

def parseSched? (s : String) : Option (List Nat) :=
  if s == "-" then some [] else
  s.toList.mapM (fun ch => if '0' ≤ ch ∧ ch ≤ '9' then some (ch.toNat - '0'.toNat) else none)

def siteCode (s : String) : String :=
  match s with
  | "begin" => "b"
  | "insert_node" => "i"
  | "connect" => "c"
  | "snapshot" => "s"
  | "record_metrics_start" => "m"
  | "record_metrics_end" => "e"
  | _ => "x"

/-- run the schedule, recording the site each step goes through -/
def runTraced (c : Cfg ND) (sched : List Nat) : Cfg ND × String :=
  sched.foldl (fun (acc : Cfg ND × String) i =>
    let site := match acc.1.threads[i]? with
      | some th => siteCode (siteOf th)
      | none => "x"
    let c' := step kit acc.1 i
    (c', acc.2 ++ toString i ++ site ++ toString c'.g.nodes.length ++ "." ++ toString c'.g.edges.length)) (c, "")

def kindOf : ND → String
  | .src _ => "S"
  | .dummy => "S"
  | .op _ => "T"
  | .cog _ _ => "G"

def showOutcome : Outcome ND → String
  | .built id => s!"B{id}"
  | .collected x none => s!"C{x}:ERR-missing-node"
  | .collected x (some ch) =>
    match exec ch with
    | .ok rows => s!"C{x}:{showRows rows}"
    | .error e => s!"C{x}:{e}"
  | .skipped => "K"
  | .panicked => "P"

def commaOrDash (l : List String) : String := if l.isEmpty then "-" else ",".intercalate l

def showCfg (c : Cfg ND) (trace : String) : String :=
  let ns := commaOrDash (c.g.nodes.map (fun p => s!"{p.1}:{kindOf p.2}"))
  let es := commaOrDash (c.g.edges.map (fun e => s!"{e.1}-{e.2}"))
  let outs := (c.threads.zipIdx).map (fun (th, i) => s!"t{i}={commaOrDash (th.outs.map showOutcome)}")
  s!"n={c.g.nextId} N={ns} E={es} T={if trace.isEmpty then "-" else trace} " ++ " ".intercalate outs

def handleGraph : List String → String
  | nTok :: rest =>
    match parseNat? nTok with
    | none => "BAD-OP"
    | some n =>
      if rest.length != n + 1 then "BAD-OP" else
      match (rest.take n).mapM parseProg?, parseSched? (rest.getD n "") with
      | some progs, some sched =>
        if sched.any (fun i => i ≥ n) then "BAD-OP" else
        let r := runTraced (Cfg.init progs) sched
        showCfg r.1 r.2
      | _, _ => "BAD-OP"
  | _ => "BAD-OP"

/-! ### the graph invariant as a decidable check on a real snapshot -/

def parseNatList? (s : String) : Option (List Nat) :=
  if s == "-" then some [] else (s.splitOn ",").mapM parseNat?

def parseEdges? (s : String) : Option (List (Nat × Nat)) :=
  if s == "-" then some [] else
  (s.splitOn ",").mapM (fun e => match e.splitOn "-" with
    | [a, b] => do pure ((← parseNat? a), (← parseNat? b))
    | _ => none)

/-- the graph part of `AInv` (`ids`, `edgeLt`, `inDeg`), executable; ids are given sorted -/
def graphInvB (nextId : Nat) (ids : List Nat) (edges : List (Nat × Nat)) : Bool :=
  ids == List.range nextId &&
  edges.all (fun e => e.1 < e.2 && e.2 < nextId) &&
  (edges.map Prod.snd).eraseDups.length == edges.length

def handleGinv : List String → String
  | [n, ids, es] =>
    match parseNat? n, parseNatList? ids, parseEdges? es with
    | some n, some ids, some es => boolStr (graphInvB n ids es)
    | _, _, _ => "BAD-OP"
  | _ => "BAD-OP"

def handlers : List (String × (List String → String)) := [("GRAPH", handleGraph), ("GINV", handleGinv)]

end IB.D08
