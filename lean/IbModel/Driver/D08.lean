import IbModel.Util.Wire
import IbModel.Model.Pipeline
/-!
Driver handlers for C08.

`GRAPH <n> <prog_0> … <prog_{n-1}> <schedule>`  — replay one linearisation (schedule = thread id per atomic
step, digits) of `n` thread programs on the model of the shared pipeline graph (`IB.Graph.run`, the very
function the theorems of `Props/C08.lean` are about) and answer with the lock-site trace, the final graph,
the number of user-function calls implied by the threads' traces of user-code runs (`Thread.calls`) and every
operation's outcome:

`n=<nextId> N=<id>:<S|T|K|V|A|G>,… E=<from>-<to>,… T=(<tid><site><#nodes>.<#edges> after the step)… U=<calls> t0=<outcomes> t1=… `

program = ops joined by `;` (`-` = empty):
  `S<rows>`            from_vec of `(k,v)` rows (`k.v` joined by `_`)
  `D<ref>/<fn>`        map/filter on an existing collection of any element type; fn ∈ `a<n>` v+n | `m<n>` v*n |
                       `k<m>` k:=(k+pv) mod m | `f<m>.<r>` keep pv mod m ≠ r   (pv = the value, or the sum of a group)
  `G<ref>`             group_by_key of a `(k,v)` collection
  `V<ref>/<bias>`      combine_values(sum+bias) of a `(k,v)` collection
  `L<ref>/<bias>`      combine_values_lifted(sum+bias) of a grouped collection
  `A<ref>/<bias>/<fanout|n>`  combine_globally((Σk mod 2, Σv+bias), fanout) of a `(k,v)` collection
  `J<i|l|r|f><ref>/<ref>`  join_inner / _left / _right / _full of two existing `(k,v)` collections
  `C<ref>/<mode>`      collect (mode `s` | `p<parts>`; the model's answer does not depend on it)
  `M+` / `M-`          set_metrics / take_metrics
ref = `f<k>` pool[k mod len] | `b<k>` pool from the back | `m<k>` own results from the back (else pool)
outcome = `B<id>` built | `C<id>:<sorted rows>` collected | `K` skipped | `P` panicked | `C<id>:ERR…` |
          `M` metrics set | `M1`/`M0` take_metrics returned Some/None
row = `k.v` | `k.v.w` (join; `n` = None) | `k.g<v1>+<v2>…` (group, values sorted)

`GINV <nextId> <ids> <edges>` — evaluates the decidable graph invariant on a snapshot taken from the REAL
pipeline after a free-running multi-threaded build (answer `T`/`F`).
-/
namespace IB.D08
open IB.Wire IB.Graph

inductive Fn where
  | add (n : Int) | mul (n : Int) | rekey (m : Nat) | drop (m r : Nat)

inductive Cell where
  | absent | null | val (i : Int) | list (l : List Int)

structure Row where
  k : Int
  v : Cell
  w : Cell

/-- a node inside a join's captured sub-chain (a nested `CoGroup` is only a marker: the engine bails) -/
inductive Flat where
  | src (rows : List Row) | op (f : Fn) | dummy | gbk | cv (b : Int) | cvl (b : Int) | cg (b : Int) | cog

/-- node payload of the driver's instance of the graph model -/
inductive ND where
  | flat (n : Flat) | cog (tag : Nat) (l r : List Flat)

def ND.toFlat : ND → Flat
  | .flat n => n
  | .cog _ _ _ => .cog

def kit : Kit ND := ⟨.flat .dummy, fun tag l r => .cog tag (l.map ND.toFlat) (r.map ND.toFlat)⟩

def Cell.pv : Cell → Int
  | .val i => i
  | .list l => l.sum
  | _ => 0

def Cell.mapv (g : Int → Int) : Cell → Cell
  | .val i => .val (g i)
  | .list l => .list (l.map g)
  | c => c

def applyFn (f : Fn) (rows : List Row) : List Row :=
  match f with
  | .add n => rows.map (fun r => { r with v := r.v.mapv (· + n) })
  | .mul n => rows.map (fun r => { r with v := r.v.mapv (· * n) })
  | .rekey m => rows.map (fun r => { r with k := (r.k + r.v.pv) % (Int.ofNat m) })
  | .drop m r => rows.filter (fun x => x.v.pv % (Int.ofNat m) != Int.ofNat r)

def keysOf (rows : List Row) : List Int := (rows.map (·.k)).eraseDups

def Cell.vals : Cell → List Int
  | .val i => [i]
  | .list l => l
  | _ => []

/-- `group_by_key` -/
def groupRows (rows : List Row) : List Row :=
  (keysOf rows).map (fun k => { k := k, v := .list ((rows.filter (·.k == k)).flatMap (·.v.vals)), w := .absent })

/-- `combine_values(sum+bias)` on pairs, `combine_values_lifted(sum+bias)` on groups (a repeated key's groups are merged) -/
def combineRows (b : Int) (rows : List Row) : List Row :=
  (keysOf rows).map (fun k => { k := k, v := .val (((rows.filter (·.k == k)).map (·.v.pv)).sum + b), w := .absent })

/-- `combine_globally`: always exactly one row -/
def globalRow (b : Int) (rows : List Row) : List Row :=
  [{ k := ((rows.map (·.k)).sum) % 2, v := .val ((rows.map (·.v.pv)).sum + b), w := .absent }]

/-- one node of a chain: new buffer and the number of user-function calls (closure / `add_input`) it made -/
def stepFlat (acc : Except String (Option (List Row) × Nat)) (n : Flat) : Except String (Option (List Row) × Nat) :=
  match acc with
  | .error e => .error e
  | .ok (cur, cnt) =>
    match n, cur with
    | .src rows, _ => .ok (some rows, cnt)
    | .dummy, _ => .ok (some [], cnt)
    | .cog, _ => .error "ERR-nested"
    | _, none => .error "PANIC"
    | .op f, some rows => .ok (some (applyFn f rows), cnt + rows.length)
    | .gbk, some rows => .ok (some (groupRows rows), cnt)
    | .cv b, some rows => .ok (some (combineRows b rows), cnt + rows.length)
    | .cvl b, some rows => .ok (some (combineRows b rows), cnt + ((rows.map (·.v.vals.length)).sum))
    | .cg b, some rows => .ok (some (globalRow b rows), cnt + rows.length)

/-- `run_subplan_seq` on a captured chain -/
def runSub (chain : List Flat) : Except String (List Row × Nat) :=
  match chain.foldl stepFlat (.ok (none, 0)) with
  | .error e => .error e
  | .ok (some rows, n) => .ok (rows, n)
  | .ok (none, _) => .error "PANIC"

/-- the four `exec` closures of helpers/joins.rs -/
def joinRows (tag : Nat) (l r : List Row) : List Row :=
  let inner := l.flatMap (fun a => (r.filter (fun b => b.k == a.k)).map (fun b => { k := a.k, v := a.v, w := b.v }))
  let lonly := (l.filter (fun a => !(r.any (fun b => b.k == a.k)))).map (fun a => { k := a.k, v := a.v, w := Cell.null })
  let ronly := (r.filter (fun b => !(l.any (fun a => a.k == b.k)))).map (fun b => { k := b.k, v := Cell.null, w := b.v })
  match tag with
  | 0 => inner
  | 1 => inner ++ lonly
  | 2 => inner ++ ronly
  | _ => inner ++ lonly ++ ronly

/-- `exec_seq` on the chain a collect planned (the planner passes do not change what such a chain computes;
    that is property C03's business): result rows and the number of user-function calls of the run -/
def exec (chain : List ND) : Except String (List Row × Nat) :=
  let step := fun (acc : Except String (Option (List Row) × Nat)) (n : ND) =>
    match n with
    | .flat f => stepFlat acc f
    | .cog tag l r =>
      match acc with
      | .error e => .error e
      | .ok (_, cnt) =>
        match runSub l, runSub r with
        | .ok a, .ok b => .ok (some (joinRows tag a.1 b.1), cnt + a.2 + b.2)
        | .error e, _ => .error e
        | _, .error e => .error e
  match chain.foldl step (.ok (none, 0)) with
  | .error e => .error e
  | .ok (some rows, n) => .ok (rows, n)
  | .ok (none, _) => .error "ERR-empty"

/-! ### wire -/

def showCell : Cell → String
  | .absent => ""
  | .null => "n"
  | .val i => s!"{i}"
  | .list l => "g" ++ "+".intercalate ((l.mergeSort (fun a b => decide (a ≤ b))).map (fun i => s!"{i}"))

def showRow (r : Row) : String :=
  match r.w with
  | .absent => s!"{r.k}.{showCell r.v}"
  | w => s!"{r.k}.{showCell r.v}.{showCell w}"

/-- rows are compared as rendered strings (bytewise; total on distinct rows) -/
def showRows (rows : List Row) : String :=
  if rows.isEmpty then "-" else "_".intercalate ((rows.map showRow).mergeSort (fun a b => !decide (b < a)))

def parseRow? (s : String) : Option Row :=
  match s.splitOn "." with
  | [k, v] => do pure { k := (← parseInt? k), v := .val (← parseInt? v), w := .absent }
  | _ => none

def parseRows? (s : String) : Option (List Row) :=
  if s == "" then some [] else (s.splitOn "_").mapM parseRow?

def parseRef? (s : String) : Option Ref :=
  let body := (s.drop 1).toString
  match s.front, parseNat? body with
  | 'f', some k => some (.front k)
  | 'b', some k => some (.back k)
  | 'm', some k => some (.mine k)
  | _, _ => none

def parseFn? (s : String) : Option Fn :=
  let body := (s.drop 1).toString
  match s.front with
  | 'a' => (parseInt? body).map Fn.add
  | 'm' => (parseInt? body).map Fn.mul
  | 'k' => match parseNat? body with
    | some m => if m = 0 then none else some (.rekey m)
    | none => none
  | 'f' => match body.splitOn "." with
    | [m, r] => match parseNat? m, parseNat? r with
      | some m, some r => if m = 0 then none else some (.drop m r)
      | _, _ => none
    | _ => none
  | _ => none

def parseJoinTag? (c : Char) : Option Nat :=
  match c with
  | 'i' => some 0
  | 'l' => some 1
  | 'r' => some 2
  | 'f' => some 3
  | _ => none

def parseOp? (s : String) : Option (Op ND) :=
  let body := (s.drop 1).toString
  match s.front with
  | 'S' => (parseRows? body).map (fun rows => Op.source (.flat (.src rows)))
  | 'D' => match body.splitOn "/" with
    | [r, f] => do pure (Op.derive (← parseRef? r) none (.flat (.op (← parseFn? f))))
    | _ => none
  | 'G' => do pure (Op.derive (← parseRef? body) (some (0, 2)) (.flat .gbk))
  | 'V' => match body.splitOn "/" with
    | [r, b] => do pure (Op.derive (← parseRef? r) (some (0, 0)) (.flat (.cv (← parseInt? b))))
    | _ => none
  | 'L' => match body.splitOn "/" with
    | [r, b] => do pure (Op.derive (← parseRef? r) (some (2, 0)) (.flat (.cvl (← parseInt? b))))
    | _ => none
  | 'A' => match body.splitOn "/" with
    | [r, b, fo] =>
      if fo == "n" || (parseNat? fo).isSome then
        do pure (Op.derive (← parseRef? r) (some (0, 0)) (.flat (.cg (← parseInt? b))))
      else none
    | _ => none
  | 'J' => match (body.drop 1).toString.splitOn "/" with
    | [l, r] => do pure (Op.join (← parseRef? l) (← parseRef? r) (← parseJoinTag? body.front))
    | _ => none
  | 'C' => match body.splitOn "/" with
    | [r, m] =>
      if m == "s" || (m.startsWith "p" && (parseNat? (m.drop 1).toString).isSome) then (parseRef? r).map Op.collect
      else none
    | _ => none
  | 'M' => if body == "+" then some .setMetrics else if body == "-" then some .takeMetrics else none
  | _ => none

def parseProg? (s : String) : Option (List (Op ND)) :=
  if s == "-" then some [] else (s.splitOn ";").mapM parseOp?

def parseSched? (s : String) : Option (List Nat) :=
  if s == "-" then some [] else
  s.toList.mapM (fun ch => if '0' ≤ ch ∧ ch ≤ '9' then some (ch.toNat - '0'.toNat) else none)

def siteCode (s : String) : String :=
  match s with
  | "begin" => "b"
  | "insert_node" => "i"
  | "connect" => "c"
  | "snapshot" => "s"
  | "record_metrics_start" => "m"
  | "record_metrics_end" => "e"
  | "set_metrics" => "M"
  | "take_metrics" => "K"
  | _ => "x"

/-- run the schedule, recording the site each step goes through -/
def runTraced (c : Cfg ND) (sched : List Nat) : Cfg ND × String :=
  sched.foldl (fun (acc : Cfg ND × String) i =>
    let site := match acc.1.threads[i]? with
      | some th => siteCode (siteOf th)
      | none => "x"
    let c' := step kit acc.1 i
    (c', acc.2 ++ toString i ++ site ++ toString c'.g.nodes.length ++ "." ++ toString c'.g.edges.length)) (c, "")

def kindOf : ND → String
  | .flat (.src _) => "S"
  | .flat .dummy => "S"
  | .flat (.op _) => "T"
  | .flat .gbk => "K"
  | .flat (.cv _) => "V"
  | .flat (.cvl _) => "V"
  | .flat (.cg _) => "A"
  | .flat .cog => "G"
  | .cog _ _ _ => "G"

def showOutcome : Outcome ND → String
  | .built id => s!"B{id}"
  | .collected x none => s!"C{x}:ERR-missing-node"
  | .collected x (some ch) =>
    match exec ch with
    | .ok r => s!"C{x}:{showRows r.1}"
    | .error e => s!"C{x}:{e}"
  | .skipped => "K"
  | .panicked => "P"
  | .metricsSet => "M"
  | .metricsTaken b => if b then "M1" else "M0"

/-- user-function calls implied by the traces of user-code runs of all threads (`Cfg.calls`) -/
def userCalls (c : Cfg ND) : Nat :=
  (c.calls.map (fun ch => match exec ch with
    | .ok r => r.2
    | .error _ => 0)).sum

def commaOrDash (l : List String) : String := if l.isEmpty then "-" else ",".intercalate l

def showCfg (c : Cfg ND) (trace : String) : String :=
  let ns := commaOrDash (c.g.nodes.map (fun p => s!"{p.1}:{kindOf p.2}"))
  let es := commaOrDash (c.g.edges.map (fun e => s!"{e.1}-{e.2}"))
  let outs := (c.threads.zipIdx).map (fun (th, i) => s!"t{i}={commaOrDash (th.outs.map showOutcome)}")
  s!"n={c.g.nextId} N={ns} E={es} T={if trace.isEmpty then "-" else trace} U={userCalls c} " ++ " ".intercalate outs

def handleGraph : List String → String
  | nTok :: rest =>
    match parseNat? nTok with
    | none => "BAD-OP"
    | some n =>
      if rest.length != n + 1 then "BAD-OP" else
      match (rest.take n).mapM parseProg?, parseSched? (rest.getD n "") with
      | some progs, some sched =>
        if sched.any (fun i => i ≥ n) then "BAD-OP" else
        let r := runTraced (Cfg.init progs) sched
        showCfg r.1 r.2
      | _, _ => "BAD-OP"
  | _ => "BAD-OP"

/-! ### the graph invariant as a decidable check on a real snapshot -/

def parseNatList? (s : String) : Option (List Nat) :=
  if s == "-" then some [] else (s.splitOn ",").mapM parseNat?

def parseEdges? (s : String) : Option (List (Nat × Nat)) :=
  if s == "-" then some [] else
  (s.splitOn ",").mapM (fun e => match e.splitOn "-" with
    | [a, b] => do pure ((← parseNat? a), (← parseNat? b))
    | _ => none)

/-- the graph part of `AInv` (`ids`, `edgeLt`, `inDeg`), executable; ids are given sorted -/
def graphInvB (nextId : Nat) (ids : List Nat) (edges : List (Nat × Nat)) : Bool :=
  ids == List.range nextId &&
  edges.all (fun e => e.1 < e.2 && e.2 < nextId) &&
  (edges.map Prod.snd).eraseDups.length == edges.length

def handleGinv : List String → String
  | [n, ids, es] =>
    match parseNat? n, parseNatList? ids, parseEdges? es with
    | some n, some ids, some es => boolStr (graphInvB n ids es)
    | _, _, _ => "BAD-OP"
  | _ => "BAD-OP"

def handlers : List (String × (List String → String)) := [("GRAPH", handleGraph), ("GINV", handleGinv)]

end IB.D08
