import IbModel.Util.Wire
/-! Driver handlers for C08 (request kinds served for that property). -/
namespace IB.D08

def handlers : List (String × (List String → String)) := []

end IB.D08
