import IbModel.Util.Wire
import IbModel.Model.CompressionTable
/-!
Driver handlers for C10. Paths and byte strings travel as lower-case hex (`-` = empty).

* `CODECS`                                → the generated table, `name:ext,ext:magichex;…`
* `LOWER <path>`                          → hex of the ASCII shape of `lowerPath`
* `DETECT <path> <content>`               → `R=<codec|plain> W=<codec|plain>`
* `DETECTS <sched> <path> <content>`      → `R=<codec|plain>` (source with a read schedule, `-` = full reads)
* `RT <writer> <reader> <path> <plain> <opts>`   → `W=<codec|plain|other> R=<SAME|FAIL>`
* `RD <reader> <path> C <codec> <plain> <opts>`  → `DECODED|VERBATIM|FAIL`
* `RD <reader> <path> P <raw> <opts>`            → `VERBATIM|FAIL`
* `CGLOB <kind> <opts> (<path> <writer> <plain>)*` → `W=<c1>,<c2>,… R=<SAME|FAIL>`
  (`opts` = `sh=<k|none>,per=<k>,par=<0|1>,hdr=<0|1>`)

The handlers evaluate `detectExt`, `readerCodecSrc`, `autoWriter`, `autoReader`, the per-entry-point
definitions (`AnyWriter.run`, `Reader.run`, `readGlob`) — the definitions the theorems of `Props/C10.lean`
are about — on the generated table, with the `toy` codec family standing in for the real libraries and
the line formats `lineJsonl` / `lineCsv` (a record = the bytes of one line) standing in for serde.
-/
namespace IB.D10
open IB.Wire IB.Compression

def bytes? (s : String) : Option Bytes :=
  if s == "-" then some [] else hexToBytes? s.toList

def path? (s : String) : Option (List Char) := do
  let bs ← bytes? s
  let str ← String.fromUTF8? (ByteArray.mk (bs.map UInt8.ofNat).toArray)
  pure str.toList

def hexOut (bs : Bytes) : String := if bs.isEmpty then "-" else bytesToHex bs

/-- writer / reader entry points as they appear in requests -/
inductive WTok | raw | j (w : JWriter) | c (w : CWriter)
inductive RTok | raw | j (r : Reader) | c (r : Reader)

/-- options of a request: `sh=<k|none>,per=<k>,par=<0|1>,hdr=<0|1>` -/
structure Opts where
  shards : Option Nat
  per : Nat
  par : Bool
  hdr : Bool

def opts? (s : String) : Option Opts := do
  let ts := s.splitOn ","
  let sh ← kv? "sh" ts
  let per ← (kv? "per" ts).bind parseNat?
  let par ← kv? "par" ts
  let hdr ← kv? "hdr" ts
  let shards ← if sh == "none" then some none else (parseNat? sh).map some
  let par ← if par == "1" then some true else if par == "0" then some false else none
  let hdr ← if hdr == "1" then some true else if hdr == "0" then some false else none
  pure ⟨shards, per, par, hdr⟩

/-- `num_cpus::get().max(2)`: only used when `shards = None`, which the harness never sends to the
    free parallel writers; the result does not depend on it (`every_writer_wraps`) -/
def autoShards : Nat := 16
/-- partition count of `collect_par(None, None)`; the result does not depend on it -/
def autoParts : Nat := 4

def writer? (o : Opts) : String → Option WTok
  | "raw" => some .raw | "jsonl_vec" => some (.j .vec) | "jsonl_par" => some (.j (.par o.shards autoShards))
  | "csv_vec" => some (.c .vec) | "csv_par" => some (.c (.par o.shards autoShards)) | "pc_jsonl" => some (.j .pc)
  | "pc_jsonl_par" => some (.j (.pcPar o.shards autoShards)) | "pc_csv" => some (.c .pc)
  | "pc_csv_par" => some (.c (.pcPar autoParts)) | "cloud_jsonl" => some (.j .cloud) | _ => none

def reader? (o : Opts) : String → Option RTok
  | "raw" => some .raw | "jsonl_vec" => some (.j .vec) | "jsonl_helper" => some (.j .helper)
  | "jsonl_streaming" => some (.j (.streaming o.per o.par)) | "csv_vec" => some (.c .vec)
  | "csv_helper" => some (.c .helper) | "csv_streaming" => some (.c (.streaming o.per o.par))
  | "cloud_jsonl" => some (.j .cloud) | _ => none

/-- the records a plain JSONL payload consists of (one per line) -/
def jRecs (plain : Bytes) : List Bytes := splitNl plain
/-- header (with terminator) and records of a plain CSV payload -/
def cHeader (hdr : Bool) (plain : Bytes) : Bytes :=
  if hdr then match splitNl plain with | h :: _ => withNl h | [] => [] else []
def cRecs (hdr : Bool) (plain : Bytes) : List Bytes := IB.Io.csvBody hdr (splitNl plain)

/-- the bytes writer `w` stores under `path` for the payload `plain` -/
def storedOf (o : Opts) (w : WTok) (path : List Char) (plain : Bytes) : Option Bytes :=
  match w with
  | .raw => some (autoWriter toy codecTable path plain)
  | .j w => (AnyWriter.jsonl w id).run toy codecTable path (jRecs plain)
  | .c w => (AnyWriter.csv w o.hdr (cHeader o.hdr plain) withNl).run toy codecTable path (cRecs o.hdr plain)

/-- does reader `r` return the payload `plain` from `file` stored under `path`? -/
def readsBack (o : Opts) (r : RTok) (path : List Char) (file plain : Bytes) : Bool :=
  match r with
  | .raw => autoReader toy codecTable path file == some plain
  | .j r => r.run toy codecTable lineJsonl path file == some (jRecs plain)
  | .c r => r.run toy codecTable (lineCsv o.hdr) path file == some (cRecs o.hdr plain)

def codecLabel : Option CodecEntry → String
  | some c => c.name
  | none => "plain"

def handleCodecs : List String → String
  | [] => ";".intercalate (codecTable.map fun c =>
      c.name ++ ":" ++ ",".intercalate c.exts ++ ":" ++ (match c.magic with | some m => hexOut m | none => "none"))
  | _ => "BAD-OP"

/-- ASCII characters kept, every maximal run of non-ASCII characters → one `?` -/
def asciiShape : List Char → Bool → List Char
  | [], _ => []
  | c :: cs, inRun =>
    if c.toNat < 128 then c :: asciiShape cs false
    else if inRun then asciiShape cs true else '?' :: asciiShape cs true

def handleLower : List String → String
  | [p] => match path? p with
    | some path => hexOut ((asciiShape (lowerPath path) false).map Char.toNat)
    | none => "BAD-OP"
  | _ => "BAD-OP"

def handleDetect : List String → String
  | [p, c] => match path? p, bytes? c with
    | some path, some content =>
      "R=" ++ codecLabel (readerCodec codecTable path content) ++ " W=" ++ codecLabel (detectExt codecTable path)
    | _, _ => "BAD-OP"
  | _ => "BAD-OP"

/-- which codec of the specification turned `plain` into `stored` (as the harness classifies real files) -/
def classifyStored (stored plain : Bytes) : String :=
  if stored == plain then "plain"
  else match specSignatures.find? (fun r => r.2.isPrefixOf stored && toy.decompress r.1 stored == some plain) with
    | some r => r.1
    | none => "other"

def sched? (s : String) : Option (List Nat) :=
  if s == "-" then some [] else
    (s.splitOn ",").mapM fun t => (parseNat? t).bind fun k => if k = 0 then none else some (k - 1)

/-- `DETECTS <sched> <path> <content>`: the decision on a source with the given read schedule -/
def handleDetectS : List String → String
  | [sc, p, c] => match sched? sc, path? p, bytes? c with
    | some sched, some path, some content =>
      "R=" ++ codecLabel (readerCodecSrc codecTable path ⟨content, sched⟩)
    | _, _, _ => "BAD-OP"
  | _ => "BAD-OP"

def handleRt : List String → String
  | [w, r, p, x, o] => match opts? o with
    | none => "BAD-OP"
    | some o => match writer? o w, reader? o r, path? p, bytes? x with
      | some w, some r, some path, some plain =>
        match storedOf o w path plain with
        | none => "W=PANIC R=FAIL"
        | some stored =>
          "W=" ++ classifyStored stored plain ++ " R=" ++ (if readsBack o r path stored plain then "SAME" else "FAIL")
      | _, _, _, _ => "BAD-OP"
  | _ => "BAD-OP"

def handleRd : List String → String
  | [r, p, "C", c, x, o] => match opts? o with
    | none => "BAD-OP"
    | some o => match reader? o r, path? p, bytes? x with
      | some r, some path, some plain =>
        if (signatureOf c).isNone then "BAD-OP" else
        let file := toy.compress c plain
        if readsBack o r path file plain then "DECODED"
        else match r with
          | .raw => if autoReader toy codecTable path file == some file then "VERBATIM" else "FAIL"
          | _ => "FAIL"   -- record readers cannot parse a compressed stream
      | _, _, _ => "BAD-OP"
  | [r, p, "P", x, o] => match opts? o with
    | none => "BAD-OP"
    | some o => match reader? o r, path? p, bytes? x with
      | some r, some path, some raw => if readsBack o r path raw raw then "VERBATIM" else "FAIL"
      | _, _, _ => "BAD-OP"
  | _ => "BAD-OP"

/-- `(path, writer, plain)` triples of a CGLOB request -/
def globItems? (o : Opts) : List String → Option (List (List Char × WTok × Bytes))
  | [] => some []
  | p :: w :: x :: rest => do
    let path ← path? p
    let w ← writer? o w
    let plain ← bytes? x
    let tl ← globItems? o rest
    pure ((path, w, plain) :: tl)
  | _ => none

/-- `CGLOB <local_jsonl|local_csv|cloud_jsonl> <opts> (<path> <writer> <plain>)*`: every file is written
    through its writer entry point under its own name, then all are read through the glob entry point
    (files listed in the order `expand_glob` / `expand_cloud_glob` return them) -/
def handleGlob : List String → String
  | kind :: o :: rest => match opts? o with
    | none => "BAD-OP"
    | some o => match globItems? o rest with
      | none => "BAD-OP"
      | some items =>
        if kind != "local_jsonl" && kind != "local_csv" && kind != "cloud_jsonl" then "BAD-OP" else
        match items.mapM fun i => (storedOf o i.2.1 i.1 i.2.2).map fun b => (i.1, b) with
        | none => "W=PANIC R=FAIL"
        | some files =>
          let ws := (items.zip files).map fun (i, f) => classifyStored f.2 i.2.2
          let back :=
            if kind == "local_csv" then
              readGlob toy codecTable (lineCsv o.hdr) files == some (items.map fun i => cRecs o.hdr i.2.2).flatten
            else readGlob toy codecTable lineJsonl files == some (items.map fun i => jRecs i.2.2).flatten
          "W=" ++ ",".intercalate ws ++ " R=" ++ (if back then "SAME" else "FAIL")
  | _ => "BAD-OP"

def handlers : List (String × (List String → String)) :=
  [("CODECS", handleCodecs), ("LOWER", handleLower), ("DETECT", handleDetect), ("DETECTS", handleDetectS),
   ("RT", handleRt), ("RD", handleRd), ("CGLOB", handleGlob)]

end IB.D10
