import IbModel.Util.Wire
import IbModel.Model.CompressionTable
/-!
Driver handlers for C10. Paths and byte strings travel as lower-case hex (`-` = empty).

* `CODECS`                                → the generated table, `name:ext,ext:magichex;…`
* `LOWER <path>`                          → hex of the ASCII shape of `lowerPath`
* `DETECT <path> <content>`               → `R=<codec|plain> W=<codec|plain>`
* `RT <writer> <reader> <path> <plain>`   → `W=<codec|plain|other> R=<SAME|FAIL>`
* `RD <reader> <path> C <codec> <plain>`  → `DECODED|VERBATIM|FAIL`
* `RD <reader> <path> P <raw>`            → `VERBATIM|FAIL`

The handlers evaluate `detectExt`, `detectMagic`, `readerCodec`, `store`, `load` — the definitions the
theorems of `Props/C10.lean` are about — on the generated table, with the `toy` codec family standing
in for the real libraries.
-/
namespace IB.D10
open IB.Wire IB.Compression

def bytes? (s : String) : Option Bytes :=
  if s == "-" then some [] else hexToBytes? s.toList

def path? (s : String) : Option (List Char) := do
  let bs ← bytes? s
  let str ← String.fromUTF8? (ByteArray.mk (bs.map UInt8.ofNat).toArray)
  pure str.toList

def hexOut (bs : Bytes) : String := if bs.isEmpty then "-" else bytesToHex bs

def writer? : String → Option Writer
  | "raw" => some .raw | "jsonl_vec" => some .jsonlVec | "jsonl_par" => some .jsonlPar
  | "csv_vec" => some .csvVec | "csv_par" => some .csvPar | "pc_jsonl" => some .pcJsonl
  | "pc_jsonl_par" => some .pcJsonlPar | "pc_csv" => some .pcCsv | "pc_csv_par" => some .pcCsvPar
  | "cloud_jsonl" => some .cloudJsonl | _ => none

def reader? : String → Option Reader
  | "raw" => some .raw | "jsonl_vec" => some .jsonlVec | "jsonl_helper" => some .jsonlHelper
  | "jsonl_streaming" => some .jsonlStreaming | "csv_vec" => some .csvVec | "csv_helper" => some .csvHelper
  | "csv_streaming" => some .csvStreaming | "cloud_jsonl" => some .cloudJsonl | _ => none

def codecLabel : Option CodecEntry → String
  | some c => c.name
  | none => "plain"

def handleCodecs : List String → String
  | [] => ";".intercalate (codecTable.map fun c =>
      c.name ++ ":" ++ ",".intercalate c.exts ++ ":" ++ (match c.magic with | some m => hexOut m | none => "none"))
  | _ => "BAD-OP"

/-- ASCII characters kept, every maximal run of non-ASCII characters → one `?` -/
def asciiShape : List Char → Bool → List Char
  | [], _ => []
  | c :: cs, inRun =>
    if c.toNat < 128 then c :: asciiShape cs false
    else if inRun then asciiShape cs true else '?' :: asciiShape cs true

def handleLower : List String → String
  | [p] => match path? p with
    | some path => hexOut ((asciiShape (lowerPath path) false).map Char.toNat)
    | none => "BAD-OP"
  | _ => "BAD-OP"

def handleDetect : List String → String
  | [p, c] => match path? p, bytes? c with
    | some path, some content =>
      "R=" ++ codecLabel (readerCodec codecTable path content) ++ " W=" ++ codecLabel (detectExt codecTable path)
    | _, _ => "BAD-OP"
  | _ => "BAD-OP"

/-- which codec of the specification turned `plain` into `stored` (as the harness classifies real files) -/
def classifyStored (stored plain : Bytes) : String :=
  if stored == plain then "plain"
  else match specSignatures.find? (fun r => r.2.isPrefixOf stored && toy.decompress r.1 stored == some plain) with
    | some r => r.1
    | none => "other"

def handleRt : List String → String
  | [w, r, p, x] => match writer? w, reader? r, path? p, bytes? x with
    | some w, some r, some path, some plain =>
      let stored := store toy codecTable w path plain
      let back := load toy codecTable r path stored
      "W=" ++ classifyStored stored plain ++ " R=" ++ (if back == some plain then "SAME" else "FAIL")
    | _, _, _, _ => "BAD-OP"
  | _ => "BAD-OP"

def handleRd : List String → String
  | [r, p, "C", c, x] => match reader? r, path? p, bytes? x with
    | some r, some path, some plain =>
      if (signatureOf c).isNone then "BAD-OP" else
      let file := toy.compress c plain
      match load toy codecTable r path file with
      | some y =>
        if y == plain then "DECODED"
        else if y == file && r == .raw then "VERBATIM"   -- record readers cannot parse a compressed stream
        else "FAIL"
      | none => "FAIL"
    | _, _, _ => "BAD-OP"
  | [r, p, "P", x] => match reader? r, path? p, bytes? x with
    | some r, some path, some raw =>
      if load toy codecTable r path raw == some raw then "VERBATIM" else "FAIL"
    | _, _, _ => "BAD-OP"
  | _ => "BAD-OP"

def handlers : List (String × (List String → String)) :=
  [("CODECS", handleCodecs), ("LOWER", handleLower), ("DETECT", handleDetect), ("RT", handleRt), ("RD", handleRd)]

end IB.D10
