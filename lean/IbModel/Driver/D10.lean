import IbModel.Util.Wire
/-! Driver handlers for C10 (request kinds served for that property). -/
namespace IB.D10

def handlers : List (String × (List String → String)) := []

end IB.D10
