import IbModel.Util.Wire
import IbModel.Model.CompressionTable
/-!
Driver handlers for C10. Paths and byte strings travel as lower-case hex (`-` = empty).

* `CODECS`                                → the generated table, `name:ext,ext:magichex;…`
* `LOWER <path>`                          → hex of the ASCII shape of `lowerPath`
* `DETECT <path> <content>`               → `R=<codec|plain> W=<codec|plain>`
* `DETECTS <sched> <faults> <path> <content>` → `R=<codec|plain|ERR>` (source with a read schedule, `-` = full
  reads, and I/O faults `<offset>i` = `Interrupted` / `<offset>e` = another error raised in front of the byte at
  that offset, `-` = none; `ERR` = `auto_detect_reader` returns the source's error)
* `RT <writer> <reader> <path> <plain> <opts>`   → `W=<codec|plain|other> R=<SAME|FAIL>`
* `RD <reader> <path> C <codec> <plain> <opts>`  → `DECODED|VERBATIM|FAIL`
* `RD <reader> <path> P <raw> <opts>`            → `VERBATIM|FAIL`
* `CGLOB <kind> <opts> (<path> <writer> <plain>)*` → `W=<c1>,<c2>,… R=<SAME|FAIL>`
  (`opts` = `sh=<k|none>,per=<k>,par=<0|1>,hdr=<0|1>`)
* `ODETECT <rawname> <path> <content>`, `ORT <rawname> <writer> <reader> <path> <plain> <opts>`: as `DETECT` / `RT`
  for a file name that is NOT valid UTF-8: `<rawname>` = hex of the name's bytes (what the real code got, kept for
  replay), `<path>` = its `to_string_lossy()` form (std's lossy decoding, applied by the harness), which is what
  `detect_from_extension` looks at.
* `XREG <fresh|used> <extras> <KIND> <args…>` with `KIND ∈ {CODECS, DETECT, DETECTS, RT, RD}`: the same request
  evaluated in a process that registered the user codecs `<extras>` = `name:ext,ext:magichex|none;…`
  (`fresh`: `register_codec` was the process's first registry operation; `used`: a detection came first). The table
  is computed by the model of the registry STATE (`Registry.run`), the codec family is `toyIn` over that table.

The handlers evaluate `detectExt`, `readerCodecSrc`, `autoWriter`, `autoReader`, the per-entry-point
definitions (`AnyWriter.run`, `Reader.run`, `readGlob`) — the definitions the theorems of `Props/C10.lean`
are about — on the generated table, with the `toy` codec family standing in for the real libraries and
the line formats `lineJsonl` / `lineCsv` (a record = the bytes of one line) standing in for serde.
-/
namespace IB.D10
open IB.Wire IB.Compression

/-- hex decoding with an accumulator (payloads of several 100 KiB must not recurse per byte) -/
def hexAcc : List Char → List Nat → Option (List Nat)
  | [], acc => some acc.reverse
  | [_], _ => none
  | a :: b :: rest, acc =>
    match hexDigit? a, hexDigit? b with
    | some x, some y => hexAcc rest ((x * 16 + y) :: acc)
    | _, _ => none

def bytes? (s : String) : Option Bytes :=
  if s == "-" then some [] else hexAcc s.toList []

def path? (s : String) : Option (List Char) := do
  let bs ← bytes? s
  let str ← String.fromUTF8? (ByteArray.mk (bs.map UInt8.ofNat).toArray)
  pure str.toList

def hexOut (bs : Bytes) : String := if bs.isEmpty then "-" else bytesToHex bs

/-- the registry a request is evaluated in: the table `get_registry()` returns, the codec family standing in
    for the registered codecs (and for the cloud writer's own encoders) -/
structure Env where
  tbl : List CodecEntry
  K : CodecImpl

/-- a process that never called `register_codec` -/
def baseEnv : Env := ⟨codecTable, toy⟩

/-- writer / reader entry points as they appear in requests -/
inductive WTok | raw | j (w : JWriter) | c (w : CWriter)
inductive RTok | raw | j (r : Reader) | c (r : Reader)

/-- options of a request: `sh=<k|none>,per=<k>,par=<0|1>,hdr=<0|1>` -/
structure Opts where
  shards : Option Nat
  per : Nat
  par : Bool
  hdr : Bool

def opts? (s : String) : Option Opts := do
  let ts := s.splitOn ","
  let sh ← kv? "sh" ts
  let per ← (kv? "per" ts).bind parseNat?
  let par ← kv? "par" ts
  let hdr ← kv? "hdr" ts
  let shards ← if sh == "none" then some none else (parseNat? sh).map some
  let par ← if par == "1" then some true else if par == "0" then some false else none
  let hdr ← if hdr == "1" then some true else if hdr == "0" then some false else none
  pure ⟨shards, per, par, hdr⟩

/-- `num_cpus::get().max(2)` (`2 * …` for CSV): used when `sh=none`; the result does not depend on it
    (`every_writer_wraps` holds for every value) -/
def autoShards : Nat := 16
/-- partition count of `collect_par(None, None)`; the result does not depend on it -/
def autoParts : Nat := 4

def writer? (o : Opts) : String → Option WTok
  | "raw" => some .raw | "jsonl_vec" => some (.j .vec) | "jsonl_par" => some (.j (.par o.shards autoShards))
  | "csv_vec" => some (.c .vec) | "csv_alias" => some (.c .alias)
  | "csv_par" => some (.c (.par o.shards autoShards)) | "pc_jsonl" => some (.j .pc)
  | "pc_jsonl_par" => some (.j (.pcPar o.shards autoShards)) | "pc_csv" => some (.c .pc)
  | "pc_csv_par" => some (.c (.pcPar o.shards autoParts)) | "cloud_jsonl" => some (.j .cloud) | _ => none

def reader? (o : Opts) : String → Option RTok
  | "raw" => some .raw | "jsonl_vec" => some (.j .vec) | "jsonl_helper" => some (.j .helper)
  | "jsonl_streaming" => some (.j (.streaming o.per o.par)) | "csv_vec" => some (.c .vec)
  | "csv_helper" => some (.c .helper) | "csv_streaming" => some (.c (.streaming o.per o.par))
  | "cloud_jsonl" => some (.j .cloud) | _ => none

/-- the records a plain JSONL payload consists of (one per line) -/
def jRecs (plain : Bytes) : List Bytes := splitNl plain
/-- header (with terminator) and records of a plain CSV payload -/
def cHeader (hdr : Bool) (plain : Bytes) : Bytes :=
  if hdr then match splitNl plain with | h :: _ => withNl h | [] => [] else []
def cRecs (hdr : Bool) (plain : Bytes) : List Bytes := IB.Io.csvBody hdr (splitNl plain)

/-- the bytes writer `w` stores under `path` for the payload `plain` -/
def storedOf (e : Env) (o : Opts) (w : WTok) (path : List Char) (plain : Bytes) : Option Bytes :=
  match w with
  | .raw => some (autoWriter e.K e.tbl path plain)
  | .j w => (AnyWriter.jsonl w id).run e.K e.K e.tbl path (jRecs plain)
  | .c w => (AnyWriter.csv w o.hdr (cHeader o.hdr plain) withNl).run e.K e.K e.tbl path (cRecs o.hdr plain)

/-- does reader `r` return the payload `plain` from `file` stored under `path`? -/
def readsBack (e : Env) (o : Opts) (r : RTok) (path : List Char) (file plain : Bytes) : Bool :=
  match r with
  | .raw => autoReader e.K e.tbl path file == some plain
  | .j r => r.run e.K e.tbl lineJsonl path file == some (jRecs plain)
  | .c r => r.run e.K e.tbl (lineCsv o.hdr) path file == some (cRecs o.hdr plain)

def codecLabel : Option CodecEntry → String
  | some c => c.name
  | none => "plain"

def handleCodecs (e : Env) : List String → String
  | [] => ";".intercalate (e.tbl.map fun c =>
      c.name ++ ":" ++ ",".intercalate c.exts ++ ":" ++ (match c.magic with | some m => hexOut m | none => "none"))
  | _ => "BAD-OP"

/-- ASCII characters kept, every maximal run of non-ASCII characters → one `?` -/
def asciiShape : List Char → Bool → List Char
  | [], _ => []
  | c :: cs, inRun =>
    if c.toNat < 128 then c :: asciiShape cs false
    else if inRun then asciiShape cs true else '?' :: asciiShape cs true

def handleLower : List String → String
  | [p] => match path? p with
    | some path => hexOut ((asciiShape (lowerPath path) false).map Char.toNat)
    | none => "BAD-OP"
  | _ => "BAD-OP"

def handleDetect (e : Env) : List String → String
  | [p, c] => match path? p, bytes? c with
    | some path, some content =>
      "R=" ++ codecLabel (readerCodec e.tbl path content) ++ " W=" ++ codecLabel (detectExt e.tbl path)
    | _, _ => "BAD-OP"
  | _ => "BAD-OP"

/-- which codec of the registry turned `plain` into `stored` (as the harness classifies real files): the
    stream starts with the codec's magic bytes (if it has any) and decodes to `plain` -/
def classifyStored (e : Env) (stored plain : Bytes) : String :=
  if stored == plain then "plain"
  else match e.tbl.find? (fun c => (c.magic.getD []).isPrefixOf stored && e.K.decompress c.name stored == some plain) with
    | some c => c.name
    | none => "other"

def sched? (s : String) : Option (List Nat) :=
  if s == "-" then some [] else
    (s.splitOn ",").mapM fun t => (parseNat? t).bind fun k => if k = 0 then none else some (k - 1)

def fault? (t : String) : Option (Nat × Fault) :=
  let n := (t.dropEnd 1).toString
  if t.endsWith "i" then (parseNat? n).map (·, .interrupted)
  else if t.endsWith "e" then (parseNat? n).map (·, .error)
  else none

def faults? (s : String) : Option (List (Nat × Fault)) :=
  if s == "-" then some [] else (s.splitOn ",").mapM fault?

/-- the stream: the fault(s) registered at offset `i` are raised in front of byte `i` (faults at or behind the
    end never fire); `faults` sorted by offset -/
def mkItems : Nat → Bytes → List (Nat × Fault) → List Item
  | _, [], fs => fs.map fun f => .fault f.2
  | i, b :: bs, fs =>
    (fs.takeWhile (·.1 ≤ i)).map (fun f => Item.fault f.2) ++ .byte b :: mkItems (i + 1) bs (fs.dropWhile (·.1 ≤ i))

def sortedFaults (fs : List (Nat × Fault)) : Bool :=
  (fs.zip (fs.drop 1)).all fun p => decide (p.1.1 ≤ p.2.1)

/-- `DETECTS <sched> <faults> <path> <content>`: the decision on a source with the given read schedule / faults -/
def handleDetectS (e : Env) : List String → String
  | [sc, fl, p, c] => match sched? sc, faults? fl, path? p, bytes? c with
    | some sched, some faults, some path, some content =>
      if !sortedFaults faults then "BAD-OP" else
      match readerCodecSrc e.tbl path ⟨mkItems 0 content faults, sched⟩ with
      | some d => "R=" ++ codecLabel d
      | none => "R=ERR"
    | _, _, _, _ => "BAD-OP"
  | _ => "BAD-OP"

def handleRt (e : Env) : List String → String
  | [w, r, p, x, o] => match opts? o with
    | none => "BAD-OP"
    | some o => match writer? o w, reader? o r, path? p, bytes? x with
      | some w, some r, some path, some plain =>
        match storedOf e o w path plain with
        | none => "W=PANIC R=FAIL"
        | some stored =>
          "W=" ++ classifyStored e stored plain ++ " R=" ++ (if readsBack e o r path stored plain then "SAME" else "FAIL")
      | _, _, _, _ => "BAD-OP"
  | _ => "BAD-OP"

def handleRd (e : Env) : List String → String
  | [r, p, "C", c, x, o] => match opts? o with
    | none => "BAD-OP"
    | some o => match reader? o r, path? p, bytes? x with
      | some r, some path, some plain =>
        if !(e.tbl.any fun row => row.name == c) then "BAD-OP" else
        let file := e.K.compress c plain
        if readsBack e o r path file plain then "DECODED"
        else match r with
          | .raw => if autoReader e.K e.tbl path file == some file then "VERBATIM" else "FAIL"
          | _ => "FAIL"   -- record readers cannot parse a compressed stream
      | _, _, _ => "BAD-OP"
  | [r, p, "P", x, o] => match opts? o with
    | none => "BAD-OP"
    | some o => match reader? o r, path? p, bytes? x with
      | some r, some path, some raw => if readsBack e o r path raw raw then "VERBATIM" else "FAIL"
      | _, _, _ => "BAD-OP"
  | _ => "BAD-OP"

/-- `(path, writer, plain)` triples of a CGLOB request -/
def globItems? (o : Opts) : List String → Option (List (List Char × WTok × Bytes))
  | [] => some []
  | p :: w :: x :: rest => do
    let path ← path? p
    let w ← writer? o w
    let plain ← bytes? x
    let tl ← globItems? o rest
    pure ((path, w, plain) :: tl)
  | _ => none

/-- `CGLOB <local_jsonl|local_csv|cloud_jsonl> <opts> (<path> <writer> <plain>)*`: every file is written
    through its writer entry point under its own name, then all are read through the glob entry point
    (files listed in the order `expand_glob` / `expand_cloud_glob` return them) -/
def handleGlob (e : Env) : List String → String
  | kind :: o :: rest => match opts? o with
    | none => "BAD-OP"
    | some o => match globItems? o rest with
      | none => "BAD-OP"
      | some items =>
        if kind != "local_jsonl" && kind != "local_csv" && kind != "cloud_jsonl" then "BAD-OP" else
        match items.mapM fun i => (storedOf e o i.2.1 i.1 i.2.2).map fun b => (i.1, b) with
        | none => "W=PANIC R=FAIL"
        | some files =>
          let ws := (items.zip files).map fun (i, f) => classifyStored e f.2 i.2.2
          let back :=
            if kind == "local_csv" then
              readGlob e.K e.tbl (lineCsv o.hdr) files == some (items.map fun i => cRecs o.hdr i.2.2).flatten
            else readGlob e.K e.tbl lineJsonl files == some (items.map fun i => jRecs i.2.2).flatten
          "W=" ++ ",".intercalate ws ++ " R=" ++ (if back then "SAME" else "FAIL")
  | _ => "BAD-OP"

/-- `ODETECT <rawname> …` / `ORT <rawname> …`: the raw (non-UTF-8) name is for replay only -/
def handleODetect : List String → String
  | _ :: rest => handleDetect baseEnv rest
  | _ => "BAD-OP"

def handleORt : List String → String
  | _ :: rest => handleRt baseEnv rest
  | _ => "BAD-OP"

/-- one registered codec on the wire: `name:ext,ext:magichex|none` -/
def userRow? (s : String) : Option CodecEntry :=
  match s.splitOn ":" with
  | [n, es, m] =>
    let exts := if es == "" then [] else es.splitOn ","
    if n == "" then none
    else if m == "none" then some ⟨n, exts, none⟩
    else (bytes? m).map fun b => ⟨n, exts, some b⟩
  | _ => none

def userRows? (s : String) : Option (List CodecEntry) :=
  if s == "-" then some [] else (s.splitOn ";").mapM userRow?

/-- `XREG <fresh|used> <extras> <KIND> <args…>`: the registry STATE is run through the model of
    `get_registry` / `register_codec` from a fresh process, then the request is evaluated on the table the
    next `get_registry()` returns -/
def handleXReg : List String → String
  | pre :: ex :: kind :: args =>
    match userRows? ex with
    | none => "BAD-OP"
    | some extras =>
      if pre != "fresh" && pre != "used" then "BAD-OP" else
      let ops : List RegOp := (if pre == "used" then [RegOp.get] else []) ++ extras.map RegOp.register
      let tbl := ((Registry.run codecTable none ops).get codecTable).1
      let e : Env := ⟨tbl, toyIn tbl⟩
      match kind with
      | "CODECS" => handleCodecs e args
      | "DETECT" => handleDetect e args
      | "DETECTS" => handleDetectS e args
      | "RT" => handleRt e args
      | "RD" => handleRd e args
      | _ => "BAD-OP"
  | _ => "BAD-OP"

def handlers : List (String × (List String → String)) :=
  [("CODECS", handleCodecs baseEnv), ("LOWER", handleLower), ("DETECT", handleDetect baseEnv),
   ("DETECTS", handleDetectS baseEnv), ("RT", handleRt baseEnv), ("RD", handleRd baseEnv),
   ("CGLOB", handleGlob baseEnv), ("ODETECT", handleODetect), ("ORT", handleORt), ("XREG", handleXReg)]

end IB.D10
