import IbModel.Util.Wire
import IbModel.Model.Cloud
/-!
Driver handlers for C18. Requests (all `key=value` tokens after the wrapper name):

* `RETRY <raw|run|cio|tr|ciotr|bld|exe> max=<n|-> init=<ms> cap=<ms> mult=<f64 bits> lim=<ms|-> d=<ms> s=<script>`
  script = `-` or comma-separated `ok` / error-kind names; the i-th outcome carries tag i.
  ↦ `n=<attempts> out=<OK:tag|ERR:Kind:tag|EXH> sl=<delays|->`
* `BATCH <raw|run> n=<items> size=<s> par=<0|1> f=<script>` script tokens `ok|dup|nil|<Kind>` per call (then `ok`);
  `par` is `BatchConfig.parallel` (`run` only; `raw` has no such flag and must say `par=0`)
  ↦ `calls=<c|c|…> res=<OK:…|ERR:Kind:tag>`
* `PAGE <raw|run|cio> psize=<k> max=<m|-> p=<script>` page tokens `<len>T|<len>F|<Kind>`
  ↦ `calls=<page:size,…> out=<OK:…|ERR:Kind:tag|EXH>`
* `TIMEOUT lim=<ms> el=<ms> r=<ok|Kind>` ↦ `OK:0 | ERR:Kind:tag`
* `IOBATCH max= init= cap= mult= n=<items> s=<script>` ↦ `calls=<item,…> sl=<…> out=<OK:…|ERR:…|EXH>`
* `PARALLEL s=<script>` (outcome of operation i when invoked) ↦ `calls=<i,…> out=<OK:…|ERR:Kind:tag>`
* `CONTEXT name=<token> pre=<acts> ops=<acts> r=<ok|Kind>`; acts = `-` or comma-separated `inc` / `m:<key>:<value>`;
  `pre` is applied to `OperationContext::new(name)` before the call, `ops` by the operation
  ↦ `OK:0 name=<token> rc=<n> meta=<key=value,… sorted by key|->` | `ERR:Kind:0`
-/
namespace IB.D18
open IB.Wire IB.Cloud

def kindOfName? (s : String) : Option Kind := Kind.all.find? (fun k => k.name == s)

def csv (s : String) : List String := if s == "-" then [] else s.splitOn ","

def joinOr (sep : String) (xs : List String) : String := if xs.isEmpty then "-" else sep.intercalate xs

def nats (xs : List Nat) : String := joinOr "," (xs.map toString)

def optNat? (s : String) : Option (Option Nat) :=
  if s == "-" then some none else (parseNat? s).map some

/-- outcome script: the i-th token becomes `ok i` / `error ⟨kind, i⟩` -/
def script? (s : String) : Option (List (Res Nat)) :=
  let rec go (i : Nat) : List String → Option (List (Res Nat))
    | [] => some []
    | t :: ts => do
      let o ← if t == "ok" then some (Except.ok i) else (kindOfName? t).map (fun k => Except.error ⟨k, i⟩)
      let r ← go (i + 1) ts
      pure (o :: r)
  go 0 (csv s)

def tagStr (t : Nat) : String := if t == timeoutTag then "T" else toString t

def resStr (showOk : Nat → String) : Res Nat → String
  | .ok v => "OK:" ++ showOk v
  | .error e => "ERR:" ++ e.kind.name ++ ":" ++ tagStr e.tag

def outStr : Option (Res Nat) → String
  | none => "EXH"
  | some r => resStr toString r

def listResStr : Option (Res (List Nat)) → String
  | none => "EXH"
  | some (.ok vs) => "OK:" ++ nats vs
  | some (.error e) => "ERR:" ++ e.kind.name ++ ":" ++ tagStr e.tag

def retryCfg? (args : List String) : Option (Option RetryConfig) := do
  let mx ← optNat? (← kv? "max" args)
  let init ← parseNat? (← kv? "init" args)
  let cap ← parseNat? (← kv? "cap" args)
  let bits ← parseNat? (← kv? "mult" args)
  if bits ≥ 2 ^ 64 then none
  match mx with
  | none => pure none
  | some m => pure (some ⟨m, init, cap, Float.ofBits (UInt64.ofNat bits)⟩)

def retryAnswer (r : RetryResult Nat) : String :=
  s!"n={r.attempts} out={outStr r.outcome} sl={nats r.sleeps}"

/-- the harness builds `OperationBuilder::new()`, then `.with_retry(c)` iff a retry configuration is given,
    then `.with_timeout(t)` iff a limit is given -/
def mkBuilder (rc : Option RetryConfig) (lim : Option Nat) : OperationBuilder :=
  let b := OperationBuilder.new
  let b := match rc with | some c => b.withRetry c | none => b
  match lim with | some t => b.withTimeout t | none => b

def mkExecutor (rc : Option RetryConfig) (lim : Option Nat) : CloudIOExecutor :=
  let b := CloudIOExecutor.new
  let b := match rc with | some c => b.withRetry c | none => b
  match lim with | some t => b.withTimeout t | none => b

/-- every wrapper token is answered by the model definition of THAT wrapper (`Model/Cloud.lean`, last
    section); the retry-only forms go through `runWrapper`, the function `wrapper_eq_retry` is about -/
def handleRetry : List String → String
  | w :: args =>
    match retryCfg? args, (kv? "lim" args).bind optNat?, (kv? "d" args).bind parseNat?,
        (kv? "s" args).bind script? with
    | some rc, some lim, some d, some script =>
      let durs := List.replicate script.length d
      match w, rc, lim with
      | "raw", some c, none => retryAnswer (runWrapper .raw c script)
      | "run", some c, none => retryAnswer (runWrapper .run c script)
      | "cio", some c, none => retryAnswer (runWrapper .cio c script)
      | "tr", some c, some t => retryAnswer (runWithTimeoutAndRetry c t script durs)
      | "ciotr", some c, some t => retryAnswer (runCloudIoWithRetryAndTimeout c t script durs)
      | "bld", some c, none => retryAnswer (runWrapper .bld c script)
      | "exe", some c, none => retryAnswer (runWrapper .exe c script)
      | "bld", rc, lim => retryAnswer ((mkBuilder rc lim).execute script durs)
      | "exe", rc, lim => retryAnswer ((mkExecutor rc lim).execute script durs)
      | _, _, _ => "BAD-OP"
    | _, _, _, _ => "BAD-OP"
  | _ => "BAD-OP"

/-- the scripted chunk processor of the harness: `ok` maps x ↦ x+100, `dup` answers each twice,
    `nil` answers nothing, a kind name fails with tag = call index; beyond the script: `ok` -/
def procOf (script : List String) (i : Nat) (c : List Nat) : Res (List Nat) :=
  match script[i]? with
  | none => .ok (c.map (· + 100))
  | some "ok" => .ok (c.map (· + 100))
  | some "dup" => .ok (c.flatMap (fun x => [x + 100, x + 100]))
  | some "nil" => .ok []
  | some t =>
    match kindOfName? t with
    | some k => .error ⟨k, i⟩
    | none => .error ⟨.other, 888888⟩

def procScriptOk (script : List String) : Bool :=
  script.all (fun t => t == "ok" || t == "dup" || t == "nil" || (kindOfName? t).isSome)

def handleBatch : List String → String
  | w :: args =>
    match (kv? "n" args).bind parseNat?, (kv? "size" args).bind parseNat?, (kv? "f" args).map csv with
    | some n, some size, some fs =>
      match kv? "par" args with
      | some par =>
        if !(w == "raw" || w == "run") || !procScriptOk fs || !(par == "0" || par == "1")
            || (w == "raw" && par != "0") then "BAD-OP"
        else
          let r := if w == "raw" then batchInChunks (List.range n) size (procOf fs)
                   else runBatchOperation (List.range n) ⟨size, par == "1"⟩ (procOf fs)
          let calls := joinOr "|" (r.1.map nats)
          s!"calls={calls} res={listResStr (some r.2)}"
      | none => "BAD-OP"
    | _, _, _ => "BAD-OP"
  | _ => "BAD-OP"

/-- page token `<len>T` / `<len>F` / kind name; items of page j are j*100, j*100+1, … -/
def pageTok? (j : Nat) (t : String) : Option (Res (List Nat × Bool)) :=
  match kindOfName? t with
  | some k => some (.error ⟨k, j⟩)
  | none =>
    let body := (t.dropEnd 1).toString
    let flag := (t.drop (t.length - 1)).toString
    match parseNat? body with
    | some len =>
      if flag == "T" then some (.ok ((List.range len).map (· + j * 100), true))
      else if flag == "F" then some (.ok ((List.range len).map (· + j * 100), false))
      else none
    | none => none

def pages? (s : String) : Option (List (Res (List Nat × Bool))) :=
  let rec go (j : Nat) : List String → Option (List (Res (List Nat × Bool)))
    | [] => some []
    | t :: ts => do
      let o ← pageTok? j t
      let r ← go (j + 1) ts
      pure (o :: r)
  go 0 (csv s)

def handlePage : List String → String
  | w :: args =>
    match (kv? "psize" args).bind parseNat?, (kv? "max" args).bind optNat?, (kv? "p" args).bind pages? with
    | some ps, some mx, some script =>
      if !(w == "raw" || w == "run" || w == "cio") then "BAD-OP"
      else
        let r := if w == "raw" then paginate ⟨ps, mx⟩ script
                 else if w == "run" then runPaginatedOperation ⟨ps, mx⟩ script
                 else runCloudIoPaginated ⟨ps, mx⟩ script
        let calls := joinOr "," (r.calls.map (fun p => s!"{p.1}:{p.2}"))
        s!"calls={calls} out={listResStr r.outcome}"
    | _, _, _ => "BAD-OP"
  | _ => "BAD-OP"

def handleTimeout (args : List String) : String :=
  match (kv? "lim" args).bind parseNat?, (kv? "el" args).bind parseNat?, kv? "r" args with
  | some lim, some el, some r =>
    if r == "ok" then resStr toString (withTimeout lim el (.ok 0))
    else match kindOfName? r with
      | some k => resStr toString (withTimeout lim el (.error ⟨k, 0⟩))
      | none => "BAD-OP"
  | _, _, _ => "BAD-OP"

def handleIoBatch (args : List String) : String :=
  match retryCfg? args, (kv? "n" args).bind parseNat?, (kv? "s" args).bind script? with
  | some (some c), some n, some script =>
    let r := ioBatch c (List.range n) script
    s!"calls={nats r.calls} sl={nats r.sleeps} out={listResStr r.outcome}"
  | _, _, _ => "BAD-OP"

def handleParallel (args : List String) : String :=
  match (kv? "s" args).bind script? with
  | some script =>
    let r := runParallel script
    s!"calls={nats r.calls} out={listResStr (some r.outcome)}"
  | none => "BAD-OP"

/-- context actions: `inc` = `increment_retry()`, `m:<k>:<v>` = `add_metadata(k, v)` -/
def act? (t : String) : Option (OperationContext → OperationContext) :=
  if t == "inc" then some OperationContext.incrementRetry
  else match t.splitOn ":" with
    | ["m", k, v] => some (fun c => c.addMetadata k v)
    | _ => none

def acts? (s : String) : Option (OperationContext → OperationContext) :=
  (csv s).foldlM (fun (f : OperationContext → OperationContext) t => (act? t).map (fun g => g ∘ f)) id

/-- insertion sort of the association list by key (keys are distinct) -/
def sortMeta (xs : List (String × String)) : List (String × String) :=
  xs.foldl (fun acc p => acc.takeWhile (fun q => q.1 < p.1) ++ p :: acc.dropWhile (fun q => q.1 < p.1)) []

def handleContext (args : List String) : String :=
  match kv? "name" args, (kv? "pre" args).bind acts?, (kv? "ops" args).bind acts?, kv? "r" args with
  | some name, some pre, some ops, some r =>
    let res? : Option (Res Nat) :=
      if r == "ok" then some (.ok 0) else (kindOfName? r).map (fun k => .error ⟨k, 0⟩)
    match res? with
    | none => "BAD-OP"
    | some res =>
      match runWithContext (pre (OperationContext.new name)) (fun c => (ops c, res)) with
      | .ok (v, c) =>
        let kvs := joinOr "," ((sortMeta c.metadata).map (fun p => s!"{p.1}={p.2}"))
        s!"OK:{v} name={c.operationName} rc={c.retryCount} meta={kvs}"
      | .error e => "ERR:" ++ e.kind.name ++ ":" ++ tagStr e.tag
  | _, _, _, _ => "BAD-OP"

def handlers : List (String × (List String → String)) :=
  [("RETRY", handleRetry), ("BATCH", handleBatch), ("PAGE", handlePage), ("TIMEOUT", handleTimeout),
   ("IOBATCH", handleIoBatch), ("PARALLEL", handleParallel), ("CONTEXT", handleContext)]

end IB.D18
