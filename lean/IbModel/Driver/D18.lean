import IbModel.Util.Wire
/-! Driver handlers for C18 (request kinds served for that property). -/
namespace IB.D18

def handlers : List (String × (List String → String)) := []

end IB.D18
