import IbModel.Util.Wire
import IbModel.Model.Sketches
import IbModel.Model.SketchesFloat
/-!
Driver handlers for C15.

`TDIGEST <δ> <aq|raw|med> <full|q> <tree> <values> <qs> <cdfs>`
  * every number is the hex bit pattern of an `f64` (16 digits); lists are comma separated, `-` = empty
  * tree (preorder, comma separated): `L<n>` = `create` + `add_input` of the next `n` values,
    `B<n>` = `build_from_group` of the next `n` values, `M` = `left.merge(right)`
  * `aq` = `ApproxQuantiles::finish`, `raw` = `TDigest::quantiles` on the merged digest, `med` = `ApproxMedian::finish`
  answer (`full`): `Q F… | S <#centroids> Ftotal Fmin Fmax | C Fmean Fweight … | D F… | INV <B|S|U><j>…`
  (state of the merged digest *before* finish; `INV` = positions `j` where the estimate decreases although q does
  not, each with WHERE it sits on the digest that was queried (the merged one for `raw`, its `compress` for
  `aq`/`med`): `B` = the covering centroid changes between `q_j` and `q_{j+1}` (`TDigest.cover`), `S` = same
  covering branch, `U` = the centroids walked are not sorted by mean)
  answer (`q`): `Q F…`

`TDIGESTW <δ> <aq|raw|med> <full|q> <tree> <values> <weights> <qs> <cdfs>`: the same with one weight per value;
  an extra leaf kind `W<n>` = `TDigest::new(δ)` + `add_weighted(value, weight)` of the next `n` (value, weight) pairs
  (`L` / `B` leaves consume their weights without using them: `add_input` has weight 1)

`KMV <k> <new|raw> <full|est> <tree> <ranks>`  (`new` = k goes through `KMVApproxDistinctCount::new`)
  answer (`full`): `<F…|PANIC> M<|set|> H<|heap|> K<k> | H F… | S F…` (sorted ascending); (`est`): `<F…|PANIC>`
-/
namespace IB.D15
open IB.Wire IB.Sketches

def hexNat? (s : String) : Option Nat :=
  s.toList.foldlM (fun acc c => (hexDigit? c).map (fun d => acc * 16 + d)) 0

def float? (s : String) : Option Float :=
  if s.length != 16 then none else (hexNat? s).map (fun n => Float.ofBits (UInt64.ofNat n))

def floats? (s : String) : Option (List Float) :=
  if s == "-" then some [] else (s.splitOn ",").mapM float?

def nan : Float := 0.0 / 0.0
def inf : Float := 1.0 / 0.0

def ftok (x : Float) : String := "F" ++ F.toDecimal x
def otok (d : Float) : Option Float → String
  | some x => ftok x
  | none => ftok d


inductive Shape where
  | leaf (n : Nat) | built (n : Nat) | wleaf (n : Nat) | node (l r : Shape)

/-- parse a preorder shape; fuel = number of tokens -/
def shape? : Nat → List String → Option (Shape × List String)
  | 0, _ => none
  | _ + 1, [] => none
  | fuel + 1, t :: ts =>
    if t == "M" then do
      let (l, ts) ← shape? fuel ts
      let (r, ts) ← shape? fuel ts
      pure (.node l r, ts)
    else if t.startsWith "L" then (parseNat? (t.drop 1).toString).map (fun n => (.leaf n, ts))
    else if t.startsWith "B" then (parseNat? (t.drop 1).toString).map (fun n => (.built n, ts))
    else if t.startsWith "W" then (parseNat? (t.drop 1).toString).map (fun n => (.wleaf n, ts))
    else none

def parseShape? (s : String) : Option Shape :=
  let ts := s.splitOn ","
  match shape? (ts.length + 1) ts with
  | some (sh, []) => some sh
  | _ => none

/-- distribute the (value, weight) pairs over the leaves, left to right; only `W` leaves use the weights -/
def fillM {β : Type} : Shape → List (β × β) → Option (MTree β × List (β × β))
  | .leaf n, xs => if xs.length < n then none else some (.leaf ((xs.take n).map Prod.fst), xs.drop n)
  | .built n, xs => if xs.length < n then none else some (.built ((xs.take n).map Prod.fst), xs.drop n)
  | .wleaf n, xs => if xs.length < n then none else some (.wleaf (xs.take n), xs.drop n)
  | .node l r, xs => do
      let (a, xs) ← fillM l xs
      let (b, xs) ← fillM r xs
      pure (.node a b, xs)

def fillK {β : Type} : Shape → List β → Option (KTree β × List β)
  | .leaf n, xs => if xs.length < n then none else some (.leaf (xs.take n), xs.drop n)
  | .built n, xs => if xs.length < n then none else some (.built (xs.take n), xs.drop n)
  | .wleaf _, _ => none
  | .node l r, xs => do
      let (a, xs) ← fillK l xs
      let (b, xs) ← fillK r xs
      pure (.node a b, xs)

/-- are the centroids `quantile` walks sorted by mean? -/
def sortedMeans : List (Centroid Float) → Bool
  | a :: b :: rest => a.mean ≤ b.mean && sortedMeans (b :: rest)
  | _ => true

/-- where an inversion between the grid points `q1 ≤ q2` sits on the digest `dq` that was queried:
    `U` unsorted centroids, `S` same covering branch, `B` the covering centroid changes (a centroid boundary) -/
def invKind (dq : TDigest Float) (q1 q2 : Float) : String :=
  if !sortedMeans dq.centroids then "U" else if dq.cover q1 == dq.cover q2 then "S" else "B"

def nth (qs : List Float) (i : Nat) : Float := (qs[i]?).getD nan

def inversions (qs : List Float) (es : List (Option Float)) : List Nat :=
  let rec go (i : Nat) : List (Float × Option Float) → List Nat
    | (q1, some e1) :: (q2, some e2) :: rest =>
      let tl := go (i + 1) ((q2, some e2) :: rest)
      if q1 ≤ q2 && e1 > e2 then i :: tl else tl
    | _ :: rest => go (i + 1) rest
    | [] => []
  go 0 (qs.zip es)

def joinToks (ts : List String) : String := " ".intercalate ts

/-- `weighted = false`: every weight is 1 and `W` leaves are malformed -/
def hasW : Shape → Bool
  | .wleaf _ => true
  | .node l r => hasW l || hasW r
  | _ => false

def tdigestAnswer (δ : Float) (fin out : String) (sh : Shape) (pts : List (Float × Float)) (qs cdfs : List Float) : String :=
  match fillM sh pts with
  | some (t, []) =>
    let d : TDigest Float := t.eval δ
    let est? : Option (List (Option Float)) :=
      if fin == "aq" then some (approxQuantilesFinish qs d)
      else if fin == "raw" then some (d.quantiles qs)
      else if fin == "med" then some [approxMedianFinish d]
      else none
    match est? with
    | none => "BAD-OP"
    | some es =>
      let qpart := joinToks ("Q" :: es.map (otok nan))
      if out == "q" then qpart
      else if out == "full" then
        let spart := joinToks ["S", toString d.centroids.length, ftok d.total, otok inf d.min, otok (-inf) d.max]
        let cpart := joinToks ("C" :: d.centroids.flatMap (fun c => [ftok c.mean, ftok c.weight]))
        let dpart := joinToks ("D" :: cdfs.map (fun v => ftok (d.cdf v)))
        -- the grid the estimates belong to, and the digest `quantile` ran on (`finish` compresses once more)
        let qsEff := if fin == "med" then [0.5] else qs
        let dq := if fin == "raw" then d else d.compress
        let inv := inversions qsEff es
        let ipart := joinToks ("INV" :: (if inv.isEmpty then ["-"] else
          inv.map (fun i => invKind dq (nth qsEff i) (nth qsEff (i + 1)) ++ toString i)))
        qpart ++ " | " ++ spart ++ " | " ++ cpart ++ " | " ++ dpart ++ " | " ++ ipart
      else "BAD-OP"
  | _ => "BAD-OP"

def handleTDigest : List String → String
  | [δ, fin, out, tree, vals, qs, cdfs] =>
    match float? δ, parseShape? tree, floats? vals, floats? qs, floats? cdfs with
    | some δ, some sh, some vals, some qs, some cdfs =>
      if hasW sh then "BAD-OP" else tdigestAnswer δ fin out sh (vals.map (fun v => (v, 1.0))) qs cdfs
    | _, _, _, _, _ => "BAD-OP"
  | _ => "BAD-OP"

def handleTDigestW : List String → String
  | [δ, fin, out, tree, vals, wts, qs, cdfs] =>
    match float? δ, parseShape? tree, floats? vals, floats? wts, floats? qs, floats? cdfs with
    | some δ, some sh, some vals, some wts, some qs, some cdfs =>
      if vals.length != wts.length then "BAD-OP" else tdigestAnswer δ fin out sh (vals.zip wts) qs cdfs
    | _, _, _, _, _, _ => "BAD-OP"
  | _ => "BAD-OP"

def sortF (xs : List Float) : List Float := xs.mergeSort (fun a b => decide (a ≤ b))

def handleKMV : List String → String
  | [k, mode, out, tree, ranks] =>
    match parseNat? k, parseShape? tree, floats? ranks with
    | some k, some sh, some ranks =>
      if ranks.any Float.isNaN then "BAD-OP" else
      match fillK sh ranks with
      | some (t, []) =>
        let k? : Option Nat := if mode == "new" then some (kmvK k) else if mode == "raw" then some k else none
        match k? with
        | none => "BAD-OP"
        | some k =>
          let a : KMV Float := t.eval k
          let est := match a.finish with
            | .zero => ftok 0.0
            | .exact m => ftok (UInt64.ofNat m).toFloat
            | .est k rk => ftok (((UInt64.ofNat k).toFloat - 1.0) / rk)
            | .panic => "PANIC"
          if out == "est" then est
          else if out == "full" then
            joinToks [est, "M" ++ toString a.set.length, "H" ++ toString a.heap.length, "K" ++ toString a.k]
              ++ " | " ++ joinToks ("H" :: (sortF a.heap).map ftok)
              ++ " | " ++ joinToks ("S" :: (sortF a.set).map ftok)
          else "BAD-OP"
      | _ => "BAD-OP"
    | _, _, _ => "BAD-OP"
  | _ => "BAD-OP"

def handlers : List (String × (List String → String)) :=
  [("TDIGEST", handleTDigest), ("TDIGESTW", handleTDigestW), ("KMV", handleKMV)]

end IB.D15
