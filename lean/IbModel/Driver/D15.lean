import IbModel.Util.Wire
/-! Driver handlers for C15 (request kinds served for that property). -/
namespace IB.D15

def handlers : List (String × (List String → String)) := []

end IB.D15
