import IbModel.Util.Wire
/-! Driver handlers for C02 (request kinds served for that property). -/
namespace IB.D02

def handlers : List (String × (List String → String)) := []

end IB.D02
