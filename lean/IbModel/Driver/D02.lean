import IbModel.Util.Wire
import IbModel.Driver.PipeX
import IbModel.Driver.PipeW
import IbModel.Driver.PipeFloat
/-! Driver handlers for C02 (request kinds served for that property). -/
namespace IB.D02

def handlers : List (String × (List String → String)) := [("PIPEX", IB.PipeX.handlePipeX), ("PIPEW", IB.PipeW.handlePipeW),
  ("PIPEFL", IB.PipeFloat.handlePipeFloat)]

end IB.D02
