import IbModel.Util.Wire
import IbModel.Driver.D01
import IbModel.Model.ProgramTerm
/-!
Driver handler `PIPEX source=<spec> term=<terminal> mode=… canon=… src <rows> ; steps`:
a PIPE program over a source other than `from_vec` and / or with a terminal other than the plain collect.

* `source=` `vec` | `iter` | `custom/<len>/<split>` with `<len>` = `exact` | `none` | `fix<k>` and
  `<split>` = `none` | `chunks<c>` | `plus<k>` | `minus<k>` | `empties<c>` | `droplast<c>` | `rev<c>` | `dup<c>`
* `term=` `collect` | `fail_fast` | `sorted:t` | `sorted:kv` | `sorted_by_key`
-/
namespace IB.PipeX
open IB IB.Wire IB.PipeParse

def natAfter? (pre : String) (s : String) : Option Nat :=
  if s.startsWith pre then parseNat? (s.drop pre.length).toString else none

def lenPol? (s : String) : Option LenPol :=
  if s == "exact" then some .exact else if s == "none" then some .none
  else (natAfter? "fix" s).map .fixed

def splitPol? (s : String) : Option SplitPol :=
  if s == "none" then some .none
  else if s.startsWith "chunks" then (natAfter? "chunks" s).map .chunks
  else if s.startsWith "plus" then (natAfter? "plus" s).map .plus
  else if s.startsWith "minus" then (natAfter? "minus" s).map .minus
  else if s.startsWith "empties" then (natAfter? "empties" s).map .empties
  else if s.startsWith "droplast" then (natAfter? "droplast" s).map .dropLast
  else if s.startsWith "rev" then (natAfter? "rev" s).map .revParts
  else if s.startsWith "dup" then (natAfter? "dup" s).map .dupFirst
  else none

def source? (s : String) : Option SourceSpec :=
  if s == "vec" then some .vec else if s == "iter" then some .iter
  else match s.splitOn "/" with
    | ["custom", l, sp] => do
        let l ← lenPol? l
        let sp ← splitPol? sp
        pure (.custom l sp)
    | _ => none

def terminal? (s : String) : Option Terminal :=
  if s == "collect" then some .collect else if s == "fail_fast" then some .failFast
  else if s == "sorted:t" then some (.sorted .t) else if s == "sorted:kv" then some (.sorted .kv)
  else if s == "sorted_by_key" then some .sortedByKey else none

def renderX (canon : String) (t : Terminal) (r : M Part) : String :=
  match r with
  | .error e => D01.render canon (.error e)
  | .ok rows =>
    if rows.any D01.hasErr then "PANIC"
    else match t.finish rows with
      | .ok out => D01.render canon (.ok out)
      | .error m => "FAIL " ++ m.enc

def handlePipeX : List String → String
  | s :: t :: toks =>
    if !(s.startsWith "source=" && t.startsWith "term=") then "BAD-OP" else
    match source? (s.drop 7).toString, terminal? (t.drop 5).toString, parseReq toks with
    | some spec, some term, some q =>
      let nd := spec.node q.src
      if q.mode == "seq" then renderX q.canon term (runSeqFrom nd q.steps)
      else if q.mode.startsWith "par:" then
        match parseNat? (q.mode.drop 4).toString with
        | some n => renderX q.canon term (runParFrom nd q.steps n)
        | none => "BAD-OP"
      else "BAD-OP"
    | _, _, _ => "BAD-OP"
  | _ => "BAD-OP"

end IB.PipeX
