import IbModel.Util.Wire
import IbModel.Model.Combiners
import IbModel.Model.CombinersExt
/-!
Driver handlers for C06.

`COMB <name> <k> <all-values> | <postfix program>`  ↦  `<tree-output> <fold-output> <tree-accumulator>`

* `<name>` ∈ count sum min max avg fsum dcount dset topk; `<k>` is only used by `topk` (else `0`).
* `<all-values>`: comma-separated numbers (`-` = none) — the whole input in its original order; the second
  answer token is `finish(add_input* (create))` over it.
* postfix program over a stack of accumulators: `A:<vals>` push `create()+add_input*`; `B:<vals>` push
  `build_from_group(vals)`; `P:<vals>` `add_input*` onto the top; `M` pop `r`, `merge(&mut top, r)`.
  Exactly one accumulator must remain; its `finish` is the first answer token.
* numbers are integers, or decimals (`-1.125`) for `avg`/`fsum` (read as exact rationals).
* `<tree-accumulator>`: the accumulator the program leaves, before `finish`, in canonical form (`a=…`;
  set / heap contents ascending; `F<sum> n=<count>` for `avg`).
* outputs: integer; `PANIC`; `F<decimal>` (rational, 15 fractional digits); lists comma-separated (`-` = empty).

Round 3 names (other element types; `Model/CombinersExt.lean`):
* `xsum` / `xavg` — `Sum<f64>` / `AverageF64` on IEEE doubles: a value is the 16-digit hex BIT PATTERN of the `f64`;
  outputs are `X<hex bits>` or `NaN` (every NaN; its sign/payload is not determined by IEEE). A fourth answer token
  `C=<class>`: for `<k> = 1` (the generator's "no finite addition can overflow" regime) the class {fin,+inf,-inf,nan}
  the classification theorem predicts from the classes of the inputs (`sumClass`), for `<k> = 0` it is `C=?`.
* `omin` / `omax` / `otopk` — `Min/Max/TopK<OrdF64>`: elements are hex bit patterns, printed back as `X<hex>` exactly.
* `tmin` / `tmax` — `Min/Max<Tagged>`, elements `key:tag`, `Ord` on `key` only; the output shows key AND tag (the tie
  rule of each entry point). `tmaxd` — the real `Max<Tagged>` behind a wrapper that does NOT override
  `build_from_group` (the trait's default loop). `ttopk` — `TopK<Tagged>`; outputs and accumulator are projected on the keys (which of
  several `Ord`-equal elements the standard library's heap drops is not modelled).
* `kmv` — `KMVApproxDistinctCount::new(k)`; the values are the ranks (hex bit patterns of the `f64` rank of each input value).
* `FCMP <a> <b>` ↦ `<LT|EQ|GT by ordKey> <LT|EQ|GT by the literal bit trick>` — `OrdF64::cmp` on two bit patterns.
-/
namespace IB.D06
open IB IB.Wire IB.Combiners

inductive Tok (V : Type) where
  | a (xs : List V) | b (xs : List V) | p (xs : List V) | m

def parseList? {V : Type} (num? : String → Option V) (s : String) : Option (List V) :=
  if s == "" || s == "-" then some [] else (s.splitOn ",").mapM num?

def parseTok? {V : Type} (num? : String → Option V) (s : String) : Option (Tok V) :=
  if s == "M" then some .m
  else if s.startsWith "A:" then (parseList? num? (s.drop 2).toString).map .a
  else if s.startsWith "B:" then (parseList? num? (s.drop 2).toString).map .b
  else if s.startsWith "P:" then (parseList? num? (s.drop 2).toString).map .p
  else none

/-- run the postfix program, building the `MergeTree` the theorems are about -/
def build? {V : Type} : List (Tok V) → List (MergeTree V) → Option (MergeTree V)
  | [], [t] => some t
  | [], _ => none
  | .a xs :: rest, st => build? rest (.leaf xs :: st)
  | .b xs :: rest, st => build? rest (.built xs :: st)
  | .p xs :: rest, t :: st => build? rest (.more t xs :: st)
  | .p _ :: _, [] => none
  | .m :: rest, r :: l :: st => build? rest (.node l r :: st)
  | .m :: _, _ => none

def parseDec? (s : String) : Option Rat :=
  let neg := s.startsWith "-"
  let body := if neg then (s.drop 1).toString else s
  let r : Option Rat :=
    match body.splitOn "." with
    | [i] => i.toNat?.map (fun n => (n : Rat))
    | [i, f] =>
      match i.toNat?, f.toNat? with
      | some n, some m => if f.length == 0 then none else some ((n : Rat) + (m : Rat) / ((10 ^ f.length : Nat) : Rat))
      | _, _ => none
    | _ => none
  r.map (fun x => if neg then -x else x)

def pad (n : Nat) (s : String) : String := String.ofList (List.replicate (n - s.length) '0') ++ s

/-- exact rational as `F<decimal>` truncated to 15 fractional digits -/
def showRat (q : Rat) : String :=
  let neg := q.num < 0
  let n := q.num.natAbs
  let d := q.den
  let ip := n / d
  let fp := (n % d) * 10 ^ 15 / d
  "F" ++ (if neg then "-" else "") ++ toString ip ++ "." ++ pad 15 (toString fp)

def showInts (xs : List Int) : String := if xs.isEmpty then "-" else ",".intercalate (xs.map toString)
def showOpt : Option Int → String
  | some v => toString v
  | none => "PANIC"

def run {V A O : Type} (c : Combiner V A O) (num? : String → Option V) (show_ : O → String)
    (showAcc : A → String) (all : String) (prog : List String) : String :=
  match parseList? num? all, prog.mapM (parseTok? num?) with
  | some xs, some toks =>
    match build? toks [] with
    | some t =>
      let acc := t.eval c
      show_ (c.finish acc) ++ " " ++ show_ (c.finish (c.foldAdd c.create xs)) ++ " " ++ showAcc acc
    | none => "BAD-OP"
  | _, _ => "BAD-OP"

def accInt (a : Int) : String := "a=" ++ toString a
def accNat (a : Nat) : String := "a=" ++ toString a
def accOpt : Option Int → String
  | some v => "a=" ++ toString v
  | none => "a=none"
/-- a hash set's contents in canonical (ascending) order -/
def accSet (s : List Int) : String := "a=" ++ showInts (s.mergeSort leInt)
/-- the heap's contents, ascending — the model's list is printed as it is -/
def accHeap (h : List Int) : String := "a=" ++ showInts h

/-! ### round 3: other element types -/

def hexNat? (s : String) : Option Nat :=
  s.toList.foldlM (fun acc c => (hexDigit? c).map (fun d => acc * 16 + d)) 0
def bits? (s : String) : Option UInt64 :=
  if s.length != 16 then none else (hexNat? s).map UInt64.ofNat
def float? (s : String) : Option Float := (bits? s).map Float.ofBits

def hex16 (b : UInt64) : String :=
  String.ofList ((List.range 16).map (fun i => nibble ((b.toNat >>> (4 * (15 - i))) % 16)))
def showBits (b : UInt64) : String := "X" ++ hex16 b
def showBitsList (xs : List UInt64) : String := if xs.isEmpty then "-" else ",".intercalate (xs.map showBits)
def showOptBits : Option UInt64 → String
  | some v => showBits v
  | none => "PANIC"
/-- a computed double: every NaN prints as `NaN` -/
def showFloat (x : Float) : String := if x.isNaN then "NaN" else showBits x.toBits

def tagged? (s : String) : Option Tagged :=
  match s.splitOn ":" with
  | [k, t] => match parseInt? k, parseNat? t with
    | some k, some t => some (k, t)
    | _, _ => none
  | _ => none
def showTagged (x : Tagged) : String := toString x.1 ++ ":" ++ toString x.2
def showOptTagged : Option Tagged → String
  | some v => showTagged v
  | none => "PANIC"
def showKeys (xs : List Tagged) : String := showInts (xs.map (·.1))

/-- `run` plus the class token of the float combiners -/
def runX {A : Type} (c : Combiner Float A Float) (showAcc : A → String) (isAvg : Bool) (safe : Nat)
    (all : String) (prog : List String) : String :=
  match parseList? float? all, prog.mapM (parseTok? float?) with
  | some xs, some toks =>
    match build? toks [] with
    | some t =>
      let acc := t.eval c
      let cls : String :=
        if safe == 1 then
          let cs := t.leaves.map (fun x => clsBits x.toBits)
          (if isAvg && cs.length == 0 then FClass.fin else sumClass cs).str
        else if safe == 0 then "?" else "BAD"
      showFloat (c.finish acc) ++ " " ++ showFloat (c.finish (c.foldAdd c.create xs)) ++ " " ++ showAcc acc
        ++ " C=" ++ cls
    | none => "BAD-OP"
  | _, _ => "BAD-OP"

def sortF (xs : List Float) : List Float := xs.mergeSort (fun a b => decide (a ≤ b))
def showFloats (xs : List Float) : String := if xs.isEmpty then "-" else ",".intercalate (xs.map showFloat)
def showKmvOut : IB.Sketches.KmvOut Float → String
  | .zero => showFloat 0.0
  | .exact m => showFloat (UInt64.ofNat m).toFloat
  | .est k rk => showFloat (((UInt64.ofNat k).toFloat - 1.0) / rk)
  | .panic => "PANIC"
def showKmvAcc (a : IB.Sketches.KMV Float) : String :=
  "a=H" ++ showFloats (sortF a.heap) ++ "/S" ++ showFloats (sortF a.set) ++ "/k" ++ toString a.k

def handleFcmp : List String → String
  | [a, b] =>
    match bits? a, bits? b with
    | some a, some b =>
      cmpStr ltF64 a b ++ " " ++ cmpStr (fun x y => decide (totalCmpKeyBits x < totalCmpKeyBits y)) a b
    | _, _ => "BAD-OP"
  | _ => "BAD-OP"

def handleComb : List String → String
  | name :: k :: all :: "|" :: prog =>
    match parseNat? k with
    | none => "BAD-OP"
    | some k =>
      match name with
      | "count" => run (count Int) parseInt? toString accNat all prog
      | "sum" => run sum parseInt? toString accInt all prog
      | "min" => run minC parseInt? showOpt accOpt all prog
      | "max" => run maxC parseInt? showOpt accOpt all prog
      | "avg" => run average parseDec? showRat (fun a => showRat a.1 ++ " n=" ++ toString a.2) all prog
      | "fsum" => run sumRat parseDec? showRat showRat all prog
      | "dcount" => run (distinctCount Int) parseInt? toString accSet all prog
      | "dset" => run distinctSet parseInt? showInts accSet all prog
      | "topk" => run (topK k) parseInt? showInts accHeap all prog
      | "xsum" => runX sumF (fun a => "a=" ++ showFloat a) false k all prog
      | "xavg" => runX averageF (fun a => "a=" ++ showFloat a.1 ++ "/n=" ++ toString a.2) true k all prog
      | "omin" => run (minBy ltF64) bits? showOptBits (fun a => "a=" ++ (a.map showBits).getD "none") all prog
      | "omax" => run (maxBy ltF64) bits? showOptBits (fun a => "a=" ++ (a.map showBits).getD "none") all prog
      | "otopk" => run (topKBy leF64 k) bits? showBitsList (fun a => "a=" ++ showBitsList a) all prog
      | "tmin" => run (minBy ltKey) tagged? showOptTagged (fun a => "a=" ++ (a.map showTagged).getD "none") all prog
      | "tmax" => run (maxBy ltKey) tagged? showOptTagged (fun a => "a=" ++ (a.map showTagged).getD "none") all prog
      | "tmaxd" => run (maxByDefault ltKey) tagged? showOptTagged (fun a => "a=" ++ (a.map showTagged).getD "none") all prog
      | "ttopk" => run (topKBy leKey k) tagged? showKeys (fun a => "a=" ++ showKeys a) all prog
      | "kmv" =>
        if (parseList? float? all).any (fun xs => xs.any Float.isNaN) then "BAD-OP"
        else run (kmvComb (α := Float) k) float? showKmvOut showKmvAcc all prog
      | _ => "BAD-OP"
  | _ => "BAD-OP"

def handlers : List (String × (List String → String)) := [("COMB", handleComb), ("FCMP", handleFcmp)]

end IB.D06
