import IbModel.Util.Wire
import IbModel.Model.Combiners
/-!
Driver handlers for C06.

`COMB <name> <k> <all-values> | <postfix program>`  ↦  `<tree-output> <fold-output> <tree-accumulator>`

* `<name>` ∈ count sum min max avg fsum dcount dset topk; `<k>` is only used by `topk` (else `0`).
* `<all-values>`: comma-separated numbers (`-` = none) — the whole input in its original order; the second
  answer token is `finish(add_input* (create))` over it.
* postfix program over a stack of accumulators: `A:<vals>` push `create()+add_input*`; `B:<vals>` push
  `build_from_group(vals)`; `P:<vals>` `add_input*` onto the top; `M` pop `r`, `merge(&mut top, r)`.
  Exactly one accumulator must remain; its `finish` is the first answer token.
* numbers are integers, or decimals (`-1.125`) for `avg`/`fsum` (read as exact rationals).
* `<tree-accumulator>`: the accumulator the program leaves, before `finish`, in canonical form (`a=…`;
  set / heap contents ascending; `F<sum> n=<count>` for `avg`).
* outputs: integer; `PANIC`; `F<decimal>` (rational, 15 fractional digits); lists comma-separated (`-` = empty).
-/
namespace IB.D06
open IB IB.Wire IB.Combiners

inductive Tok (V : Type) where
  | a (xs : List V) | b (xs : List V) | p (xs : List V) | m

def parseList? {V : Type} (num? : String → Option V) (s : String) : Option (List V) :=
  if s == "" || s == "-" then some [] else (s.splitOn ",").mapM num?

def parseTok? {V : Type} (num? : String → Option V) (s : String) : Option (Tok V) :=
  if s == "M" then some .m
  else if s.startsWith "A:" then (parseList? num? (s.drop 2).toString).map .a
  else if s.startsWith "B:" then (parseList? num? (s.drop 2).toString).map .b
  else if s.startsWith "P:" then (parseList? num? (s.drop 2).toString).map .p
  else none

/-- run the postfix program, building the `MergeTree` the theorems are about -/
def build? {V : Type} : List (Tok V) → List (MergeTree V) → Option (MergeTree V)
  | [], [t] => some t
  | [], _ => none
  | .a xs :: rest, st => build? rest (.leaf xs :: st)
  | .b xs :: rest, st => build? rest (.built xs :: st)
  | .p xs :: rest, t :: st => build? rest (.more t xs :: st)
  | .p _ :: _, [] => none
  | .m :: rest, r :: l :: st => build? rest (.node l r :: st)
  | .m :: _, _ => none

def parseDec? (s : String) : Option Rat :=
  let neg := s.startsWith "-"
  let body := if neg then (s.drop 1).toString else s
  let r : Option Rat :=
    match body.splitOn "." with
    | [i] => i.toNat?.map (fun n => (n : Rat))
    | [i, f] =>
      match i.toNat?, f.toNat? with
      | some n, some m => if f.length == 0 then none else some ((n : Rat) + (m : Rat) / ((10 ^ f.length : Nat) : Rat))
      | _, _ => none
    | _ => none
  r.map (fun x => if neg then -x else x)

def pad (n : Nat) (s : String) : String := String.ofList (List.replicate (n - s.length) '0') ++ s

/-- exact rational as `F<decimal>` truncated to 15 fractional digits -/
def showRat (q : Rat) : String :=
  let neg := q.num < 0
  let n := q.num.natAbs
  let d := q.den
  let ip := n / d
  let fp := (n % d) * 10 ^ 15 / d
  "F" ++ (if neg then "-" else "") ++ toString ip ++ "." ++ pad 15 (toString fp)

def showInts (xs : List Int) : String := if xs.isEmpty then "-" else ",".intercalate (xs.map toString)
def showOpt : Option Int → String
  | some v => toString v
  | none => "PANIC"

def run {V A O : Type} (c : Combiner V A O) (num? : String → Option V) (show_ : O → String)
    (showAcc : A → String) (all : String) (prog : List String) : String :=
  match parseList? num? all, prog.mapM (parseTok? num?) with
  | some xs, some toks =>
    match build? toks [] with
    | some t =>
      let acc := t.eval c
      show_ (c.finish acc) ++ " " ++ show_ (c.finish (c.foldAdd c.create xs)) ++ " " ++ showAcc acc
    | none => "BAD-OP"
  | _, _ => "BAD-OP"

def accInt (a : Int) : String := "a=" ++ toString a
def accNat (a : Nat) : String := "a=" ++ toString a
def accOpt : Option Int → String
  | some v => "a=" ++ toString v
  | none => "a=none"
/-- a hash set's contents in canonical (ascending) order -/
def accSet (s : List Int) : String := "a=" ++ showInts (s.mergeSort leInt)
/-- the heap's contents, ascending — the model's list is printed as it is -/
def accHeap (h : List Int) : String := "a=" ++ showInts h

def handleComb : List String → String
  | name :: k :: all :: "|" :: prog =>
    match parseNat? k with
    | none => "BAD-OP"
    | some k =>
      match name with
      | "count" => run (count Int) parseInt? toString accNat all prog
      | "sum" => run sum parseInt? toString accInt all prog
      | "min" => run minC parseInt? showOpt accOpt all prog
      | "max" => run maxC parseInt? showOpt accOpt all prog
      | "avg" => run average parseDec? showRat (fun a => showRat a.1 ++ " n=" ++ toString a.2) all prog
      | "fsum" => run sumRat parseDec? showRat showRat all prog
      | "dcount" => run (distinctCount Int) parseInt? toString accSet all prog
      | "dset" => run distinctSet parseInt? showInts accSet all prog
      | "topk" => run (topK k) parseInt? showInts accHeap all prog
      | _ => "BAD-OP"
  | _ => "BAD-OP"

def handlers : List (String × (List String → String)) := [("COMB", handleComb)]

end IB.D06
