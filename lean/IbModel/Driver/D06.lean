import IbModel.Util.Wire
/-! Driver handlers for C06 (request kinds served for that property). -/
namespace IB.D06

def handlers : List (String × (List String → String)) := []

end IB.D06
