import IbModel.Util.Wire
import IbModel.Driver.D01
import IbModel.Model.ProgramFloat
import IbModel.Model.SketchesFloat
/-!
Driver handler `PIPEFL agg=<sum|avg> entry=<global|global_lifted|values|values_lifted> fo=<none|n> tof=<tenth|recip|third>
mode=… canon=… src <rows> ; steps`: a PIPE program followed by a map to `f64` and a float aggregate
(`Model/ProgramFloat.lean`). Answer: `OK F<x>` (global) or `OK n=<keys> K <key> F<x> …` with the keys in the order of
their encoded text. `F` tokens are compared with a relative tolerance by `bin/ibcheck`.
-/
namespace IB.PipeFloat
open IB IB.Wire IB.PipeParse

def ftok (x : Float) : String := "F" ++ IB.Sketches.F.toDecimal x

def tof? (s : String) : Option ToF :=
  if s == "tenth" then some .tenth else if s == "recip" then some .recip else if s == "third" then some .third else none
def agg? (s : String) : Option FAgg := if s == "sum" then some .sum else if s == "avg" then some .avg else none

def renderF (a : FAgg) (t : ToF) (perKey : Bool) (r : M Part) : String :=
  match r with
  | .error e => D01.render "seq" (.error e)
  | .ok rows =>
    if rows.any D01.hasErr then "PANIC"
    else if perKey then
      let kvs := (floatPerKey a t rows).map (fun kv => (kv.1.enc, kv.2))
      let kvs := kvs.mergeSort (fun x y => decide (x.1 ≤ y.1))
      "OK n=" ++ toString kvs.length ++ String.join (kvs.map (fun kv => " K " ++ kv.1 ++ " " ++ ftok kv.2))
    else "OK " ++ ftok (floatGlobal a t rows)

def handlePipeFloat : List String → String
  | a :: e :: f :: t :: toks =>
    if !(a.startsWith "agg=" && e.startsWith "entry=" && f.startsWith "fo=" && t.startsWith "tof=") then "BAD-OP" else
    let entry := (e.drop 6).toString
    match agg? (a.drop 4).toString, tof? (t.drop 4).toString, parseReq toks with
    | some a, some t, some q =>
      if !(["global", "global_lifted", "values", "values_lifted"].contains entry) then "BAD-OP" else
      let perKey := entry.startsWith "values"
      if q.mode == "seq" then renderF a t perKey (runSeq q.src q.steps)
      else if q.mode.startsWith "par:" then
        match parseNat? (q.mode.drop 4).toString with
        | some n => renderF a t perKey (runPar q.src q.steps n)
        | none => "BAD-OP"
      else "BAD-OP"
    | _, _, _ => "BAD-OP"
  | _ => "BAD-OP"

end IB.PipeFloat
