import IbModel.Util.Wire
/-! Driver handlers for C12 (request kinds served for that property). -/
namespace IB.D12

def handlers : List (String × (List String → String)) := []

end IB.D12
