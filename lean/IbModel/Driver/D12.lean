import IbModel.Util.Wire
import IbModel.Model.Checkpoint
import IbModel.Model.CheckpointSha
import IbModel.Generated.Tables
/-!
Driver handlers for C12 (checkpoint store). All strings / names travel as lower-case hex of their bytes.

* `CKPT-ENC nmax=<n> <fields>`                     ↦ `OK <hex encode> | <load answer>` | `ERR save` (unusable file name)
* `CKPT-DEC <hex|->`                               ↦ `OK <fields>` | `ERR <class>` | `PANIC` | `ABORT`   (`loadFile`: by path)
* `CKPT-DECBIG head=<hex|-> fill=<byte> total=<n>` ↦ the same for a file of `total` bytes (`head`, then the fill byte)
* `CKPT-SAVE max=<none|n> c=<T|F> en=<T|F> nmax=<n> dir=<entries|!missing|!notdir> <fields>` ↦ `OK <entries>` | `ERR save`
                                                       (entries = `<name>` or, with `c=T`, `<name>:<hex content>`: the
                                                       model's file system holds the real bytes; `nmax` = `NAME_MAX` of the
                                                       scratch file system as measured by the harness)
* `CKPT-SAVE-TIE max= nmax= pid= ts= dir=<names>`  ↦ `OK own=<count of own files left> other=<names of the rest>`
* `CKPT-SLL max=<none|n> nmax= dir=<entries with content> <fields>` ↦ `OK latest=none` | `OK latest=<name> | <load answer>`
                                                       (save ; find_latest ; read ; load composed in the model)
* `CKPT-LATEST en=<T|F> pid=<hex> dir=<names|!missing|!notdir>` ↦ `SOME <name>` | `NONE` | `ERR latest`
* `CKPT-LATEST-TIE en= pid= dir=<names>`           ↦ `STAMP <t>` | `NONE`
* `CKPT-CLEAR pid=<hex> dir=<names|!missing|!notdir>` ↦ `OK <names>` | `ERR clear`
* `CKPT-POLICY en=<T|F> pol=<barrier|every:n|time:s|hybrid:<T|F>:s> idx=<n> barrier=<T|F> last=<none|ago:s|future:s>` ↦ `T` | `F`

The hash parameter `H` of the model is instantiated with `IB.Checkpoint.Sha.sha256Hex` (the function
`roundtrip_every_unicode_state_sha256` / `one_hash_satisfies_all_hypotheses` of `Props/C12.lean` are about); the decode limit with the
constant printed from the running code (`IB.Generated.ckptDecodeLimit`).
-/
namespace IB.D12
open IB.Wire IB.Checkpoint

def toBytes (l : List Nat) : Bytes := l.map UInt8.ofNat
def ofBytes (b : Bytes) : List Nat := b.map (·.toNat)

def hex? (s : String) : Option Bytes := (hexToBytes? s.toList).map toBytes
def hexOf (b : Bytes) : String := bytesToHex (ofBytes b)

/-- the configuration of the running code: limit from the generated table; the allocator is assumed to
    satisfy any request up to that limit (nothing larger is ever requested: `load_never_crashes`) -/
def cfgNow : Cfg := { limit := some IB.Generated.ckptDecodeLimit, mem := IB.Generated.ckptDecodeLimit }

/-- the configuration for loads BY PATH: the allocator is assumed to satisfy any request up to the read cap (nothing
    larger is ever requested: `loadFile_allocates_at_most_cap`); `= currentCfg ckptReadCap` of `Props/C12.lean` -/
def cfgFile : Cfg := { limit := some IB.Generated.ckptDecodeLimit, mem := IB.Generated.ckptReadCap }

/-- `MAX_CHECKPOINT_FILE_BYTES` of the running code (`= currentCap` of `Props/C12.lean`) -/
def capNow : Option Nat := some IB.Generated.ckptReadCap

def H : Bytes → Bytes := IB.Checkpoint.Sha.sha256Hex

def fields (s : State) : String :=
  s!"pid={hexOf s.pipelineId} idx={s.completedNodeIndex} ts={s.timestamp} pc={s.partitionCount} " ++
  s!"ck={hexOf s.checksum} em={hexOf s.execMode} tn={s.metadata.totalNodes} " ++
  s!"lnt={hexOf s.metadata.lastNodeType} pp={s.metadata.progressPercent.toNat}"

def errClass : DecErr → String
  | .eof => "ERR eof"
  | .intType => "ERR int-type"
  | .limit => "ERR limit"
  | .utf8 => "ERR utf8"
  | .checksum => "ERR checksum"
  | .capacityOverflow => "PANIC"
  | .allocFail => "ABORT"

def loadAnswer (bytes : Bytes) : String :=
  match loadFile H cfgFile capNow bytes with
  | .ok s => "OK " ++ fields s
  | .error e => errClass e

def state? (args : List String) : Option State := do
  let pid ← (kv? "pid" args) >>= hex?
  let idx ← (kv? "idx" args) >>= parseNat?
  let ts ← (kv? "ts" args) >>= parseNat?
  let pc ← (kv? "pc" args) >>= parseNat?
  let ck ← (kv? "ck" args) >>= hex?
  let em ← (kv? "em" args) >>= hex?
  let tn ← (kv? "tn" args) >>= parseNat?
  let lnt ← (kv? "lnt" args) >>= hex?
  let pp ← (kv? "pp" args) >>= parseNat?
  if idx > u64Max || ts > u64Max || pc > u64Max || tn > u64Max || pp > 255 then none
  else pure { pipelineId := pid, completedNodeIndex := idx, timestamp := ts, partitionCount := pc,
              checksum := ck, execMode := em,
              metadata := { totalNodes := tn, lastNodeType := lnt, progressPercent := UInt8.ofNat pp } }

/-- real `save_checkpoint` into an empty directory with `max_checkpoints = None`, then `load_checkpoint` of the path -/
def handleEnc (args : List String) : String :=
  if args.length != 10 then "BAD-OP" else
  match (kv? "nmax" args) >>= parseNat?, state? args with
  | some nmax, some s =>
    match saveChecked true nmax none (.dir []) s with
    | none => "ERR save"
    | some fs =>
      match read fs (fileName s) with
      | none => "ERR io"
      | some bytes => s!"OK {hexOf bytes} | {loadAnswer bytes}"
  | _, _ => "BAD-OP"

/-- a file of `total` bytes: `head` followed by `total - |head|` copies of the byte `fill` (sparse files of several
    hundred MiB). By `loadFile_padded` the run of fill bytes may be cut at the cap without changing the answer. -/
def handleDecBig (args : List String) : String :=
  if args.length != 3 then "BAD-OP" else
  match (kv? "head" args) >>= (fun h => if h == "-" then some [] else hex? h), (kv? "fill" args) >>= parseNat?,
        (kv? "total" args) >>= parseNat? with
  | some head, some fill, some total =>
    if fill > 255 || total < head.length then "BAD-OP" else
    loadAnswer (head ++ List.replicate (min (total - head.length) IB.Generated.ckptReadCap) (UInt8.ofNat fill))
  | _, _, _ => "BAD-OP"

def handleDec : List String → String
  | ["-"] => loadAnswer []
  | [h] => match hex? h with
    | some b => loadAnswer b
    | none => "BAD-OP"
  | _ => "BAD-OP"

def names? (s : String) : Option (List Name) :=
  if s == "-" then some [] else (s.splitOn ",").mapM hex?

def namesOut (l : List Name) : String :=
  if l.isEmpty then "-" else ",".intercalate (l.map hexOf)

/-- bytewise lexicographic order (the harness sorts listings by `as_bytes()`) -/
def bytesLe : Bytes → Bytes → Bool
  | [], _ => true
  | _ :: _, [] => false
  | a :: as, b :: bs => if a < b then true else if b < a then false else bytesLe as bs

def sortNames (l : List Name) : List Name := l.mergeSort bytesLe

def fsOf (ns : List Name) : FS := ns.map (fun n => (n, []))

def max? (s : String) : Option (Option Nat) :=
  if s == "none" then some none else (parseNat? s).map some

def bool? (s : String) : Option Bool :=
  if s == "T" then some true else if s == "F" then some false else none

/-- `<hex name>` (content empty) or `<hex name>:<hex content>` -/
def entry? (withContent : Bool) (s : String) : Option (Name × Bytes) :=
  match s.splitOn ":" with
  | [n] => if withContent then none else (hex? n).map fun nm => (nm, [])
  | [n, c] => if withContent then do pure ((← hex? n), (← hex? c)) else none
  | _ => none

def dir? (withContent : Bool) (s : String) : Option FS :=
  if s == "-" then some [] else (s.splitOn ",").mapM (entry? withContent)

/-- `!missing` / `!notdir` / a listing -/
def dirState? (withContent : Bool) (s : String) : Option Dir :=
  if s == "!missing" then some .missing
  else if s == "!notdir" then some .notDir
  else (dir? withContent s).map .dir

def sortFS (fs : FS) : FS := fs.mergeSort (fun a b => bytesLe a.1 b.1)

def dirOut (withContent : Bool) (fs : FS) : String :=
  if fs.isEmpty then "-"
  else ",".intercalate ((sortFS fs).map fun f => if withContent then s!"{hexOf f.1}:{hexOf f.2}" else hexOf f.1)

def handleSave (args : List String) : String :=
  if args.length != 14 then "BAD-OP" else
  match (kv? "max" args) >>= max?, (kv? "c" args) >>= bool?, (kv? "en" args) >>= bool?,
        (kv? "nmax" args) >>= parseNat? with
  | some max, some wc, some en, some nmax =>
    match (kv? "dir" args) >>= dirState? wc, state? args with
    | some d, some st =>
      match saveChecked en nmax max d st with
      | some fs => "OK " ++ dirOut wc fs
      | none => "ERR save"
    | _, _ => "BAD-OP"
  | _, _, _, _ => "BAD-OP"

/-- two spellings of one stamp present: which one survives depends on the listing order, so only the
    order-independent facts are answered -/
def handleSaveTie (args : List String) : String :=
  if args.length != 5 then "BAD-OP" else
  match (kv? "max" args) >>= max?, (kv? "nmax" args) >>= parseNat?, (kv? "pid" args) >>= hex?,
        (kv? "ts" args) >>= parseNat?, (kv? "dir" args) >>= names? with
  | some max, some nmax, some pid, some ts, some dir =>
    if ts > u64Max then "BAD-OP" else
    let st : State := { pipelineId := pid, completedNodeIndex := 1, timestamp := ts, partitionCount := 1,
                        checksum := [], execMode := [],
                        metadata := { totalNodes := 3, lastNodeType := [], progressPercent := 33 } }
    match saveChecked true nmax max (.dir (fsOf dir)) st with
    | none => "ERR save"
    | some fs =>
      let after := names fs
      s!"OK own={(after.filter (isOwn pid)).length} other={namesOut (sortNames (after.filter (fun n => !isOwn pid n)))}"
  | _, _, _, _, _ => "BAD-OP"

/-- `save_checkpoint` ; `find_latest_checkpoint` ; `File::open`+`read_to_end` ; `load_checkpoint` -/
def handleSll (args : List String) : String :=
  if args.length != 12 then "BAD-OP" else
  match (kv? "max" args) >>= max?, (kv? "nmax" args) >>= parseNat?, (kv? "dir" args) >>= dir? true, state? args with
  | some max, some nmax, some fs, some st =>
    match saveChecked true nmax max (.dir fs) st with
    | none => "ERR save-or-latest"
    | some fs1 =>
      match latestChecked true st.pipelineId (.dir fs1) with
      | none => "ERR save-or-latest"
      | some none => "OK latest=none"
      | some (some n) =>
        match read fs1 n with
        | none => "ERR io"
        | some b => s!"OK latest={hexOf n} | {loadAnswer b}"
  | _, _, _, _ => "BAD-OP"

def handleLatest (args : List String) : String :=
  if args.length != 3 then "BAD-OP" else
  match (kv? "en" args) >>= bool?, (kv? "pid" args) >>= hex?, (kv? "dir" args) >>= dirState? false with
  | some en, some pid, some d =>
    match latestChecked en pid d with
    | some (some n) => "SOME " ++ hexOf n
    | some none => "NONE"
    | none => "ERR latest"
  | _, _, _ => "BAD-OP"

def handleLatestTie (args : List String) : String :=
  if args.length != 3 then "BAD-OP" else
  match (kv? "en" args) >>= bool?, (kv? "pid" args) >>= hex?, (kv? "dir" args) >>= names? with
  | some en, some pid, some dir =>
    match latest en pid (fsOf dir) with
    | some n => match fileStamp (pfx pid) n with
      | some t => s!"STAMP {t}"
      | none => "FOREIGN " ++ hexOf n
    | none => "NONE"
  | _, _, _ => "BAD-OP"

def handleClear (args : List String) : String :=
  if args.length != 2 then "BAD-OP" else
  match (kv? "pid" args) >>= hex?, (kv? "dir" args) >>= dirState? false with
  | some pid, some d =>
    match clearChecked pid d with
    | some fs => "OK " ++ namesOut (sortNames (names fs))
    | none => "ERR clear"
  | _, _ => "BAD-OP"

def policy? (s : String) : Option Policy :=
  if s == "barrier" then some .afterEveryBarrier
  else match s.splitOn ":" with
    | ["every", n] => (parseNat? n).map .everyNNodes
    | ["time", n] => (parseNat? n).map .timeInterval
    | ["hybrid", b, n] => do pure (.hybrid (← bool? b) (← parseNat? n))
    | _ => none

/-- the scripted clock: "now" and the last checkpoint time, in nanoseconds -/
def nowNs : Nat := 1000000000000000

def last? (s : String) : Option (Option Nat) :=
  if s == "none" then some none
  else match s.splitOn ":" with
    | ["ago", n] => (parseNat? n).map fun k => some (nowNs - k * 1000000000 - 1)
    | ["future", n] => (parseNat? n).map fun k => some (nowNs + k * 1000000000)
    | _ => none

def handlePolicy (args : List String) : String :=
  if args.length != 5 then "BAD-OP" else
  match (kv? "en" args) >>= bool?, (kv? "pol" args) >>= policy?, (kv? "idx" args) >>= parseNat?,
        (kv? "barrier" args) >>= bool?, (kv? "last" args) >>= last? with
  | some en, some pol, some idx, some b, some last => boolStr (shouldCheckpoint en pol last nowNs idx b)
  | _, _, _, _, _ => "BAD-OP"

def handlers : List (String × (List String → String)) :=
  [("CKPT-ENC", handleEnc), ("CKPT-DEC", handleDec), ("CKPT-DECBIG", handleDecBig), ("CKPT-SAVE", handleSave), ("CKPT-SAVE-TIE", handleSaveTie),
   ("CKPT-SLL", handleSll), ("CKPT-LATEST", handleLatest), ("CKPT-LATEST-TIE", handleLatestTie),
   ("CKPT-CLEAR", handleClear), ("CKPT-POLICY", handlePolicy)]

end IB.D12
