import IbModel.Util.Wire
/-! Driver handlers for C11 (request kinds served for that property). -/
namespace IB.D11

def handlers : List (String × (List String → String)) := []

end IB.D11
