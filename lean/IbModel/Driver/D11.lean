import IbModel.Util.Wire
import IbModel.Util.Sha256
import IbModel.Model.CheckpointRun
import IbModel.Driver.PipeParse
import IbModel.Driver.D01
import IbModel.Driver.D12
import IbModel.Generated.Tables
/-!
Driver handler for C11 (checkpointing engines).

`CKPT dir=<ok|file> pol=<barrier|every:n|time:s|hybrid:<T|F>:s> max=<none|n> rec=<T|F>
      first=<none|full|crash:j|crashb:j>
      mut=<none|trunc:o|flip:i:b|set:hex> add=<names|-> pre=<dir|-> mode=<seq|par:n> canon=<..> src <rows> ; steps`

* `dir`  : the configured checkpoint directory: `ok` = a directory that can be created and listed, `file` = the path
           is a regular file (`create_dir_all` fails: `Env.dirCreatable = false`);
* `pre`  : the directory before anything runs: comma-separated `<name>:<hex content>` or `<name>:DIR` (the entry is a
           sub-directory); a name is either hex bytes or `own.<stamp>` = `checkpoint_<this run's pipeline id>_<stamp>.bin`;
* `first`: an earlier run of the SAME pipeline: `full` = runs to its end, `crash:j` = step `j` of the program (an
           identity step: `map ident` or `filter tt`) is armed and panics, i.e. the process is killed while the chain
           node that contains this op executes; `crashb:j` = step `j` is such an identity step but NOT armed — the
           closure that panics is the user combiner of the barrier step that follows it, i.e. the process is killed
           inside the barrier node right after the node holding step `j` (or inside the CoGroup node, when a later
           join has swallowed both into its left sub-plan); `none` = no earlier run;
* `mut`  : what then happens to the newest own checkpoint file (`trunc:o` keep the first `o` bytes, `flip:i:b` flip
           bit `b` of byte `i`, `set:hex` overwrite); `add`: foreign file names (hex) created afterwards;
* then the run proper (`rec` = `auto_recover`).

Answer: `[<first outcome> own=<0|+> last=<fields|-> || ]<outcome> rec=<log> own=<0|+> last=<fields|-> other=<names|->`
(`own`: are there well-formed checkpoint files of this pipeline id; `last`: the record in the newest one, without
timestamp and checksum; `other`: all remaining names, sorted). `rec` is `*` after `flip` mutations (the flipped byte
may be a timestamp/checksum byte, which differs between the scripted and the wall clock).

The clock is scripted: one millisecond per reading, the final run one hour after the first.
-/
namespace IB.D11
open IB IB.Wire IB.Checkpoint IB.CheckpointRun IB.PipeParse

def H : Bytes → Bytes := IB.Sha256.sha256Hex

/-- `((idx as f64 / total as f64) * 100.0) as u8` with IEEE doubles (saturating cast, as Rust's `as`) -/
def progressF (idx total : Nat) : UInt8 := (Float.ofNat idx / Float.ofNat total * 100.0).toUInt8

def baseNs : Nat := 1700000000000 * 1000000

def envAt (startNs : Nat) (dirOk : Bool) (dirs : List Name) : Env :=
  { H := H, dec := D12.cfgNow, clock := fun k => startNs + k * 1000000, progress := progressF,
    dirCreatable := dirOk, isDir := fun n => dirs.contains n }

def ns1 : Nat := baseNs
def ns2 : Nat := baseNs + 3600 * 1000000000

/-! the chain, with the crash marker labelled so that it can be found after planning -/

/-- the node a single stateless builder call appends, with its operator labelled -/
def crashNode (s : Step) : Option (Node Part) :=
  match Step.apply [] s with
  | [.stateless [op]] => some (.stateless [{ op with label := "crash" }])
  | _ => none

def chainOf (src : List Val) (steps : List Step) (marker : Option Nat) : Option (List (Node Part)) :=
  match marker with
  | none => some (optimise (litChain src steps))
  | some j =>
    match steps[j]? with
    | none => none
    | some s =>
      (crashNode s).map fun cn =>
        optimise (applySteps (applySteps [vecSource src] (steps.take j) ++ [cn]) (steps.drop (j + 1)))

partial def holdsCrash : Node Part → Bool
  | .stateless ops => ops.any (fun o => o.label == "crash")
  | .coGroup l r _ _ _ => l.any holdsCrash || r.any holdsCrash
  | _ => false

def crashIndex (chain : List (Node Part)) : Option Nat :=
  let idxs := (List.range chain.length).filter (fun i => match chain[i]? with | some n => holdsCrash n | none => false)
  idxs.head?

/-! parsing -/

inductive First | none | full | crash (j : Nat) | crashBarrier (j : Nat)

def first? (s : String) : Option First :=
  if s == "none" then some .none
  else if s == "full" then some .full
  else match s.splitOn ":" with
    | ["crash", j] => (parseNat? j).map .crash
    | ["crashb", j] => (parseNat? j).map .crashBarrier
    | _ => Option.none

/-- number of chain nodes that have COMPLETED when the process is killed -/
def crashPoint (chain : List (Node Part)) (barrier : Bool) : Option Nat :=
  match crashIndex chain with
  | Option.none => Option.none
  | some i =>
    if !barrier then some i
    else match chain[i]? with
      | some (.coGroup ..) => some i                 -- marker and barrier both inside this join's sub-plan
      | _ =>
        match chain[i + 1]? with
        | some n => if isBarrier n then some (i + 1) else Option.none
        | Option.none => Option.none

inductive Mut | none | trunc (o : Nat) | flip (i b : Nat) | set (bytes : Bytes)

def mut? (s : String) : Option Mut :=
  if s == "none" then some .none
  else match s.splitOn ":" with
    | ["trunc", o] => (parseNat? o).map .trunc
    | ["flip", i, b] => do
        let i ← parseNat? i
        let b ← parseNat? b
        if b < 8 then pure (.flip i b) else none
    | ["set", h] => (D12.hex? h).map .set
    | _ => none

def applyMut (m : Mut) (c : Bytes) : Bytes :=
  match m with
  | .none => c
  | .trunc o => c.take o
  | .flip i b => (c.zipIdx).map (fun p => if p.2 == i then p.1 ^^^ (UInt8.ofNat (1 <<< b)) else p.1)
  | .set bytes => bytes

/-- one `pre` entry: `<name>:<hex>` (regular file) or `<name>:DIR` (sub-directory); the flag says which -/
def preEntry? (pid : Bytes) (s : String) : Option ((Name × Bytes) × Bool) :=
  match s.splitOn ":" with
  | [n, c] => do
    let name ← (if n.startsWith "own." then (parseNat? (n.drop 4).toString).map (fileNameOf pid) else D12.hex? n)
    if c == "DIR" then pure ((name, []), true)
    else
      let content ← if c.isEmpty then some [] else D12.hex? c
      pure ((name, content), false)
  | _ => none

/-- the initial directory and the names in it that are sub-directories -/
def pre? (pid : Bytes) (s : String) : Option (FS × List Name) :=
  if s == "-" then some ([], [])
  else ((s.splitOn ",").mapM (preEntry? pid)).map fun es =>
    (es.map (·.1), (es.filter (·.2)).map (·.1.1))

/-! rendering -/

def renderRes (canon : String) (r : M Part) : String := D01.render canon r

def renderOutcome (canon : String) (o : Outcome (M Part)) : String :=
  match o with
  | .finished r => renderRes canon r
  | .died .allocFail => "ABORT"
  | .died _ => "PANIC"
  | .setupFailed .createDir => "ERR ckpt-create-dir"
  | .setupFailed .readDir => "ERR ckpt-read-dir"

def isSetupFailure (o : Outcome (M Part)) : Bool :=
  match o with
  | .setupFailed _ => true
  | _ => false

def errName (e : DecErr) : String := ((D12.errClass e).drop 4).toString

def recStr (lg : Option RecLog) : String :=
  match lg with
  | none => "died"
  | some .off => "off"
  | some .nothing => "none"
  | some .unreadable => "err:io"
  | some (.loaded s) => s!"ok:{s.completedNodeIndex}:{s.metadata.totalNodes}:{s.metadata.progressPercent.toNat}"
  | some (.rejected e) => "err:" ++ errName e

def lastFields (s : State) : String :=
  s!"idx:{s.completedNodeIndex},pc:{s.partitionCount},em:{D12.hexOf s.execMode},tn:{s.metadata.totalNodes}," ++
  s!"lnt:{D12.hexOf s.metadata.lastNodeType},pp:{s.metadata.progressPercent.toNat},pid:{D12.hexOf s.pipelineId}"

/-- `own=<0|+> last=<…>` of a directory (`own`: is there an ENTRY with a well-formed checkpoint name of this id) -/
def ownStr (isDir : Name → Bool) (pid : Bytes) (fs : FS) : String :=
  match latest true pid fs with
  | none => "own=0 last=-"
  | some name =>
    match readD isDir fs name with
    | none => "own=+ last=bad:io"
    | some bytes =>
      match load H D12.cfgNow bytes with
      | .ok s => "own=+ last=" ++ lastFields s
      | .error e => "own=+ last=bad:" ++ errName e

def otherStr (pid : Bytes) (fs : FS) : String :=
  D12.namesOut (D12.sortNames ((names fs).filter (fun n => !isOwn pid n)))

/-- `pol=<p>` (configuration present and enabled), `pol=off/<p>` (present, `enabled = false`), `pol=nocfg` (absent) -/
def ck? (tpol : String) (max : Option Nat) (rec : Bool) : Option (Option (Bool × Config)) :=
  if tpol == "nocfg" then some none
  else if tpol.startsWith "off/" then
    (D12.policy? (tpol.drop 4).toString).map (fun p => some (false, { policy := p, autoRecover := rec, max := max }))
  else (D12.policy? tpol).map (fun p => some (true, { policy := p, autoRecover := rec, max := max }))

def enabledCfg (ck : Option (Bool × Config)) : Option Config :=
  match ck with
  | some (true, cfg) => some cfg
  | _ => none

/-- `Runner { mode, checkpoint_config }.run_collect` on the planned chain -/
def runEngine (env : Env) (ck : Option (Bool × Config)) (fs : FS) (chain : List (Node Part)) (par : Option Nat) :
    Run (M Part) :=
  runCollect List.flatten env
    { mode := (match par with | none => .sequential | some n => .parallel n), checkpoint := ck } fs chain

def pidOf (env : Env) (chain : List (Node Part)) (par : Option Nat) : Bytes :=
  match par with
  | none => seqPid env chain.length
  | some n => parPid env chain.length n

/-- the harness damages the newest own-named REGULAR file -/
def mutateNewest (isDir : Name → Bool) (pid : Bytes) (m : Mut) (fs : FS) : FS :=
  match latest true pid (fs.filter (fun f => !isDir f.1)) with
  | none => fs
  | some name => fs.map (fun f => if f.1 == name then (f.1, applyMut m f.2) else f)

def addForeign (fs : FS) (ns : List Name) : FS := ns.foldl (fun acc n => write acc n []) fs

def handle (toks : List String) : String :=
  match toks with
  | tdir :: tpol :: tmax :: trec :: tfirst :: tmut :: tadd :: tpre :: rest =>
    match kv? "dir" [tdir], kv? "pol" [tpol], (kv? "max" [tmax]) >>= D12.max?, (kv? "rec" [trec]) >>= D12.bool?,
          (kv? "first" [tfirst]) >>= first?, (kv? "mut" [tmut]) >>= mut?, (kv? "add" [tadd]) >>= D12.names?,
          kv? "pre" [tpre], parseReq rest with
    | some dirS, some polS, some max, some rec, some first, some mu, some add, some preS, some q =>
      let dirOk? : Option Bool := if dirS == "ok" then some true else if dirS == "file" then some false else none
      match dirOk?.bind (fun d => (ck? polS max rec).map (fun c => (d, c))) with
      | none => "BAD-OP"
      | some (dirOk, ck) =>
      let par? : Option (Option Nat) :=
        if q.mode == "seq" then some none
        else if q.mode.startsWith "par:" then (parseNat? (q.mode.drop 4).toString).map some
        else none
      match par? with
      | none => "BAD-OP"
      | some par =>
        let marker : Option Nat := match first with | .crash j => some j | .crashBarrier j => some j | _ => none
        match chainOf q.src q.steps marker with
        | none => "BAD-OP"
        | some chain =>
        let pid := pidOf (envAt ns1 true []) chain par
        match pre? pid preS with
        | none => "BAD-OP"
        | some (fs0, dirs) =>
          if !dirOk && !fs0.isEmpty then "BAD-OP"      -- a regular file has no entries
          else
          let env1 := envAt ns1 dirOk dirs
          let env2 := envAt ns2 dirOk dirs
          -- the earlier run
          let crashPhase (barrier : Bool) : Option (String × FS) :=
            match crashPoint chain barrier with
            | none => none
            | some k =>
              let fs1 := match par, enabledCfg ck with
                | none, some cfg1 => if dirOk then crashFs env1 cfg1 fs0 chain k else fs0
                | _, _ => fs0     -- a panic inside `exec_par` / a plain engine unwinds: nothing is written
              -- with an unusable directory the run returns its `Err` before the armed closure is reached
              let o := if !dirOk && (enabledCfg ck).isSome then "ERR ckpt-create-dir" else "PANIC"
              some (o ++ " " ++ ownStr env1.isDir pid fs1 ++ " || ", fs1)
          let phase1 : Option (String × FS) :=
            match first with
            | .none => some ("", fs0)
            | .full =>
              let r := runEngine env1 ck fs0 chain par
              some (renderOutcome q.canon r.outcome ++ " " ++ ownStr env1.isDir pid r.fs ++ " || ", r.fs)
            | .crash _ => crashPhase false
            | .crashBarrier _ => crashPhase true
          match phase1 with
          | none => "BAD-OP"
          | some (prefix1, fs1) =>
            let fs2 := addForeign (mutateNewest env2.isDir pid mu fs1) add
            let r := runEngine env2 ck fs2 chain par
            let recS :=
              if isSetupFailure r.outcome then "-"
              else match mu with | .flip _ _ => "*" | _ => recStr r.log
            prefix1 ++ renderOutcome q.canon r.outcome ++ " rec=" ++ recS ++ " " ++ ownStr env2.isDir pid r.fs ++
              " other=" ++ otherStr pid r.fs
    | _, _, _, _, _, _, _, _, _ => "BAD-OP"
  | _ => "BAD-OP"

def handlers : List (String × (List String → String)) := [("CKPT", handle)]

end IB.D11
