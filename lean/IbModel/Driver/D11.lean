import IbModel.Util.Wire
import IbModel.Util.Sha256
import IbModel.Model.CheckpointRun
import IbModel.Driver.PipeParse
import IbModel.Driver.D01
import IbModel.Driver.D12
import IbModel.Generated.Tables
/-!
Driver handler for C11 (checkpointing engines).

`CKPT dir=<ok|file|empty|rel> pol=<barrier|every:n|time:s|hybrid:<T|F>:s> max=<none|n> rec=<T|F>
      first=<none|full|crash:j|crashb:j>
      mut=<none|trunc:o|flip:i:b|set:hex> add=<names|-> pre=<dir|-> ty=<ok|wrong> sab=<none|j>
      mode=<seq|par:n|par:none:<s|none>:<d>> canon=<..> src <rows> ; steps`

* `dir`  : the configured checkpoint directory: `ok` = a directory that can be created and listed, `file` = the path
           is a regular file (`create_dir_all` fails: `Env.dirCreatable = false`); `empty` = the EMPTY path with the
           process' current directory being the scratch directory, `rel` = a relative path — for the current code
           (`CheckpointManager::new` turns the empty path into `"."`) both are usable directories like `ok`;
* `pre`  : the directory before anything runs: comma-separated `<name>:<hex content>`, `<name>:DIR` (the entry is a
           sub-directory), `<name>:BIG` (a regular file too large to be read into memory: `Env.tooBig`) or
           `<name>:REP<hh>x<n>` (`n` times the byte `hh`);
           a name is either hex bytes or `own.<stamp>` = `checkpoint_<this run's pipeline id>_<stamp>.bin`;
* `ty`   : `wrong` = `run_collect::<T>` is called with a `T` the terminal partition does not have (`cast = none`);
* `sab`  : `j` = step `j` of the program is an identity step whose closure, during the run proper, RENAMES the
           checkpoint directory away (`Env.failFrom` = the chain node holding that op): every later save and the
           final clear fail; the answer's directory part describes the renamed directory;
* `mode` : `par:none:<s>:<d>` = `ExecMode::Parallel { partitions: None }` with the planner's suggestion `s` and
           `default_partitions = d`;
* `first`: an earlier run of the SAME pipeline: `full` = runs to its end, `crash:j` = step `j` of the program (an
           identity step: `map ident` or `filter tt`) is armed and panics, i.e. the process is killed while the chain
           node that contains this op executes; `crashb:j` = step `j` is such an identity step but NOT armed — the
           closure that panics is the user combiner of the barrier step that follows it, i.e. the process is killed
           inside the barrier node right after the node holding step `j` (or inside the CoGroup node, when a later
           join has swallowed both into its left sub-plan); `none` = no earlier run;
* `mut`  : what then happens to the newest own checkpoint file (`trunc:o` keep the first `o` bytes, `flip:i:b` flip
           bit `b` of byte `i`, `set:hex` overwrite); `add`: foreign file names (hex) created afterwards;
* then the run proper (`rec` = `auto_recover`).

Answer: `[<first outcome> own=<0|+> last=<fields|-> || ]<outcome> rec=<log> own=<0|+> last=<fields|-> other=<names|->`
(`own`: are there well-formed checkpoint files of this pipeline id; `last`: the record in the newest one, without
timestamp and checksum; `other`: all remaining names, sorted). `rec` is `*` after `flip` mutations (the flipped byte
may be a timestamp/checksum byte, which differs between the scripted and the wall clock).

The clock is scripted: one millisecond per reading, the final run one hour after the first.
-/
namespace IB.D11
open IB IB.Wire IB.Checkpoint IB.CheckpointRun IB.PipeParse

def H : Bytes → Bytes := IB.Sha256.sha256Hex

/-- `((idx as f64 / total as f64) * 100.0) as u8` with IEEE doubles (saturating cast, as Rust's `as`) -/
def progressF (idx total : Nat) : UInt8 := (Float.ofNat idx / Float.ofNat total * 100.0).toUInt8

def baseNs : Nat := 1700000000000 * 1000000

def envAt (startNs : Nat) (dirOk : Bool) (dirs bigs : List Name) (failFrom : Option Nat := none) : Env :=
  { H := H, dec := D12.cfgNow, clock := fun k => startNs + k * 1000000, progress := progressF,
    dirCreatable := dirOk, isDir := fun n => dirs.contains n, tooBig := fun n => bigs.contains n,
    failFrom := failFrom }

def ns1 : Nat := baseNs
def ns2 : Nat := baseNs + 3600 * 1000000000

/-! the chain, with the crash marker labelled so that it can be found after planning -/

/-- the node a single stateless builder call appends, with its operator labelled -/
def crashNode (s : Step) : Option (Node Part) :=
  match Step.apply [] s with
  | [.stateless [op]] => some (.stateless [{ op with label := "crash" }])
  | _ => none

def chainOf (src : List Val) (steps : List Step) (marker : Option Nat) : Option (List (Node Part)) :=
  match marker with
  | none => some (optimise (litChain src steps))
  | some j =>
    match steps[j]? with
    | none => none
    | some s =>
      (crashNode s).map fun cn =>
        optimise (applySteps (applySteps [vecSource src] (steps.take j) ++ [cn]) (steps.drop (j + 1)))

partial def holdsCrash : Node Part → Bool
  | .stateless ops => ops.any (fun o => o.label == "crash")
  | .coGroup l r _ _ _ => l.any holdsCrash || r.any holdsCrash
  | _ => false

def crashIndex (chain : List (Node Part)) : Option Nat :=
  let idxs := (List.range chain.length).filter (fun i => match chain[i]? with | some n => holdsCrash n | none => false)
  idxs.head?

/-! parsing -/

inductive First | none | full | crash (j : Nat) | crashBarrier (j : Nat)

def first? (s : String) : Option First :=
  if s == "none" then some .none
  else if s == "full" then some .full
  else match s.splitOn ":" with
    | ["crash", j] => (parseNat? j).map .crash
    | ["crashb", j] => (parseNat? j).map .crashBarrier
    | _ => Option.none

/-- number of chain nodes that have COMPLETED when the process is killed -/
def crashPoint (chain : List (Node Part)) (barrier : Bool) : Option Nat :=
  match crashIndex chain with
  | Option.none => Option.none
  | some i =>
    if !barrier then some i
    else match chain[i]? with
      | some (.coGroup ..) => some i                 -- marker and barrier both inside this join's sub-plan
      | _ =>
        match chain[i + 1]? with
        | some n => if isBarrier n then some (i + 1) else Option.none
        | Option.none => Option.none

inductive Mut | none | trunc (o : Nat) | flip (i b : Nat) | set (bytes : Bytes)

def mut? (s : String) : Option Mut :=
  if s == "none" then some .none
  else match s.splitOn ":" with
    | ["trunc", o] => (parseNat? o).map .trunc
    | ["flip", i, b] => do
        let i ← parseNat? i
        let b ← parseNat? b
        if b < 8 then pure (.flip i b) else none
    | ["set", h] => (D12.hex? h).map .set
    | _ => none

def applyMut (m : Mut) (c : Bytes) : Bytes :=
  match m with
  | .none => c
  | .trunc o => c.take o
  | .flip i b => (c.zipIdx).map (fun p => if p.2 == i then p.1 ^^^ (UInt8.ofNat (1 <<< b)) else p.1)
  | .set bytes => bytes

/-- kind of a `pre` entry -/
inductive EntKind | file | dir | big
deriving DecidableEq

/-- `REP<hh>x<n>`: `n` times the byte `hh` -/
def rep? (c : String) : Option Bytes :=
  if c.startsWith "REP" then
    match ((c.drop 3).toString).splitOn "x" with
    | [h, n] => do
      let b ← D12.hex? h
      let n ← parseNat? n
      match b with
      | [x] => if n ≤ 8388608 then some (List.replicate n x) else none
      | _ => none
    | _ => none
  else none

/-- one `pre` entry: `<name>:<hex>` / `<name>:REP<hh>x<n>` (regular file), `<name>:DIR` (sub-directory),
    `<name>:BIG` (regular file too large to read; its content is never looked at) -/
def preEntry? (pid : Bytes) (s : String) : Option ((Name × Bytes) × EntKind) :=
  match s.splitOn ":" with
  | [n, c] => do
    let name ← (if n.startsWith "own." then (parseNat? (n.drop 4).toString).map (fileNameOf pid) else D12.hex? n)
    if c == "DIR" then pure ((name, []), .dir)
    else if c == "BIG" then pure ((name, []), .big)
    else if c.startsWith "REP" then do
      let content ← rep? c
      pure ((name, content), .file)
    else
      let content ← if c.isEmpty then some [] else D12.hex? c
      pure ((name, content), .file)
  | _ => none

/-- the initial directory, the names in it that are sub-directories, and those that are too large to read -/
def pre? (pid : Bytes) (s : String) : Option (FS × List Name × List Name) :=
  if s == "-" then some ([], [], [])
  else ((s.splitOn ",").mapM (preEntry? pid)).map fun es =>
    (es.map (·.1), (es.filter (·.2 == .dir)).map (·.1.1), (es.filter (·.2 == .big)).map (·.1.1))

/-! rendering -/

def renderRes (canon : String) (r : M Part) : String := D01.render canon r

/-- the typed result: `anyhow!("terminal type mismatch")` is an `ERR other:` line of the harness -/
def renderResT (canon : String) (r : Except TErr Part) : String :=
  match r with
  | .ok rows => renderRes canon (.ok rows)
  | .error (.engine e) => renderRes canon (.error e)
  | .error .typeMismatch => "ERR other:terminal_type_mismatch"

def renderOutcome (canon : String) (o : Outcome (Except TErr Part)) : String :=
  match o with
  | .finished r => renderResT canon r
  | .died .allocFail => "ABORT"
  | .died _ => "PANIC"
  | .setupFailed .createDir => "ERR ckpt-create-dir"
  | .setupFailed .readDir => "ERR ckpt-read-dir"

def isSetupFailure (o : Outcome (Except TErr Part)) : Bool :=
  match o with
  | .setupFailed _ => true
  | _ => false

def errName (e : DecErr) : String := ((D12.errClass e).drop 4).toString

def recStr (lg : Option RecLog) : String :=
  match lg with
  | none => "died"
  | some .off => "off"
  | some .nothing => "none"
  | some .unreadable => "err:io"
  | some (.loaded s) => s!"ok:{s.completedNodeIndex}:{s.metadata.totalNodes}:{s.metadata.progressPercent.toNat}"
  | some (.rejected e) => "err:" ++ errName e

def lastFields (s : State) : String :=
  s!"idx:{s.completedNodeIndex},pc:{s.partitionCount},em:{D12.hexOf s.execMode},tn:{s.metadata.totalNodes}," ++
  s!"lnt:{D12.hexOf s.metadata.lastNodeType},pp:{s.metadata.progressPercent.toNat},pid:{D12.hexOf s.pipelineId}"

/-- `own=<0|+> last=<…>` of a directory (`own`: is there an ENTRY with a well-formed checkpoint name of this id) -/
def ownStr (isDir tooBig : Name → Bool) (pid : Bytes) (fs : FS) : String :=
  match latest true pid fs with
  | none => "own=0 last=-"
  | some name =>
    match readD isDir tooBig fs name with
    | none => "own=+ last=bad:io"
    | some bytes =>
      match load H D12.cfgNow bytes with
      | .ok s => "own=+ last=" ++ lastFields s
      | .error e => "own=+ last=bad:" ++ errName e

def otherStr (pid : Bytes) (fs : FS) : String :=
  D12.namesOut (D12.sortNames ((names fs).filter (fun n => !isOwn pid n)))

/-- `pol=<p>` (configuration present and enabled), `pol=off/<p>` (present, `enabled = false`), `pol=nocfg` (absent) -/
def ck? (tpol : String) (max : Option Nat) (rec : Bool) : Option (Option (Bool × Config)) :=
  if tpol == "nocfg" then some none
  else if tpol.startsWith "off/" then
    (D12.policy? (tpol.drop 4).toString).map (fun p => some (false, { policy := p, autoRecover := rec, max := max }))
  else (D12.policy? tpol).map (fun p => some (true, { policy := p, autoRecover := rec, max := max }))

def enabledCfg (ck : Option (Bool × Config)) : Option Config :=
  match ck with
  | some (true, cfg) => some cfg
  | _ => none

/-- the mode token: `seq`, `par:n` (`partitions: Some(n)`), `par:none:<s|none>:<d>` (`partitions: None`, planner
    suggestion `s`, `default_partitions = d`) -/
structure ModeTok where
  spec : ModeSpec
  suggested : Option Nat
  dflt : Nat

def modeTok? (m : String) : Option ModeTok :=
  if m == "seq" then some { spec := .sequential, suggested := none, dflt := 0 }
  else match m.splitOn ":" with
    | ["par", n] => (parseNat? n).map fun n => { spec := .parallel none (some n), suggested := none, dflt := 0 }
    | ["par", "none", s, d] => do
      let s ← if s == "none" then some none else (parseNat? s).map some
      let d ← parseNat? d
      pure { spec := .parallel none none, suggested := s, dflt := d }
    | _ => none

/-- the partition count the run uses (`none` = sequential) -/
def ModeTok.parts (m : ModeTok) : Option Nat :=
  match m.spec with
  | .sequential => none
  | .parallel _ p => some (resolvePartsPlain p m.suggested m.dflt)

/-- the terminal downcast: with a wrong `T` it fails — unless a user closure has panicked before it is reached
    (`hasErr` rows stand for that panic and are rendered `PANIC`) -/
def castOf (wrong : Bool) (rows : Part) : Option Part :=
  if wrong && !rows.any D01.hasErr then none else some rows

/-- `Runner { mode, default_partitions, checkpoint_config }.run_collect::<T>` on the planned chain -/
def runEngine (env : Env) (ck : Option (Bool × Config)) (fs : FS) (chain : List (Node Part)) (m : ModeTok)
    (wrongT : Bool) : Run (Except TErr Part) :=
  runCollectT (castOf wrongT) List.flatten env
    { mode := m.spec, defaultPartitions := m.dflt, checkpoint := ck } m.suggested fs chain

def pidOf (env : Env) (chain : List (Node Part)) (par : Option Nat) : Bytes :=
  match par with
  | none => seqPid env chain.length
  | some n => parPid env chain.length n

/-- the harness damages the newest own-named REGULAR file -/
def mutateNewest (isDir : Name → Bool) (pid : Bytes) (m : Mut) (fs : FS) : FS :=
  match latest true pid (fs.filter (fun f => !isDir f.1)) with
  | none => fs
  | some name => fs.map (fun f => if f.1 == name then (f.1, applyMut m f.2) else f)

def addForeign (fs : FS) (ns : List Name) : FS := ns.foldl (fun acc n => write acc n []) fs

def handle (toks : List String) : String :=
  match toks with
  | tdir :: tpol :: tmax :: trec :: tfirst :: tmut :: tadd :: tpre :: tty :: tsab :: rest =>
    match kv? "dir" [tdir], kv? "pol" [tpol], (kv? "max" [tmax]) >>= D12.max?, (kv? "rec" [trec]) >>= D12.bool?,
          (kv? "first" [tfirst]) >>= first?, (kv? "mut" [tmut]) >>= mut?, (kv? "add" [tadd]) >>= D12.names?,
          kv? "pre" [tpre], kv? "ty" [tty], kv? "sab" [tsab], parseReq rest with
    | some dirS, some polS, some max, some rec, some first, some mu, some add, some preS, some tyS, some sabS, some q =>
      let dirOk? : Option Bool :=
        if dirS == "ok" || dirS == "empty" || dirS == "rel" then some true else if dirS == "file" then some false else none
      let wrong? : Option Bool := if tyS == "ok" then some false else if tyS == "wrong" then some true else none
      let sab? : Option (Option Nat) := if sabS == "none" then some none else (parseNat? sabS).map some
      match dirOk?, ck? polS max rec, wrong?, sab?, modeTok? q.mode with
      | some dirOk, some ck, some wrongT, some sab, some mt =>
        let par := mt.parts
        let marker? : Option (Option Nat) :=
          match first, sab with
          | .crash j, none => some (some j)
          | .crashBarrier j, none => some (some j)
          | .crash _, some _ => none                 -- one marker per program
          | .crashBarrier _, some _ => none
          | _, s => some s
        match marker? with
        | none => "BAD-OP"
        | some marker =>
        match chainOf q.src q.steps marker with
        | none => "BAD-OP"
        | some chain =>
        let pid := pidOf (envAt ns1 true [] []) chain par
        match pre? pid preS with
        | none => "BAD-OP"
        | some (fs0, dirs, bigs) =>
          if !dirOk && !fs0.isEmpty then "BAD-OP"      -- a regular file has no entries
          else
          -- the node whose execution takes the directory away (run proper only)
          let failFrom? : Option (Option Nat) :=
            match sab with
            | none => some none
            | some _ => (crashIndex chain).map some
          match failFrom? with
          | none => "BAD-OP"
          | some failFrom =>
          let env1 := envAt ns1 dirOk dirs bigs
          let env2 := envAt ns2 dirOk dirs bigs failFrom
          -- the earlier run
          let crashPhase (barrier : Bool) : Option (String × FS) :=
            match crashPoint chain barrier with
            | none => none
            | some k =>
              let fs1 := match par, enabledCfg ck with
                | none, some cfg1 => if dirOk then crashFs env1 cfg1 fs0 chain k else fs0
                | _, _ => fs0     -- a panic inside `exec_par` / a plain engine unwinds: nothing is written
              -- with an unusable directory the run returns its `Err` before the armed closure is reached
              let o := if !dirOk && (enabledCfg ck).isSome then "ERR ckpt-create-dir" else "PANIC"
              some (o ++ " " ++ ownStr env1.isDir env1.tooBig pid fs1 ++ " || ", fs1)
          let phase1 : Option (String × FS) :=
            match first with
            | .none => some ("", fs0)
            | .full =>
              let r := runEngine env1 ck fs0 chain mt wrongT
              some (renderOutcome q.canon r.outcome ++ " " ++ ownStr env1.isDir env1.tooBig pid r.fs ++ " || ", r.fs)
            | .crash _ => crashPhase false
            | .crashBarrier _ => crashPhase true
          match phase1 with
          | none => "BAD-OP"
          | some (prefix1, fs1) =>
            let fs2 := addForeign (mutateNewest env2.isDir pid mu fs1) add
            let r := runEngine env2 ck fs2 chain mt wrongT
            let recS :=
              if isSetupFailure r.outcome then "-"
              else if !bigs.isEmpty then "*"
              else match mu with | .flip _ _ => "*" | _ => recStr r.log
            prefix1 ++ renderOutcome q.canon r.outcome ++ " rec=" ++ recS ++ " " ++
              ownStr env2.isDir env2.tooBig pid r.fs ++ " other=" ++ otherStr pid r.fs
      | _, _, _, _, _ => "BAD-OP"
    | _, _, _, _, _, _, _, _, _, _, _ => "BAD-OP"
  | _ => "BAD-OP"

def handlers : List (String × (List String → String)) := [("CKPT", handle)]

end IB.D11
