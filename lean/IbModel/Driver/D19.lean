import IbModel.Util.Wire
import IbModel.Model.CloudGlob
/-!
Driver handlers for C19. Strings travel as `x<hex of UTF-8>` (so the empty string is `x`), records as
opaque tokens `r<hex>`.

* `GLOB2RE x<pat>`                       ↦ `x<regex source>`
* `GLOBPREFIX x<pat>`                    ↦ `NONE` | `SOME x<prefix>`
* `GLOBMATCH x<pat> x<key>…`             ↦ `OK x<key>…` | `ERR <class>`        (`expand_cloud_glob`)
* `GLOBREQ x<pat> x<key>…`               ↦ same, `expand_cloud_glob_required`
* `GLOBALL x<pat> x<alphabet> <n>`       ↦ `OK <count> x<key>…` over ALL keys of length ≤ n over the alphabet
* `CLOUDJSONL x<key> r…`                 ↦ `W:<codec> R:OK r…` | `W:<codec> R:ERR`
* `GLOBREAD x<pat> x<key>=r,r,… …`       ↦ `OK r…` | `ERR <class>`             (`read_cloud_jsonl_glob`)
-/
namespace IB.D19
open IB.Wire IB.CloudGlob

def str? (tok : String) : Option Str :=
  match tok.toList with
  | 'x' :: h =>
    match hexToBytes? h with
    | some bs =>
      if bs.all (· < 256) then
        (String.fromUTF8? (ByteArray.mk (bs.map (fun b => UInt8.ofNat b)).toArray)).map String.toList
      else none
    | none => none
  | _ => none

def strTok (s : Str) : String := "x" ++ stringToHex (String.ofList s)

def errName : Err → String
  | .invalidInput => "InvalidInput"
  | .notFound => "NotFound"
  | .internal => "InternalError"

def keysAnswer : Except Err (List Str) → String
  | .error e => "ERR " ++ errName e
  | .ok ks => String.intercalate " " ("OK" :: ks.map strTok)

def codecName : Codec → String
  | .plain => "plain" | .gzip => "gzip" | .zstd => "zstd" | .bzip2 => "bzip2" | .xz => "xz"

/-- toy serialiser/codec used to EXECUTE the model: a record is its own token; a compressed blob is the
    text behind a one-word signature that is not a scalar value -/
def codecTag : Codec → Nat
  | .plain => 0 | .gzip => 0x110001 | .zstd => 0x110002 | .bzip2 => 0x110003 | .xz => 0x110004

def isHexChar (c : Char) : Bool := ('0' ≤ c ∧ c ≤ '9') || ('a' ≤ c ∧ c ≤ 'f')

def toyText (b : List Nat) : Option Str :=
  if b.all (· < 0x110000) then some (b.map Char.ofNat) else none

def toy : Ext String (List Nat) where
  ser r := r.toList
  de l := match l with
    | 'r' :: h => if h.all isHexChar then some (String.ofList l) else none
    | _ => none
  enc c t := match c with
    | .plain => t.map Char.toNat
    | c => codecTag c :: t.map Char.toNat
  dec c b := match c with
    | .plain => toyText b
    | c => match b with
      | tag :: rest => if tag = codecTag c then toyText rest else none
      | [] => none
  magic b := match b with
    | tag :: _ =>
      if tag = 0x110001 then some .gzip else if tag = 0x110002 then some .zstd
      else if tag = 0x110003 then some .bzip2 else if tag = 0x110004 then some .xz else none
    | [] => none

def recsAnswer : Except Err (List String) → String
  | .error e => "ERR " ++ errName e
  | .ok rs => String.intercalate " " ("OK" :: rs)

/-- all strings of length ≤ n over the alphabet -/
def allKeys (alpha : Str) : Nat → List Str
  | 0 => [[]]
  | n + 1 => [] :: (allKeys alpha n).flatMap (fun k => alpha.map (fun c => c :: k))

def isRecTok (t : String) : Bool :=
  match t.toList with
  | 'r' :: h => h.all isHexChar
  | _ => false

def handleGlob2Re : List String → String
  | [p] => match str? p with
    | some p => strTok (globToRegex p)
    | none => "BAD-OP"
  | _ => "BAD-OP"

def handlePrefix : List String → String
  | [p] => match str? p with
    | some p => match literalPrefix p with
      | none => "NONE"
      | some q => "SOME " ++ strTok q
    | none => "BAD-OP"
  | _ => "BAD-OP"

def handleMatch (required : Bool) : List String → String
  | p :: ks => match str? p, ks.mapM str? with
    | some p, some ks =>
      -- the store holds each key once (puts of the same key overwrite)
      let s : Store Unit := ks.foldl (fun s k => put s k ()) []
      keysAnswer (if required then expandGlobRequired (keysOf s) p else expandGlob (keysOf s) p)
    | _, _ => "BAD-OP"
  | _ => "BAD-OP"

def handleAll : List String → String
  | [p, a, n] => match str? p, str? a, parseNat? n with
    | some p, some a, some n =>
      if n > 6 then "BAD-OP" else
      match expandGlob ((allKeys a n).eraseDups) p with
      | .error e => "ERR " ++ errName e
      | .ok ks => String.intercalate " " ("OK" :: toString ks.length :: ks.map strTok)
    | _, _, _ => "BAD-OP"
  | _ => "BAD-OP"

def handleJsonl : List String → String
  | k :: rs => match str? k with
    | some k =>
      if rs.all isRecTok then
        let s := writeObj toy [] k rs
        let r := match readObj toy s k with
          | .ok out => String.intercalate " " ("R:OK" :: out)
          | .error _ => "R:ERR"
        "W:" ++ codecName (writerCodec k) ++ " " ++ r
      else "BAD-OP"
    | none => "BAD-OP"
  | _ => "BAD-OP"

def objTok? (t : String) : Option (Str × List String) :=
  match t.splitOn "=" with
  | [k, rs] => do
    let k ← str? k
    let rs := if rs = "" then [] else rs.splitOn ","
    if rs.all isRecTok then some (k, rs) else none
  | _ => none

def handleRead : List String → String
  | p :: objs => match str? p, objs.mapM objTok? with
    | some p, some objs =>
      let s := writeAll toy [] objs
      recsAnswer (readGlob toy s p)
    | _, _ => "BAD-OP"
  | _ => "BAD-OP"

def handlers : List (String × (List String → String)) :=
  [("GLOB2RE", handleGlob2Re), ("GLOBPREFIX", handlePrefix), ("GLOBMATCH", handleMatch false),
   ("GLOBREQ", handleMatch true), ("GLOBALL", handleAll), ("CLOUDJSONL", handleJsonl),
   ("GLOBREAD", handleRead)]

end IB.D19
