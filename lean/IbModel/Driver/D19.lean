import IbModel.Util.Wire
import IbModel.Model.CloudGlob
import IbModel.Generated.Tables
/-!
Driver handlers for C19. Strings travel as `x<hex of UTF-8>` (so the empty string is `x`), records as
opaque tokens `r<hex>`.

* `GLOB2RE x<pat>`                       ↦ `x<regex source>`
* `GLOBPREFIX x<pat>`                    ↦ `NONE` | `SOME x<prefix>`
* `GLOBMATCH x<pat> x<key>…`             ↦ `<L> OK x<key>…` | `<L> ERR <class>` | `ERR InvalidInput` (`expand_cloud_glob`);
                                           `<L>` = `PNONE` | `Px<prefix>`: what was passed to `list_objects`
* `GLOBREQ x<pat> x<key>…`               ↦ same, `expand_cloud_glob_required`
* `GLOBALL x<pat> x<alphabet> <n>`       ↦ `<L> OK <count> x<key>…` over ALL keys of length ≤ n over the alphabet
* `REFMATCH x<pat> x<key>…`              ↦ `M:<one bit per key>`  — the REFERENCE `globMatch`, no regex involved
* `REFALL x<pat> x<alphabet> <n>`        ↦ `N <count> x<key>…`    — the reference over the same keyUniverse, sorted
* `CLOUDJSONL x<key> r…`                 ↦ `W:<codec> R:OK r…` | `W:<codec> R:ERR`
* `GLOBREAD x<pat> x<key>=r,r,… …`       ↦ `OK r…` | `ERR <class>`             (`read_cloud_jsonl_glob`)
* `CLOUDNF x<key> q<x>;<o>;<v>,<v>… …`   ↦ `W:<codec> R:OK q… …` | `W:<codec> R:ERR`   — float-bearing records
                                           `{x: f64, o: Option<f64>, v: Vec<f32>}` given structurally: a float is
                                           `f<hex of its JSON text>` | `nan` | `pinf` | `ninf`, `<o>` may be `-` (None);
                                           evaluated with `floatExt` (a non-finite float is written `null`)
* `CLOUDBIG x<key> <n> x<key2> <m> x<pat>` ↦ `W:<codec> R:OK <n> G:OK <count>` | … — a LARGE object of n records under
                                           `key`, a small one of m records under `key2`, read back and read by glob;
                                           the model only counts (the harness's oracle compares the contents)
-/
namespace IB.D19
open IB.Wire IB.CloudGlob

def str? (tok : String) : Option Str :=
  match tok.toList with
  | 'x' :: h =>
    match hexToBytes? h with
    | some bs =>
      if bs.all (· < 256) then
        (String.fromUTF8? (ByteArray.mk (bs.map (fun b => UInt8.ofNat b)).toArray)).map String.toList
      else none
    | none => none
  | _ => none

def strTok (s : Str) : String := "x" ++ stringToHex (String.ofList s)

def errName : Err → String
  | .invalidInput => "InvalidInput"
  | .notFound => "NotFound"
  | .internal => "InternalError"

def keysAnswer : Except Err (List Str) → String
  | .error e => "ERR " ++ errName e
  | .ok ks => String.intercalate " " ("OK" :: ks.map strTok)

def codecName : Codec → String
  | .plain => "plain" | .gzip => "gzip" | .zstd => "zstd" | .bzip2 => "bzip2" | .xz => "xz"

/-- a record token `r<hex>` of the wire ↦ the model's record type (the serialiser/codec instance the
    model is executed with is `IB.CloudGlob.wireExt`, proved `Lawful` in `Props/C19.lean`) -/
def recTok? (t : String) : Option RecTok :=
  match t.toList with
  | 'r' :: h => if hh : h.all isHexChar = true then some ⟨h, hh⟩ else none
  | _ => none

def recStr (r : RecTok) : String := String.ofList ('r' :: r.hex)

def recsAnswer : Except Err (List RecTok) → String
  | .error e => "ERR " ++ errName e
  | .ok rs => String.intercalate " " ("OK" :: rs.map recStr)

/-- all strings of length ≤ n over the alphabet -/
def allKeys (alpha : Str) : Nat → List Str
  | 0 => [[]]
  | n + 1 => [] :: (allKeys alpha n).flatMap (fun k => alpha.map (fun c => c :: k))

/-- the store of `GLOBALL` / `REFALL`: every key once (a repeated alphabet letter would repeat keys) -/
def keyUniverse (alpha : Str) (n : Nat) : List Str :=
  if alpha.Nodup then allKeys alpha n else (allKeys alpha n).eraseDups

def handleGlob2Re : List String → String
  | [p] => match str? p with
    -- the escape set and head probed from the running code (`Props/C19.lean::glob_regex_correct_generated`,
    -- `expand_exact_generated` are about exactly this function); a probe on single characters only — this
    -- request checks that it generalises to whole patterns
    | some p => strTok (globToRegexWith IB.Generated.escapeSet IB.Generated.regexHead p)
    | none => "BAD-OP"
  | _ => "BAD-OP"

def handlePrefix : List String → String
  | [p] => match str? p with
    | some p => match literalPrefix p with
      | none => "NONE"
      | some q => "SOME " ++ strTok q
    | none => "BAD-OP"
  | _ => "BAD-OP"

/-- the prefix `expand_cloud_glob` hands to `list_objects` (recorded by the harness's store wrapper) -/
def prefixTok : Option Str → String
  | none => "PNONE"
  | some q => "P" ++ strTok q

/-- `<prefix passed to list_objects> <result>`; when `Regex::new` fails nothing is listed -/
def withListing (p : Str) (answer : String) : String :=
  match listedPrefix globToRegex p with
  | none => answer
  | some q => prefixTok q ++ " " ++ answer

def handleMatch (required : Bool) : List String → String
  | p :: ks => match str? p, ks.mapM str? with
    | some p, some ks =>
      -- the store holds each key once (puts of the same key overwrite)
      let s : Store Unit := ks.foldl (fun s k => put s k ()) []
      withListing p (keysAnswer (if required then expandGlobRequired (keysOf s) p else expandGlob (keysOf s) p))
    | _, _ => "BAD-OP"
  | _ => "BAD-OP"

/-- the REFERENCE matcher of the model (`globMatch`, the documented syntax), one bit per key: compared with
    the harness's own reference `ref_match`, so the two statements of the syntax are diffed directly -/
def handleRefMatch : List String → String
  | p :: ks => match str? p, ks.mapM str? with
    | some p, some ks => "M:" ++ String.ofList (ks.map (fun k => if globMatch p k then '1' else '0'))
    | _, _ => "BAD-OP"
  | _ => "BAD-OP"

def handleAll : List String → String
  | [p, a, n] => match str? p, str? a, parseNat? n with
    | some p, some a, some n =>
      if n > 6 then "BAD-OP" else
      withListing p (match expandGlob (keyUniverse a n) p with
      | .error e => "ERR " ++ errName e
      | .ok ks => String.intercalate " " ("OK" :: toString ks.length :: ks.map strTok))
    | _, _, _ => "BAD-OP"
  | _ => "BAD-OP"

/-- the reference matcher over the same keyUniverse, sorted: `N <count> x<key>…` -/
def handleRefAll : List String → String
  | [p, a, n] => match str? p, str? a, parseNat? n with
    | some p, some a, some n =>
      if n > 6 then "BAD-OP" else
      let ks := sortKeys ((keyUniverse a n).filter (fun k => globMatch p k))
      String.intercalate " " ("N" :: toString ks.length :: ks.map strTok)
    | _, _, _ => "BAD-OP"
  | _ => "BAD-OP"

def handleJsonl : List String → String
  | k :: rs => match str? k with
    | some k =>
      match rs.mapM recTok? with
      | some rs =>
        let s := writeObj wireExt [] k rs
        let r := match readObj wireExt s k with
          | .ok out => String.intercalate " " ("R:OK" :: out.map recStr)
          | .error _ => "R:ERR"
        "W:" ++ codecName (writerCodec k) ++ " " ++ r
      | none => "BAD-OP"
    | none => "BAD-OP"
  | _ => "BAD-OP"

def objTok? (t : String) : Option (Str × List RecTok) :=
  match t.splitOn "=" with
  | [k, rs] => do
    let k ← str? k
    let rs ← (if rs = "" then [] else rs.splitOn ",").mapM recTok?
    some (k, rs)
  | _ => none

def handleRead : List String → String
  | p :: objs => match str? p, objs.mapM objTok? with
    | some p, some objs =>
      let s := writeAll wireExt [] objs
      recsAnswer (readGlob wireExt s p)
    | _, _ => "BAD-OP"
  | _ => "BAD-OP"

/-! ### float-bearing records (`CLOUDNF`) -/

def fval? (t : String) : Option FVal :=
  if t = "nan" then some .nan else if t = "pinf" then some .pinf else if t = "ninf" then some .ninf else
  match t.toList with
  | 'f' :: h =>
    match hexToBytes? h with
    | some bs =>
      let txt : Str := bs.map Char.ofNat
      if hh : txt ≠ [] ∧ txt.all isNumChar = true then some (.fin ⟨txt, hh.1, hh.2⟩) else none
    | none => none
  | _ => none

def fvalTok : FVal → String
  | .fin t => "f" ++ stringToHex (String.ofList t.text)
  | .nan => "nan" | .pinf => "pinf" | .ninf => "ninf"

def frec? (t : String) : Option FRec :=
  match t.toList with
  | 'q' :: body =>
    match (String.ofList body).splitOn ";" with
    | [x, o, v] => do
      let x ← fval? x
      let o ← (if o = "-" then some none else (fval? o).map some)
      let v ← (if v = "" then some [] else (v.splitOn ",").mapM fval?)
      some ⟨x, o, v⟩
    | _ => none
  | _ => none

def frecTok (r : FRec) : String :=
  "q" ++ fvalTok r.x ++ ";" ++ (match r.o with | none => "-" | some f => fvalTok f) ++ ";" ++
    String.intercalate "," (r.v.map fvalTok)

def handleNf : List String → String
  | k :: rs => match str? k, rs.mapM frec? with
    | some k, some rs =>
      let s := writeObj floatExt [] k rs
      let r := match readObj floatExt s k with
        | .ok out => String.intercalate " " ("R:OK" :: out.map frecTok)
        | .error _ => "R:ERR"
      "W:" ++ codecName (writerCodec k) ++ " " ++ r
    | _, _ => "BAD-OP"
  | _ => "BAD-OP"

/-! ### large objects (`CLOUDBIG`): the model counts -/

def tokA : RecTok := ⟨['0', 'a'], by decide⟩
def tokB : RecTok := ⟨['0', 'b'], by decide⟩

def handleBig : List String → String
  | [k, n, k2, m, p] => match str? k, parseNat? n, str? k2, parseNat? m, str? p with
    | some k, some n, some k2, some m, some p =>
      if n > 100000 ∨ m > 100000 then "BAD-OP" else
      let s := writeAll wireExt [] [(k, List.replicate n tokA), (k2, List.replicate m tokB)]
      let r := match readObj wireExt s k with
        | .ok out => "R:OK " ++ toString out.length
        | .error _ => "R:ERR"
      let g := match readGlob wireExt s p with
        | .ok out => "G:OK " ++ toString out.length
        | .error e => "G:ERR " ++ errName e
      "W:" ++ codecName (writerCodec k) ++ " " ++ r ++ " " ++ g
    | _, _, _, _, _ => "BAD-OP"
  | _ => "BAD-OP"

def handlers : List (String × (List String → String)) :=
  [("GLOB2RE", handleGlob2Re), ("GLOBPREFIX", handlePrefix), ("GLOBMATCH", handleMatch false),
   ("GLOBREQ", handleMatch true), ("GLOBALL", handleAll), ("REFMATCH", handleRefMatch),
   ("REFALL", handleRefAll), ("CLOUDJSONL", handleJsonl), ("GLOBREAD", handleRead),
   ("CLOUDNF", handleNf), ("CLOUDBIG", handleBig)]

end IB.D19
