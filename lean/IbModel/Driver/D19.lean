import IbModel.Util.Wire
/-! Driver handlers for C19 (request kinds served for that property). -/
namespace IB.D19

def handlers : List (String × (List String → String)) := []

end IB.D19
