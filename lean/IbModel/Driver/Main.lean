import IbModel.Util.Wire
import IbModel.Driver.D01
import IbModel.Driver.D02
import IbModel.Driver.D03
import IbModel.Driver.D04
import IbModel.Driver.D05
import IbModel.Driver.D06
import IbModel.Driver.D07
import IbModel.Driver.D08
import IbModel.Driver.D09
import IbModel.Driver.D10
import IbModel.Driver.D11
import IbModel.Driver.D12
import IbModel.Driver.D13
import IbModel.Driver.D14
import IbModel.Driver.D15
import IbModel.Driver.D16
import IbModel.Driver.D17
import IbModel.Driver.D18
import IbModel.Driver.D19
import IbModel.Driver.D20
/-!
# `ibdriver` — one request per line in, one answer per line out

`<id> <KIND> <args…>`  ↦  `<id> <answer>`; unknown kinds answer `BAD-OP`. The handlers call the
model's executable definitions — the very definitions the theorems in `Props/` are about.
-/
open IB

def allHandlers : List (String × (List String → String)) :=
  D01.handlers ++ D02.handlers ++ D03.handlers ++ D04.handlers ++ D05.handlers ++
  D06.handlers ++ D07.handlers ++ D08.handlers ++ D09.handlers ++ D10.handlers ++
  D11.handlers ++ D12.handlers ++ D13.handlers ++ D14.handlers ++ D15.handlers ++
  D16.handlers ++ D17.handlers ++ D18.handlers ++ D19.handlers ++ D20.handlers

def answer (line : String) : String :=
  match Wire.tokens line with
  | id :: kind :: args =>
    match allHandlers.lookup kind with
    | some h => id ++ " " ++ h args
    | none => id ++ " BAD-OP"
  | [id] => id ++ " BAD-OP"
  | [] => "BAD-OP"

partial def loop (h : IO.FS.Stream) (out : IO.FS.Stream) : IO Unit := do
  let line ← h.getLine
  if line.isEmpty then return ()
  out.putStrLn (answer line)
  loop h out

def main : IO Unit := do
  let out ← IO.getStdout
  loop (← IO.getStdin) out
  out.flush
