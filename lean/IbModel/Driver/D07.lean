import IbModel.Util.Wire
import IbModel.Driver.D01
import IbModel.Driver.PipeParseX
/-! Driver handlers for C07: `PIPEJ mode=… canon=… src … ; xsteps` — programs with joins whose right side is not a
fresh collection (`Model/ProgramJoinX.lean`). -/
namespace IB.D07
open IB IB.Wire IB.PipeParse IB.PipeParseX

def handlePipeX (toks : List String) : String :=
  match parseXReq toks with
  | none => "BAD-OP"
  | some q =>
    if q.mode == "seq" || q.mode == "collect" || q.mode == "parauto" then D01.render q.canon (runSeqX q.src q.steps)
    else if q.mode.startsWith "par:" then
      match parseNat? (q.mode.drop 4).toString with
      | some n => D01.render q.canon (runParX q.src q.steps n)
      | none => "BAD-OP"
    else if q.mode.startsWith "part:" then
      match ((q.mode.drop 5).toString.splitOn ":").map parseNat? with
      | [some _, some n] => D01.render q.canon (runParX q.src q.steps n)
      | _ => "BAD-OP"
    else "BAD-OP"

def handlers : List (String × (List String → String)) := [("PIPEJ", handlePipeX)]

end IB.D07
