import IbModel.Util.Wire
/-! Driver handlers for C07 (request kinds served for that property). -/
namespace IB.D07

def handlers : List (String × (List String → String)) := []

end IB.D07
