import IbModel.Proofs.Combine
import IbModel.Proofs.CombInst
import IbModel.Proofs.CombTransfer
import IbModel.Proofs.VecSplit
import IbModel.Model.Program
import IbModel.Proofs.UserCombiners
/-!
# C05 — per-key and global combines equal a fold, once per key, and always terminate

Property theorems only (helper lemmas: `Proofs/AList.lean`, `Proofs/Gbk.lean`, `Proofs/Combine.lean`,
`Proofs/FanIn.lean`, `Proofs/CombInst.lean`).

`c : VCombiner` is ANY combiner (`create`/`add_input`/`merge`/`finish`/`build_from_group`), `R` any accumulator
equivalence with `LawfulCombiner c R` (Model/CombinerCore.lean: merging two folds is `R`-equivalent to the
fold of the concatenation, `finish` cannot see through `R`, `build_from_group` is the fold) — this is the
literal hypothesis "any lawful user combiner". `ps : List (List Val)` is an ARBITRARY list of partitions,
`ps.flatten` the input in order. `combineMerge c (ps.map (combineLocalPairs c))` is what the parallel engine's
barrier computes for `combine_values`, `combineMerge c [combineLocalPairs c rows]` what the sequential engine
computes; `decAccs` reads the output rows `pair k o` back as an association list.
-/
namespace IB

variable {c : VCombiner} {R : Val → Val → Prop}

/-! ## combine_values (classic entry point) -/

/-- exactly one output row per key: output keys are pairwise distinct (for any combiner, any parts) -/
theorem cv_keys_nodup (c : VCombiner) (parts : List Part) :
    ((combineMerge c parts).map Val.key).Nodup := by
  rw [combineMerge_eq, keys_encAccs, keys_combineOut]
  exact nodup_keys_mergeAccs _ _

/-- … one for every distinct input key and no other -/
theorem cv_keys_exact (c : VCombiner) (ps : List (List Val)) (k : Val) :
    k ∈ (combineMerge c (ps.map (combineLocalPairs c))).map Val.key ↔ k ∈ ps.flatten.map Val.key := by
  rw [combineLocalPairs_eq, combineMerge_eq, keys_encAccs, keys_combineOut, map_decAccs_locals,
    keys_mergeAccs_of_keys c (localAccs c) (keys_localAccs c), mem_addKeys]
  simp

/-- the result of key `k` is what the combiner yields when `k`'s values are folded one by one, in input
    order: `finish (foldAdd create [v | (k, v) ∈ input])` -/
theorem cv_value (hc : LawfulCombiner c R) (ps : List (List Val)) (k : Val) :
    lookupKV (decAccs (combineMerge c (ps.map (combineLocalPairs c)))) k =
      if k ∈ ps.flatten.map Val.key
      then some (c.finish (c.foldAdd c.create ((ps.flatten.filter (fun r => r.key == k)).map Val.value)))
      else none := by
  rw [combineLocalPairs_eq, decAccs_combineMerge_locals]
  exact lookupKV_combineOut_locals hc (locSpec_classic hc) ps k

/-- closed form of the whole output: one row per distinct key, in first-occurrence order (model-level
    order; the real `HashMap` order is unspecified and compared canonically) -/
theorem cv_closed_form (hc : LawfulCombiner c R) (ps : List (List Val)) :
    combineMerge c (ps.map (combineLocalPairs c)) =
      (addKeys [] (ps.flatten.map Val.key)).map (fun k =>
        Val.pair k (c.finish (c.foldAdd c.create ((ps.flatten.filter (fun r => r.key == k)).map Val.value)))) := by
  rw [combineLocalPairs_eq, combineMerge_eq, map_decAccs_locals]
  have hkeys : (combineOut c (ps.map (localAccs c))).map (·.1) = addKeys [] (ps.flatten.map Val.key) := by
    rw [keys_combineOut]; exact keys_mergeAccs_of_keys c _ (keys_localAccs c) ps
  have h := alist_eq_map_keys
    (fun k => c.finish (c.foldAdd c.create ((ps.flatten.filter (fun r => r.key == k)).map Val.value)))
    (combineOut c (ps.map (localAccs c)))
    (by rw [keys_combineOut]; exact nodup_keys_mergeAccs _ _)
    (by
      intro k
      have hm : k ∈ addKeys [] (ps.flatten.map Val.key) ↔ k ∈ ps.flatten.map Val.key := by
        rw [mem_addKeys]; simp
      rw [lookupKV_combineOut_locals hc (locSpec_classic hc), hkeys]
      simp only [hm]
      rfl)
  rw [h, hkeys]
  simp [encAccs, List.map_map, Function.comp_def]

/-- the literal contract of the closures `combine_values` installs: merging the per-partition results of
    ANY partition list equals the sequential engine's `merge(vec![local(whole input)])` -/
theorem combineValues_contract (hc : LawfulCombiner c R) (ps : List (List Val)) :
    combineMerge c (ps.map (combineLocalPairs c)) = combineMerge c [combineLocalPairs c ps.flatten] := by
  rw [combineLocalPairs_eq]
  exact combineMerge_contract hc (locSpec_classic hc) ps

/-- … which is exactly the node contract `execPar_eq_execSeq` (C01) asks of a `CombineValues` node -/
theorem combineValuesNode_ok (hc : LawfulCombiner c R) : SubNodeOK List.flatten (combineValuesNode c) :=
  fun ps => combineValues_contract hc ps

/-- sequential mode, same statement -/
theorem cv_seq_value (hc : LawfulCombiner c R) (rows : List Val) (k : Val) :
    lookupKV (decAccs (combineMerge c [combineLocalPairs c rows])) k =
      if k ∈ rows.map Val.key
      then some (c.finish (c.foldAdd c.create ((rows.filter (fun r => r.key == k)).map Val.value)))
      else none := by
  simpa using cv_value hc [rows] k

theorem cv_seq_keys_exact (c : VCombiner) (rows : List Val) (k : Val) :
    k ∈ (combineMerge c [combineLocalPairs c rows]).map Val.key ↔ k ∈ rows.map Val.key := by
  simpa using cv_keys_exact c [rows] k

/-- an empty input yields an empty output -/
theorem cv_empty (c : VCombiner) (ps : List (List Val)) (h : ps.flatten = []) :
    combineMerge c (ps.map (combineLocalPairs c)) = [] := by
  have hk : ∀ k, k ∉ (combineMerge c (ps.map (combineLocalPairs c))).map Val.key := by
    intro k hk
    have := (cv_keys_exact c ps k).mp hk
    rw [h] at this
    simp at this
  cases hm : combineMerge c (ps.map (combineLocalPairs c)) with
  | nil => rfl
  | cons r rest => exact absurd (by rw [hm]; simp) (hk r.key)

/-- … and only an empty input does -/
theorem cv_empty_iff (c : VCombiner) (ps : List (List Val)) :
    combineMerge c (ps.map (combineLocalPairs c)) = [] ↔ ps.flatten = [] := by
  constructor
  · intro h
    cases hf : ps.flatten with
    | nil => rfl
    | cons r rows =>
      have := (cv_keys_exact c ps r.key).mpr (by rw [hf]; simp)
      rw [h] at this
      simp at this
  · exact cv_empty c ps

/-- "for every partitioning": two partition lists holding the same row sequence (any cuts, empty partitions anywhere)
    give the identical output -/
theorem cv_partitioning_irrelevant (hc : LawfulCombiner c R) (ps qs : List (List Val))
    (h : ps.flatten = qs.flatten) :
    combineMerge c (ps.map (combineLocalPairs c)) = combineMerge c (qs.map (combineLocalPairs c)) := by
  rw [combineValues_contract hc ps, combineValues_contract hc qs, h]

/-- "exactly one (key, result) per distinct input key", counted: as many rows as there are distinct keys, for any
    combiner (lawful or not) and any partitioning -/
theorem cv_row_count (c : VCombiner) (ps : List (List Val)) :
    (combineMerge c (ps.map (combineLocalPairs c))).length = (addKeys [] (ps.flatten.map Val.key)).length := by
  have hk : (combineMerge c (ps.map (combineLocalPairs c))).map Val.key = addKeys [] (ps.flatten.map Val.key) := by
    rw [combineLocalPairs_eq, combineMerge_eq, keys_encAccs, keys_combineOut, map_decAccs_locals]
    exact keys_mergeAccs_of_keys c (localAccs c) (keys_localAccs c) ps
  rw [← hk, List.length_map]

/-- … which is the number of groups `group_by_key` forms on the same input (C04): combining per key neither merges nor
    splits keys -/
theorem cv_row_count_eq_gbk (c : VCombiner) (ps : List (List Val)) :
    (combineMerge c (ps.map (combineLocalPairs c))).length = (mergeGroups (ps.map groupRows)).length := by
  rw [cv_row_count, ← keys_mergeGroups_groupRows ps, List.length_map]

/-- witnesses (tests, not the theorems): `Sum` per key over three partitions, one empty, key 1 straddling -/
example :
    combineMerge Comb.sum.toCombiner
      ([[Val.pair (.int 1) (.int 10), Val.pair (.int 2) (.int 20)], [],
        [Val.pair (.int 2) (.int 21), Val.pair (.int 1) (.int 11)]].map (combineLocalPairs Comb.sum.toCombiner))
      = [Val.pair (.int 1) (.int 21), Val.pair (.int 2) (.int 41)] := by decide

example : combineMerge Comb.sum.toCombiner ([] : List Part) = [] := by decide

/-! ## combine_values_lifted (input already grouped: rows `(k, [v₁, …])`, keys may repeat) -/

theorem lifted_keys_exact (c : VCombiner) (ps : List (List Val)) (k : Val) :
    k ∈ (combineMerge c (ps.map (combineLocalGroups c))).map Val.key ↔ k ∈ ps.flatten.map Val.key := by
  rw [combineLocalGroups_eq, combineMerge_eq, keys_encAccs, keys_combineOut, map_decAccs_locals,
    keys_mergeAccs_of_keys c (liftedAccs c) (keys_liftedAccs c), mem_addKeys]
  simp

/-- the lifted entry point on ANY grouped input — repeated keys within and across partitions included:
    the result of `k` is the fold over the concatenation of all of `k`'s groups, in input order -/
theorem lifted_value (hc : LawfulCombiner c R) (ps : List (List Val)) (k : Val) :
    lookupKV (decAccs (combineMerge c (ps.map (combineLocalGroups c)))) k =
      if k ∈ ps.flatten.map Val.key
      then some (c.finish (c.foldAdd c.create
        ((ps.flatten.filter (fun r => r.key == k)).map (fun r => r.value.toList)).flatten))
      else none := by
  rw [combineLocalGroups_eq, decAccs_combineMerge_locals]
  exact lookupKV_combineOut_locals hc (locSpec_lifted hc) ps k

/-- `ungroupRows` is the `ungroup` step of the program model (`flat_map` of `(k, vs) ↦ (k, v)…`) -/
example : ungroupRows = fun rows => rows.flatMap ungroupF := rfl

/-- lifted = classic: for every key that has at least one value, the lifted path on the grouped input gives
    the result the classic path gives on the ungrouped rows (same partitions). A key all of whose groups
    are empty has no ungrouped row, so the classic path has no entry for it while the lifted path returns
    `finish create` (`lifted_value`) — `group_by_key` never produces such a group (C04 `gbk_groups_nonempty`). -/
theorem lifted_eq_classic (hc : LawfulCombiner c R) (ps : List (List Val)) (k : Val)
    (hk : k ∈ (ungroupRows ps.flatten).map Val.key) :
    lookupKV (decAccs (combineMerge c (ps.map (combineLocalGroups c)))) k =
      lookupKV (decAccs (combineMerge c (ps.map (fun p => combineLocalPairs c (ungroupRows p))))) k := by
  have e : ps.map (fun p => combineLocalPairs c (ungroupRows p)) =
      (ps.map ungroupRows).map (combineLocalPairs c) := by simp [List.map_map, Function.comp_def]
  have hk' : k ∈ ps.flatten.map Val.key := mem_keys_of_mem_keys_ungroupRows hk
  rw [lifted_value hc, e, cv_value hc, ← ungroupRows_flatten]
  simp only [hk, hk', ↓reduceIte]
  have := rowVals_ungroupRows k ps.flatten
  unfold rowVals groupVals groupLists at this
  rw [this]

/-- … and when no group is empty (as for every output of `group_by_key`) the two paths return the same
    partition, literally -/
theorem lifted_eq_classic_all (hc : LawfulCombiner c R) (ps : List (List Val))
    (hne : ∀ r ∈ ps.flatten, r.value.toList ≠ []) :
    combineMerge c (ps.map (combineLocalGroups c)) =
      combineMerge c (ps.map (fun p => combineLocalPairs c (ungroupRows p))) := by
  have e : ps.map (fun p => combineLocalPairs c (ungroupRows p)) =
      (ps.map ungroupRows).map (fun p => encAccs (localAccs c p)) := by
    simp [List.map_map, Function.comp_def, combineLocalPairs_eq]
  rw [e, combineLocalGroups_eq, combineMerge_eq, combineMerge_eq, map_decAccs_locals, map_decAccs_locals,
    combineOut_lifted_eq_classic hc ps hne]

/-- sequential mode of the lifted entry point -/
theorem lifted_seq_value (hc : LawfulCombiner c R) (rows : List Val) (k : Val) :
    lookupKV (decAccs (combineMerge c [combineLocalGroups c rows])) k =
      if k ∈ rows.map Val.key
      then some (c.finish (c.foldAdd c.create
        ((rows.filter (fun r => r.key == k)).map (fun r => r.value.toList)).flatten))
      else none := by
  simpa using lifted_value hc [rows] k

theorem combineValuesLifted_contract (hc : LawfulCombiner c R) (ps : List (List Val)) :
    combineMerge c (ps.map (combineLocalGroups c)) = combineMerge c [combineLocalGroups c ps.flatten] := by
  rw [combineLocalGroups_eq]
  exact combineMerge_contract hc (locSpec_lifted hc) ps

theorem combineValuesLiftedNode_ok (hc : LawfulCombiner c R) :
    SubNodeOK List.flatten (combineValuesLiftedNode c) :=
  fun ps => combineValuesLifted_contract hc ps

/-- NEGATION for the pinned commit (`map.insert(k, acc)`): on the witness `[("k",[1]),("k",[2])]` with `Sum`
    the sequential run loses the first group (2), two partitions give 3 — the contract fails -/
theorem legacy_lifted_dup_key_overwrites :
    let c := Comb.sum.toCombiner
    let k := Val.int 7
    let r1 := Val.pair k (Val.ofList [.int 1])
    let r2 := Val.pair k (Val.ofList [.int 2])
    combineMerge c [Legacy.combineLocalGroups c [r1, r2]] = [Val.pair k (.int 2)] ∧
    combineMerge c ([[r1], [r2]].map (Legacy.combineLocalGroups c)) = [Val.pair k (.int 3)] ∧
    ¬ SubNodeOK List.flatten (Legacy.combineValuesLiftedNode c) := by
  refine ⟨by decide, by decide, ?_⟩
  intro h
  have := h [[Val.pair (.int 7) (Val.ofList [.int 1])], [Val.pair (.int 7) (Val.ofList [.int 2])]]
  revert this
  decide

/-- the current code on the same witness: 3 in both modes -/
example :
    let c := Comb.sum.toCombiner
    let k := Val.int 7
    let r1 := Val.pair k (Val.ofList [.int 1])
    let r2 := Val.pair k (Val.ofList [.int 2])
    combineMerge c [combineLocalGroups c [r1, r2]] = [Val.pair k (.int 3)] ∧
    combineMerge c ([[r1], [r2]].map (combineLocalGroups c)) = [Val.pair k (.int 3)] := by decide

/-! ## combine_globally -/

/-- parallel engine, ANY partition list, EVERY fan-out setting (`None`, `Some 0`, `Some 1`, …): the step
    terminates (it is `pure`, not `throw .nonTermination`) and returns exactly one partition holding
    exactly one row, `finish (foldAdd create (all rows, in order))` — `finish create` for an empty input -/
theorem cg_par_value (hc : LawfulCombiner c R) (fo : Option Nat) (ps : List (List Val)) :
    stepSubPar ps (combineGlobalNode c fo) = pure [[c.finish (c.foldAdd c.create ps.flatten)]] := by
  obtain ⟨x, hx, hR⟩ := global_reduce hc (globalLocal c) (globalLocal_stands hc) fo ps
  simp only [combineGlobalNode, stepSubPar, hx, pure_bind, globalFinish]
  rw [hc.finish_congr hR]

/-- sequential engine: the same single row (no hypothesis on the combiner needed) -/
theorem cg_seq_value (c : VCombiner) (fo : Option Nat) (rows : List Val) :
    stepSubSeq (some rows) (combineGlobalNode c fo) = pure [c.finish (c.foldAdd c.create rows)] := by
  simp [combineGlobalNode, stepSubSeq, need, globalFinish, globalMerge, globalLocal, accOf]

/-- exactly one output element, for every partitioning and fan-out, also for an empty input -/
theorem cg_singleton (hc : LawfulCombiner c R) (fo : Option Nat) (ps : List (List Val)) :
    ∃ v, stepSubPar ps (combineGlobalNode c fo) = pure [[v]] :=
  ⟨_, cg_par_value hc fo ps⟩

theorem cg_empty (hc : LawfulCombiner c R) (fo : Option Nat) (ps : List (List Val)) (h : ps.flatten = []) :
    stepSubPar ps (combineGlobalNode c fo) = pure [[c.finish c.create]] := by
  rw [cg_par_value hc fo ps, h]; rfl

/-- the reduction itself terminates for every fan-out (the loop of `exec_par` with `.max(2)`) -/
theorem cg_terminates (hc : LawfulCombiner c R) (fo : Option Nat) (ps : List (List Val)) :
    ∃ x, reduceGlobal (globalMerge c) fo (ps.map (globalLocal c)) = pure x ∧
      R (accOf x) (c.foldAdd c.create ps.flatten) :=
  global_reduce hc (globalLocal c) (globalLocal_stands hc) fo ps

/-- pinned commit (`.max(1)`): fan-out 0 or 1 with at least two partitions never finishes, for any combiner -/
theorem cg_legacy_stuck (c : VCombiner) (f : Nat) (hf : f ≤ 1) (ps : List (List Val)) (h : 2 ≤ ps.length) :
    Legacy.reduceGlobal (globalMerge c) (some f) (ps.map (globalLocal c)) = throw .nonTermination :=
  legacy_reduceGlobal_stuck _ f hf _ (by simpa using h)

/-- witnesses: fan-out 0 and 1 on three partitions — the current code returns the sum, the pinned code spins -/
example : stepSubPar [[Val.int 1], [.int 2], [.int 3]] (combineGlobalNode Comb.sum.toCombiner (some 0))
    = pure [[.int 6]] := by rfl
example : stepSubPar [[Val.int 1], [.int 2], [.int 3]] (combineGlobalNode Comb.sum.toCombiner (some 1))
    = pure [[.int 6]] := by rfl
example : stepSubPar ([] : List Part) (combineGlobalNode Comb.sum.toCombiner (some 1)) = pure [[.int 0]] := by rfl
example : Legacy.reduceGlobal (globalMerge Comb.sum.toCombiner) (some 1)
    ([[Val.int 1], [.int 2], [.int 3]].map (globalLocal Comb.sum.toCombiner)) = throw .nonTermination := by rfl

/-- the node contract `execPar_eq_execSeq` (C01) asks of a `CombineGlobal` node -/
theorem combineGlobal_contract (hc : LawfulCombiner c R) (fo : Option Nat) :
    SubNodeOK List.flatten (combineGlobalNode c fo) :=
  global_contract hc (globalLocal c) (globalLocal_stands hc) fo

/-! ## combine_globally_lifted (`build_from_group` per partition) -/

theorem cg_lifted_par_value (hc : LawfulCombiner c R) (fo : Option Nat) (ps : List (List Val)) :
    stepSubPar ps (combineGlobalLiftedNode c fo) = pure [[c.finish (c.foldAdd c.create ps.flatten)]] := by
  obtain ⟨x, hx, hR⟩ := global_reduce hc (globalLocalLifted c) (globalLocalLifted_stands hc) fo ps
  simp only [combineGlobalLiftedNode, stepSubPar, hx, pure_bind, globalFinish]
  rw [hc.finish_congr hR]

theorem cg_lifted_seq_value (hc : LawfulCombiner c R) (fo : Option Nat) (rows : List Val) :
    stepSubSeq (some rows) (combineGlobalLiftedNode c fo) = pure [c.finish (c.foldAdd c.create rows)] := by
  simp only [combineGlobalLiftedNode, stepSubSeq, need, pure_bind, globalFinish, globalMerge, globalLocalLifted,
    accOf, List.foldl_nil, List.headD_cons]
  rw [hc.finish_congr (hc.build_fold rows)]

theorem combineGlobalLifted_contract (hc : LawfulCombiner c R) (fo : Option Nat) :
    SubNodeOK List.flatten (combineGlobalLiftedNode c fo) :=
  global_contract hc (globalLocalLifted c) (globalLocalLifted_stands hc) fo

/-! ## end to end: `from_vec(xs)` followed by the combine, both engines, every partition count `n`,
every fan-out `fo` -/

theorem cv_pipeline_par (hc : LawfulCombiner c R) (xs : List Val) (n : Nat) :
    execPar List.flatten [vecSource xs, combineValuesNode c] n =
      pure (combineMerge c [combineLocalPairs c xs]) := by
  have h := combineValues_contract hc (vecSplit xs (clampParts n xs.length))
  rw [vecSplit_flatten] at h
  simp only [execPar, vecSource, combineValuesNode, List.foldlM_cons, List.foldlM_nil, stepPar, stepSubPar,
    pure_bind, coalesce, Option.getD_none, h]

theorem cv_pipeline_seq (c : VCombiner) (xs : List Val) :
    execSeq [vecSource xs, combineValuesNode c] = pure (combineMerge c [combineLocalPairs c xs]) := by
  simp [execSeq, vecSource, combineValuesNode, stepSeq, stepSubSeq, need]

theorem cg_pipeline_par (hc : LawfulCombiner c R) (fo : Option Nat) (xs : List Val) (n : Nat) :
    execPar List.flatten [vecSource xs, combineGlobalNode c fo] n =
      pure [c.finish (c.foldAdd c.create xs)] := by
  have h := cg_par_value hc fo (vecSplit xs (clampParts n xs.length))
  rw [vecSplit_flatten] at h
  have h2 : stepPar n (vecSplit xs (clampParts n xs.length)) (combineGlobalNode c fo) =
      stepSubPar (vecSplit xs (clampParts n xs.length)) (combineGlobalNode c fo) := rfl
  simp only [execPar, vecSource, List.foldlM_cons, List.foldlM_nil]
  rw [h2, h]
  rfl

theorem cg_pipeline_seq (c : VCombiner) (fo : Option Nat) (xs : List Val) :
    execSeq [vecSource xs, combineGlobalNode c fo] = pure [c.finish (c.foldAdd c.create xs)] := by
  have h := cg_seq_value c fo xs
  have h2 : stepSeq (some xs) (combineGlobalNode c fo) = stepSubSeq (some xs) (combineGlobalNode c fo) := rfl
  have h0 : stepSeq (none : Option Part) (Node.source xs xs.length (vecSplit xs)) = pure xs := rfl
  simp only [execSeq, vecSource, List.foldlM_cons, List.foldlM_nil, h0, pure_bind]
  rw [h2, h]
  rfl

/-! ## non-vacuity: built-in combiners of the pipeline model are lawful (with `R := Eq`) -/

theorem lawful_count : LawfulCombiner Comb.count.toCombiner Eq := by
  apply lawful_of_eq
  · intro xs ys
    show Comb.count.toCombiner.merge (Comb.count.toCombiner.foldAdd (.int 0) xs)
      (Comb.count.toCombiner.foldAdd (.int 0) ys) = Comb.count.toCombiner.foldAdd (.int 0) (xs ++ ys)
    rw [count_foldAdd, count_foldAdd, count_foldAdd]
    show Val.int (_ + _) = _
    congr 1
    simp only [Val.toInt, List.length_append, Int.natCast_add]
    omega
  · intro xs
    show Val.int xs.length = Comb.count.toCombiner.foldAdd (.int 0) xs
    rw [count_foldAdd]; simp

theorem lawful_sum : LawfulCombiner Comb.sum.toCombiner Eq := by
  apply lawful_of_eq
  · intro xs ys
    show Comb.sum.toCombiner.merge (Comb.sum.toCombiner.foldAdd (.int 0) xs)
      (Comb.sum.toCombiner.foldAdd (.int 0) ys) = Comb.sum.toCombiner.foldAdd (.int 0) (xs ++ ys)
    rw [sum_foldAdd, sum_foldAdd, sum_foldAdd, sumInts_append]
    show Val.int (_ + _) = _
    congr 1
    simp only [Val.toInt]
    omega
  · intro xs; rfl

/-- `distinctSet` (insertion-ordered model of the `HashSet`, including the `is_empty ⇒ replace` fast path
    of `merge`) is lawful on the nose -/
theorem lawful_distinctSet : LawfulCombiner Comb.distinctSet.toCombiner Eq := by
  apply lawful_of_eq
  · intro xs ys
    show Comb.distinctSet.toCombiner.merge (Comb.distinctSet.toCombiner.foldAdd (Val.ofList []) xs)
      (Comb.distinctSet.toCombiner.foldAdd (Val.ofList []) ys) =
      Comb.distinctSet.toCombiner.foldAdd (Val.ofList []) (xs ++ ys)
    rw [distinct_foldAdd, distinct_foldAdd, distinct_foldAdd, distinct_merge, addKeys_dedup, addKeys_append]
    cases h : addKeys [] xs with
    | nil => simp
    | cons a as => simp
  · intro xs
    show Val.ofList (xs.foldl setInsert []) = Comb.distinctSet.toCombiner.foldAdd (Val.ofList []) xs
    rw [distinct_foldAdd, setInsert_eq_addKey]
    rfl

/-- user combiners of the `Min`/`Max` shape (`Option` accumulator, a binary choice `p`): lawful for EVERY
    associative `p` — e.g. max-by-key, first, last, or `min`/`max` w.r.t. any total preorder -/
theorem lawful_option_semigroup (p : Val → Val → Val) (hp : ∀ a b d, p (p a b) d = p a (p b d))
    (fin : Val → Val) :
    LawfulCombiner
      ({ create := .none, add := optAdd p,
         merge := fun a b => (match b with | .some v => optAdd p a v | _ => a),
         finish := fin, build := fun xs => xs.foldl (optAdd p) .none } : VCombiner) Eq :=
  lawful_optCombiner p hp fin

/-- `Min`, `Max` and the harness's total variants: `Val.le` is a total order (`Val.le_total`,
    `Val.le_trans`, `Proofs/ValOrder.lean`), the choice "smaller/larger, ties → the later element"
    is associative (`pickMin_assoc`, `pickMax_assoc`), so they are lawful on the nose for ALL values.
    (`finish` of `min`/`max` on the empty fold is `err` = the documented `expect` panic, in both modes.) -/
theorem lawful_min : LawfulCombiner Comb.min.toCombiner Eq := by
  have e : Comb.min.toCombiner = ({
      create := .none, add := optAdd pickMin,
      merge := fun a b => (match b with | .some v => optAdd pickMin a v | _ => a),
      finish := optFinish, build := fun xs => xs.foldl (optAdd pickMin) .none } : VCombiner) := by
    rw [← minAdd_eq]; rfl
  rw [e]; exact lawful_optCombiner pickMin pickMin_assoc optFinish

theorem lawful_max : LawfulCombiner Comb.max.toCombiner Eq := by
  have e : Comb.max.toCombiner = ({
      create := .none, add := optAdd pickMax,
      merge := fun a b => (match b with | .some v => optAdd pickMax a v | _ => a),
      finish := optFinish, build := fun xs => xs.foldl (optAdd pickMax) .none } : VCombiner) := by
    rw [← maxAdd_eq]; rfl
  rw [e]; exact lawful_optCombiner pickMax pickMax_assoc optFinish

theorem lawful_minT : LawfulCombiner Comb.minT.toCombiner Eq := by
  have e : Comb.minT.toCombiner = ({
      create := .none, add := optAdd pickMin,
      merge := fun a b => (match b with | .some v => optAdd pickMin a v | _ => a),
      finish := fun a => (match a with | .some v => v | _ => .none),
      build := fun xs => xs.foldl (optAdd pickMin) .none } : VCombiner) := by
    rw [← minAdd_eq]; rfl
  rw [e]; exact lawful_optCombiner pickMin pickMin_assoc _

theorem lawful_maxT : LawfulCombiner Comb.maxT.toCombiner Eq := by
  have e : Comb.maxT.toCombiner = ({
      create := .none, add := optAdd pickMax,
      merge := fun a b => (match b with | .some v => optAdd pickMax a v | _ => a),
      finish := fun a => (match a with | .some v => v | _ => .none),
      build := fun xs => xs.foldl (optAdd pickMax) .none } : VCombiner) := by
    rw [← maxAdd_eq]; rfl
  rw [e]; exact lawful_optCombiner pickMax pickMax_assoc _

/-- `TopK` — the pipeline model's TopK is C06's LITERAL model of the real code (`topKBy`: min-heap as
    ascending list, the `len₁ + len₂ ≤ k` extend path, the two-pointer merge, the real `build_from_group`)
    over the harness order `Val.le`, with the heap travelling as a `Val` list. `Val.le` (by `toInt`, ties by
    the structural order `Val.cmp`) is total, transitive and ANTISYMMETRIC on all of `Val`
    (`Val.le_totalOrder`), so C06's `topKBy_mergeable'` transfers through the encoding
    (`Proofs/CombTransfer.lean`): lawful on the nose, for every `k` (0 included) and ALL values. -/
theorem lawful_topK (k : Nat) : LawfulCombiner (Comb.topK k).toCombiner Eq := topKVal_lawful k

/-! ## USER combiners: from the property's own hypothesis to `LawfulCombiner`

C05 says "built-in combiners and any user combiner that is associative and commutative". Every theorem above takes
`LawfulCombiner c R`; `user_combiner_lawful` derives that from the plain algebraic laws a user would check
(`AlgebraicLaws c R I`, `Proofs/UserCombiners.lean`: `merge` associative and commutative with unit `create`,
`add_input a x ~ merge a (add_input create x)`, `build_from_group ~ the fold` — up to an accumulator equivalence `R`
that `finish` cannot see through, on the accumulators `I` reachable from `create`), and `user_combiner_lawful_eq` is
the literal reading (equations on all accumulators). So the hypothesis of the C05 theorems IS the property's. -/

theorem user_combiner_lawful {I : Val → Prop} (h : AlgebraicLaws c R I) : LawfulCombiner c R :=
  lawful_of_algebraic_laws h

theorem user_combiner_lawful_eq (c : VCombiner)
    (assoc : ∀ a b d, c.merge (c.merge a b) d = c.merge a (c.merge b d))
    (comm : ∀ a b, c.merge a b = c.merge b a)
    (unit : ∀ a, c.merge a c.create = a)
    (add_merge : ∀ a v, c.add a v = c.merge a (c.add c.create v))
    (build_fold : ∀ xs, c.build xs = xs.foldl c.add c.create) : LawfulCombiner c Eq :=
  lawful_of_comm_monoid c assoc comm unit add_merge build_fold

/-- … hence, for ANY user combiner with those laws: one row per key holding `finish (fold of the key's values)` on
    every partition list, and exactly one row `finish (fold of all rows)` for every fan-out — the statement of C05 -/
theorem user_combiner_per_key_and_global {I : Val → Prop} (h : AlgebraicLaws c R I) (ps : List (List Val)) :
    ((combineMerge c (ps.map (combineLocalPairs c))).map Val.key).Nodup ∧
    (∀ k, lookupKV (decAccs (combineMerge c (ps.map (combineLocalPairs c)))) k =
      if k ∈ ps.flatten.map Val.key
      then some (c.finish (c.foldAdd c.create ((ps.flatten.filter (fun r => r.key == k)).map Val.value)))
      else none) ∧
    (∀ k, lookupKV (decAccs (combineMerge c (ps.map (combineLocalGroups c)))) k =
      if k ∈ ps.flatten.map Val.key
      then some (c.finish (c.foldAdd c.create
        ((ps.flatten.filter (fun r => r.key == k)).map (fun r => r.value.toList)).flatten))
      else none) ∧
    (∀ fo, stepSubPar ps (combineGlobalNode c fo) = pure [[c.finish (c.foldAdd c.create ps.flatten)]]) ∧
    (∀ fo, stepSubPar ps (combineGlobalLiftedNode c fo) = pure [[c.finish (c.foldAdd c.create ps.flatten)]]) :=
  have hc := lawful_of_algebraic_laws h
  ⟨cv_keys_nodup c _, cv_value hc ps, lifted_value hc ps, fun fo => cg_par_value hc fo ps,
    fun fo => cg_lifted_par_value hc fo ps⟩

/-- non-vacuity of the bridge: the three user combiners of the pipeline model (harness `pipe_ucomb.rs`; accumulators
    `(sum mod m, count)`, a sorted `Vec`, a one-slot `Vec`) satisfy the plain algebraic laws — for EVERY modulus -/
theorem user_combiners_algebraic (m : Int) :
    AlgebraicLaws (userSumMod m) Eq (SumModInv m) ∧ AlgebraicLaws userUnion Eq UnionInv ∧
      AlgebraicLaws userMaxAbs Eq MaxAbsInv :=
  ⟨userSumMod_laws m, userUnion_laws, userMaxAbs_laws⟩

theorem lawful_uSumMod (m : Int) : LawfulCombiner (Comb.uSumMod m).toCombiner Eq :=
  lawful_of_algebraic_laws (userSumMod_laws m)
theorem lawful_uUnion : LawfulCombiner Comb.uUnion.toCombiner Eq := lawful_of_algebraic_laws userUnion_laws
theorem lawful_uMaxAbs : LawfulCombiner Comb.uMaxAbs.toCombiner Eq := lawful_of_algebraic_laws userMaxAbs_laws

/-- round 5: "last value seen" (`pipe_ucomb::Last`) is LAWFUL — `merge (fold xs) (fold ys) = fold (xs ++ ys)`, unit
    `create`, default `build_from_group` — although its `merge` is not commutative. It is an `Option`-accumulator
    combiner whose binary choice `fun _ v => v` is associative, so `lawful_optCombiner` applies. Consequence: every
    theorem of C01 / C03 / C05 stated for a `LawfulCombiner` (seq = par for every split, lift = literal, fan-in =
    fold) covers it, with the engine's partition-order merge; the harness generates it only where the arrival order
    at the combine is the source order (`pipe::gen_ordered_prog`). -/
theorem lawful_uLast : LawfulCombiner Comb.uLast.toCombiner Eq := by
  have e : Comb.uLast.toCombiner = ({
      create := .none, add := optAdd (fun _ v => v),
      merge := fun a b => (match b with | .some v => optAdd (fun _ v => v) a v | _ => a),
      finish := fun a => (match a with | .some v => v | _ => .none),
      build := fun xs => xs.foldl (optAdd (fun _ v => v)) .none } : VCombiner) := by
    have h : lastAdd = optAdd (fun _ v => v) := by
      funext acc v; cases acc <;> rfl
    rw [← h]; rfl
  rw [e]; exact lawful_optCombiner (fun _ v => v) (fun _ _ _ => rfl) _

/-- … and its `merge` is NOT commutative (witness), so it lies outside C05's "associative and commutative" clause:
    what C05's theorems say about it is the partition-order statement only -/
theorem uLast_not_commutative :
    Comb.uLast.toCombiner.merge (.some (.int 1)) (.some (.int 2)) ≠
      Comb.uLast.toCombiner.merge (.some (.int 2)) (.some (.int 1)) := by decide

/-- the fold is the last element: nothing seen finishes as `N`, otherwise the value added last -/
theorem uLast_value (xs : List Val) (v : Val) :
    Comb.uLast.toCombiner.finish (Comb.uLast.toCombiner.foldAdd Comb.uLast.toCombiner.create []) = .none ∧
    Comb.uLast.toCombiner.finish (Comb.uLast.toCombiner.foldAdd Comb.uLast.toCombiner.create (xs ++ [v])) = v := by
  refine ⟨rfl, ?_⟩
  show userLast.finish ((xs ++ [v]).foldl lastAdd .none) = v
  rw [List.foldl_append]; rfl

/-- NEGATIVE CONTROL (outside the hypothesis): "first seen" — `merge a b = a` unless `a` is empty — is associative
    but NOT commutative, so the bridge does not apply to it (the witness shows the failing law) -/
example : let first : Val → Val → Val := fun a b => match a with | .none => b | _ => a
    first (.some (.int 1)) (.some (.int 2)) ≠ first (.some (.int 2)) (.some (.int 1)) := by decide

/-- every combiner of the program library is lawful on the nose -/
theorem lawful_all (c : Comb) : LawfulCombiner c.toCombiner Eq := by
  cases c with
  | count => exact lawful_count
  | sum => exact lawful_sum
  | min => exact lawful_min
  | max => exact lawful_max
  | minT => exact lawful_minT
  | maxT => exact lawful_maxT
  | distinctSet => exact lawful_distinctSet
  | topK k => exact lawful_topK k
  | uSumMod m => exact lawful_uSumMod m
  | uUnion => exact lawful_uUnion
  | uMaxAbs => exact lawful_uMaxAbs
  | uLast => exact lawful_uLast

/-- the order TopK / Min / Max use is a total order on ALL values — in particular antisymmetric, which the
    former tie-break on the encoded text was not (`cons 1 0` and `cons 1 nil` have the same text) -/
theorem val_le_total_order :
    (∀ a b d : Val, Val.le a b = true → Val.le b d = true → Val.le a d = true) ∧
    (∀ a b : Val, Val.le a b = true ∨ Val.le b a = true) ∧
    (∀ a b : Val, Val.le a b = true → Val.le b a = true → a = b) :=
  ⟨fun _ _ _ => Val.le_trans, Val.le_total, fun _ _ => Val.le_antisymm⟩

/-- witness: the two ill-formed values the encoded text could not separate are strictly ordered now -/
example : Val.enc (.cons (.int 1) (.int 0)) = Val.enc (.cons (.int 1) .nil) ∧
    Val.le (.cons (.int 1) (.int 0)) (.cons (.int 1) .nil) = true ∧
    Val.le (.cons (.int 1) .nil) (.cons (.int 1) (.int 0)) = false := by decide

/-- the outputs are the mathematical ones -/
theorem count_value (xs : List Val) :
    Comb.count.toCombiner.finish (Comb.count.toCombiner.foldAdd Comb.count.toCombiner.create xs) = .int xs.length := by
  show Comb.count.toCombiner.foldAdd (.int 0) xs = _
  rw [count_foldAdd]; simp

theorem sum_value (xs : List Val) :
    Comb.sum.toCombiner.finish (Comb.sum.toCombiner.foldAdd Comb.sum.toCombiner.create xs) = .int (sumInts xs) := by
  show Comb.sum.toCombiner.foldAdd (.int 0) xs = _
  rw [sum_foldAdd]; simp

theorem distinctSet_value (xs : List Val) :
    Comb.distinctSet.toCombiner.finish
      (Comb.distinctSet.toCombiner.foldAdd Comb.distinctSet.toCombiner.create xs) = Val.ofList (addKeys [] xs) := by
  show Comb.distinctSet.toCombiner.foldAdd (Val.ofList []) xs = _
  rw [distinct_foldAdd]

/-- TopK returns the `k` largest values in descending order (w.r.t. `Val.le`): the descending sort of the
    input, truncated to `k` — for every `k` (0 and `k >` the number of values included) -/
theorem topK_value (k : Nat) (xs : List Val) :
    (Comb.topK k).toCombiner.finish
      ((Comb.topK k).toCombiner.foldAdd (Comb.topK k).toCombiner.create xs)
      = Val.ofList ((xs.mergeSort (fun a b => Val.le b a)).take k) :=
  topKVal_value k xs

/-- the sort used in the statement really is the descending sort: a permutation of the input in which every
    element is `≥` all later ones -/
theorem topK_value_sort_is_sort (xs : List Val) :
    (xs.mergeSort (fun a b => Val.le b a)).Pairwise (fun a b => Val.le b a = true) ∧
      (xs.mergeSort (fun a b => Val.le b a)).Perm xs :=
  ⟨Combiners.mergeSort_sorted Val.le_totalOrder.flip xs, List.mergeSort_perm _ _⟩

/-! ## the derived `top_k_per_key(k)` = `combine_values(TopK::new(k))` -/

/-- per key, on ANY partition list: the `k` largest values of that key (over all partitions) in descending
    order; keys without a row have no entry -/
theorem top_k_per_key_value (k : Nat) (ps : List (List Val)) (key : Val) :
    lookupKV (decAccs (combineMerge (Comb.topK k).toCombiner
        (ps.map (combineLocalPairs (Comb.topK k).toCombiner)))) key =
      if key ∈ ps.flatten.map Val.key
      then some (Val.ofList
        ((((ps.flatten.filter (fun r => r.key == key)).map Val.value).mergeSort
          (fun a b => Val.le b a)).take k))
      else none := by
  rw [cv_value (lawful_topK k), topK_value]

/-- the lifted entry point (`group_by_key().combine_values_lifted(TopK)`): the same, over all of the key's groups -/
theorem top_k_lifted_value (k : Nat) (ps : List (List Val)) (key : Val) :
    lookupKV (decAccs (combineMerge (Comb.topK k).toCombiner
        (ps.map (combineLocalGroups (Comb.topK k).toCombiner)))) key =
      if key ∈ ps.flatten.map Val.key
      then some (Val.ofList
        ((((ps.flatten.filter (fun r => r.key == key)).map (fun r => r.value.toList)).flatten.mergeSort
          (fun a b => Val.le b a)).take k))
      else none := by
  rw [lifted_value (lawful_topK k), topK_value]

/-- `combine_globally(TopK::new(k), fan_out)` on ANY partition list and every fan-out: one row, the `k`
    largest of all rows in descending order -/
theorem top_k_globally_value (k : Nat) (fo : Option Nat) (ps : List (List Val)) :
    stepSubPar ps (combineGlobalNode (Comb.topK k).toCombiner fo) =
      pure [[Val.ofList ((ps.flatten.mergeSort (fun a b => Val.le b a)).take k)]] := by
  rw [cg_par_value (lawful_topK k) fo ps, topK_value]

/-- witnesses (tests, not the theorems): ties between structurally different values of equal `toInt`
    (`I2`, `S"ab"`, `L[7,7]` all have `toInt = 2`) follow the variant rank `I < S < L`; three partitions,
    one empty; `k = 0` gives the empty list. (`decide` cannot unfold `List.mergeSort`, so these literals stay
    on the `extend` path of `merge`; the two-pointer path is covered by the theorems and the correspondence run.) -/
example :
    combineMerge (Comb.topK 4).toCombiner
      ([[Val.pair (.int 1) (.int 2), Val.pair (.int 1) (.str "ab")], [],
        [Val.pair (.int 1) (Val.ofList [.int 7, .int 7]), Val.pair (.int 1) (.int 1)]].map
          (combineLocalPairs (Comb.topK 4).toCombiner))
      = [Val.pair (.int 1) (Val.ofList [Val.ofList [.int 7, .int 7], .str "ab", .int 2, .int 1])] := by decide
example :
    combineMerge (Comb.topK 0).toCombiner
      ([[Val.pair (.int 1) (.int 2)], [Val.pair (.int 1) (.int 3)]].map
          (combineLocalPairs (Comb.topK 0).toCombiner))
      = [Val.pair (.int 1) .nil] := by decide

/-! ## the derived `distinct_per_key` = `group_by_key` → `combine_values_lifted(DistinctSet)` → ungroup -/

/-- per key, the lifted `DistinctSet` combine returns the distinct values of that key (over all of the key's
    groups, in all partitions), each once -/
theorem distinct_per_key_value (ps : List (List Val)) (k : Val) :
    lookupKV (decAccs (combineMerge Comb.distinctSet.toCombiner
        (ps.map (combineLocalGroups Comb.distinctSet.toCombiner)))) k =
      if k ∈ ps.flatten.map Val.key
      then some (Val.ofList (addKeys []
        ((ps.flatten.filter (fun r => r.key == k)).map (fun r => r.value.toList)).flatten))
      else none := by
  rw [lifted_value lawful_distinctSet, distinctSet_value]

/-! ## the derived `distinct` = `combine_globally(DistinctSet)` then `flat_map(into_iter)` -/

/-- on ANY partition list the two nodes `distinct` inserts return, in one partition, the distinct elements
    of the input (first-occurrence order in the model) -/
theorem distinct_par (ps : List (List Val)) :
    (do let a ← stepSubPar ps (combineGlobalNode Comb.distinctSet.toCombiner none)
        stepSubPar a (st (flatMapOp Val.toList))) = pure [addKeys [] ps.flatten] := by
  rw [cg_par_value lawful_distinctSet none ps, distinctSet_value]
  simp [st, stepSubPar, flatMapOp, withFlags, applyOps]

theorem distinct_seq (rows : List Val) :
    (do let a ← stepSubSeq (some rows) (combineGlobalNode Comb.distinctSet.toCombiner none)
        stepSubSeq (some a) (st (flatMapOp Val.toList))) = pure (addKeys [] rows) := by
  rw [cg_seq_value, distinctSet_value]
  simp [st, stepSubSeq, need, flatMapOp, withFlags, applyOps]

/-- `distinct` emits every input element exactly once -/
theorem distinct_spec (xs : List Val) :
    (addKeys [] xs).Nodup ∧ ∀ x, x ∈ addKeys [] xs ↔ x ∈ xs :=
  ⟨nodup_addKeys List.nodup_nil, fun x => by rw [mem_addKeys]; simp⟩

/-! ## the derived `distinct_per_key`, as the COMPOSED pipeline the planner actually runs -/

/-- `distinct_per_key` inserts `group_by_key → combine_values_lifted(DistinctSet) → flat_map(ungroup)`; the planner's
    lift pass turns that window into ONE classic combine over the raw `(k, v)` rows (the GBK is dropped,
    `local_groups` cleared) followed by the ungroup -/
theorem distinct_per_key_plan (c : VCombiner) (ops : List (DynOp Part)) :
    liftGbk [gbkNode, combineValuesLiftedNode c, .stateless ops] = [combineValuesNode c, .stateless ops] := by
  simp [liftGbk, gbkNode, combineValuesLiftedNode, combineValuesNode]

/-- what a key's rows look like after `distinct_per_key`: its distinct values, each once -/
def distinctRowsOf (rows : List Val) : List Val :=
  (addKeys [] (rows.map Val.key)).flatMap (fun k =>
    (addKeys [] ((rows.filter (fun r => r.key == k)).map Val.value)).map (fun v => Val.pair k v))

theorem ungroup_distinct_rows (rows : List Val) :
    ((addKeys [] (rows.map Val.key)).map (fun k => Val.pair k
      (Comb.distinctSet.toCombiner.finish (Comb.distinctSet.toCombiner.foldAdd Comb.distinctSet.toCombiner.create
        ((rows.filter (fun r => r.key == k)).map Val.value))))).flatMap ungroupF = distinctRowsOf rows := by
  unfold distinctRowsOf
  rw [List.flatMap_map]
  congr 1
  funext k
  rw [distinctSet_value]
  simp [ungroupF, Val.key, Val.value]

/-- PARALLEL engine, ANY partition list: the planned `distinct_per_key` (classic `DistinctSet` combine, then ungroup)
    returns one partition holding, for every key of the input, each of its distinct values exactly once -/
theorem distinct_per_key_composed_par (ps : List (List Val)) :
    (do let a ← stepSubPar ps (combineValuesNode Comb.distinctSet.toCombiner)
        stepSubPar a (st (flatMapOp ungroupF))) = pure [distinctRowsOf ps.flatten] := by
  simp only [combineValuesNode, stepSubPar, Option.getD_none, pure_bind, st, List.map_cons, List.map_nil]
  rw [cv_closed_form lawful_distinctSet ps]
  simp only [applyOps, List.foldl_cons, List.foldl_nil, flatMapOp, withFlags]
  rw [ungroup_distinct_rows]

/-- SEQUENTIAL engine: the same rows -/
theorem distinct_per_key_composed_seq (rows : List Val) :
    (do let a ← stepSubSeq (some rows) (combineValuesNode Comb.distinctSet.toCombiner)
        stepSubSeq (some a) (st (flatMapOp ungroupF))) = pure (distinctRowsOf rows) := by
  simp only [combineValuesNode, stepSubSeq, need, Option.getD_none, pure_bind, st]
  have h := cv_closed_form lawful_distinctSet [rows]
  simp only [List.map_cons, List.map_nil, List.flatten_cons, List.flatten_nil, List.append_nil] at h
  rw [h]
  simp only [applyOps, List.foldl_cons, List.foldl_nil, flatMapOp, withFlags]
  rw [ungroup_distinct_rows]

/-- the specification of those rows: pairwise distinct, and `(k, v)` is among them iff it is an input row
    (inputs are `(K, V)` rows, i.e. pairs) -/
theorem distinct_per_key_spec (rows : List Val) (hrows : ∀ r ∈ rows, ∃ k v, r = Val.pair k v) :
    (distinctRowsOf rows).Nodup ∧ ∀ x, x ∈ distinctRowsOf rows ↔ x ∈ rows := by
  constructor
  · unfold distinctRowsOf
    rw [List.nodup_iff_pairwise_ne, List.pairwise_flatMap]
    refine ⟨?_, ?_⟩
    · intro k _
      refine List.Pairwise.map _ ?_ (List.nodup_iff_pairwise_ne.mp (nodup_addKeys List.nodup_nil))
      intro a b hab h
      injection h with _ h2
      exact hab h2
    · have hn : (addKeys [] (rows.map Val.key)).Nodup := nodup_addKeys List.nodup_nil
      refine List.Pairwise.imp ?_ (List.nodup_iff_pairwise_ne.mp hn)
      intro a b hab x hx y hy
      simp only [List.mem_map] at hx hy
      obtain ⟨v, _, rfl⟩ := hx
      obtain ⟨w, _, rfl⟩ := hy
      intro h
      injection h with h1 _
      exact hab h1
  · intro x
    unfold distinctRowsOf
    simp only [List.mem_flatMap, List.mem_map, mem_addKeys, List.not_mem_nil, false_or, List.mem_filter,
      beq_iff_eq]
    constructor
    · rintro ⟨k, _, v, ⟨r, ⟨hr, hk⟩, rfl⟩, rfl⟩
      obtain ⟨k', v', rfl⟩ := hrows r hr
      simp only [Val.key] at hk
      subst hk
      exact hr
    · intro hx
      obtain ⟨k, v, rfl⟩ := hrows x hx
      exact ⟨k, ⟨_, hx, rfl⟩, v, ⟨_, ⟨hx, rfl⟩, rfl⟩, rfl⟩

end IB
