import IbModel.Generated.Kernels
import IbModel.Model.Cloud
/-!
# C18 — kernel ties (translator route)

Tied here (`io/cloud/utils.rs`)
* `retry_with_backoff`: `attempt += 1`; the stop test `!should_retry || attempt >= config.max_attempts`
  (`should_retry` = the `matches!` on the error kind, a Bool parameter: the kind table itself is
  `Generated.transientKinds`, read from the running code); the delay update
  `new_delay = if config.backoff_multiplier >= 2.0 { delay_ms.saturating_mul(2) } else { delay_ms }` — the f64 comparison
  is the Bool parameter `mult_ge_2` (floats are not translated; a change of the comparison text makes the entry
  untranslatable) — and `delay_ms = new_delay.min(config.max_delay_ms)` ↔ `retryLoop`, `nextDelay`.
* `with_timeout`: `start.elapsed() > timeout` (`start.elapsed()` = the parameter `elapsed`) ↔ `withTimeout`.
* `batch_in_chunks`: `items.chunks(chunk_size.max(1))` ↔ `batchInChunks`.
* `paginate`: `items.is_empty()`, `page += 1`, `!has_more`, `if let Some(max_pages) = config.max_pages && page >= max_pages`
  ↔ `pageLoop`, `PageConfig.limitReached`.

Not tied: the wrappers of `helpers/cloud.rs` contain no arithmetic of their own (they call the four functions above;
that they coincide with them is proved in Props/C18.lean); `ConnectionPool::release` (`len < max_size`) has no model.
-/
set_option autoImplicit false
namespace IB.KTies.C18
open IB.Generated IB.Cloud

theorem k_cloud_retry_attempt : ∀ attempt : Nat, K.cloud_retry_attempt attempt = attempt + 1 := by intros; rfl

theorem k_cloud_retry_stop : ∀ (shouldRetry : Bool) (attempt maxAttempts : Nat),
    K.cloud_retry_stop shouldRetry attempt maxAttempts = (!shouldRetry || decide (attempt ≥ maxAttempts)) := by
  intros; rfl

theorem k_cloud_retry_new_delay : ∀ (doubles : Bool) (d : Nat),
    K.cloud_retry_new_delay doubles d = if doubles then min (d * 2) u64Max else d := by
  intro doubles d
  have : K.u64Max = u64Max := by simp [K.u64Max, u64Max]
  simp [K.cloud_retry_new_delay, this]

theorem k_cloud_retry_delay_cap : ∀ nd maxDelay : Nat, K.cloud_retry_delay_cap nd maxDelay = min nd maxDelay := by
  intros; rfl

theorem k_next_delay_model : ∀ (c : RetryConfig) (d : Nat),
    nextDelay c d = K.cloud_retry_delay_cap (K.cloud_retry_new_delay c.doubles d) c.maxDelay := by
  intro c d; rw [k_cloud_retry_new_delay, k_cloud_retry_delay_cap]; rfl

theorem k_retry_loop_model {α : Type} : ∀ (c : RetryConfig) (attempt delay : Nat) (e : Err) (rest : List (Res α)),
    retryLoop c attempt delay (.error e :: rest) =
      if K.cloud_retry_stop (isTransient e.kind) (K.cloud_retry_attempt attempt) c.maxAttempts
      then ⟨K.cloud_retry_attempt attempt, some (.error e), []⟩
      else
        let r := retryLoop c (K.cloud_retry_attempt attempt) (nextDelay c delay) rest
        ⟨r.attempts, r.outcome, delay :: r.sleeps⟩ := by
  intros; rw [retryLoop]; rfl

theorem k_cloud_timeout_exceeded : ∀ elapsed limit : Nat, K.cloud_timeout_exceeded elapsed limit = decide (elapsed > limit) := by
  intros; rfl

theorem k_with_timeout_model {α : Type} : ∀ (limit elapsed : Nat) (v : α),
    withTimeout limit elapsed (.ok v) = if K.cloud_timeout_exceeded elapsed limit then .error timeoutErr else .ok v := by
  intros; simp [withTimeout, K.cloud_timeout_exceeded]

theorem k_cloud_batch_chunk : ∀ size : Nat, K.cloud_batch_chunk size = max size 1 := by intros; rfl

theorem k_batch_in_chunks_model {α β : Type} : ∀ (items : List α) (size : Nat) (f : Nat → List α → Res (List β)),
    batchInChunks items size f = batchLoop f 0 (chunks (K.cloud_batch_chunk size) items) := by
  intros; rfl

theorem k_cloud_page_empty : ∀ n : Nat, K.cloud_page_empty n = decide (n = 0) := by intro n; cases n <;> rfl

theorem k_cloud_page_inc : ∀ page : Nat, K.cloud_page_inc page = page + 1 := by intros; rfl

theorem k_cloud_page_no_more : ∀ hasMore : Bool, K.cloud_page_no_more hasMore = !hasMore := by intros; rfl

theorem k_cloud_page_limit : ∀ (c : PageConfig) (page : Nat),
    K.cloud_page_limit c.maxPages page = c.limitReached page := by
  intro c page; unfold K.cloud_page_limit PageConfig.limitReached; cases c.maxPages <;> rfl

theorem k_page_loop_model {α : Type} : ∀ (c : PageConfig) (page : Nat) (items : List α) (hasMore : Bool)
    (rest : List (Res (List α × Bool))),
    pageLoop c page (.ok (items, hasMore) :: rest) =
      if K.cloud_page_empty items.length then ⟨[(page, c.pageSize)], some (.ok [])⟩
      else if K.cloud_page_no_more hasMore then ⟨[(page, c.pageSize)], some (.ok items)⟩
      else if K.cloud_page_limit c.maxPages (K.cloud_page_inc page) then ⟨[(page, c.pageSize)], some (.ok items)⟩
      else
        let r := pageLoop c (K.cloud_page_inc page) rest
        ⟨(page, c.pageSize) :: r.calls,
          r.outcome.map (fun o => match o with | .ok xs => .ok (items ++ xs) | .error e => .error e)⟩ := by
  intro c page items hasMore rest
  rw [pageLoop, k_cloud_page_limit, k_cloud_page_empty]
  cases items <;> cases hasMore <;> (try simp [K.cloud_page_no_more, K.cloud_page_inc]) <;> rfl

end IB.KTies.C18
