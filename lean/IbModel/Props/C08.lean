import IbModel.Model.Pipeline
import IbModel.Proofs.Pipeline
/-!
# C08 — collections are lazy, immutable and re-runnable; branches do not interfere

Model: `Model/Pipeline.lean` (the shared graph behind `Arc<Mutex<..>>`, atomic steps at LOCK granularity,
builders and `collect` as step sequences, threads as programs, `run` = execute a schedule).
Everything below is for EVERY node payload type `N`, EVERY list of thread programs (any number of threads,
any operations: new source / derive — `map`, `filter`, `group_by_key`, `combine_values`, `combine_values_lifted`,
`combine_globally`, … : every builder that is one `insert_node` + one `connect` — / join of any of the four
kinds / collect / `set_metrics` / `take_metrics`), and EVERY schedule (= interleaving), by induction — no bound.

A handle is *published* (`x ∈ c.pool`) from the moment its builder has returned (for `derive`/`join`: after the
`connect`; for `from_vec`: after the `insert_node`). Before that nobody but the building thread knows the id
(`PC.resv`), so a collect or derive racing with the builder's own insert/connect cannot be written.

**Laziness** is stated on an explicit trace: every thread carries `calls`, the list of chains whose user
functions (closures, `CombineFn`s) it has run. `build_step_runs_no_user_code`: every atomic step other than
the last step of a `collect` — i.e. every step of every builder, of `set_metrics`/`take_metrics`, and the
first steps of a collect — leaves EVERY thread's trace unchanged. `calls_are_collects`: the trace is exactly
the chains of the finished collects. `lazy_until_collect`: it is empty as long as no collect has finished;
`build_only_programs_run_no_user_code`: programs without a collect never run user code, under any schedule.
`calls_only_own_lineage`: every run is a run of the BORN lineage of the collected handle — no collect runs
a closure of another branch.
-/
namespace IB.Graph
variable {N : Type}

/-- the configurations reachable from the empty pipeline by some programs under some schedule -/
def Reachable (kit : Kit N) (c : Cfg N) : Prop :=
  ∃ (progs : List (List (Op N))) (sched : List Nat), c = run kit (Cfg.init progs) sched

/-- **Invariant**: `Inv init`, `Inv c → Inv (step c i)`, hence in every reachable configuration of every
    interleaving: ids are exactly `0..nextId-1`; every edge goes from an older to a younger existing node;
    at most one incoming edge per node; reserved (inserted, not yet connected) ids are touched by no edge
    and known to no other thread; threads only hold published handles. -/
theorem inv_initial (progs : List (List (Op N))) : AInv (Cfg.init progs).abs := inv_init progs

theorem inv_preserved (kit : Kit N) (c : Cfg N) (i : Nat) (h : AInv c.abs) : AInv (step kit c i).abs :=
  inv_step kit c i h

theorem inv_reachable (kit : Kit N) {c : Cfg N} (h : Reachable kit c) : AInv c.abs := by
  rcases h with ⟨progs, sched, rfl⟩
  exact inv_run kit sched _ (inv_init progs)

/-- **Every node gets a distinct identifier**: in every reachable configuration the node ids are exactly
    `0, 1, …, nextId-1` in insertion order (so pairwise distinct, none lost — a `HashMap::insert` never
    overwrote a node), and the handles returned by builders are pairwise distinct. -/
theorem ids_distinct (kit : Kit N) {c : Cfg N} (h : Reachable kit c) :
    c.g.nodes.map Prod.fst = List.range c.g.nextId ∧ (c.g.nodes.map Prod.fst).Nodup ∧ c.pool.Nodup := by
  have inv := inv_reachable kit h
  refine ⟨inv.ids, ?_, inv.poolNodup⟩
  have := inv.ids
  simp only [Cfg.abs] at this
  rw [this]; exact List.nodup_range

/-- every edge goes from an older node to a younger existing node, and no node has two incoming edges -/
theorem edges_wellformed (kit : Kit N) {c : Cfg N} (h : Reachable kit c) :
    (∀ e ∈ c.g.edges, e.1 < e.2 ∧ e.2 < c.g.nextId) ∧ (c.g.edges.map Prod.snd).Nodup :=
  ⟨(inv_reachable kit h).edgeLt, (inv_reachable kit h).inDeg⟩

/-- between an `insert_node` and the builder's return, the new id is invisible: not published, in no edge,
    and reserved by exactly one thread -/
theorem reserved_is_private (kit : Kit N) {c : Cfg N} (h : Reachable kit c) (i : Nat) (th : Thread N)
    (hi : c.threads[i]? = some th) (r : Nat) (hr : r ∈ th.pc.resv) :
    r ∉ c.pool ∧ (∀ e ∈ c.g.edges, e.1 ≠ r ∧ e.2 ≠ r) ∧
    ∀ j tj, j ≠ i → c.threads[j]? = some tj → r ∉ tj.pc.resv ∧ r ∉ tj.pc.held ∧ r ∉ tj.own := by
  have inv := inv_reachable kit h
  have hv := abs_views_get c i th hi
  have hR := inv.resv i th.view hv r (by simpa [Thread.view] using hr)
  refine ⟨hR.2.1, hR.2.2, ?_⟩
  intro j tj hji hj
  have hvj := abs_views_get c j tj hj
  refine ⟨?_, ?_, ?_⟩
  · have := inv.disj i j th.view tj.view (Ne.symm hji) hv hvj r (by simpa [Thread.view] using hr)
    simpa [Thread.view] using this
  · intro hm; exact hR.2.1 (inv.held j tj.view hvj r (by simp [Thread.view, hm]))
  · intro hm; exact hR.2.1 (inv.held j tj.view hvj r (by simp [Thread.view, hm]))

/-- **Lineage stability (one step)**: no atomic step of any thread changes the back-walk of a published handle. -/
theorem lineage_stable_step (kit : Kit N) (c : Cfg N) (inv : AInv c.abs) (i : Nat) {x : Nat} (hx : x ∈ c.pool) :
    backwalk (step kit c i).g x = backwalk c.g x ∧ x ∈ (step kit c i).pool :=
  ⟨backwalk_stable_step inv (step_refines kit c i inv) hx, pool_mono_step (step_refines kit c i inv) hx⟩

/-- **Lineage stability**: `published x c → c ⟶* c' → backwalk c' x = backwalk c x`, for every continuation
    schedule — whatever any thread builds, joins or collects afterwards (append-only graph; edges into an
    already published node never appear later; first-edge lookup). -/
theorem lineage_stable (kit : Kit N) (sched : List Nat) :
    ∀ (c : Cfg N), AInv c.abs → ∀ x ∈ c.pool,
      backwalk (run kit c sched).g x = backwalk c.g x ∧ x ∈ (run kit c sched).pool := by
  induction sched with
  | nil => intro c _ x hx; exact ⟨rfl, hx⟩
  | cons i rest ih =>
    intro c inv x hx
    have h1 := lineage_stable_step kit c inv i hx
    have h2 := ih (step kit c i) (inv_step kit c i inv) x h1.2
    exact ⟨h2.1.trans h1.1, h2.2⟩

/-- the same, from a reachable configuration -/
theorem lineage_stable_reachable (kit : Kit N) {c : Cfg N} (h : Reachable kit c) (sched : List Nat)
    {x : Nat} (hx : x ∈ c.pool) : backwalk (run kit c sched).g x = backwalk c.g x :=
  (lineage_stable kit sched c (inv_reachable kit h) x hx).1

/-- the back-walk from a published handle (indeed from any existing node) never fails with "missing node" -/
theorem published_lineage_total (kit : Kit N) {c : Cfg N} (h : Reachable kit c) {x : Nat} (hx : x ∈ c.pool) :
    (backwalk c.g x).isSome :=
  backwalk_isSome (inv_reachable kit h) ((inv_reachable kit h).poolLt x hx)

/-- ghost bookkeeping is sound: `born` maps every published handle to its lineage at publication, and that
    is still its lineage now -/
theorem born_is_current (kit : Kit N) {c : Cfg N} (h : Reachable kit c) :
    (∀ p ∈ c.born, p.1 ∈ c.pool ∧ backwalk c.g p.1 = p.2) ∧ (∀ x ∈ c.pool, ∃ ch, (x, ch) ∈ c.born) := by
  rcases h with ⟨progs, sched, rfl⟩
  have := ginv_run kit sched _ (inv_init progs) (ginv_init progs)
  exact ⟨this.bornOk, this.bornAll⟩

/-- **What a collect returns depends only on the collection's own lineage**: in every history, the chain
    every `collect` of `x` executed — by whichever thread, at whatever time, whatever was built or collected
    in between — is the chain `x` had at the moment its builder returned. -/
theorem collect_reads_birth_lineage (kit : Kit N) {c : Cfg N} (h : Reachable kit c) (j : Nat) (th : Thread N)
    (hj : c.threads[j]? = some th) (x : Nat) (ch : Option (List N))
    (hc : Outcome.collected x ch ∈ th.outs) : (x, ch) ∈ c.born := by
  rcases h with ⟨progs, sched, rfl⟩
  exact (ginv_run kit sched _ (inv_init progs) (ginv_init progs)).outs j th hj x ch hc

/-- **Re-runnable, no interference**: any two collects of the same collection — same or different threads,
    any schedule, anything built/collected in between — execute the same chain, hence (the result being
    `exec chain` for a function `exec` of the chain alone) return the same value. -/
theorem collect_result_pure {R : Type} (exec : Option (List N) → R) (kit : Kit N) {c : Cfg N}
    (h : Reachable kit c) (j k : Nat) (tj tk : Thread N) (hj : c.threads[j]? = some tj)
    (hk : c.threads[k]? = some tk) (x : Nat) (ch1 ch2 : Option (List N))
    (h1 : Outcome.collected x ch1 ∈ tj.outs) (h2 : Outcome.collected x ch2 ∈ tk.outs) :
    exec ch1 = exec ch2 := by
  have b1 := collect_reads_birth_lineage kit h j tj hj x ch1 h1
  have b2 := collect_reads_birth_lineage kit h k tk hk x ch2 h2
  have hb := (born_is_current kit h).1
  have e1 := (hb _ b1).2
  have e2 := (hb _ b2).2
  simp only at e1 e2
  rw [← e1, ← e2]

/-- a collect of a published handle never fails in the planner -/
theorem collect_chain_exists (kit : Kit N) {c : Cfg N} (h : Reachable kit c) (j : Nat) (th : Thread N)
    (hj : c.threads[j]? = some th) (x : Nat) (ch : Option (List N))
    (hc : Outcome.collected x ch ∈ th.outs) : ch.isSome := by
  have b := collect_reads_birth_lineage kit h j th hj x ch hc
  have hb := (born_is_current kit h).1 _ b
  have := published_lineage_total kit h hb.1
  simp only at hb
  rw [← hb.2]; exact this

/-- **Joins capture their operands' own lineage**: the two chains a `join` stores in its `CoGroup` node
    (read by two separate snapshots while other threads keep building) are the chains its operands were
    born with. -/
theorem join_reads_birth_lineage (kit : Kit N) {c : Cfg N} (h : Reachable kit c) (j : Nat) (th : Thread N)
    (hj : c.threads[j]? = some th) (d tag : Nat) (lc rc : List N) (hpc : th.pc = .joinInsG d tag lc rc) :
    ∃ l r, (l, some lc) ∈ c.born ∧ (r, some rc) ∈ c.born := by
  rcases h with ⟨progs, sched, rfl⟩
  exact (ginv_run kit sched _ (inv_init progs) (ginv_init progs)).pcJoin j th hj tag lc rc (Or.inr ⟨d, hpc⟩)

/-- **Immutable, append-only**: whatever any thread does, the node list and the edge list only grow at the
    end — no node (in particular no source payload) is ever removed, replaced or consumed, no edge changed. -/
theorem graph_append_only (kit : Kit N) (sched : List Nat) :
    ∀ (c : Cfg N), AInv c.abs →
      ∃ ns es, (run kit c sched).g.nodes = c.g.nodes ++ ns ∧ (run kit c sched).g.edges = c.g.edges ++ es := by
  induction sched with
  | nil => intro c _; exact ⟨[], [], by simp [run], by simp [run]⟩
  | cons i rest ih =>
    intro c inv
    rcases graph_grows_step inv (step_refines kit c i inv) with ⟨n1, e1, h1, h2⟩
    rcases ih (step kit c i) (inv_step kit c i inv) with ⟨n2, e2, h3, h4⟩
    refine ⟨n1 ++ n2, e1 ++ e2, ?_, ?_⟩
    · show (run kit (step kit c i) rest).g.nodes = _
      rw [h3]; simp only [Cfg.abs] at h1; rw [h1, List.append_assoc]
    · show (run kit (step kit c i) rest).g.edges = _
      rw [h4]; simp only [Cfg.abs] at h2; rw [h2, List.append_assoc]


/-! ## laziness: building runs no user code -/

/-- **Building runs none of the user's functions (step form)**: an atomic step of thread `i` that is not the
    last step of a collect (so: every step of `from_vec`, of every derive incl. the barrier builders, of every
    join, of `set_metrics`/`take_metrics`, `begin`, and a collect's `record_metrics_start`/`build_plan`)
    leaves the trace of user-code runs of EVERY thread unchanged. -/
theorem build_step_runs_no_user_code (kit : Kit N) (c : Cfg N) (i : Nat)
    (hb : ∀ th, c.threads[i]? = some th → ∀ x ch, th.pc ≠ .colEnd x ch) :
    (step kit c i).threads.map Thread.calls = c.threads.map Thread.calls ∧ (step kit c i).calls = c.calls := by
  have h1 : (step kit c i).threads.map Thread.calls = c.threads.map Thread.calls := by
    cases hth : c.threads[i]? with
    | none => simp only [step, hth]
    | some th =>
      rw [step_threads kit c i th hth, List.map_set, stepTh_calls_build kit c th (hb th hth)]
      exact set_same _ _ _ (by simp [List.getElem?_map, hth])
  refine ⟨h1, ?_⟩
  simp only [Cfg.calls, List.flatMap_def, h1]

/-- the only step that extends a trace: the end of a collect appends the chain that collect planned -/
theorem collect_end_runs_its_chain (kit : Kit N) (c : Cfg N) (i : Nat) (th : Thread N)
    (hi : c.threads[i]? = some th) (x : Nat) (ch : Option (List N)) (hpc : th.pc = .colEnd x ch) :
    ∃ th', (step kit c i).threads[i]? = some th' ∧ th'.calls = th.calls ++ ch.toList := by
  refine ⟨(stepTh kit c th).2, ?_, ?_⟩
  · rw [step_threads kit c i th hi]
    have hlt : i < c.threads.length := by
      rcases Nat.lt_or_ge i c.threads.length with h1 | h1
      · exact h1
      · rw [List.getElem?_eq_none h1] at hi; cases hi
    simp [hlt]
  · simp [stepTh, hpc, Thread.finish]

/-- **The trace is exactly the finished collects**: in every reachable configuration each thread's trace is
    the list of the chains of its `collected` outcomes, in order (`Outcome.ran`). -/
theorem calls_are_collects (kit : Kit N) {c : Cfg N} (h : Reachable kit c) (j : Nat) (th : Thread N)
    (hj : c.threads[j]? = some th) : th.calls = th.outs.flatMap Outcome.ran := by
  rcases h with ⟨progs, sched, rfl⟩
  exact cinv_run kit sched _ (cinv_init progs) j th hj

/-- **Lazy until a collect**: as long as no collect has finished, no user function has been called. -/
theorem lazy_until_collect (kit : Kit N) {c : Cfg N} (h : Reachable kit c)
    (hn : ∀ (j : Nat) (th : Thread N), c.threads[j]? = some th → ∀ x ch, Outcome.collected x ch ∉ th.outs) :
    c.calls = [] := by
  simp only [Cfg.calls, List.flatMap_eq_nil_iff]
  intro th hth
  rcases List.getElem?_of_mem hth with ⟨j, hj⟩
  rw [calls_are_collects kit h j th hj, List.flatMap_eq_nil_iff]
  intro o ho
  cases o with
  | collected x ch => exact absurd ho (hn j th hj x ch)
  | _ => rfl

/-- **Programs that only build never run user code**, under any schedule, with any number of threads. -/
theorem build_only_programs_run_no_user_code (kit : Kit N) (progs : List (List (Op N))) (sched : List Nat)
    (hp : ∀ p ∈ progs, ∀ op ∈ p, Op.isCollect op = false) :
    (run kit (Cfg.init progs) sched).calls = [] := by
  have h0 : ∀ th ∈ (Cfg.init progs).threads, NoCol th := by
    intro th hth
    simp only [Cfg.init, List.mem_map] at hth
    rcases hth with ⟨p, hpm, rfl⟩
    exact ⟨hp p hpm, rfl, rfl⟩
  have := nocol_run kit sched _ h0
  simp only [Cfg.calls, List.flatMap_eq_nil_iff]
  exact fun th hth => (this th hth).calls

/-- **No interference through user code**: every run any thread ever made is a run of the chain the collected
    handle was BORN with — a collect never runs a closure of a sibling branch or of anything built later. -/
theorem calls_only_own_lineage (kit : Kit N) {c : Cfg N} (h : Reachable kit c) (j : Nat) (th : Thread N)
    (hj : c.threads[j]? = some th) (ch : List N) (hc : ch ∈ th.calls) :
    ∃ x, Outcome.collected x (some ch) ∈ th.outs ∧ (x, some ch) ∈ c.born := by
  rw [calls_are_collects kit h j th hj, List.mem_flatMap] at hc
  rcases hc with ⟨o, ho, hm⟩
  cases o with
  | collected x och =>
    cases och with
    | none => simp [Outcome.ran] at hm
    | some l =>
      simp [Outcome.ran] at hm
      subst hm
      exact ⟨x, ho, collect_reads_birth_lineage kit h j th hj x _ ho⟩
  | _ => simp [Outcome.ran] at hm

/-- `set_metrics` / `take_metrics` racing with anything: they never touch the graph, the pool or a lineage -/
theorem metrics_ops_leave_graph (kit : Kit N) (c : Cfg N) (i : Nat) (th : Thread N)
    (hi : c.threads[i]? = some th) (hpc : th.pc = .metSet ∨ th.pc = .metTake) :
    (step kit c i).g = c.g ∧ (step kit c i).pool = c.pool ∧ (step kit c i).born = c.born := by
  rcases hpc with hpc | hpc <;> simp [step, hi, stepTh, hpc]

/-! ## a collection's lineage is structural: it is fixed by the builder call that made it

Together with `collect_reads_birth_lineage` this is "what a collection returns depends only on that
collection's own lineage": the chain every collect of `x` executes is the chain `x` was born with, and that
chain is — for a source: its own node; for a derived collection: the parent's chain followed by the new
node; for a join: the dummy source followed by the `CoGroup` node (which holds the operands' born chains,
`join_reads_birth_lineage`) — whatever other threads did between the builder's `insert` and `connect`. -/

/-- the node payload a builder inserts is stored under the id it gets … -/
theorem insert_stores_payload (kit : Kit N) {c : Cfg N} (h : Reachable kit c) (n : N) :
    lookupNode (insertNode c.g n).1.nodes c.g.nextId = some n := by
  have inv := inv_reachable kit h
  have hids0 : c.g.nodes.map Prod.fst = List.range c.g.nextId := inv.ids
  rw [insertNode_fst c.g n hids0]
  apply lookupNode_append_last
  intro p hp hk
  have : p.1 ∈ c.g.nodes.map Prod.fst := List.mem_map_of_mem hp
  have hids := inv.ids
  simp only [Cfg.abs] at hids
  rw [hids] at this
  have := List.mem_range.mp this
  omega

/-- … and stays there, unchanged, forever (sources are never consumed, closures never replaced) -/
theorem payload_persists (kit : Kit N) {c : Cfg N} (h : Reachable kit c) (sched : List Nat) (k : Nat) (n : N)
    (hk : lookupNode c.g.nodes k = some n) : lookupNode (run kit c sched).g.nodes k = some n := by
  rcases graph_append_only kit sched c (inv_reachable kit h) with ⟨ns, _, hn, _⟩
  rw [hn]; exact lookupNode_append_found _ _ _ _ hk

/-- `from_vec`: the new collection's lineage is its own source node -/
theorem lineage_of_source (kit : Kit N) {c : Cfg N} (h : Reachable kit c) (i : Nat) (th : Thread N)
    (hi : c.threads[i]? = some th) (n : N) (hpc : th.pc = .srcIns n) :
    backwalk (step kit c i).g c.g.nextId = some [n] := by
  have inv := inv_reachable kit h
  have hg : (step kit c i).g = (insertNode c.g n).1 := by simp [step, hi, stepTh, hpc, publish]
  rw [hg]
  apply backwalk_root _ _ _ (insert_stores_payload kit h n)
  intro e he
  have hids0 : c.g.nodes.map Prod.fst = List.range c.g.nextId := inv.ids
  rw [insertNode_fst c.g n hids0] at he
  have := inv.edgeLt e he
  simp only [Cfg.abs] at this
  omega

/-- `map`/`filter`/`group_by_key`/`combine_values`/`combine_globally`/…: when the builder's `connect` happens — however long after its `insert`, whatever other
    threads did in between — the new collection's lineage is the parent's lineage followed by the new node -/
theorem lineage_of_derive (kit : Kit N) {c : Cfg N} (h : Reachable kit c) (i : Nat) (th : Thread N)
    (hi : c.threads[i]? = some th) (p m k : Nat) (hpc : th.pc = .drvCon p m k) :
    ∃ n, lookupNode c.g.nodes m = some n ∧
      backwalk (step kit c i).g m = (backwalk c.g p).map (· ++ [n]) := by
  have inv := inv_reachable kit h
  have hv := abs_views_get c i th hi
  have hR := inv.resv i th.view hv m (by simp [Thread.view, hpc, PC.resv])
  have hlt := (inv.ord i th.view hv).1 m (by simp [Thread.view, hpc, PC.resv]) p (by simp [Thread.view, hpc, PC.held])
  have hsome := lookupNode_isSome_of_mem c.g.nodes m (by
    have := inv.ids; simp only [Cfg.abs] at this; rw [this]; exact List.mem_range.mpr hR.1)
  rcases Option.isSome_iff_exists.mp hsome with ⟨n, hn⟩
  refine ⟨n, hn, ?_⟩
  have hg : (step kit c i).g = connect c.g p m := by simp [step, hi, stepTh, hpc, publish]
  rw [hg]
  exact backwalk_connect_new c.g p m n hn hR.2.2 (by omega)

/-- `join_*`: the new collection's lineage is the dummy source followed by the `CoGroup` node -/
theorem lineage_of_join (kit : Kit N) {c : Cfg N} (h : Reachable kit c) (i : Nat) (th : Thread N)
    (hi : c.threads[i]? = some th) (d g : Nat) (hpc : th.pc = .joinCon d g) :
    ∃ nd ng, lookupNode c.g.nodes d = some nd ∧ lookupNode c.g.nodes g = some ng ∧
      backwalk (step kit c i).g g = some [nd, ng] := by
  have inv := inv_reachable kit h
  have hv := abs_views_get c i th hi
  have hD := inv.resv i th.view hv d (by simp [Thread.view, hpc, PC.resv])
  have hG := inv.resv i th.view hv g (by simp [Thread.view, hpc, PC.resv])
  have hlt : d < g := by
    have := (inv.ord i th.view hv).2
    simp [Thread.view, hpc, PC.resv] at this
    exact this
  have hids := inv.ids
  simp only [Cfg.abs] at hids
  rcases Option.isSome_iff_exists.mp (lookupNode_isSome_of_mem c.g.nodes d (by
    rw [hids]; exact List.mem_range.mpr hD.1)) with ⟨nd, hnd⟩
  rcases Option.isSome_iff_exists.mp (lookupNode_isSome_of_mem c.g.nodes g (by
    rw [hids]; exact List.mem_range.mpr hG.1)) with ⟨ng, hng⟩
  refine ⟨nd, ng, hnd, hng, ?_⟩
  have hg : (step kit c i).g = connect c.g d g := by simp [step, hi, stepTh, hpc, publish]
  rw [hg, backwalk_connect_new c.g d g ng hng hG.2.2 (by omega),
    backwalk_root c.g d nd hnd (fun e he => (hD.2.2 e he).2)]
  rfl

/-- In every reachable graph each node has at most one incoming edge, so following the LAST edge into a node
    (`rfind`) instead of the FIRST (`find`) gives the same walk: that code change is behaviour-preserving
    (and the check rightly stays quiet on it). -/
theorem backwalk_first_eq_last (kit : Kit N) {c : Cfg N} (h : Reachable kit c) (fuel x : Nat) (acc : List N) :
    Variant.backwalkGoLast fuel c.g.nodes c.g.edges x acc = backwalkGo fuel c.g.nodes c.g.edges x acc :=
  backwalkGoLast_eq c.g.edges (inv_reachable kit h).inDeg fuel c.g.nodes x acc

/-! ## what the check guards against: `next_id` read and written in two critical sections -/

/-- witness: two threads both read `next_id = 0`, then both insert — one node is overwritten, two handles
    carry the same id, the invariant `ids = 0..nextId-1` fails -/
theorem racy_insert_loses_a_node :
    let s0 : PState Nat := PState.init
    let idA := Variant.readId s0
    let idB := Variant.readId s0
    let s2 := Variant.insertAt (Variant.insertAt s0 idA 10) idB 20
    idA = idB ∧ s2.nodes = [(0, 20)] ∧ s2.nextId = 1 := by decide

/-! ## non-vacuity: a concrete history (2 worker threads interleaved with a prefix thread) -/

/-- payload: a number (source seed / op code); dummy = 0; cogroup = 1000 + sum of both chains -/
def demoKit : Kit Nat := ⟨0, fun tag l r => 1000 + tag + l.sum + r.sum⟩

/-- thread 0 builds a source and a derived collection; thread 1 derives from the source and collects it;
    thread 2 joins the two oldest handles and collects the oldest handle again -/
def demoProgs : List (List (Op Nat)) :=
  [[.source 7, .derive (.front 0) none 10],
   [.derive (.front 0) (some (0, 0)) 20, .collect (.mine 0), .collect (.front 0)],
   [.join (.front 0) (.front 1) 0, .collect (.front 0), .collect (.back 0)]]

def demoSched : List Nat :=
  [0, 0, 0, 0, 0,  1, 2, 1, 2, 2, 1, 2, 1, 2, 1, 2, 1, 1, 2, 2, 1, 2, 1, 2, 2, 2, 1, 1, 2, 2, 2]

def demoFinal : Cfg Nat := run demoKit (Cfg.init demoProgs) demoSched

/-- witness: the demo history really interleaves builds, a join and collects, and all six operations of
    the workers complete -/
example : demoFinal.g.nextId = 5 ∧ demoFinal.g.edges = [(0, 1), (0, 2), (3, 4)] ∧
    demoFinal.pool = [0, 1, 2, 4] ∧
    (demoFinal.threads.map (fun t => t.outs.length)) = [2, 3, 3] := by decide

/-- witness: both collects of handle 0 (threads 1 and 2, with a derive and a join in between) executed the
    chain `[7]`; the collect of the derived handle executed `[7, 20]`; the join's chain is its own -/
example : (demoFinal.threads.map (fun t => t.outs.filterMap (fun o =>
      match o with | .collected x ch => some (x, ch) | _ => none))) =
    [[], [(2, some [7, 20]), (0, some [7])], [(0, some [7]), (4, some [0, 1024])]] := by decide

example : Reachable demoKit demoFinal := ⟨demoProgs, demoSched, rfl⟩

/-- witness (laziness): after the five build steps of thread 0 and while both workers are still building
    (thread 1 between `insert` and `connect`, thread 2 before its `connect`) nobody has run user code; at the end
    the traces are exactly the chains of the four collects -/
example : (run demoKit (Cfg.init demoProgs) [0, 0, 0, 0, 0, 1, 1, 2, 2, 2, 2, 2]).calls = [] ∧
    demoFinal.threads.map Thread.calls = [[], [[7, 20], [7]], [[7], [0, 1024]]] := by decide

/-- witness: a program with a typed derive that cannot resolve (class 2 = grouped, none exists) is skipped;
    `take_metrics` answers whether a collector was installed -/
example : ((run demoKit (Cfg.init [[.source 1, .derive (.front 0) (some (2, 0)) 5, .takeMetrics, .setMetrics, .takeMetrics]])
      [0, 0, 0, 0, 0, 0, 0, 0, 0]).threads.map (fun t => t.outs.map (fun o =>
        match o with | .built id => id + 10 | .skipped => 1 | .metricsSet => 2 | .metricsTaken b => if b then 3 else 4 | _ => 0))) =
    [[10, 1, 4, 2, 3]] := by decide

/-- witness for the hypotheses of `lineage_of_derive` / `lineage_of_join` / `reserved_is_private`: a reachable
    configuration in which thread 1 sits between its `insert` (id 2) and its `connect(0,2)` while thread 2,
    having inserted ids 3 and 4 in the meantime, sits before its `connect(3,4)` -/
def demoMid : Cfg Nat := run demoKit (Cfg.init demoProgs) [0, 0, 0, 0, 0, 1, 1, 2, 2, 2, 2, 2]

example : (demoMid.threads.map (fun t => match t.pc with
      | .drvCon p m _ => some (p, m) | .joinCon d g => some (d, g) | _ => none)) =
    [none, some (0, 2), some (3, 4)] ∧ demoMid.pool = [0, 1] ∧ demoMid.g.nextId = 5 := by decide

example : Reachable demoKit demoMid := ⟨demoProgs, _, rfl⟩

/-- witnesses for the hypotheses of the laziness theorems: (a) `demoMid` is a reachable configuration in which
    nobody has finished a collect (`lazy_until_collect`) and no thread sits at the end of a collect
    (`build_step_runs_no_user_code` applies to every thread); (b) a thread sitting at the end of a collect
    (`collect_end_runs_its_chain`) and the trace after that step; (c) a program without collects
    (`build_only_programs_run_no_user_code`) that builds a source, two barriers and a join; (d) a thread about
    to `set_metrics` (`metrics_ops_leave_graph`) -/
example : (demoMid.threads.all (fun t => t.outs.all (fun o => match o with | .collected _ _ => false | _ => true))) = true ∧
    (demoMid.threads.all (fun t => match t.pc with | .colEnd _ _ => false | _ => true)) = true := by decide

example : ((run demoKit (Cfg.init [[.source 7, .collect (.front 0)]]) [0, 0, 0, 0, 0]).threads.map (fun t =>
      match t.pc with | .colEnd x ch => some (x, ch) | _ => none)) = [some (0, some [7])] ∧
    (run demoKit (Cfg.init [[.source 7, .collect (.front 0)]]) [0, 0, 0, 0, 0, 0]).calls = [[7]] := by decide

def demoBuildOnly : List (List (Op Nat)) :=
  [[.source 7, .derive (.front 0) (some (0, 2)) 30, .derive (.back 0) (some (2, 0)) 40, .setMetrics],
   [.derive (.front 0) (some (0, 0)) 50, .join (.front 0) (.mine 0) 3, .takeMetrics]]

example : (demoBuildOnly.all (fun p => p.all (fun op => !Op.isCollect op))) = true ∧
    (run demoKit (Cfg.init demoBuildOnly) [0, 0, 1, 0, 1, 0, 1, 0, 1, 1, 0, 1, 0, 1, 0, 1, 1, 1, 1]).g.nextId = 6 := by decide

example : ((run demoKit (Cfg.init demoBuildOnly) [0, 0, 0, 0, 0, 0, 0, 0, 0]).threads.map (fun t =>
      match t.pc with | .metSet => true | _ => false)) = [true, false] := by decide

end IB.Graph
