import IbModel.Model.Pipeline
import IbModel.Proofs.Pipeline
/-!
# C08 — collections are lazy, immutable and re-runnable; branches do not interfere

Model: `Model/Pipeline.lean` (the shared graph behind `Arc<Mutex<..>>`, atomic steps at LOCK granularity,
builders and `collect` as step sequences, threads as programs, `run` = execute a schedule; reading a source through
its `VecOps` with the payload as a STATE).
Everything below is for EVERY node payload type `N`, EVERY list of thread programs (any number of threads,
any operations: new source / derive — every builder that is one `insert_node` + one `connect`: `map`, `filter`,
`flat_map`, `map_values`, `filter_values`, `map_batches`, `map_values_batches`, `apply_transform`, the debug taps,
`group_by_key`, `combine_values`, `combine_values_lifted`, `combine_globally`, `combine_globally_lifted`; that the ~20
copies of that two-call body in the crate ARE that sequence is observed by the harness' lock-site trace for each of
them — / join of any of the four kinds / collect / `set_metrics` / `take_metrics` / `get_metrics`), and EVERY
schedule (= interleaving), by induction — no bound.

A handle is *published* (`x ∈ c.pool`) from the moment its builder has returned (for `derive`/`join`: after the
`connect`; for a source: after the `insert_node`). Before that nobody but the building thread knows the id
(`PC.resv`), so a collect or derive racing with the builder's own insert/connect cannot be written.

**Lineage** (`derive_lineage`, `join_lineage`, `lineage_of_source`): the chain a new handle is born with is the
parent's born chain followed by THE BUILDER'S OWN payload, resp. `[dummy, CoGroup(tag, born l, born r)]` for the join's
OWN operands `l`, `r` — whatever other threads do between the builder's lock acquisitions;
`collect_reads_birth_lineage`: every collect of `x`, ever, executes the chain `x` was born with.

**Laziness** is stated on an explicit trace: every thread carries `calls`, the list of chains whose user
functions (closures, `CombineFn`s) it has run. `build_step_runs_no_user_code`: every atomic step other than
the last step of a `collect` — i.e. every step of every builder, of `set/take/get_metrics`, the first steps of a
collect and its planner-error exit — leaves EVERY thread's trace unchanged. `calls_are_collects`: the trace is exactly
the chains of the finished collects. `lazy_until_collect`, `build_only_programs_run_no_user_code`,
`calls_only_own_lineage`. These are statements about the MODEL's ghost trace (a builder that called a user function
is not expressible in it); that the real builders call nothing is decided by the harness (call counters of every
user function sampled after every lock step).

**Never consumes its source**: `graph_append_only` / `payload_persists` (no node is removed or replaced) and
`source_never_consumed` (a `VecOps` that only reads — `vecOps_readOnly` for `from_vec` — yields the same rows in every
run, any modes, and leaves the payload as it was; `drained_source_is_consumed` is the behaviour guarded against).

Not in this file: that the planner passes and the two engines compute the same rows from a chain (C01–C07); "either
mode" is exercised by the harness only (the model's collect does not look at the mode).
-/
namespace IB.Graph
variable {N : Type}

/-- the configurations reachable from the empty pipeline by some programs under some schedule -/
def Reachable (kit : Kit N) (c : Cfg N) : Prop :=
  ∃ (progs : List (List (Op N))) (sched : List Nat), c = run kit (Cfg.init progs) sched

/-- **Invariant**: `Inv init`, `Inv c → Inv (step c i)`, hence in every reachable configuration of every
    interleaving: ids are exactly `0..nextId-1`; every edge goes from an older to a younger existing node;
    at most one incoming edge per node; reserved (inserted, not yet connected) ids are touched by no edge
    and known to no other thread; threads only hold published handles. -/
theorem inv_initial (progs : List (List (Op N))) : AInv (Cfg.init progs).abs := inv_init progs

theorem inv_preserved (kit : Kit N) (c : Cfg N) (i : Nat) (h : AInv c.abs) : AInv (step kit c i).abs :=
  inv_step kit c i h

theorem inv_reachable (kit : Kit N) {c : Cfg N} (h : Reachable kit c) : AInv c.abs := by
  rcases h with ⟨progs, sched, rfl⟩
  exact inv_run kit sched _ (inv_init progs)

/-- **Every node gets a distinct identifier**: in every reachable configuration the node ids are exactly
    `0, 1, …, nextId-1` in insertion order (so pairwise distinct, none lost — a `HashMap::insert` never
    overwrote a node), and the handles returned by builders are pairwise distinct. -/
theorem ids_distinct (kit : Kit N) {c : Cfg N} (h : Reachable kit c) :
    c.g.nodes.map Prod.fst = List.range c.g.nextId ∧ (c.g.nodes.map Prod.fst).Nodup ∧ c.pool.Nodup := by
  have inv := inv_reachable kit h
  refine ⟨inv.ids, ?_, inv.poolNodup⟩
  have := inv.ids
  simp only [Cfg.abs] at this
  rw [this]; exact List.nodup_range

/-- every edge goes from an older node to a younger existing node, and no node has two incoming edges -/
theorem edges_wellformed (kit : Kit N) {c : Cfg N} (h : Reachable kit c) :
    (∀ e ∈ c.g.edges, e.1 < e.2 ∧ e.2 < c.g.nextId) ∧ (c.g.edges.map Prod.snd).Nodup :=
  ⟨(inv_reachable kit h).edgeLt, (inv_reachable kit h).inDeg⟩

/-- between an `insert_node` and the builder's return, the new id is invisible: not published, in no edge,
    and reserved by exactly one thread -/
theorem reserved_is_private (kit : Kit N) {c : Cfg N} (h : Reachable kit c) (i : Nat) (th : Thread N)
    (hi : c.threads[i]? = some th) (r : Nat) (hr : r ∈ th.pc.resv) :
    r ∉ c.pool ∧ (∀ e ∈ c.g.edges, e.1 ≠ r ∧ e.2 ≠ r) ∧
    ∀ j tj, j ≠ i → c.threads[j]? = some tj → r ∉ tj.pc.resv ∧ r ∉ tj.pc.held ∧ r ∉ tj.own := by
  have inv := inv_reachable kit h
  have hv := abs_views_get c i th hi
  have hR := inv.resv i th.view hv r (by simpa [Thread.view] using hr)
  refine ⟨hR.2.1, hR.2.2, ?_⟩
  intro j tj hji hj
  have hvj := abs_views_get c j tj hj
  refine ⟨?_, ?_, ?_⟩
  · have := inv.disj i j th.view tj.view (Ne.symm hji) hv hvj r (by simpa [Thread.view] using hr)
    simpa [Thread.view] using this
  · intro hm; exact hR.2.1 (inv.held j tj.view hvj r (by simp [Thread.view, hm]))
  · intro hm; exact hR.2.1 (inv.held j tj.view hvj r (by simp [Thread.view, hm]))

/-- **Lineage stability (one step)**: no atomic step of any thread changes the back-walk of a published handle. -/
theorem lineage_stable_step (kit : Kit N) (c : Cfg N) (inv : AInv c.abs) (i : Nat) {x : Nat} (hx : x ∈ c.pool) :
    backwalk (step kit c i).g x = backwalk c.g x ∧ x ∈ (step kit c i).pool :=
  ⟨backwalk_stable_step inv (step_refines kit c i inv) hx, pool_mono_step (step_refines kit c i inv) hx⟩

/-- **Lineage stability**: `published x c → c ⟶* c' → backwalk c' x = backwalk c x`, for every continuation
    schedule — whatever any thread builds, joins or collects afterwards (append-only graph; edges into an
    already published node never appear later; first-edge lookup). -/
theorem lineage_stable (kit : Kit N) (sched : List Nat) :
    ∀ (c : Cfg N), AInv c.abs → ∀ x ∈ c.pool,
      backwalk (run kit c sched).g x = backwalk c.g x ∧ x ∈ (run kit c sched).pool := by
  induction sched with
  | nil => intro c _ x hx; exact ⟨rfl, hx⟩
  | cons i rest ih =>
    intro c inv x hx
    have h1 := lineage_stable_step kit c inv i hx
    have h2 := ih (step kit c i) (inv_step kit c i inv) x h1.2
    exact ⟨h2.1.trans h1.1, h2.2⟩

/-- the same, from a reachable configuration -/
theorem lineage_stable_reachable (kit : Kit N) {c : Cfg N} (h : Reachable kit c) (sched : List Nat)
    {x : Nat} (hx : x ∈ c.pool) : backwalk (run kit c sched).g x = backwalk c.g x :=
  (lineage_stable kit sched c (inv_reachable kit h) x hx).1

/-- the back-walk from a published handle (indeed from any existing node) never fails with "missing node" -/
theorem published_lineage_total (kit : Kit N) {c : Cfg N} (h : Reachable kit c) {x : Nat} (hx : x ∈ c.pool) :
    (backwalk c.g x).isSome :=
  backwalk_isSome (inv_reachable kit h) ((inv_reachable kit h).poolLt x hx)

/-- ghost bookkeeping is sound: `born` maps every published handle to its lineage at publication, and that
    is still its lineage now -/
theorem born_is_current (kit : Kit N) {c : Cfg N} (h : Reachable kit c) :
    (∀ p ∈ c.born, p.1 ∈ c.pool ∧ backwalk c.g p.1 = p.2) ∧ (∀ x ∈ c.pool, ∃ ch, (x, ch) ∈ c.born) := by
  rcases h with ⟨progs, sched, rfl⟩
  have := ginv_run kit sched _ (inv_init progs) (ginv_init progs)
  exact ⟨this.bornOk, this.bornAll⟩

/-- **What a collect returns depends only on the collection's own lineage**: in every history, the chain
    every `collect` of `x` executed — by whichever thread, at whatever time, whatever was built or collected
    in between — is the chain `x` had at the moment its builder returned. -/
theorem collect_reads_birth_lineage (kit : Kit N) {c : Cfg N} (h : Reachable kit c) (j : Nat) (th : Thread N)
    (hj : c.threads[j]? = some th) (x : Nat) (ch : Option (List N))
    (hc : Outcome.collected x ch ∈ th.outs) : (x, ch) ∈ c.born := by
  rcases h with ⟨progs, sched, rfl⟩
  exact (ginv_run kit sched _ (inv_init progs) (ginv_init progs)).outs j th hj x ch hc

/-- **Re-runnable, no interference**: any two collects of the same collection — same or different threads,
    any schedule, anything built/collected in between — execute the same chain, hence (the result being
    `exec chain` for a function `exec` of the chain alone) return the same value. -/
theorem collect_result_pure {R : Type} (exec : Option (List N) → R) (kit : Kit N) {c : Cfg N}
    (h : Reachable kit c) (j k : Nat) (tj tk : Thread N) (hj : c.threads[j]? = some tj)
    (hk : c.threads[k]? = some tk) (x : Nat) (ch1 ch2 : Option (List N))
    (h1 : Outcome.collected x ch1 ∈ tj.outs) (h2 : Outcome.collected x ch2 ∈ tk.outs) :
    exec ch1 = exec ch2 := by
  have b1 := collect_reads_birth_lineage kit h j tj hj x ch1 h1
  have b2 := collect_reads_birth_lineage kit h k tk hk x ch2 h2
  have hb := (born_is_current kit h).1
  have e1 := (hb _ b1).2
  have e2 := (hb _ b2).2
  simp only at e1 e2
  rw [← e1, ← e2]

/-- a collect of a published handle never fails in the planner -/
theorem collect_chain_exists (kit : Kit N) {c : Cfg N} (h : Reachable kit c) (j : Nat) (th : Thread N)
    (hj : c.threads[j]? = some th) (x : Nat) (ch : Option (List N))
    (hc : Outcome.collected x ch ∈ th.outs) : ch.isSome := by
  have b := collect_reads_birth_lineage kit h j th hj x ch hc
  have hb := (born_is_current kit h).1 _ b
  have := published_lineage_total kit h hb.1
  simp only at hb
  rw [← hb.2]; exact this

/-- **Joins capture their operands' own lineage**: the two chains a `join` of `l` and `r` stores in its `CoGroup` node
    (read by two separate snapshots while other threads keep building) are the chains ITS OWN operands `l` and `r` were
    born with — not those of any other handle. (`l`, `r` are fixed by `beginOp` when the operation starts and only
    copied from stage to stage: `join_stage_keeps_operands`.) -/
theorem join_reads_birth_lineage (kit : Kit N) {c : Cfg N} (h : Reachable kit c) (j : Nat) (th : Thread N)
    (hj : c.threads[j]? = some th) (l r d tag : Nat) (lc rc : List N) (hpc : th.pc = .joinInsG l r d tag lc rc) :
    (l, some lc) ∈ c.born ∧ (r, some rc) ∈ c.born := by
  rcases h with ⟨progs, sched, rfl⟩
  exact (ginv_run kit sched _ (inv_init progs) (ginv_init progs)).pcJoin j th hj l r tag lc rc (Or.inr (Or.inl ⟨d, hpc⟩))

/-- a join's operands (and tag) are what `begin` resolved, and every later stage of the join carries the same ones -/
theorem join_stage_keeps_operands (kit : Kit N) (c : Cfg N) (th : Thread N) :
    (∀ l r tag lc, (stepTh kit c th).2.pc = .joinSnapR l r tag lc → th.pc = .joinSnapL l r tag) ∧
    (∀ l r tag lc rc, (stepTh kit c th).2.pc = .joinInsD l r tag lc rc → th.pc = .joinSnapR l r tag lc) ∧
    (∀ l r d tag lc rc, (stepTh kit c th).2.pc = .joinInsG l r d tag lc rc → th.pc = .joinInsD l r tag lc rc) ∧
    (∀ l r d g tag lc rc, (stepTh kit c th).2.pc = .joinCon l r d g tag lc rc → th.pc = .joinInsG l r d tag lc rc) :=
  have f := stepTh_thread kit c th
  ⟨fun l r tag lc h => (f.joinR l r tag lc h).1, fun l r tag lc rc h => (f.joinD l r tag lc rc h).1,
   fun l r d tag lc rc h => (f.joinG l r d tag lc rc h).1, fun l r d g tag lc rc h => (f.joinC l r d g tag lc rc h).1⟩

/-- … and `begin` of `join lr rr tag` starts the first stage with the handles the two references resolve to -/
theorem join_begins_with_its_operands (c : Cfg N) (th : Thread N) (lr rr : Ref) (tag a b : Nat) (rest : List (Op N))
    (ha : resolveCls c.pool c.cls th.own 0 lr = some a) (hb : resolveCls c.pool c.cls th.own 0 rr = some b) :
    (beginOp c th (.join lr rr tag) rest).pc = .joinSnapL a b tag := by
  simp [beginOp, ha, hb]

/-- **Immutable, append-only**: whatever any thread does, the node list and the edge list only grow at the
    end — no node (in particular no source payload) is ever removed, replaced or consumed, no edge changed. -/
theorem graph_append_only (kit : Kit N) (sched : List Nat) :
    ∀ (c : Cfg N), AInv c.abs →
      ∃ ns es, (run kit c sched).g.nodes = c.g.nodes ++ ns ∧ (run kit c sched).g.edges = c.g.edges ++ es := by
  induction sched with
  | nil => intro c _; exact ⟨[], [], by simp [run], by simp [run]⟩
  | cons i rest ih =>
    intro c inv
    rcases graph_grows_step inv (step_refines kit c i inv) with ⟨n1, e1, h1, h2⟩
    rcases ih (step kit c i) (inv_step kit c i inv) with ⟨n2, e2, h3, h4⟩
    refine ⟨n1 ++ n2, e1 ++ e2, ?_, ?_⟩
    · show (run kit (step kit c i) rest).g.nodes = _
      rw [h3]; simp only [Cfg.abs] at h1; rw [h1, List.append_assoc]
    · show (run kit (step kit c i) rest).g.edges = _
      rw [h4]; simp only [Cfg.abs] at h2; rw [h2, List.append_assoc]


/-! ## laziness: building runs no user code -/

/-- **Building runs none of the user's functions (step form)**: an atomic step of thread `i` that is not the
    last step of a collect (so: every step of `from_vec`, of every derive incl. the barrier builders, of every
    join, of `set_metrics`/`take_metrics`, `begin`, and a collect's `record_metrics_start`/`build_plan`)
    leaves the trace of user-code runs of EVERY thread unchanged. -/
theorem build_step_runs_no_user_code (kit : Kit N) (c : Cfg N) (i : Nat)
    (hb : ∀ th, c.threads[i]? = some th → ∀ x ch, th.pc ≠ .colEnd x ch) :
    (step kit c i).threads.map Thread.calls = c.threads.map Thread.calls ∧ (step kit c i).calls = c.calls := by
  have h1 : (step kit c i).threads.map Thread.calls = c.threads.map Thread.calls := by
    cases hth : c.threads[i]? with
    | none => simp only [step, hth]
    | some th =>
      rw [step_threads kit c i th hth, List.map_set, stepTh_calls_build kit c th (hb th hth)]
      exact set_same _ _ _ (by simp [List.getElem?_map, hth])
  refine ⟨h1, ?_⟩
  simp only [Cfg.calls, List.flatMap_def, h1]

/-- the only step that extends a trace: the end of a collect appends the chain that collect planned -/
theorem collect_end_runs_its_chain (kit : Kit N) (c : Cfg N) (i : Nat) (th : Thread N)
    (hi : c.threads[i]? = some th) (x : Nat) (ch : List N) (hpc : th.pc = .colEnd x ch) :
    ∃ th', (step kit c i).threads[i]? = some th' ∧ th'.calls = th.calls ++ [ch] ∧
      th'.outs = th.outs ++ [.collected x (some ch)] := by
  refine ⟨(stepTh kit c th).2, ?_, ?_⟩
  · rw [step_threads kit c i th hi]
    have hlt : i < c.threads.length := by
      rcases Nat.lt_or_ge i c.threads.length with h1 | h1
      · exact h1
      · rw [List.getElem?_eq_none h1] at hi; cases hi
    simp [hlt]
  · simp [stepTh, hpc, Thread.finish]

/-- **The planner-error exit** (`build_plan(p, terminal)?` in `run_collect`): when the back-walk fails, the collect
    returns at once — outcome "error", NO user code run, and no `record_metrics_end` step follows (the thread is idle). -/
theorem planner_error_skips_execution (kit : Kit N) (c : Cfg N) (i : Nat) (th : Thread N)
    (hi : c.threads[i]? = some th) (x : Nat) (hpc : th.pc = .colSnap x) (hb : backwalk c.g x = none) :
    ∃ th', (step kit c i).threads[i]? = some th' ∧ th'.pc = .idle ∧ th'.calls = th.calls ∧
      th'.outs = th.outs ++ [.collected x none] := by
  refine ⟨(stepTh kit c th).2, ?_, ?_, ?_, ?_⟩
  · rw [step_threads kit c i th hi]
    have hlt : i < c.threads.length := by
      rcases Nat.lt_or_ge i c.threads.length with h1 | h1
      · exact h1
      · rw [List.getElem?_eq_none h1] at hi; cases hi
    simp [hlt]
  all_goals simp [stepTh, hpc, hb, Thread.finish]

/-- … and that exit is never taken from a reachable configuration: a thread about to plan holds a published handle,
    whose back-walk succeeds -/
theorem planner_error_unreachable (kit : Kit N) {c : Cfg N} (h : Reachable kit c) (i : Nat) (th : Thread N)
    (hi : c.threads[i]? = some th) (x : Nat) (hpc : th.pc = .colSnap x) : (backwalk c.g x).isSome := by
  have inv := inv_reachable kit h
  have hx : x ∈ c.pool := inv.held i th.view (abs_views_get c i th hi) x (by simp [Thread.view, hpc, PC.held])
  exact backwalk_isSome inv (inv.poolLt x hx)

/-- **The trace is exactly the finished collects**: in every reachable configuration each thread's trace is
    the list of the chains of its `collected` outcomes, in order (`Outcome.ran`). -/
theorem calls_are_collects (kit : Kit N) {c : Cfg N} (h : Reachable kit c) (j : Nat) (th : Thread N)
    (hj : c.threads[j]? = some th) : th.calls = th.outs.flatMap Outcome.ran := by
  rcases h with ⟨progs, sched, rfl⟩
  exact cinv_run kit sched _ (cinv_init progs) j th hj

/-- **Lazy until a collect**: as long as no collect has finished, no user function has been called. -/
theorem lazy_until_collect (kit : Kit N) {c : Cfg N} (h : Reachable kit c)
    (hn : ∀ (j : Nat) (th : Thread N), c.threads[j]? = some th → ∀ x ch, Outcome.collected x ch ∉ th.outs) :
    c.calls = [] := by
  simp only [Cfg.calls, List.flatMap_eq_nil_iff]
  intro th hth
  rcases List.getElem?_of_mem hth with ⟨j, hj⟩
  rw [calls_are_collects kit h j th hj, List.flatMap_eq_nil_iff]
  intro o ho
  cases o with
  | collected x ch => exact absurd ho (hn j th hj x ch)
  | _ => rfl

/-- **Programs that only build never run user code**, under any schedule, with any number of threads. -/
theorem build_only_programs_run_no_user_code (kit : Kit N) (progs : List (List (Op N))) (sched : List Nat)
    (hp : ∀ p ∈ progs, ∀ op ∈ p, Op.isCollect op = false) :
    (run kit (Cfg.init progs) sched).calls = [] := by
  have h0 : ∀ th ∈ (Cfg.init progs).threads, NoCol th := by
    intro th hth
    simp only [Cfg.init, List.mem_map] at hth
    rcases hth with ⟨p, hpm, rfl⟩
    exact ⟨hp p hpm, rfl, rfl⟩
  have := nocol_run kit sched _ h0
  simp only [Cfg.calls, List.flatMap_eq_nil_iff]
  exact fun th hth => (this th hth).calls

/-- **No interference through user code**: every run any thread ever made is a run of the chain the collected
    handle was BORN with — a collect never runs a closure of a sibling branch or of anything built later. -/
theorem calls_only_own_lineage (kit : Kit N) {c : Cfg N} (h : Reachable kit c) (j : Nat) (th : Thread N)
    (hj : c.threads[j]? = some th) (ch : List N) (hc : ch ∈ th.calls) :
    ∃ x, Outcome.collected x (some ch) ∈ th.outs ∧ (x, some ch) ∈ c.born := by
  rw [calls_are_collects kit h j th hj, List.mem_flatMap] at hc
  rcases hc with ⟨o, ho, hm⟩
  cases o with
  | collected x och =>
    cases och with
    | none => simp [Outcome.ran] at hm
    | some l =>
      simp [Outcome.ran] at hm
      subst hm
      exact ⟨x, ho, collect_reads_birth_lineage kit h j th hj x _ ho⟩
  | _ => simp [Outcome.ran] at hm

/-- `set_metrics` / `take_metrics` / `get_metrics` racing with anything: they never touch the graph, the pool or a
    lineage (and `get_metrics` does not even change whether a collector is installed) -/
theorem metrics_ops_leave_graph (kit : Kit N) (c : Cfg N) (i : Nat) (th : Thread N)
    (hi : c.threads[i]? = some th) (hpc : th.pc = .metSet ∨ th.pc = .metTake ∨ th.pc = .metGet) :
    (step kit c i).g = c.g ∧ (step kit c i).pool = c.pool ∧ (step kit c i).born = c.born ∧
    (th.pc = .metGet → (step kit c i).metrics = c.metrics) := by
  rcases hpc with hpc | hpc | hpc <;> simp [step, hi, stepTh, hpc]

/-! ## a collection's lineage is structural: it is fixed by the builder call that made it

Together with `collect_reads_birth_lineage` this is "what a collection returns depends only on that
collection's own lineage": the chain every collect of `x` executes is the chain `x` was born with, and that
chain is — for a source: its own node; for a derived collection: the parent's chain followed by the new
node; for a join: the dummy source followed by the `CoGroup` node (which holds the operands' born chains,
`join_reads_birth_lineage`) — whatever other threads did between the builder's `insert` and `connect`. -/

/-- the node payload a builder inserts is stored under the id it gets … -/
theorem insert_stores_payload (kit : Kit N) {c : Cfg N} (h : Reachable kit c) (n : N) :
    lookupNode (insertNode c.g n).1.nodes c.g.nextId = some n :=
  lookup_insertNode (a := c.abs) (inv_reachable kit h) n

/-- … and stays there, unchanged, forever (sources are never consumed, closures never replaced) -/
theorem payload_persists (kit : Kit N) {c : Cfg N} (h : Reachable kit c) (sched : List Nat) (k : Nat) (n : N)
    (hk : lookupNode c.g.nodes k = some n) : lookupNode (run kit c sched).g.nodes k = some n := by
  rcases graph_append_only kit sched c (inv_reachable kit h) with ⟨ns, _, hn, _⟩
  rw [hn]; exact lookupNode_append_found _ _ _ _ hk

/-- `from_vec`: the new collection's lineage is its own source node -/
theorem lineage_of_source (kit : Kit N) {c : Cfg N} (h : Reachable kit c) (i : Nat) (th : Thread N)
    (hi : c.threads[i]? = some th) (n : N) (hpc : th.pc = .srcIns n) :
    backwalk (step kit c i).g c.g.nextId = some [n] := by
  have inv := inv_reachable kit h
  have hg : (step kit c i).g = (insertNode c.g n).1 := by simp [step, hi, stepTh, hpc, publish]
  rw [hg]
  apply backwalk_root _ _ _ (insert_stores_payload kit h n)
  intro e he
  have hids0 : c.g.nodes.map Prod.fst = List.range c.g.nextId := inv.ids
  rw [insertNode_fst c.g n hids0] at he
  have := inv.edgeLt e he
  simp only [Cfg.abs] at this
  omega

/-- reachable configurations satisfy the payload invariant -/
theorem pinv_reachable (kit : Kit N) {c : Cfg N} (h : Reachable kit c) : PInv kit c := by
  rcases h with ⟨progs, sched, rfl⟩
  exact pinv_run kit sched _ (inv_init progs) (pinv_init kit progs)

/-- **Derived collections** (`map`/`filter`/`flat_map`/`map_values`/`map_batches`/`apply_transform`/`group_by_key`/
    `combine_*`/debug taps/…: every builder that is one `insert_node` + one `connect`): when the builder's `connect`
    happens — however long after its `insert`, whatever other threads did in between — the new collection's lineage is
    the parent's BORN lineage followed by THE BUILDER'S OWN payload `n` (the closure / combiner it was called with),
    and that is what is recorded as the new handle's born lineage. -/
theorem derive_lineage (kit : Kit N) {c : Cfg N} (h : Reachable kit c) (i : Nat) (th : Thread N)
    (hi : c.threads[i]? = some th) (p m k : Nat) (n : N) (hpc : th.pc = .drvCon p m k n) :
    ∃ pch, (p, pch) ∈ c.born ∧ backwalk (step kit c i).g m = pch.map (· ++ [n]) ∧
      (m, pch.map (· ++ [n])) ∈ (step kit c i).born := by
  have inv := inv_reachable kit h
  have hv := abs_views_get c i th hi
  have hR := inv.resv i th.view hv m (by simp [Thread.view, hpc, PC.resv])
  have hlt := (inv.ord i th.view hv).1 m (by simp [Thread.view, hpc, PC.resv]) p (by simp [Thread.view, hpc, PC.held])
  have hn := (pinv_reachable kit h).drv i th hi p m k n hpc
  have hp : p ∈ c.pool := inv.held i th.view hv p (by simp [Thread.view, hpc, PC.held])
  rcases (born_is_current kit h).2 p hp with ⟨pch, hpch⟩
  have hcur := ((born_is_current kit h).1 _ hpch).2
  simp only at hcur
  have hg : (step kit c i).g = connect c.g p m := by simp [step, hi, stepTh, hpc, publish]
  have hw : backwalk (step kit c i).g m = pch.map (· ++ [n]) := by
    rw [hg, backwalk_connect_new c.g p m n hn hR.2.2 (by omega), hcur]
  refine ⟨pch, hpch, hw, ?_⟩
  have hb : (step kit c i).born = c.born ++ [(m, backwalk (connect c.g p m) m)] := by
    simp [step, hi, stepTh, hpc, publish]
  rw [hb, ← hg, hw]; simp

/-- the same, at the level of the graph only (kept from round 2; `derive_lineage` is the full statement) -/
theorem lineage_of_derive (kit : Kit N) {c : Cfg N} (h : Reachable kit c) (i : Nat) (th : Thread N)
    (hi : c.threads[i]? = some th) (p m k : Nat) (n : N) (hpc : th.pc = .drvCon p m k n) :
    lookupNode c.g.nodes m = some n ∧
      backwalk (step kit c i).g m = (backwalk c.g p).map (· ++ [n]) := by
  have inv := inv_reachable kit h
  have hv := abs_views_get c i th hi
  have hR := inv.resv i th.view hv m (by simp [Thread.view, hpc, PC.resv])
  have hlt := (inv.ord i th.view hv).1 m (by simp [Thread.view, hpc, PC.resv]) p (by simp [Thread.view, hpc, PC.held])
  have hn := (pinv_reachable kit h).drv i th hi p m k n hpc
  refine ⟨hn, ?_⟩
  have hg : (step kit c i).g = connect c.g p m := by simp [step, hi, stepTh, hpc, publish]
  rw [hg]
  exact backwalk_connect_new c.g p m n hn hR.2.2 (by omega)

/-- **Joins**: when the join's `connect` happens, the new collection's lineage is exactly
    `[dummy source, CoGroup(tag, born chain of l, born chain of r)]` for the join's own operands `l`, `r` — whatever
    other threads inserted, connected or collected between the join's five lock acquisitions — and that is what is
    recorded as the new handle's born lineage. So every later collect of `l.join(r)` runs the cogroup of the lineages
    `l` and `r` had when they were built (`collect_reads_birth_lineage`). -/
theorem join_lineage (kit : Kit N) {c : Cfg N} (h : Reachable kit c) (i : Nat) (th : Thread N)
    (hi : c.threads[i]? = some th) (l r d g tag : Nat) (lc rc : List N) (hpc : th.pc = .joinCon l r d g tag lc rc) :
    backwalk (step kit c i).g g = some [kit.dummy, kit.cogroup tag lc rc] ∧
    (l, some lc) ∈ c.born ∧ (r, some rc) ∈ c.born ∧
    (g, some [kit.dummy, kit.cogroup tag lc rc]) ∈ (step kit c i).born := by
  have inv := inv_reachable kit h
  have hv := abs_views_get c i th hi
  have hD := inv.resv i th.view hv d (by simp [Thread.view, hpc, PC.resv])
  have hG := inv.resv i th.view hv g (by simp [Thread.view, hpc, PC.resv])
  have hlt : d < g := by
    have := (inv.ord i th.view hv).2
    simp [Thread.view, hpc, PC.resv] at this
    exact this
  have hP := (pinv_reachable kit h).jC i th hi l r d g tag lc rc hpc
  have hB : (l, some lc) ∈ c.born ∧ (r, some rc) ∈ c.born := by
    rcases h with ⟨progs, sched, rfl⟩
    exact (ginv_run kit sched _ (inv_init progs) (ginv_init progs)).pcJoin i th hi l r tag lc rc (Or.inr (Or.inr ⟨d, g, hpc⟩))
  have hg : (step kit c i).g = connect c.g d g := by simp [step, hi, stepTh, hpc, publish]
  have hw : backwalk (step kit c i).g g = some [kit.dummy, kit.cogroup tag lc rc] := by
    rw [hg, backwalk_connect_new c.g d g _ hP.2 hG.2.2 (by omega),
      backwalk_root c.g d _ hP.1 (fun e he => (hD.2.2 e he).2)]
    rfl
  refine ⟨hw, hB.1, hB.2, ?_⟩
  have hb : (step kit c i).born = c.born ++ [(g, backwalk (connect c.g d g) g)] := by
    simp [step, hi, stepTh, hpc, publish]
  rw [hb, ← hg, hw]; simp

/-- the same, at the level of the graph only (kept from round 2; `join_lineage` is the full statement) -/
theorem lineage_of_join (kit : Kit N) {c : Cfg N} (h : Reachable kit c) (i : Nat) (th : Thread N)
    (hi : c.threads[i]? = some th) (l r d g tag : Nat) (lc rc : List N) (hpc : th.pc = .joinCon l r d g tag lc rc) :
    lookupNode c.g.nodes d = some kit.dummy ∧ lookupNode c.g.nodes g = some (kit.cogroup tag lc rc) ∧
      backwalk (step kit c i).g g = some [kit.dummy, kit.cogroup tag lc rc] :=
  have hP := (pinv_reachable kit h).jC i th hi l r d g tag lc rc hpc
  ⟨hP.1, hP.2, (join_lineage kit h i th hi l r d g tag lc rc hpc).1⟩

/-- **The decidable graph check the driver evaluates on real snapshots** (`GINV` requests) is exactly the graph part
    of the invariant: `AInv.ids`, `AInv.edgeLt`, `AInv.inDeg`. -/
theorem graphInvB_iff (nextId : Nat) (ids : List Nat) (edges : List (Nat × Nat)) :
    graphInvB nextId ids edges = true ↔
      (ids = List.range nextId ∧ (∀ e ∈ edges, e.1 < e.2 ∧ e.2 < nextId) ∧ (edges.map Prod.snd).Nodup) := by
  simp [graphInvB, nodupB_iff, and_assoc]

/-- hence it holds of every reachable graph -/
theorem graphInvB_reachable (kit : Kit N) {c : Cfg N} (h : Reachable kit c) :
    graphInvB c.g.nextId (c.g.nodes.map Prod.fst) c.g.edges = true := by
  have inv := inv_reachable kit h
  exact (graphInvB_iff _ _ _).mpr ⟨inv.ids, inv.edgeLt, inv.inDeg⟩

/-! ## "never consumes its source": reading a source through its `VecOps`

`Model/Pipeline.lean: readSource` is how `exec_seq` / `exec_par` (and the join sub-plans) read a `Node::Source`; the
payload is a STATE the `VecOps` may change, so a draining source is expressible. -/

/-- **A read-only `VecOps` is never consumed**: after ANY number of runs in ANY modes (sequential, parallel with any
    partition counts) the payload is what it was, and EVERY run read the same rows — the rows of `clone_any`. -/
theorem source_never_consumed {σ R : Type} (ops : SrcOps σ R) (ro : ReadOnly ops) (s : σ) (modes : List (Option Nat)) :
    (readMany ops s modes).1 = s ∧ ∀ rows ∈ (readMany ops s modes).2, rows = (ops.cloneAny s).2 := by
  induction modes with
  | nil => simp [readMany]
  | cons m rest ih =>
    have h1 := readSource_readOnly ops ro s m
    simp only [readMany]
    rw [h1.1]
    refine ⟨ih.1, ?_⟩
    intro rows hr
    rcases List.mem_cons.mp hr with rfl | hr
    · exact h1.2
    · exact ih.2 rows hr

/-- `VecOpsImpl<T>` (`from_vec`) satisfies the contract: it returns the payload untouched and its chunks concatenate
    to the whole vector, for every partition count -/
theorem vecOps_readOnly (R : Type) : ReadOnly (vecOps R) := by
  refine ⟨fun s => rfl, ?_, ?_⟩
  · intro s n; simp only [vecOps]; split <;> rfl
  · intro s n parts h
    simp only [vecOps] at h ⊢
    split at h
    · simp at h; subst h; simp
    · next hc =>
      simp at h; subst h
      have hk : 0 < (s.length + n - 1) / n := by
        have hn : 1 < n := by omega
        exact Nat.div_pos (by omega) (by omega)
      rw [chunksGo_flatten _ hk s.length s (Nat.le_refl _)]

/-- hence: a `from_vec` source, collected any number of times in any modes, always yields its rows -/
theorem from_vec_rereadable (R : Type) (v : List R) (modes : List (Option Nat)) :
    (readMany (vecOps R) v modes).1 = v ∧ ∀ rows ∈ (readMany (vecOps R) v modes).2, rows = some v :=
  source_never_consumed (vecOps R) (vecOps_readOnly R) v modes

/-- witness (what the check guards against): a source that is drained by its first read — the second collect of the
    same collection returns nothing although the first returned the rows -/
theorem drained_source_is_consumed :
    (readMany (Variant.drainOps Nat) [1, 2, 3] [none, none]).2 = [some [1, 2, 3], some []] ∧
    (readMany (Variant.drainOps Nat) [1, 2, 3] [some 2, none]).2 = [some [1, 2, 3], some []] := by decide

/-- witness: the real `VecOpsImpl` chunking, 5 rows in 2 and in 3 partitions, then sequentially -/
example : (readSource (vecOps Nat) [1, 2, 3, 4, 5] (some 2)).2 = some [[1, 2, 3], [4, 5]] ∧
    (readSource (vecOps Nat) [1, 2, 3, 4, 5] (some 3)).2 = some [[1, 2], [3, 4], [5]] ∧
    (readSource (vecOps Nat) [1, 2, 3, 4, 5] (some 9)).2 = some [[1], [2], [3], [4], [5]] ∧
    (readSource (vecOps Nat) [1, 2, 3, 4, 5] none).2 = some [[1, 2, 3, 4, 5]] := by decide

/-- In every reachable graph each node has at most one incoming edge, so following the LAST edge into a node
    (`rfind`) instead of the FIRST (`find`) gives the same walk: that code change is behaviour-preserving
    (and the check rightly stays quiet on it). -/
theorem backwalk_first_eq_last (kit : Kit N) {c : Cfg N} (h : Reachable kit c) (fuel x : Nat) (acc : List N) :
    Variant.backwalkGoLast fuel c.g.nodes c.g.edges x acc = backwalkGo fuel c.g.nodes c.g.edges x acc :=
  backwalkGoLast_eq c.g.edges (inv_reachable kit h).inDeg fuel c.g.nodes x acc

/-! ## what the check guards against: `next_id` read and written in two critical sections -/

/-- witness: two threads both read `next_id = 0`, then both insert — one node is overwritten, two handles
    carry the same id, the invariant `ids = 0..nextId-1` fails -/
theorem racy_insert_loses_a_node :
    let s0 : PState Nat := PState.init
    let idA := Variant.readId s0
    let idB := Variant.readId s0
    let s2 := Variant.insertAt (Variant.insertAt s0 idA 10) idB 20
    idA = idB ∧ s2.nodes = [(0, 20)] ∧ s2.nextId = 1 := by decide

/-! ## non-vacuity: a concrete history (2 worker threads interleaved with a prefix thread) -/

/-- payload: a number (source seed / op code); dummy = 0; cogroup = 1000 + sum of both chains -/
def demoKit : Kit Nat := ⟨0, fun tag l r => 1000 + tag + l.sum + r.sum⟩

/-- thread 0 builds a source and a derived collection; thread 1 derives from the source and collects it;
    thread 2 joins the two oldest handles and collects the oldest handle again -/
def demoProgs : List (List (Op Nat)) :=
  [[.source 7, .derive (.front 0) none 10],
   [.derive (.front 0) (some (0, 0)) 20, .collect (.mine 0), .collect (.front 0)],
   [.join (.front 0) (.front 1) 0, .collect (.front 0), .collect (.back 0)]]

def demoSched : List Nat :=
  [0, 0, 0, 0, 0,  1, 2, 1, 2, 2, 1, 2, 1, 2, 1, 2, 1, 1, 2, 2, 1, 2, 1, 2, 2, 2, 1, 1, 2, 2, 2]

def demoFinal : Cfg Nat := run demoKit (Cfg.init demoProgs) demoSched

/-- witness: the demo history really interleaves builds, a join and collects, and all six operations of
    the workers complete -/
example : demoFinal.g.nextId = 5 ∧ demoFinal.g.edges = [(0, 1), (0, 2), (3, 4)] ∧
    demoFinal.pool = [0, 1, 2, 4] ∧
    (demoFinal.threads.map (fun t => t.outs.length)) = [2, 3, 3] := by decide

/-- witness: both collects of handle 0 (threads 1 and 2, with a derive and a join in between) executed the
    chain `[7]`; the collect of the derived handle executed `[7, 20]`; the join's chain is its own -/
example : (demoFinal.threads.map (fun t => t.outs.filterMap (fun o =>
      match o with | .collected x ch => some (x, ch) | _ => none))) =
    [[], [(2, some [7, 20]), (0, some [7])], [(0, some [7]), (4, some [0, 1024])]] := by decide

example : Reachable demoKit demoFinal := ⟨demoProgs, demoSched, rfl⟩

/-- witness (laziness): after the five build steps of thread 0 and while both workers are still building
    (thread 1 between `insert` and `connect`, thread 2 before its `connect`) nobody has run user code; at the end
    the traces are exactly the chains of the four collects -/
example : (run demoKit (Cfg.init demoProgs) [0, 0, 0, 0, 0, 1, 1, 2, 2, 2, 2, 2]).calls = [] ∧
    demoFinal.threads.map Thread.calls = [[], [[7, 20], [7]], [[7], [0, 1024]]] := by decide

/-- witness: a program with a typed derive that cannot resolve (class 2 = grouped, none exists) is skipped;
    `take_metrics` answers whether a collector was installed -/
example : ((run demoKit (Cfg.init [[.source 1, .derive (.front 0) (some (2, 0)) 5, .takeMetrics, .setMetrics, .takeMetrics]])
      [0, 0, 0, 0, 0, 0, 0, 0, 0]).threads.map (fun t => t.outs.map (fun o =>
        match o with | .built id => id + 10 | .skipped => 1 | .metricsSet => 2 | .metricsTaken b => if b then 3 else 4 | _ => 0))) =
    [[10, 1, 4, 2, 3]] := by decide

/-- witness for the hypotheses of `lineage_of_derive` / `lineage_of_join` / `reserved_is_private`: a reachable
    configuration in which thread 1 sits between its `insert` (id 2) and its `connect(0,2)` while thread 2,
    having inserted ids 3 and 4 in the meantime, sits before its `connect(3,4)` -/
def demoMid : Cfg Nat := run demoKit (Cfg.init demoProgs) [0, 0, 0, 0, 0, 1, 1, 2, 2, 2, 2, 2]

example : (demoMid.threads.map (fun t => match t.pc with
      | .drvCon p m _ _ => some (p, m) | .joinCon _ _ d g _ _ _ => some (d, g) | _ => none)) =
    [none, some (0, 2), some (3, 4)] ∧ demoMid.pool = [0, 1] ∧ demoMid.g.nextId = 5 := by decide

example : Reachable demoKit demoMid := ⟨demoProgs, _, rfl⟩

/-- witness for the hypotheses AND the conclusions of `derive_lineage` / `join_lineage`: in `demoMid` thread 1 sits at
    `drvCon 0 2 0 20` (parent 0, own payload 20), thread 2 at `joinCon 0 1 3 4 0 [7] [7,10]` (operands 0 and 1 with
    their born chains); after their `connect`s the new handles' lineages are `[7,20]` = born(0) ++ [20] and
    `[dummy, cogroup 0 [7] [7,10]]` = `[0, 1024]`, and that is what `born` records -/
example : (demoMid.threads.map (fun t => match t.pc with
      | .drvCon p m k n => [p, m, k, n] | .joinCon l r d g tag lc rc => [l, r, d, g, tag] ++ lc ++ rc | _ => [])) =
    [[], [0, 2, 0, 20], [0, 1, 3, 4, 0, 7, 7, 10]] := by decide

example : demoMid.born = [(0, some [7]), (1, some [7, 10])] ∧
    (step demoKit demoMid 1).born = [(0, some [7]), (1, some [7, 10]), (2, some [7, 20])] ∧
    (step demoKit demoMid 2).born = [(0, some [7]), (1, some [7, 10]), (4, some [0, 1024])] ∧
    demoKit.cogroup 0 [7] [7, 10] = 1024 := by decide

/-- witness for the hypotheses of `planner_error_skips_execution` (a configuration that is NOT reachable —
    `planner_error_unreachable` — made by hand: a thread about to plan a collect of node 5 of an empty pipeline) and
    what the step does: outcome "planner error", no user code run, thread idle (no `record_metrics_end` step) -/
def demoBad : Cfg Nat :=
  { g := PState.init, metrics := false, pool := [], cls := [], born := [],
    threads := [({ todo := [], pc := PC.colSnap 5, own := [], outs := [], calls := [] } : Thread Nat)] }

example : backwalk demoBad.g 5 = none ∧
    ((step demoKit demoBad 0).threads.map (fun t => (t.calls, (match t.pc with | .idle => true | _ => false),
      t.outs.map (fun o => match o with | .collected x none => some x | _ => none)))) = [([], true, [some 5])] ∧
    ((step demoKit demoBad 0).threads.map siteOf) = ["done"] := by decide

/-- witness: `get_metrics` answers whether a collector is installed and leaves it installed; `take_metrics` removes it -/
example : ((run demoKit (Cfg.init [[.getMetrics, .setMetrics, .getMetrics, .getMetrics, .takeMetrics, .getMetrics]])
      [0, 0, 0, 0, 0, 0, 0, 0, 0, 0, 0, 0]).threads.map (fun t => t.outs.map (fun o =>
        match o with | .metricsGot b => if b then 1 else 0 | .metricsSet => 2 | .metricsTaken b => if b then 3 else 4 | _ => 9))) =
    [[0, 2, 1, 1, 3, 0]] := by decide

/-- witnesses for the hypotheses of the laziness theorems: (a) `demoMid` is a reachable configuration in which
    nobody has finished a collect (`lazy_until_collect`) and no thread sits at the end of a collect
    (`build_step_runs_no_user_code` applies to every thread); (b) a thread sitting at the end of a collect
    (`collect_end_runs_its_chain`) and the trace after that step; (c) a program without collects
    (`build_only_programs_run_no_user_code`) that builds a source, two barriers and a join; (d) a thread about
    to `set_metrics` (`metrics_ops_leave_graph`) -/
example : (demoMid.threads.all (fun t => t.outs.all (fun o => match o with | .collected _ _ => false | _ => true))) = true ∧
    (demoMid.threads.all (fun t => match t.pc with | .colEnd _ _ => false | _ => true)) = true := by decide

example : ((run demoKit (Cfg.init [[.source 7, .collect (.front 0)]]) [0, 0, 0, 0, 0]).threads.map (fun t =>
      match t.pc with | .colEnd x ch => some (x, ch) | _ => none)) = [some (0, some [7])] ∧
    (run demoKit (Cfg.init [[.source 7, .collect (.front 0)]]) [0, 0, 0, 0, 0, 0]).calls = [[7]] := by decide

def demoBuildOnly : List (List (Op Nat)) :=
  [[.source 7, .derive (.front 0) (some (0, 2)) 30, .derive (.back 0) (some (2, 0)) 40, .setMetrics],
   [.derive (.front 0) (some (0, 0)) 50, .join (.front 0) (.mine 0) 3, .takeMetrics]]

example : (demoBuildOnly.all (fun p => p.all (fun op => !Op.isCollect op))) = true ∧
    (run demoKit (Cfg.init demoBuildOnly) [0, 0, 1, 0, 1, 0, 1, 0, 1, 1, 0, 1, 0, 1, 0, 1, 1, 1, 1]).g.nextId = 6 := by decide

example : ((run demoKit (Cfg.init demoBuildOnly) [0, 0, 0, 0, 0, 0, 0, 0, 0]).threads.map (fun t =>
      match t.pc with | .metSet => true | _ => false)) = [true, false] := by decide

end IB.Graph
