import IbModel.Model.Assertions
/-!
# C20 — the shipped test assertions accept exactly equal collections

Property theorems (kept apart from helper lemmas). `true` = the assertion returns, `false` = it panics.
-/
namespace IB.Assertions

variable {α : Type} [DecidableEq α]

/-! ## ordered assertion: passes iff the sequences are equal -/

theorem zip_all_eq_of_length_eq : ∀ (a b : List α), a.length = b.length →
    ((a.zip b).all (fun p => p.1 == p.2) = true ↔ a = b)
  | [], [], _ => by simp
  | [], _ :: _, h => by simp at h
  | _ :: _, [], h => by simp at h
  | x :: a, y :: b, h => by
    have ih := zip_all_eq_of_length_eq a b (by simpa using h)
    simp only [List.zip_cons_cons, List.all_cons, Bool.and_eq_true, beq_iff_eq, ih, List.cons.injEq]

/-- C20 (ordered): `assert_collections_equal` returns iff the two sequences are equal. -/
theorem assertEqual_iff (a b : List α) : assertEqual a b = true ↔ a = b := by
  unfold assertEqual
  constructor
  · intro h
    simp only [Bool.and_eq_true, beq_iff_eq] at h
    exact (zip_all_eq_of_length_eq a b h.1).mp h.2
  · rintro rfl
    simp only [Bool.and_eq_true, beq_iff_eq, true_and]
    exact (zip_all_eq_of_length_eq a a rfl).mpr rfl

/-! ## unordered assertion: passes iff the collections are equal as multisets -/

theorem countsEq_iff (a b : List α) : countsEq a b = true ↔ ∀ x, a.count x = b.count x := by
  unfold countsEq
  simp only [List.all_eq_true, List.mem_append, beq_iff_eq]
  constructor
  · intro h x
    by_cases hx : x ∈ a ∨ x ∈ b
    · exact h x hx
    · have ha : x ∉ a := fun h' => hx (Or.inl h')
      have hb : x ∉ b := fun h' => hx (Or.inr h')
      rw [List.count_eq_zero_of_not_mem ha, List.count_eq_zero_of_not_mem hb]
  · intro h x _; exact h x

theorem setEq_of_perm {a b : List α} (h : a.Perm b) : setEq a b = true := by
  unfold setEq subsetB
  simp only [Bool.and_eq_true, List.all_eq_true, List.contains_iff_mem]
  exact ⟨fun x hx => h.mem_iff.mp hx, fun x hx => h.mem_iff.mpr hx⟩

/-- C20 (unordered): the current `assert_collections_unordered_equal` returns **iff** the two
    collections are equal as multisets. -/
theorem assertUnordered_iff (a b : List α) : assertUnordered a b = true ↔ a.Perm b := by
  unfold assertUnordered
  constructor
  · intro h
    simp only [Bool.and_eq_true] at h
    exact List.perm_iff_count.mpr ((countsEq_iff a b).mp h.2)
  · intro h
    simp only [Bool.and_eq_true, beq_iff_eq]
    exact ⟨⟨h.length_eq, setEq_of_perm h⟩, (countsEq_iff a b).mpr (List.perm_iff_count.mp h)⟩

/-- In particular it never accepts collections that differ only in multiplicities. -/
theorem assertUnordered_rejects_multiplicity (a b : List α) (x : α) (h : a.count x ≠ b.count x) :
    assertUnordered a b = false := by
  cases hc : assertUnordered a b with
  | false => rfl
  | true => exact absurd (List.perm_iff_count.mp ((assertUnordered_iff a b).mp hc) x) h

/-- The pinned-commit version was only *complete* (accepts every permutation) … -/
theorem legacy_assertUnordered_complete (a b : List α) (h : a.Perm b) :
    Legacy.assertUnordered a b = true := by
  unfold Legacy.assertUnordered
  simp only [Bool.and_eq_true, beq_iff_eq]
  exact ⟨h.length_eq, setEq_of_perm h⟩

/-- … and not sound: the witness that the check guards against (same length, same set). -/
theorem legacy_assertUnordered_unsound :
    Legacy.assertUnordered [1, 1, 2] [1, 2, 2] = true ∧ ¬ ([1, 1, 2] : List Nat).Perm [1, 2, 2] := by
  constructor
  · decide
  · intro h; have := List.perm_iff_count.mp h 1; simp at this

/-! ## key/value assertion (`assert_kv_collections_equal`) -/

variable {κ : Type} [DecidableEq κ]

theorem zip_all_pair_eq : ∀ (a b : List (κ × α)), a.length = b.length →
    ((a.zip b).all (fun p => p.1.1 == p.2.1 && p.1.2 == p.2.2) = true ↔ a = b)
  | [], [], _ => by simp
  | [], _ :: _, h => by simp at h
  | _ :: _, [], h => by simp at h
  | (k, v) :: a, (k', v') :: b, h => by
    have ih := zip_all_pair_eq a b (by simpa using h)
    simp only [List.zip_cons_cons, List.all_cons, Bool.and_eq_true, beq_iff_eq, ih, List.cons.injEq,
      Prod.mk.injEq]

theorem assertKv_iff_sorted_eq (le : κ → κ → Bool) (a b : List (κ × α)) :
    assertKv le a b = true ↔ sortByKey le a = sortByKey le b := by
  unfold assertKv
  simp only [Bool.and_eq_true, beq_iff_eq]
  constructor
  · rintro ⟨hl, h⟩; exact (zip_all_pair_eq _ _ hl).mp h
  · intro h; rw [h]; exact ⟨rfl, (zip_all_pair_eq _ _ rfl).mpr rfl⟩

/-- C20 (kv, soundness): whatever `assert_kv_collections_equal` accepts is multiset-equal —
    it never accepts collections that differ in how often a row occurs. -/
theorem assertKv_sound (le : κ → κ → Bool) (a b : List (κ × α)) (h : assertKv le a b = true) :
    a.Perm b := by
  have hs := (assertKv_iff_sorted_eq le a b).mp h
  have ha : (sortByKey le a).Perm a := List.mergeSort_perm _ _
  have hb : (sortByKey le b).Perm b := List.mergeSort_perm _ _
  exact ha.symm.trans (hs ▸ hb)

/-- C20 (kv, completeness on distinct keys): multiset-equal collections whose keys are pairwise
    distinct are accepted, for any total, transitive, antisymmetric key order. With a *repeated* key
    the stable sort keeps the rows of that key in input order, so the assertion can reject two
    multiset-equal inputs (recorded as a known finding, see `kv_rejects_repeated_key`). -/
theorem assertKv_complete (le : κ → κ → Bool)
    (trans : ∀ a b c, le a b → le b c → le a c) (total : ∀ a b, le a b || le b a)
    (antisymm : ∀ a b, le a b → le b a → a = b)
    (a b : List (κ × α)) (hnd : (a.map Prod.fst).Nodup) (h : a.Perm b) :
    assertKv le a b = true := by
  rw [assertKv_iff_sorted_eq]
  have ha : (sortByKey le a).Perm a := List.mergeSort_perm _ _
  have hb : (sortByKey le b).Perm b := List.mergeSort_perm _ _
  have hperm : (sortByKey le a).Perm (sortByKey le b) := ha.trans (h.trans hb.symm)
  have hsa : (sortByKey le a).Pairwise (fun x y => le x.1 y.1) :=
    List.pairwise_mergeSort (fun x y z => trans x.1 y.1 z.1) (fun x y => total x.1 y.1) a
  have hsb : (sortByKey le b).Pairwise (fun x y => le x.1 y.1) :=
    List.pairwise_mergeSort (fun x y z => trans x.1 y.1 z.1) (fun x y => total x.1 y.1) b
  refine List.Perm.eq_of_pairwise ?_ hsa hsb hperm
  intro x y hx hy hxy hyx
  have hk : x.1 = y.1 := antisymm _ _ hxy hyx
  have hxa : x ∈ a := ha.mem_iff.mp hx
  have hya : y ∈ a := h.mem_iff.mpr (hb.mem_iff.mp hy)
  -- distinct keys: two rows of `a` with the same key are the same row
  have : ∀ (l : List (κ × α)), (l.map Prod.fst).Nodup → x ∈ l → y ∈ l → x = y := by
    intro l
    induction l with
    | nil => intro _ hx; simp at hx
    | cons z l ih =>
      intro hnd hx hy
      simp only [List.map_cons, List.nodup_cons, List.mem_map, not_exists, not_and] at hnd
      simp only [List.mem_cons] at hx hy
      rcases hx with rfl | hx <;> rcases hy with rfl | hy
      · rfl
      · exact absurd hk.symm (hnd.1 y hy)
      · exact absurd hk (hnd.1 x hx)
      · exact ih hnd.2 hx hy
  exact this a hnd hxa hya

theorem sortByKey_of_sorted {β : Type} (le : κ → κ → Bool) (l : List (κ × β))
    (h : l.Pairwise (fun x y => le x.1 y.1 = true)) : sortByKey le l = l :=
  List.mergeSort_of_pairwise h

theorem assertKv_iff_false_of_sorted (le : κ → κ → Bool) (a b : List (κ × α))
    (ha : a.Pairwise (fun x y => le x.1 y.1 = true)) (hb : b.Pairwise (fun x y => le x.1 y.1 = true)) :
    assertKv le a b = false ↔ a ≠ b := by
  have := assertKv_iff_sorted_eq le a b
  rw [sortByKey_of_sorted le a ha, sortByKey_of_sorted le b hb] at this
  cases h : assertKv le a b <;> simp_all

/-- The repeated-key strictness, on a concrete witness (replayed on the real code: it panics). -/
theorem kv_rejects_repeated_key :
    assertKv (fun a b : Nat => decide (a ≤ b)) [(1, 0), (1, 1)] [(1, 1), (1, 0)] = false ∧
      ([(1, 0), (1, 1)] : List (Nat × Nat)).Perm [(1, 1), (1, 0)] := by
  constructor
  · rw [assertKv_iff_false_of_sorted _ _ _ (by decide) (by decide)]; decide
  · exact List.Perm.swap _ _ _

/-! ## grouped assertion (`assert_grouped_kv_equal`) -/

/-- pinned-commit version accepted groups that differ only in multiplicities -/
theorem legacy_assertGrouped_unsound :
    Legacy.assertGrouped (fun a b : Nat => decide (a ≤ b)) [(0, [1, 1])] [(0, [1])] = true := by
  simp [Legacy.assertGrouped, sortByKey, setEq, subsetB]

/-- the current version rejects that witness -/
theorem assertGrouped_rejects_witness :
    assertGrouped (fun a b : Nat => decide (a ≤ b)) [(0, [1, 1])] [(0, [1])] = false ∧
    assertGrouped (fun a b : Nat => decide (a ≤ b)) [(0, [1, 1, 2])] [(0, [1, 2, 2])] = false := by
  simp [assertGrouped, sortByKey, setEq, subsetB, countsEq]

/-! non-vacuity: the hypotheses of `assertKv_complete` are met by a concrete non-trivial input -/
example : (([(2, 5), (1, 7)] : List (Nat × Nat)).map Prod.fst).Nodup ∧
    ([(2, 5), (1, 7)] : List (Nat × Nat)).Perm [(1, 7), (2, 5)] := by
  constructor
  · decide
  · exact List.Perm.swap _ _ _

end IB.Assertions
