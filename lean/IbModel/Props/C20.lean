import IbModel.Model.Assertions
import IbModel.Proofs.Assertions
/-!
# C20 — the shipped test assertions accept exactly equal collections

Property theorems (helper lemmas live in `Proofs/Assertions.lean`). `true` = the assertion returns,
`false` = it panics. Multiset equality of lists is `List.Perm`.

* ordered      `assertEqual_iff`      : passes ↔ `a = b`                                  (all inputs)
* unordered    `assertUnordered_iff`  : passes ↔ `a.Perm b`                               (all inputs)
* key/value    `assertKv_iff`         : passes ↔ `a.Perm b`       (all inputs, repeated keys included;
                                        any total, transitive, antisymmetric key order)
* grouped      `assertGrouped_iff`    : passes ↔ same keys ∧ per key the same multiset of values
                                        (grouped data = keys pairwise distinct on a side)
               `assertGrouped_sound_any` / `assertGrouped_flatten`: what acceptance means for inputs
                                        with a repeated key; `assertGrouped_repeated_key_*` witnesses.
-/
namespace IB.Assertions

variable {α : Type} [DecidableEq α]

/-- the key order used in the concrete witnesses (`Ord` on integers) -/
abbrev leNat (a b : Nat) : Bool := decide (a ≤ b)

/-- non-vacuity of the order hypotheses used below: `≤` on `Nat` is transitive, total, antisymmetric -/
theorem leNat_order :
    (∀ a b c, leNat a b → leNat b c → leNat a c) ∧ (∀ a b, leNat a b || leNat b a) ∧
      (∀ a b, leNat a b → leNat b a → a = b) := by
  refine ⟨?_, ?_, ?_⟩
  · intro a b c h1 h2; simp only [leNat, decide_eq_true_eq] at *; omega
  · intro a b; simp only [leNat, Bool.or_eq_true, decide_eq_true_eq]; omega
  · intro a b h1 h2; simp only [leNat, decide_eq_true_eq] at *; omega

/-! ## ordered assertion: passes iff the sequences are equal -/

theorem zip_all_eq_of_length_eq : ∀ (a b : List α), a.length = b.length →
    ((a.zip b).all (fun p => p.1 == p.2) = true ↔ a = b)
  | [], [], _ => by simp
  | [], _ :: _, h => by simp at h
  | _ :: _, [], h => by simp at h
  | x :: a, y :: b, h => by
    have ih := zip_all_eq_of_length_eq a b (by simpa using h)
    simp only [List.zip_cons_cons, List.all_cons, Bool.and_eq_true, beq_iff_eq, ih, List.cons.injEq]

/-- C20 (ordered): `assert_collections_equal` returns iff the two sequences are equal. -/
theorem assertEqual_iff (a b : List α) : assertEqual a b = true ↔ a = b := by
  unfold assertEqual
  constructor
  · intro h
    simp only [Bool.and_eq_true, beq_iff_eq] at h
    exact (zip_all_eq_of_length_eq a b h.1).mp h.2
  · rintro rfl
    simp only [Bool.and_eq_true, beq_iff_eq, true_and]
    exact (zip_all_eq_of_length_eq a a rfl).mpr rfl

/-! ## unordered assertion: passes iff the collections are equal as multisets -/

/-- C20 (unordered): the current `assert_collections_unordered_equal` returns **iff** the two
    collections are equal as multisets. -/
theorem assertUnordered_iff (a b : List α) : assertUnordered a b = true ↔ a.Perm b := by
  unfold assertUnordered
  constructor
  · intro h
    simp only [Bool.and_eq_true] at h
    exact List.perm_iff_count.mpr ((countsEq_iff a b).mp h.2)
  · intro h
    simp only [Bool.and_eq_true, beq_iff_eq]
    exact ⟨⟨h.length_eq, setEq_of_perm h⟩, (countsEq_iff a b).mpr (List.perm_iff_count.mp h)⟩

/-- In particular it never accepts collections that differ only in multiplicities. -/
theorem assertUnordered_rejects_multiplicity (a b : List α) (x : α) (h : a.count x ≠ b.count x) :
    assertUnordered a b = false := by
  cases hc : assertUnordered a b with
  | false => rfl
  | true => exact absurd (List.perm_iff_count.mp ((assertUnordered_iff a b).mp hc) x) h

/-- The pinned-commit version was only *complete* (accepts every permutation) … -/
theorem legacy_assertUnordered_complete (a b : List α) (h : a.Perm b) :
    Legacy.assertUnordered a b = true := by
  unfold Legacy.assertUnordered
  simp only [Bool.and_eq_true, beq_iff_eq]
  exact ⟨h.length_eq, setEq_of_perm h⟩

/-- … and not sound: the witness that the check guards against (same length, same set). -/
theorem legacy_assertUnordered_unsound :
    Legacy.assertUnordered [1, 1, 2] [1, 2, 2] = true ∧ ¬ ([1, 1, 2] : List Nat).Perm [1, 2, 2] := by
  constructor
  · decide
  · intro h; have := List.perm_iff_count.mp h 1; simp at this

/-! ## key/value assertion (`assert_kv_collections_equal`) -/

variable {κ : Type} [DecidableEq κ]

/-- C20 (kv, soundness — no assumption on the key order, no assumption on the inputs): whatever
    `assert_kv_collections_equal` accepts is multiset-equal. -/
theorem assertKv_sound (le : κ → κ → Bool) (a b : List (κ × α)) (h : assertKv le a b = true) :
    a.Perm b := by
  simp only [assertKv, Bool.and_eq_true, beq_iff_eq] at h
  have hs := walkRuns_sound _ _ _ h.1 h.2
  exact (sortByKey_perm le a).symm.trans (hs.trans (sortByKey_perm le b))

/-- C20 (kv, completeness — all inputs, repeated keys included): multiset-equal collections are
    accepted, for any total, transitive, antisymmetric key order. -/
theorem assertKv_complete (le : κ → κ → Bool)
    (trans : ∀ a b c, le a b → le b c → le a c) (total : ∀ a b, le a b || le b a)
    (antisymm : ∀ a b, le a b → le b a → a = b)
    (a b : List (κ × α)) (h : a.Perm b) : assertKv le a b = true := by
  have hp : (sortByKey le a).Perm (sortByKey le b) :=
    (sortByKey_perm le a).trans (h.trans (sortByKey_perm le b).symm)
  simp only [assertKv, Bool.and_eq_true, beq_iff_eq]
  exact ⟨hp.length_eq, walkRuns_complete le total antisymm _ _ _ (Nat.le_refl _)
    (sortByKey_sorted le trans total a) (sortByKey_sorted le trans total b) hp⟩

/-- **C20 (kv)**: the current `assert_kv_collections_equal` returns **iff** the two collections are
    equal as multisets of rows — for ALL inputs. -/
theorem assertKv_iff (le : κ → κ → Bool)
    (trans : ∀ a b c, le a b → le b c → le a c) (total : ∀ a b, le a b || le b a)
    (antisymm : ∀ a b, le a b → le b a → a = b)
    (a b : List (κ × α)) : assertKv le a b = true ↔ a.Perm b :=
  ⟨assertKv_sound le a b, assertKv_complete le trans total antisymm a b⟩

/-- In particular it never accepts collections in which some row occurs a different number of times. -/
theorem assertKv_rejects_multiplicity (le : κ → κ → Bool) (a b : List (κ × α)) (x : κ × α)
    (h : a.count x ≠ b.count x) : assertKv le a b = false := by
  cases hc : assertKv le a b with
  | false => rfl
  | true => exact absurd (List.perm_iff_count.mp (assertKv_sound le a b hc) x) h

/-- witness: the input that the previous code rejected is accepted now -/
theorem assertKv_accepts_repeated_key :
    assertKv leNat [(1, 0), (1, 1)] [(1, 1), (1, 0)] = true :=
  assertKv_complete leNat leNat_order.1 leNat_order.2.1 leNat_order.2.2 _ _ (List.Perm.swap _ _ _)

/-- witness: a repeated key with different value multiplicities is still rejected -/
theorem assertKv_rejects_witness :
    assertKv leNat [(1, 0), (1, 0), (1, 1)] [(1, 0), (1, 1), (1, 1)] = false :=
  assertKv_rejects_multiplicity leNat _ _ (1, 0) (by decide)

/-! ### the code before the `fix:` commit (position-wise comparison after the stable sort) -/

theorem zip_all_pair_eq : ∀ (a b : List (κ × α)), a.length = b.length →
    ((a.zip b).all (fun p => p.1.1 == p.2.1 && p.1.2 == p.2.2) = true ↔ a = b)
  | [], [], _ => by simp
  | [], _ :: _, h => by simp at h
  | _ :: _, [], h => by simp at h
  | (k, v) :: a, (k', v') :: b, h => by
    have ih := zip_all_pair_eq a b (by simpa using h)
    simp only [List.zip_cons_cons, List.all_cons, Bool.and_eq_true, beq_iff_eq, ih, List.cons.injEq,
      Prod.mk.injEq]

/-- exact characterisation of the previous code: it compared the two *stably key-sorted* sequences -/
theorem legacy_assertKv_iff_sorted_eq (le : κ → κ → Bool) (a b : List (κ × α)) :
    Legacy.assertKv le a b = true ↔ sortByKey le a = sortByKey le b := by
  unfold Legacy.assertKv
  simp only [Bool.and_eq_true, beq_iff_eq]
  constructor
  · rintro ⟨hl, h⟩; exact (zip_all_pair_eq _ _ hl).mp h
  · intro h; rw [h]; exact ⟨rfl, (zip_all_pair_eq _ _ rfl).mpr rfl⟩

/-- the previous code was sound … -/
theorem legacy_assertKv_sound (le : κ → κ → Bool) (a b : List (κ × α))
    (h : Legacy.assertKv le a b = true) : a.Perm b := by
  have hs := (legacy_assertKv_iff_sorted_eq le a b).mp h
  exact (sortByKey_perm le a).symm.trans (hs ▸ sortByKey_perm le b)

/-- … but not complete: with a repeated key the stable sort keeps that key's rows in input order,
    so two multiset-equal inputs were rejected (replayed on the real code before the fix: it panicked). -/
theorem legacy_kv_rejects_repeated_key :
    Legacy.assertKv leNat [(1, 0), (1, 1)] [(1, 1), (1, 0)] = false ∧
      ([(1, 0), (1, 1)] : List (Nat × Nat)).Perm [(1, 1), (1, 0)] := by
  constructor
  · have := legacy_assertKv_iff_sorted_eq leNat [(1, 0), (1, 1)] [(1, 1), (1, 0)]
    rw [sortByKey_of_sorted leNat _ (by decide), sortByKey_of_sorted leNat _ (by decide)] at this
    cases h : Legacy.assertKv leNat [(1, 0), (1, 1)] [(1, 1), (1, 0)] with
    | false => rfl
    | true => exact absurd (this.mp h) (by decide)
  · exact List.Perm.swap _ _ _

/-! ## grouped assertion (`assert_grouped_kv_equal`) -/

/-- what the code computes, for ALL inputs: after the stable sort by key the two sides have the same
    length and, position by position, the same key and the same multiset of values. -/
theorem assertGrouped_iff_sorted (le : κ → κ → Bool) (a b : List (κ × List α)) :
    assertGrouped le a b = true ↔
      ((sortByKey le a).length = (sortByKey le b).length ∧
        ∀ p ∈ (sortByKey le a).zip (sortByKey le b), p.1.1 = p.2.1 ∧ p.1.2.Perm p.2.2) := by
  simp only [assertGrouped]
  rw [Bool.and_eq_true, beq_iff_eq, List.all_eq_true]
  constructor
  · rintro ⟨hl, h⟩
    exact ⟨hl, fun p hp => (groupTest_iff p.1 p.2).mp (h p hp)⟩
  · rintro ⟨hl, h⟩
    exact ⟨hl, fun p hp => (groupTest_iff p.1 p.2).mpr (h p hp)⟩

/-- C20 (grouped, soundness for the keys — all inputs): accepted collections have the same multiset
    of keys. -/
theorem assertGrouped_sound_keys (le : κ → κ → Bool) (a b : List (κ × List α))
    (h : assertGrouped le a b = true) : (a.map Prod.fst).Perm (b.map Prod.fst) := by
  obtain ⟨hl, hz⟩ := (assertGrouped_iff_sorted le a b).mp h
  have hk : (sortByKey le a).map Prod.fst = (sortByKey le b).map Prod.fst :=
    (map_fst_eq_iff_zip _ _).mpr ⟨hl, fun p hp => (hz p hp).1⟩
  have h1 := (sortByKey_perm le a).map Prod.fst
  have h2 := (sortByKey_perm le b).map Prod.fst
  exact h1.symm.trans (hk ▸ h2)

/-- C20 (grouped, soundness for the values): if the keys of ONE side are pairwise distinct, every
    key's two groups are equal as multisets. -/
theorem assertGrouped_sound_values (le : κ → κ → Bool) (a b : List (κ × List α))
    (hnd : (a.map Prod.fst).Nodup ∨ (b.map Prod.fst).Nodup)
    (h : assertGrouped le a b = true) :
    ∀ k vs ws, (k, vs) ∈ a → (k, ws) ∈ b → vs.Perm ws := by
  obtain ⟨hl, hz⟩ := (assertGrouped_iff_sorted le a b).mp h
  intro k vs ws hva hwb
  have hpa := sortByKey_perm le a
  have hpb := sortByKey_perm le b
  rcases hnd with hnd | hnd
  · -- the partner of `(k, ws)` on the `a` side has key `k`, so it is `(k, vs)`
    obtain ⟨r, hr⟩ := exists_zip_of_mem_right _ _ hl (k, ws) (hpb.mem_iff.mpr hwb)
    have hra : r ∈ a := hpa.mem_iff.mp (List.of_mem_zip hr).1
    have hrel := hz _ hr
    have : r = (k, vs) := eq_of_mem_of_nodup_keys a hnd r hra (k, vs) hva hrel.1
    subst this; exact hrel.2
  · obtain ⟨s, hs⟩ := exists_zip_of_mem_left _ _ hl (k, vs) (hpa.mem_iff.mpr hva)
    have hsb : s ∈ b := hpb.mem_iff.mp (List.of_mem_zip hs).2
    have hrel := hz _ hs
    have : s = (k, ws) := eq_of_mem_of_nodup_keys b hnd s hsb (k, ws) hwb hrel.1.symm
    subst this; exact hrel.2

/-- C20 (grouped, completeness — all inputs, no distinctness needed): the same multiset of keys and,
    per key, the same multiset of values ⇒ accepted (total, transitive, antisymmetric key order). -/
theorem assertGrouped_complete (le : κ → κ → Bool)
    (trans : ∀ a b c, le a b → le b c → le a c) (total : ∀ a b, le a b || le b a)
    (antisymm : ∀ a b, le a b → le b a → a = b) (a b : List (κ × List α))
    (hk : (a.map Prod.fst).Perm (b.map Prod.fst))
    (hv : ∀ k vs ws, (k, vs) ∈ a → (k, ws) ∈ b → vs.Perm ws) :
    assertGrouped le a b = true := by
  rw [assertGrouped_iff_sorted]
  have hpa := sortByKey_perm le a
  have hpb := sortByKey_perm le b
  have hkeys : (sortByKey le a).map Prod.fst = (sortByKey le b).map Prod.fst :=
    keys_eq_of_sorted_of_perm le antisymm _ _ (sortByKey_sorted le trans total a)
      (sortByKey_sorted le trans total b)
      ((hpa.map Prod.fst).trans (hk.trans (hpb.map Prod.fst).symm))
  obtain ⟨hl, hz⟩ := (map_fst_eq_iff_zip _ _).mp hkeys
  refine ⟨hl, fun p hp => ⟨hz p hp, ?_⟩⟩
  have hm := List.of_mem_zip hp
  have h1 : (p.1.1, p.1.2) ∈ a := hpa.mem_iff.mp hm.1
  have h2 : (p.1.1, p.2.2) ∈ b := by
    have : p.2 ∈ b := hpb.mem_iff.mp hm.2
    rw [hz p hp]; exact this
  exact hv _ _ _ h1 h2

/-- **C20 (grouped)**: for grouped data (keys pairwise distinct on both sides — one side suffices,
    see `assertGrouped_sound_values`) and any total, transitive, antisymmetric key order, the current
    `assert_grouped_kv_equal` returns **iff** both sides have the same keys and, per key, the same
    multiset of values. -/
theorem assertGrouped_iff (le : κ → κ → Bool)
    (trans : ∀ a b c, le a b → le b c → le a c) (total : ∀ a b, le a b || le b a)
    (antisymm : ∀ a b, le a b → le b a → a = b) (a b : List (κ × List α))
    (hna : (a.map Prod.fst).Nodup) (_hnb : (b.map Prod.fst).Nodup) :
    assertGrouped le a b = true ↔
      ((a.map Prod.fst).Perm (b.map Prod.fst) ∧
        ∀ k vs ws, (k, vs) ∈ a → (k, ws) ∈ b → vs.Perm ws) :=
  ⟨fun h => ⟨assertGrouped_sound_keys le a b h, assertGrouped_sound_values le a b (Or.inl hna) h⟩,
   fun h => assertGrouped_complete le trans total antisymm a b h.1 h.2⟩

/-- In particular it never accepts grouped collections in which a key's group differs only in how
    often a value occurs. -/
theorem assertGrouped_rejects_multiplicity (le : κ → κ → Bool) (a b : List (κ × List α))
    (hnd : (a.map Prod.fst).Nodup ∨ (b.map Prod.fst).Nodup) (k : κ) (vs ws : List α)
    (ha : (k, vs) ∈ a) (hb : (k, ws) ∈ b) (x : α) (hc : vs.count x ≠ ws.count x) :
    assertGrouped le a b = false := by
  cases h : assertGrouped le a b with
  | false => rfl
  | true =>
    exact absurd (List.perm_iff_count.mp (assertGrouped_sound_values le a b hnd h k vs ws ha hb) x) hc

/-! ### inputs with a repeated key (not "grouped data"; outside the property, stated for completeness) -/

/-- Soundness for ANY input (repeated keys allowed, any `le`): acceptance means that the rows of the
    two sides can be arranged so that they agree position by position in key and value multiset. -/
theorem assertGrouped_sound_any (le : κ → κ → Bool) (a b : List (κ × List α))
    (h : assertGrouped le a b = true) :
    ∃ a' b' : List (κ × List α), a'.Perm a ∧ b'.Perm b ∧ a'.length = b'.length ∧
      ∀ p ∈ a'.zip b', p.1.1 = p.2.1 ∧ p.1.2.Perm p.2.2 :=
  ⟨sortByKey le a, sortByKey le b, sortByKey_perm le a, sortByKey_perm le b,
    (assertGrouped_iff_sorted le a b).mp h⟩

/-- … hence, for ANY input, the key/value rows the two sides stand for are equal as multisets: the
    grouped assertion never accepts two collections that differ in how often a `(key, value)` occurs. -/
theorem assertGrouped_flatten (le : κ → κ → Bool) (a b : List (κ × List α))
    (h : assertGrouped le a b = true) : (flattenGroups a).Perm (flattenGroups b) := by
  obtain ⟨hl, hz⟩ := (assertGrouped_iff_sorted le a b).mp h
  have h1 : (flattenGroups (sortByKey le a)).Perm (flattenGroups a) :=
    (sortByKey_perm le a).flatMap_right _
  have h2 : (flattenGroups (sortByKey le b)).Perm (flattenGroups b) :=
    (sortByKey_perm le b).flatMap_right _
  exact h1.symm.trans ((flattenGroups_perm_of_zip _ _ hl hz).trans h2)

/-- With a repeated key the *completeness* direction fails: the two sides below are the same multiset
    of groups, but the stable sort leaves the two groups of key 0 in input order and they are
    compared position by position. -/
theorem assertGrouped_repeated_key_rejects :
    assertGrouped leNat [(0, [1]), (0, [2])] [(0, [2]), (0, [1])] = false ∧
      ([(0, [1]), (0, [2])] : List (Nat × List Nat)).Perm [(0, [2]), (0, [1])] := by
  constructor
  · simp only [assertGrouped]
    rw [sortByKey_of_sorted leNat _ (by decide), sortByKey_of_sorted leNat _ (by decide)]
    decide
  · exact List.Perm.swap _ _ _

/-- With a repeated key the right-hand side of `assertGrouped_iff` is no longer implied by acceptance
    (it is not the right specification there: it would relate *different* groups of the same key):
    the assertion accepts `a` against itself, as it must. -/
theorem assertGrouped_repeated_key_spec :
    assertGrouped leNat [(0, [1]), (0, [2])] [(0, [1]), (0, [2])] = true ∧
      ¬ (∀ k vs ws, (k, vs) ∈ ([(0, [1]), (0, [2])] : List (Nat × List Nat)) →
          (k, ws) ∈ ([(0, [1]), (0, [2])] : List (Nat × List Nat)) → vs.Perm ws) := by
  constructor
  · simp only [assertGrouped]
    rw [sortByKey_of_sorted leNat _ (by decide)]
    decide
  · intro h
    have := h 0 [1] [2] (by simp) (by simp)
    simp at this

/-! ### the code before the first `fix:` commit (values compared as sets) -/

/-- pinned-commit version accepted groups that differ only in multiplicities -/
theorem legacy_assertGrouped_unsound :
    Legacy.assertGrouped leNat [(0, [1, 1])] [(0, [1])] = true := by
  simp [Legacy.assertGrouped, sortByKey, setEq, subsetB]

/-- the current version rejects those witnesses (instances of `assertGrouped_rejects_multiplicity`) -/
theorem assertGrouped_rejects_witness :
    assertGrouped leNat [(0, [1, 1])] [(0, [1])] = false ∧
    assertGrouped leNat [(0, [1, 1, 2])] [(0, [1, 2, 2])] = false :=
  ⟨assertGrouped_rejects_multiplicity leNat _ _ (Or.inl (by decide)) 0 [1, 1] [1] (by simp) (by simp) 1
      (by decide),
   assertGrouped_rejects_multiplicity leNat _ _ (Or.inl (by decide)) 0 [1, 1, 2] [1, 2, 2] (by simp)
      (by simp) 1 (by decide)⟩

/-! ## non-vacuity: concrete non-trivial inputs satisfy the hypotheses and both sides of the iffs -/

/-- `assertKv_iff`: repeated key, rows of that key in a different relative order (true ↔ true) -/
example : assertKv leNat [(2, 5), (1, 7), (1, 8)] [(1, 8), (1, 7), (2, 5)] = true ∧
    ([(2, 5), (1, 7), (1, 8)] : List (Nat × Nat)).Perm [(1, 8), (1, 7), (2, 5)] := by
  have hp : ([(2, 5), (1, 7), (1, 8)] : List (Nat × Nat)).Perm [(1, 8), (1, 7), (2, 5)] :=
    List.perm_iff_count.mpr (by
      intro x
      simp only [List.count_cons, List.count_nil]
      by_cases h1 : (2, 5) = x <;> by_cases h2 : (1, 7) = x <;> by_cases h3 : (1, 8) = x <;>
        simp [h1, h2, h3])
  exact ⟨(assertKv_iff leNat leNat_order.1 leNat_order.2.1 leNat_order.2.2 _ _).mpr hp, hp⟩

/-- `assertGrouped_iff`: hypotheses (distinct keys on both sides) and the right-hand side hold for
    a two-key input whose groups are permuted and listed in a different key order. -/
example :
    let a : List (Nat × List Nat) := [(2, [5, 6, 5]), (1, [7])]
    let b : List (Nat × List Nat) := [(1, [7]), (2, [6, 5, 5])]
    (a.map Prod.fst).Nodup ∧ (b.map Prod.fst).Nodup ∧ assertGrouped leNat a b = true := by
  intro a b
  refine ⟨by decide, by decide, ?_⟩
  apply assertGrouped_complete leNat leNat_order.1 leNat_order.2.1 leNat_order.2.2
  · exact List.Perm.swap _ _ _
  · intro k vs ws ha hb
    simp only [a, b, List.mem_cons, Prod.mk.injEq, List.mem_nil_iff, or_false] at ha hb
    rcases ha with ⟨rfl, rfl⟩ | ⟨rfl, rfl⟩ <;> rcases hb with ⟨h, rfl⟩ | ⟨h, rfl⟩
    · omega
    · exact List.Perm.swap 6 5 [5]
    · exact List.Perm.refl _
    · omega

end IB.Assertions
