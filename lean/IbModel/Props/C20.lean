import IbModel.Model.Assertions
import IbModel.Proofs.Assertions
/-!
# C20 — the shipped test assertions accept exactly equal collections

Property theorems (helper lemmas live in `Proofs/Assertions.lean`). `true` = the assertion returns,
`false` = it panics. Multiset equality of lists is `List.Perm`. Assumption throughout: `==` on
elements, keys and values is a lawful (reflexive) equality — `DecidableEq`; Rust only demands
`PartialEq` for some of them, and with `f64::NAN` a collection is rejected against itself. `Debug` and
`Hash` do not exist in the model: every theorem holds for any `Debug` output and any hasher (the
harness instantiates the assertions with a type whose `Debug` is lossy and whose `Hash` collides).

* ordered      `assertEqual_iff`        : passes ↔ `a = b`                                (all inputs)
* ordered, on the records of a file (`assert_jsonl_equals`, `assert_csv_equals`; the line parsers are
  parameters, their laws hypotheses):
               `assertJsonl_eq`, `assertCsv_eq`   : the file assertion IS `assertEqual ∘ read` (reader error = panic)
               `assertJsonl_iff`, `assertCsv_iff` : passes ↔ the file opens, every (non-blank / data) line
                                          parses and the records, in file order, are `expected` (all inputs)
               `assertJsonl_mock_iff`, `assertCsv_mock_iff` : a file written record by record (`parse ∘ ser
                                          = some`) passes ↔ `data = expected`;  `jline_lawful`, `cline_lawful`
               `assert*_rejects_length` (proper prefix / extension), `assertJsonl_bad_line`, `assert*_missing`
* unordered    `assertUnordered_iff`    : passes ↔ `a.Perm b`                             (all inputs)
               `firstCountMismatch_none_iff`, `firstCountMismatch_some`: the `HashMap` counter, transliterated
* key/value    `assertKv_iff`           : passes ↔ `a.Perm b`     (all inputs, repeated keys included;
                                          any total, transitive, antisymmetric key order)
* grouped      `assertGrouped_iff`      : **the property's claim** — for grouped data (keys pairwise distinct on
                                          a side): passes ↔ same keys ∧ per key the same multiset of values
               `assertGrouped_iff_groups`: what the code decides on ALL inputs: passes ↔ `GroupsEquiv a b` —
                                          equal as multisets of groups (key, multiset of values)
               `assertGrouped_flatten`, `assertGrouped_rejects_group_multiplicity`, legacy witnesses.
* maps         `assertMaps_iff`         : passes ↔ same entries; `assertMaps_mkMap_iff` for insert sequences
* size / contains / all / any / none    : `assertSize_iff`, `assertContains_iff`, `assertAll_iff`,
                                          `assertAny_iff`, `assertNone_iff`, `assert_pred_perm`
* the driver's key orders               : `leInt_order`, `lePair_order`, `leStr_order`, `assertKv_le*_iff`,
                                          `assertGrouped_le*_iff`, `embP_injective`, `embP_mono`

## Grouped inputs in which one key occurs in several rows — the reading that is enforced (decision)

The property text reads "for grouped data: the same keys and, per key, the same multiset of values".
*Grouped data* is what `group_by_key` yields: ONE row per key. For such inputs (both sides) the text is
unambiguous, `assertGrouped_iff` proves it for the model, and the harness ORACLE demands it of the real
code (pass ⇔ same keys ∧ per key multiset-equal values).

For inputs in which a key occurs in several rows of a side the text does not determine the answer: read
as "multiset of groups" it rejects `[(0,[1,2]),(0,[])]` vs `[(0,[1]),(0,[2])]` (what the code does,
`assertGrouped_rejects_regrouped`), read as "union of the values per key" it accepts that pair. Such
inputs are NOT grouped data; they are OUTSIDE the property's iff. Consequently
  * the oracle gives no verdict on them (it would otherwise demand more than the property states, and
    would flag either repair as a defect);
  * the theorems about them stay: they are true statements about the code (`assertGrouped_iff_groups`:
    the code decides equality as multisets of groups; `assertGrouped_flatten`: it never accepts two
    inputs whose flattened `(key, value)` rows differ in multiplicity; `assertGrouped_rejects_regrouped`);
  * the real answers on such inputs are still compared with the model's, case by case (model
    correspondence): a behavioural change there is reported as a model/implementation disagreement,
    not as an oracle failure. The repair of defect #24 (`[(0,[1]),(0,[2])]` vs `[(0,[2]),(0,[1])]`
    panicked) is kept: both readings accept that pair.
-/
namespace IB.Assertions

set_option linter.unusedSectionVars false

variable {α : Type} [DecidableEq α]

/-- the key order used in the concrete witnesses (`Ord` on integers) -/
abbrev leNat (a b : Nat) : Bool := decide (a ≤ b)

/-- non-vacuity of the order hypotheses used below: `≤` on `Nat` is transitive, total, antisymmetric -/
theorem leNat_order :
    (∀ a b c, leNat a b → leNat b c → leNat a c) ∧ (∀ a b, leNat a b || leNat b a) ∧
      (∀ a b, leNat a b → leNat b a → a = b) := by
  refine ⟨?_, ?_, ?_⟩
  · intro a b c h1 h2; simp only [leNat, decide_eq_true_eq] at *; omega
  · intro a b; simp only [leNat, Bool.or_eq_true, decide_eq_true_eq]; omega
  · intro a b h1 h2; simp only [leNat, decide_eq_true_eq] at *; omega

/-- the order hypotheses hold for the key order the driver evaluates (`Ord` on `i64`, modelled on `Int`) -/
theorem leInt_order :
    (∀ a b c, leInt a b → leInt b c → leInt a c) ∧ (∀ a b, leInt a b || leInt b a) ∧
      (∀ a b, leInt a b → leInt b a → a = b) := by
  refine ⟨?_, ?_, ?_⟩
  · intro a b c h1 h2; simp only [leInt, decide_eq_true_eq] at *; omega
  · intro a b; simp only [leInt, Bool.or_eq_true, decide_eq_true_eq]; omega
  · intro a b h1 h2; simp only [leInt, decide_eq_true_eq] at *; omega

/-! ## ordered assertion: passes iff the sequences are equal -/

theorem zip_all_eq_of_length_eq : ∀ (a b : List α), a.length = b.length →
    ((a.zip b).all (fun p => p.1 == p.2) = true ↔ a = b)
  | [], [], _ => by simp
  | [], _ :: _, h => by simp at h
  | _ :: _, [], h => by simp at h
  | x :: a, y :: b, h => by
    have ih := zip_all_eq_of_length_eq a b (by simpa using h)
    simp only [List.zip_cons_cons, List.all_cons, Bool.and_eq_true, beq_iff_eq, ih, List.cons.injEq]

/-- C20 (ordered): `assert_collections_equal` returns iff the two sequences are equal. -/
theorem assertEqual_iff (a b : List α) : assertEqual a b = true ↔ a = b := by
  unfold assertEqual
  constructor
  · intro h
    simp only [Bool.and_eq_true, beq_iff_eq] at h
    exact (zip_all_eq_of_length_eq a b h.1).mp h.2
  · rintro rfl
    simp only [Bool.and_eq_true, beq_iff_eq, true_and]
    exact (zip_all_eq_of_length_eq a a rfl).mpr rfl

/-! ## unordered assertion: passes iff the collections are equal as multisets -/

/-- C20 (unordered): the current `assert_collections_unordered_equal` returns **iff** the two
    collections are equal as multisets. -/
theorem assertUnordered_iff (a b : List α) : assertUnordered a b = true ↔ a.Perm b := by
  unfold assertUnordered
  rw [firstCountMismatch_isNone]
  constructor
  · intro h
    simp only [Bool.and_eq_true] at h
    exact List.perm_iff_count.mpr ((countsEq_iff a b).mp h.2)
  · intro h
    simp only [Bool.and_eq_true, beq_iff_eq]
    exact ⟨⟨h.length_eq, setEq_of_perm h⟩, (countsEq_iff a b).mpr (List.perm_iff_count.mp h)⟩

/-- the unordered assertion is an equivalence relation on collections — reflexive, symmetric, transitive — so a chain
    of passing assertions (`actual ~ golden₁`, `golden₁ ~ golden₂`) can be trusted end to end, and the argument order
    (`actual, expected` or the reverse) does not matter -/
theorem assertUnordered_refl (a : List α) : assertUnordered a a = true :=
  (assertUnordered_iff a a).mpr (List.Perm.refl a)

theorem assertUnordered_symm (a b : List α) : assertUnordered a b = assertUnordered b a := by
  rw [Bool.eq_iff_iff, assertUnordered_iff, assertUnordered_iff]
  exact ⟨List.Perm.symm, List.Perm.symm⟩

theorem assertUnordered_trans (a b d : List α) (h1 : assertUnordered a b = true) (h2 : assertUnordered b d = true) :
    assertUnordered a d = true :=
  (assertUnordered_iff a d).mpr (((assertUnordered_iff a b).mp h1).trans ((assertUnordered_iff b d).mp h2))

/-- the ordered assertion is strictly stronger: whatever it accepts the unordered one accepts, and the converse fails
    (`[1,2]` / `[2,1]`) -/
theorem assertEqual_implies_unordered (a b : List α) (h : assertEqual a b = true) : assertUnordered a b = true := by
  rw [(assertEqual_iff a b).mp h]; exact assertUnordered_refl b

theorem assertEqual_symm (a b : List α) : assertEqual a b = assertEqual b a := by
  rw [Bool.eq_iff_iff, assertEqual_iff, assertEqual_iff]
  exact ⟨Eq.symm, Eq.symm⟩

example : assertUnordered [1, 2] [2, 1] = true ∧ assertEqual [1, 2] [2, 1] = false := by decide

/-- both assertions reject collections of different sizes, whatever their elements -/
theorem assert_rejects_size_mismatch (a b : List α) (h : a.length ≠ b.length) :
    assertUnordered a b = false ∧ assertEqual a b = false := by
  constructor
  · cases hu : assertUnordered a b with
    | false => rfl
    | true => exact absurd ((assertUnordered_iff a b).mp hu).length_eq h
  · cases he : assertEqual a b with
    | false => rfl
    | true => exact absurd (congrArg List.length ((assertEqual_iff a b).mp he)) h

/-- the `HashMap` counter of `first_count_mismatch` reports nothing **iff** every element occurs
    equally often on both sides (no assumption on the hasher: the map is only ever queried by key) -/
theorem firstCountMismatch_none_iff (a b : List α) :
    firstCountMismatch a b = none ↔ ∀ x, a.count x = b.count x := by
  rw [← Option.isNone_iff_eq_none, firstCountMismatch_isNone, countsEq_iff]

/-- … and an element it reports does occur a different number of times -/
theorem firstCountMismatch_some (a b : List α) (x : α) (h : firstCountMismatch a b = some x) :
    a.count x ≠ b.count x := by
  unfold firstCountMismatch at h
  have hp := List.find?_some h
  rw [countTable_lookup] at hp
  by_cases h0 : a.count x + b.count x = 0
  · simp [h0] at hp
  · simp only [h0, if_false] at hp
    simpa using hp
/-- In particular it never accepts collections that differ only in multiplicities. -/
theorem assertUnordered_rejects_multiplicity (a b : List α) (x : α) (h : a.count x ≠ b.count x) :
    assertUnordered a b = false := by
  cases hc : assertUnordered a b with
  | false => rfl
  | true => exact absurd (List.perm_iff_count.mp ((assertUnordered_iff a b).mp hc) x) h

/-- The pinned-commit version was only *complete* (accepts every permutation) … -/
theorem legacy_assertUnordered_complete (a b : List α) (h : a.Perm b) :
    Legacy.assertUnordered a b = true := by
  unfold Legacy.assertUnordered
  simp only [Bool.and_eq_true, beq_iff_eq]
  exact ⟨h.length_eq, setEq_of_perm h⟩

/-- … and not sound: the witness that the check guards against (same length, same set). -/
theorem legacy_assertUnordered_unsound :
    Legacy.assertUnordered [1, 1, 2] [1, 2, 2] = true ∧ ¬ ([1, 1, 2] : List Nat).Perm [1, 2, 2] := by
  constructor
  · decide
  · intro h; have := List.perm_iff_count.mp h 1; simp at this

/-! ## key/value assertion (`assert_kv_collections_equal`) -/

variable {κ : Type} [DecidableEq κ]

/-- C20 (kv, soundness — no assumption on the key order, no assumption on the inputs): whatever
    `assert_kv_collections_equal` accepts is multiset-equal. -/
theorem assertKv_sound (le : κ → κ → Bool) (a b : List (κ × α)) (h : assertKv le a b = true) :
    a.Perm b := by
  simp only [assertKv, Bool.and_eq_true, beq_iff_eq] at h
  have hs := walkRuns_sound _ _ _ h.1 h.2
  exact (sortByKey_perm le a).symm.trans (hs.trans (sortByKey_perm le b))

/-- C20 (kv, completeness — all inputs, repeated keys included): multiset-equal collections are
    accepted, for any total, transitive, antisymmetric key order. -/
theorem assertKv_complete (le : κ → κ → Bool)
    (trans : ∀ a b c, le a b → le b c → le a c) (total : ∀ a b, le a b || le b a)
    (antisymm : ∀ a b, le a b → le b a → a = b)
    (a b : List (κ × α)) (h : a.Perm b) : assertKv le a b = true := by
  have hp : (sortByKey le a).Perm (sortByKey le b) :=
    (sortByKey_perm le a).trans (h.trans (sortByKey_perm le b).symm)
  simp only [assertKv, Bool.and_eq_true, beq_iff_eq]
  exact ⟨hp.length_eq, walkRuns_complete le total antisymm _ _ _ (Nat.le_refl _)
    (sortByKey_sorted le trans total a) (sortByKey_sorted le trans total b) hp⟩

/-- **C20 (kv)**: the current `assert_kv_collections_equal` returns **iff** the two collections are
    equal as multisets of rows — for ALL inputs. -/
theorem assertKv_iff (le : κ → κ → Bool)
    (trans : ∀ a b c, le a b → le b c → le a c) (total : ∀ a b, le a b || le b a)
    (antisymm : ∀ a b, le a b → le b a → a = b)
    (a b : List (κ × α)) : assertKv le a b = true ↔ a.Perm b :=
  ⟨assertKv_sound le a b, assertKv_complete le trans total antisymm a b⟩

/-- In particular it never accepts collections in which some row occurs a different number of times. -/
theorem assertKv_rejects_multiplicity (le : κ → κ → Bool) (a b : List (κ × α)) (x : κ × α)
    (h : a.count x ≠ b.count x) : assertKv le a b = false := by
  cases hc : assertKv le a b with
  | false => rfl
  | true => exact absurd (List.perm_iff_count.mp (assertKv_sound le a b hc) x) h

/-- witness: the input that the previous code rejected is accepted now -/
theorem assertKv_accepts_repeated_key :
    assertKv leNat [(1, 0), (1, 1)] [(1, 1), (1, 0)] = true :=
  assertKv_complete leNat leNat_order.1 leNat_order.2.1 leNat_order.2.2 _ _ (List.Perm.swap _ _ _)

/-- witness: a repeated key with different value multiplicities is still rejected -/
theorem assertKv_rejects_witness :
    assertKv leNat [(1, 0), (1, 0), (1, 1)] [(1, 0), (1, 1), (1, 1)] = false :=
  assertKv_rejects_multiplicity leNat _ _ (1, 0) (by decide)

/-! ### the code before the `fix:` commit (position-wise comparison after the stable sort) -/

theorem zip_all_pair_eq : ∀ (a b : List (κ × α)), a.length = b.length →
    ((a.zip b).all (fun p => p.1.1 == p.2.1 && p.1.2 == p.2.2) = true ↔ a = b)
  | [], [], _ => by simp
  | [], _ :: _, h => by simp at h
  | _ :: _, [], h => by simp at h
  | (k, v) :: a, (k', v') :: b, h => by
    have ih := zip_all_pair_eq a b (by simpa using h)
    simp only [List.zip_cons_cons, List.all_cons, Bool.and_eq_true, beq_iff_eq, ih, List.cons.injEq,
      Prod.mk.injEq]

/-- exact characterisation of the previous code: it compared the two *stably key-sorted* sequences -/
theorem legacy_assertKv_iff_sorted_eq (le : κ → κ → Bool) (a b : List (κ × α)) :
    Legacy.assertKv le a b = true ↔ sortByKey le a = sortByKey le b := by
  unfold Legacy.assertKv
  simp only [Bool.and_eq_true, beq_iff_eq]
  constructor
  · rintro ⟨hl, h⟩; exact (zip_all_pair_eq _ _ hl).mp h
  · intro h; rw [h]; exact ⟨rfl, (zip_all_pair_eq _ _ rfl).mpr rfl⟩

/-- the previous code was sound … -/
theorem legacy_assertKv_sound (le : κ → κ → Bool) (a b : List (κ × α))
    (h : Legacy.assertKv le a b = true) : a.Perm b := by
  have hs := (legacy_assertKv_iff_sorted_eq le a b).mp h
  exact (sortByKey_perm le a).symm.trans (hs ▸ sortByKey_perm le b)

/-- … but not complete: with a repeated key the stable sort keeps that key's rows in input order,
    so two multiset-equal inputs were rejected (replayed on the real code before the fix: it panicked). -/
theorem legacy_kv_rejects_repeated_key :
    Legacy.assertKv leNat [(1, 0), (1, 1)] [(1, 1), (1, 0)] = false ∧
      ([(1, 0), (1, 1)] : List (Nat × Nat)).Perm [(1, 1), (1, 0)] := by
  constructor
  · have := legacy_assertKv_iff_sorted_eq leNat [(1, 0), (1, 1)] [(1, 1), (1, 0)]
    rw [sortByKey_of_sorted leNat _ (by decide), sortByKey_of_sorted leNat _ (by decide)] at this
    cases h : Legacy.assertKv leNat [(1, 0), (1, 1)] [(1, 1), (1, 0)] with
    | false => rfl
    | true => exact absurd (this.mp h) (by decide)
  · exact List.Perm.swap _ _ _

/-! ## grouped assertion (`assert_grouped_kv_equal`) -/

/-- `a` and `b` are equal as multisets of groups, a group being a key with a multiset of values:
    `b` can be rearranged so that the two sides agree, position by position, in the key and in the
    multiset of values. (For pairwise distinct keys this is the property's "same keys and, per key,
    the same multiset of values": `groupsEquiv_iff_of_nodup`.) -/
def GroupsEquiv (a b : List (κ × List α)) : Prop :=
  ∃ b' : List (κ × List α), b'.Perm b ∧ a.length = b'.length ∧
    ∀ p ∈ a.zip b', p.1.1 = p.2.1 ∧ p.1.2.Perm p.2.2

/-- C20 (grouped, soundness — ALL inputs, repeated keys included, no assumption on the key order):
    whatever `assert_grouped_kv_equal` accepts is equal as a multiset of groups. -/
theorem assertGrouped_sound (le : κ → κ → Bool) (a b : List (κ × List α))
    (h : assertGrouped le a b = true) : GroupsEquiv a b := by
  rw [assertGrouped_eq_assertKv] at h
  exact (perm_map_qrow_iff a b).mp (assertKv_sound le _ _ h)

/-- C20 (grouped, completeness — ALL inputs, repeated keys included): collections that are equal as
    multisets of groups are accepted, for any total, transitive, antisymmetric key order. -/
theorem assertGrouped_complete_groups (le : κ → κ → Bool)
    (trans : ∀ a b c, le a b → le b c → le a c) (total : ∀ a b, le a b || le b a)
    (antisymm : ∀ a b, le a b → le b a → a = b) (a b : List (κ × List α))
    (h : GroupsEquiv a b) : assertGrouped le a b = true := by
  rw [assertGrouped_eq_assertKv]
  exact assertKv_complete le trans total antisymm _ _ ((perm_map_qrow_iff a b).mpr h)

/-- **C20 (grouped, all inputs)**: the current `assert_grouped_kv_equal` returns **iff** the two
    collections are equal as multisets of groups — repeated keys included. -/
theorem assertGrouped_iff_groups (le : κ → κ → Bool)
    (trans : ∀ a b c, le a b → le b c → le a c) (total : ∀ a b, le a b || le b a)
    (antisymm : ∀ a b, le a b → le b a → a = b) (a b : List (κ × List α)) :
    assertGrouped le a b = true ↔ GroupsEquiv a b :=
  ⟨assertGrouped_sound le a b, assertGrouped_complete_groups le trans total antisymm a b⟩

/-- rows listed in any other order, each group's values listed in any other order: accepted -/
theorem assertGrouped_accepts_perm (le : κ → κ → Bool)
    (trans : ∀ a b c, le a b → le b c → le a c) (total : ∀ a b, le a b || le b a)
    (antisymm : ∀ a b, le a b → le b a → a = b) (a b : List (κ × List α)) (h : a.Perm b) :
    assertGrouped le a b = true := by
  apply assertGrouped_complete_groups le trans total antisymm
  refine ⟨a, h, rfl, fun p hp => ?_⟩
  rw [eq_of_mem_zip_self a p hp]; exact ⟨rfl, List.Perm.refl _⟩

/-- In particular it never accepts two collections in which some group (a key with a multiset of
    values) occurs a different number of times. -/
theorem assertGrouped_rejects_group_multiplicity (le : κ → κ → Bool) (a b : List (κ × List α))
    (k : κ) (vs : List α)
    (h : a.countP (fun r => r.1 == k && sameValues r.2 vs) ≠
         b.countP (fun r => r.1 == k && sameValues r.2 vs)) :
    assertGrouped le a b = false := by
  cases hc : assertGrouped le a b with
  | false => rfl
  | true =>
    rw [assertGrouped_eq_assertKv] at hc
    have hp := assertKv_sound le _ _ hc
    exact absurd (by rw [← count_qrow, ← count_qrow]; exact List.perm_iff_count.mp hp _) h

/-! ### consequences of `GroupsEquiv` (what acceptance means in the property's own words) -/

/-- the same multiset of keys -/
theorem groupsEquiv_keys (a b : List (κ × List α)) (h : GroupsEquiv a b) :
    (a.map Prod.fst).Perm (b.map Prod.fst) := by
  obtain ⟨b', hp, hl, hz⟩ := h
  have hk : a.map Prod.fst = b'.map Prod.fst :=
    (map_fst_eq_iff_zip _ _).mpr ⟨hl, fun p hp => (hz p hp).1⟩
  exact hk ▸ hp.map Prod.fst

/-- the key/value rows the two sides stand for are equal as multisets -/
theorem groupsEquiv_flatten (a b : List (κ × List α)) (h : GroupsEquiv a b) :
    (flattenGroups a).Perm (flattenGroups b) := by
  obtain ⟨b', hp, hl, hz⟩ := h
  exact (flattenGroups_perm_of_zip _ _ hl hz).trans (hp.flatMap_right _)

/-- if the keys of ONE side are pairwise distinct, every key's two groups are equal as multisets -/
theorem groupsEquiv_values (a b : List (κ × List α))
    (hnd : (a.map Prod.fst).Nodup ∨ (b.map Prod.fst).Nodup) (h : GroupsEquiv a b) :
    ∀ k vs ws, (k, vs) ∈ a → (k, ws) ∈ b → vs.Perm ws := by
  obtain ⟨b', hp, hl, hz⟩ := h
  intro k vs ws hva hwb
  rcases hnd with hnd | hnd
  · -- the partner of `(k, ws)` on the `a` side has key `k`, so it is `(k, vs)`
    obtain ⟨r, hr⟩ := exists_zip_of_mem_right _ _ hl (k, ws) (hp.mem_iff.mpr hwb)
    have hra : r ∈ a := (List.of_mem_zip hr).1
    have hrel := hz _ hr
    have : r = (k, vs) := eq_of_mem_of_nodup_keys a hnd r hra (k, vs) hva hrel.1
    subst this; exact hrel.2
  · have hnd' : (b'.map Prod.fst).Nodup := (hp.map Prod.fst).nodup_iff.mpr hnd
    obtain ⟨s, hs⟩ := exists_zip_of_mem_left _ _ hl (k, vs) hva
    have hsb : s ∈ b' := (List.of_mem_zip hs).2
    have hrel := hz _ hs
    have : s = (k, ws) :=
      eq_of_mem_of_nodup_keys b' hnd' s hsb (k, ws) (hp.mem_iff.mpr hwb) hrel.1.symm
    subst this; exact hrel.2

/-- C20 (grouped, soundness for the keys — all inputs): accepted collections have the same multiset
    of keys. -/
theorem assertGrouped_sound_keys (le : κ → κ → Bool) (a b : List (κ × List α))
    (h : assertGrouped le a b = true) : (a.map Prod.fst).Perm (b.map Prod.fst) :=
  groupsEquiv_keys a b (assertGrouped_sound le a b h)

/-- C20 (grouped, soundness for the values): if the keys of ONE side are pairwise distinct, every
    key's two groups are equal as multisets. -/
theorem assertGrouped_sound_values (le : κ → κ → Bool) (a b : List (κ × List α))
    (hnd : (a.map Prod.fst).Nodup ∨ (b.map Prod.fst).Nodup)
    (h : assertGrouped le a b = true) :
    ∀ k vs ws, (k, vs) ∈ a → (k, ws) ∈ b → vs.Perm ws :=
  groupsEquiv_values a b hnd (assertGrouped_sound le a b h)

/-- … and, for ANY input, the key/value rows the two sides stand for are equal as multisets: the
    grouped assertion never accepts two collections that differ in how often a `(key, value)` occurs. -/
theorem assertGrouped_flatten (le : κ → κ → Bool) (a b : List (κ × List α))
    (h : assertGrouped le a b = true) : (flattenGroups a).Perm (flattenGroups b) :=
  groupsEquiv_flatten a b (assertGrouped_sound le a b h)

/-! ### the code between the two grouped `fix:` commits (position-wise comparison after the sort) -/

/-- what that code computed, for ALL inputs: after the stable sort by key the two sides have the same
    length and, position by position, the same key and the same multiset of values. -/
theorem legacy_assertGroupedPos_iff_sorted (le : κ → κ → Bool) (a b : List (κ × List α)) :
    Legacy.assertGroupedPos le a b = true ↔
      ((sortByKey le a).length = (sortByKey le b).length ∧
        ∀ p ∈ (sortByKey le a).zip (sortByKey le b), p.1.1 = p.2.1 ∧ p.1.2.Perm p.2.2) := by
  simp only [Legacy.assertGroupedPos]
  rw [Bool.and_eq_true, beq_iff_eq, List.all_eq_true]
  constructor
  · rintro ⟨hl, h⟩
    exact ⟨hl, fun p hp => (groupTest_iff p.1 p.2).mp (h p hp)⟩
  · rintro ⟨hl, h⟩
    exact ⟨hl, fun p hp => (groupTest_iff p.1 p.2).mpr (h p hp)⟩

/-- it was sound (whatever it accepted is equal as a multiset of groups, so the current code accepts
    it too: the repair only widened acceptance, `assertGrouped_of_legacyPos`) … -/
theorem legacy_assertGroupedPos_sound (le : κ → κ → Bool) (a b : List (κ × List α))
    (h : Legacy.assertGroupedPos le a b = true) : GroupsEquiv a b := by
  obtain ⟨hl, hz⟩ := (legacy_assertGroupedPos_iff_sorted le a b).mp h
  have hp : (sortByKey le a).Perm a := sortByKey_perm le a
  have hq : (a.map qrow).Perm (b.map qrow) :=
    (hp.map qrow).symm.trans
      (((map_qrow_eq_iff_zip _ _).mpr ⟨hl, hz⟩) ▸ (sortByKey_perm le b).map qrow)
  exact (perm_map_qrow_iff a b).mp hq

theorem assertGrouped_of_legacyPos (le : κ → κ → Bool)
    (trans : ∀ a b c, le a b → le b c → le a c) (total : ∀ a b, le a b || le b a)
    (antisymm : ∀ a b, le a b → le b a → a = b) (a b : List (κ × List α))
    (h : Legacy.assertGroupedPos le a b = true) : assertGrouped le a b = true :=
  assertGrouped_complete_groups le trans total antisymm a b (legacy_assertGroupedPos_sound le a b h)

/-- … and complete for the property's right-hand side: the same multiset of keys and, per key, the
    same multiset of values ⇒ accepted (all inputs, no distinctness needed). -/
theorem legacy_assertGroupedPos_complete (le : κ → κ → Bool)
    (trans : ∀ a b c, le a b → le b c → le a c) (total : ∀ a b, le a b || le b a)
    (antisymm : ∀ a b, le a b → le b a → a = b) (a b : List (κ × List α))
    (hk : (a.map Prod.fst).Perm (b.map Prod.fst))
    (hv : ∀ k vs ws, (k, vs) ∈ a → (k, ws) ∈ b → vs.Perm ws) :
    Legacy.assertGroupedPos le a b = true := by
  rw [legacy_assertGroupedPos_iff_sorted]
  have hpa := sortByKey_perm le a
  have hpb := sortByKey_perm le b
  have hkeys : (sortByKey le a).map Prod.fst = (sortByKey le b).map Prod.fst :=
    keys_eq_of_sorted_of_perm le antisymm _ _ (sortByKey_sorted le trans total a)
      (sortByKey_sorted le trans total b)
      ((hpa.map Prod.fst).trans (hk.trans (hpb.map Prod.fst).symm))
  obtain ⟨hl, hz⟩ := (map_fst_eq_iff_zip _ _).mp hkeys
  refine ⟨hl, fun p hp => ⟨hz p hp, ?_⟩⟩
  have hm := List.of_mem_zip hp
  have h1 : (p.1.1, p.1.2) ∈ a := hpa.mem_iff.mp hm.1
  have h2 : (p.1.1, p.2.2) ∈ b := by
    have : p.2 ∈ b := hpb.mem_iff.mp hm.2
    rw [hz p hp]; exact this
  exact hv _ _ _ h1 h2

/-- … but NOT complete for multiset equality of groups: with a repeated key the stable sort leaves that
    key's groups in input order and they were compared position by position (replayed on the real
    code before the fix: it panicked). -/
theorem legacy_groupedPos_rejects_repeated_key :
    Legacy.assertGroupedPos leNat [(0, [1]), (0, [2])] [(0, [2]), (0, [1])] = false ∧
      ([(0, [1]), (0, [2])] : List (Nat × List Nat)).Perm [(0, [2]), (0, [1])] := by
  constructor
  · simp only [Legacy.assertGroupedPos]
    rw [sortByKey_of_sorted leNat _ (by decide), sortByKey_of_sorted leNat _ (by decide)]
    decide
  · exact List.Perm.swap _ _ _

/-- witness: the input that the previous code rejected is accepted now -/
theorem assertGrouped_accepts_repeated_key :
    assertGrouped leNat [(0, [1]), (0, [2])] [(0, [2]), (0, [1])] = true :=
  assertGrouped_accepts_perm leNat leNat_order.1 leNat_order.2.1 leNat_order.2.2 _ _
    (List.Perm.swap _ _ _)

/-- witness: with a repeated key, the same keys and the same flattened rows are NOT enough — the
    groups themselves must agree (`[1,2]`,`[]` against `[1]`,`[2]`) -/
theorem assertGrouped_rejects_regrouped :
    assertGrouped leNat [(0, [1, 2]), (0, [])] [(0, [1]), (0, [2])] = false ∧
      (flattenGroups [(0, [1, 2]), (0, ([] : List Nat))]).Perm (flattenGroups [(0, [1]), (0, [2])]) := by
  constructor
  · simp only [assertGrouped]
    rw [sortByKey_of_sorted leNat _ (by decide), sortByKey_of_sorted leNat _ (by decide)]
    decide
  · exact List.Perm.refl _

/-! ### grouped data (keys pairwise distinct): the property's own right-hand side -/

/-- the same multiset of keys and, per key, the same multiset of values ⇒ equal as multisets of
    groups (all inputs, no distinctness and no key order needed) -/
theorem groupsEquiv_of_keys_values : ∀ (a b : List (κ × List α)),
    (a.map Prod.fst).Perm (b.map Prod.fst) →
    (∀ k vs ws, (k, vs) ∈ a → (k, ws) ∈ b → vs.Perm ws) → GroupsEquiv a b
  | [], b, hk, _ => by
    have : b = [] := by simpa using hk.symm.eq_nil
    subst this; exact ⟨[], List.Perm.refl _, rfl, by simp⟩
  | (k, vs) :: a, b, hk, hv => by
    have hkb : k ∈ b.map Prod.fst := hk.mem_iff.mp (by simp)
    obtain ⟨⟨k', ws⟩, hmem, hk'⟩ := List.mem_map.mp hkb
    simp only at hk'; subst hk'
    have hb : b.Perm ((k', ws) :: b.erase (k', ws)) := List.perm_cons_erase hmem
    have hk2 : (a.map Prod.fst).Perm ((b.erase (k', ws)).map Prod.fst) := by
      have := hk.trans (hb.map Prod.fst)
      simp only [List.map_cons] at this
      exact this.cons_inv
    obtain ⟨b'', hp, hl, hz⟩ := groupsEquiv_of_keys_values a (b.erase (k', ws)) hk2
      (fun k vs ws h1 h2 => hv k vs ws (List.mem_cons_of_mem _ h1) (List.mem_of_mem_erase h2))
    refine ⟨(k', ws) :: b'', (hp.cons _).trans hb.symm, by simp [hl], ?_⟩
    intro p hp'
    simp only [List.zip_cons_cons, List.mem_cons] at hp'
    rcases hp' with rfl | hp'
    · exact ⟨rfl, hv k' vs ws (by simp) hmem⟩
    · exact hz p hp'

/-- C20 (grouped, completeness in the property's words — all inputs, no distinctness needed): the same
    multiset of keys and, per key, the same multiset of values ⇒ accepted. -/
theorem assertGrouped_complete (le : κ → κ → Bool)
    (trans : ∀ a b c, le a b → le b c → le a c) (total : ∀ a b, le a b || le b a)
    (antisymm : ∀ a b, le a b → le b a → a = b) (a b : List (κ × List α))
    (hk : (a.map Prod.fst).Perm (b.map Prod.fst))
    (hv : ∀ k vs ws, (k, vs) ∈ a → (k, ws) ∈ b → vs.Perm ws) :
    assertGrouped le a b = true :=
  assertGrouped_complete_groups le trans total antisymm a b (groupsEquiv_of_keys_values a b hk hv)

/-- for keys pairwise distinct on one side, "equal as multisets of groups" IS the property's
    right-hand side -/
theorem groupsEquiv_iff_of_nodup (a b : List (κ × List α))
    (hnd : (a.map Prod.fst).Nodup ∨ (b.map Prod.fst).Nodup) :
    GroupsEquiv a b ↔
      ((a.map Prod.fst).Perm (b.map Prod.fst) ∧
        ∀ k vs ws, (k, vs) ∈ a → (k, ws) ∈ b → vs.Perm ws) :=
  ⟨fun h => ⟨groupsEquiv_keys a b h, groupsEquiv_values a b hnd h⟩,
   fun h => groupsEquiv_of_keys_values a b h.1 h.2⟩

/-- **C20 (grouped)**: for grouped data (keys pairwise distinct on a side) and any total, transitive,
    antisymmetric key order, the current `assert_grouped_kv_equal` returns **iff** both sides have the
    same keys and, per key, the same multiset of values. -/
theorem assertGrouped_iff (le : κ → κ → Bool)
    (trans : ∀ a b c, le a b → le b c → le a c) (total : ∀ a b, le a b || le b a)
    (antisymm : ∀ a b, le a b → le b a → a = b) (a b : List (κ × List α))
    (hnd : (a.map Prod.fst).Nodup ∨ (b.map Prod.fst).Nodup) :
    assertGrouped le a b = true ↔
      ((a.map Prod.fst).Perm (b.map Prod.fst) ∧
        ∀ k vs ws, (k, vs) ∈ a → (k, ws) ∈ b → vs.Perm ws) :=
  ⟨fun h => ⟨assertGrouped_sound_keys le a b h, assertGrouped_sound_values le a b hnd h⟩,
   fun h => assertGrouped_complete le trans total antisymm a b h.1 h.2⟩

/-- In particular it never accepts grouped collections in which a key's group differs only in how
    often a value occurs. -/
theorem assertGrouped_rejects_multiplicity (le : κ → κ → Bool) (a b : List (κ × List α))
    (hnd : (a.map Prod.fst).Nodup ∨ (b.map Prod.fst).Nodup) (k : κ) (vs ws : List α)
    (ha : (k, vs) ∈ a) (hb : (k, ws) ∈ b) (x : α) (hc : vs.count x ≠ ws.count x) :
    assertGrouped le a b = false := by
  cases h : assertGrouped le a b with
  | false => rfl
  | true =>
    exact absurd (List.perm_iff_count.mp (assertGrouped_sound_values le a b hnd h k vs ws ha hb) x) hc

/-- With a repeated key the right-hand side of `assertGrouped_iff` is no longer implied by acceptance
    (it is not the right specification there: it would relate *different* groups of the same key; the
    specification for all inputs is `GroupsEquiv`): the assertion accepts `a` against itself, as it must. -/
theorem assertGrouped_repeated_key_spec :
    assertGrouped leNat [(0, [1]), (0, [2])] [(0, [1]), (0, [2])] = true ∧
      ¬ (∀ k vs ws, (k, vs) ∈ ([(0, [1]), (0, [2])] : List (Nat × List Nat)) →
          (k, ws) ∈ ([(0, [1]), (0, [2])] : List (Nat × List Nat)) → vs.Perm ws) := by
  constructor
  · exact assertGrouped_accepts_perm leNat leNat_order.1 leNat_order.2.1 leNat_order.2.2 _ _
      (List.Perm.refl _)
  · intro h
    have := h 0 [1] [2] (by simp) (by simp)
    simp at this

/-! ### the code before the first `fix:` commit (values compared as sets) -/

/-- pinned-commit version accepted groups that differ only in multiplicities -/
theorem legacy_assertGrouped_unsound :
    Legacy.assertGrouped leNat [(0, [1, 1])] [(0, [1])] = true := by
  simp [Legacy.assertGrouped, sortByKey, setEq, subsetB]

/-- the current version rejects those witnesses (instances of `assertGrouped_rejects_multiplicity`) -/
theorem assertGrouped_rejects_witness :
    assertGrouped leNat [(0, [1, 1])] [(0, [1])] = false ∧
    assertGrouped leNat [(0, [1, 1, 2])] [(0, [1, 2, 2])] = false :=
  ⟨assertGrouped_rejects_multiplicity leNat _ _ (Or.inl (by decide)) 0 [1, 1] [1] (by simp) (by simp) 1
      (by decide),
   assertGrouped_rejects_multiplicity leNat _ _ (Or.inl (by decide)) 0 [1, 1, 2] [1, 2, 2] (by simp)
      (by simp) 1 (by decide)⟩

/-! ## maps (`assert_maps_equal`; a map = the list of its entries, keys pairwise distinct) -/

/-- **C20 (maps)**: `assert_maps_equal` returns **iff** the two maps have the same entries (equal as
    multisets of entries = equal as sets of entries, the keys being pairwise distinct). -/
theorem assertMaps_iff (a e : List (κ × α)) (hna : (a.map Prod.fst).Nodup)
    (hne : (e.map Prod.fst).Nodup) : assertMaps a e = true ↔ a.Perm e := by
  simp only [assertMaps, Bool.and_eq_true, beq_iff_eq, List.all_eq_true]
  constructor
  · rintro ⟨hl, h⟩
    refine perm_of_subset_of_length_eq e a (nodup_of_nodup_keys e hne) ?_ hl
    rintro ⟨k, v⟩ hkv
    have := h (k, v) hkv
    simp only at this
    cases hlk : a.lookup k with
    | none => rw [hlk] at this; simp at this
    | some v' =>
      rw [hlk] at this
      have hv : v' = v := by simpa using this
      subst hv
      exact (lookup_eq_some_iff_mem a hna k v').mp hlk
  · intro hp
    refine ⟨hp.length_eq, ?_⟩
    rintro ⟨k, v⟩ hkv
    have : a.lookup k = some v := (lookup_eq_some_iff_mem a hna k v).mpr (hp.mem_iff.mpr hkv)
    simp [this]

/-- the same, as extensional equality of the two maps -/
theorem assertMaps_iff_lookup (a e : List (κ × α)) (hna : (a.map Prod.fst).Nodup)
    (hne : (e.map Prod.fst).Nodup) : assertMaps a e = true ↔ ∀ k, a.lookup k = e.lookup k := by
  rw [assertMaps_iff a e hna hne,
    List.perm_ext_iff_of_nodup (nodup_of_nodup_keys a hna) (nodup_of_nodup_keys e hne)]
  constructor
  · intro h k
    apply Option.ext
    intro v
    rw [lookup_eq_some_iff_mem a hna, lookup_eq_some_iff_mem e hne]
    exact h (k, v)
  · rintro h ⟨k, v⟩
    rw [← lookup_eq_some_iff_mem a hna, ← lookup_eq_some_iff_mem e hne, h k]

/-- the answer does not depend on the (arbitrary) iteration order of either hash map -/
theorem assertMaps_perm (a a' e e' : List (κ × α)) (hna : (a.map Prod.fst).Nodup)
    (hne : (e.map Prod.fst).Nodup) (ha : a.Perm a') (he : e.Perm e') :
    assertMaps a e = assertMaps a' e' := by
  have hna' : (a'.map Prod.fst).Nodup := (ha.map Prod.fst).nodup_iff.mp hna
  have hne' : (e'.map Prod.fst).Nodup := (he.map Prod.fst).nodup_iff.mp hne
  rw [Bool.eq_iff_iff, assertMaps_iff a e hna hne, assertMaps_iff a' e' hna' hne']
  exact ⟨fun h => ha.symm.trans (h.trans he), fun h => ha.trans (h.trans he.symm)⟩

/-- the hypotheses of `assertMaps_iff` hold for every map built by `insert` calls … -/
theorem mkMap_keys_nodup (rows : List (κ × α)) : ((mkMap rows).map Prod.fst).Nodup :=
  foldl_insertKV_nodup rows [] List.nodup_nil

/-- … which holds, for every key, the LAST value inserted for it -/
theorem mkMap_lookup (rows : List (κ × α)) (k : κ) :
    (mkMap rows).lookup k = rows.reverse.lookup k := by
  simp [mkMap, foldl_insertKV_lookup]

/-- what the driver evaluates: two maps given by their insert sequences are accepted iff every key
    ends up with the same value (or is absent) on both sides -/
theorem assertMaps_mkMap_iff (a b : List (κ × α)) :
    assertMaps (mkMap a) (mkMap b) = true ↔ ∀ k, a.reverse.lookup k = b.reverse.lookup k := by
  rw [assertMaps_iff_lookup _ _ (mkMap_keys_nodup a) (mkMap_keys_nodup b)]
  simp only [mkMap_lookup]

/-- witnesses: a differing value, a missing key and an extra key are rejected; insertion order and
    overwritten entries do not matter -/
theorem assertMaps_witnesses :
    assertMaps (mkMap [((1 : Int), (1 : Int)), (2, 2)]) (mkMap [(1, 1), (2, 3)]) = false ∧
    assertMaps (mkMap [((1 : Int), (1 : Int)), (2, 2)]) (mkMap [(1, 1), (3, 2)]) = false ∧
    assertMaps (mkMap [((1 : Int), (1 : Int)), (2, 2)]) (mkMap [(1, 1)]) = false ∧
    assertMaps (mkMap [((1 : Int), (0 : Int)), (2, 2), (1, 1)]) (mkMap [(2, 2), (1, 1)]) = true := by
  decide

/-! ## size, membership and predicate assertions -/

/-- `assert_collection_size` returns iff the collection has exactly that many elements -/
theorem assertSize_iff (c : List α) (n : Nat) : assertSize c n = true ↔ c.length = n := by
  simp [assertSize]

/-- `assert_contains` returns iff the element occurs in the collection -/
theorem assertContains_iff (c : List α) (x : α) : assertContains c x = true ↔ x ∈ c := by
  simp [assertContains]

/-- `assert_all` returns iff every element satisfies the predicate -/
theorem assertAll_iff (p : α → Bool) (c : List α) : assertAll p c = true ↔ ∀ x ∈ c, p x = true := by
  simp [assertAll]

/-- `assert_any` returns iff some element satisfies the predicate -/
theorem assertAny_iff (p : α → Bool) (c : List α) : assertAny p c = true ↔ ∃ x ∈ c, p x = true := by
  simp [assertAny]

/-- `assert_none` returns iff no element satisfies the predicate … -/
theorem assertNone_iff (p : α → Bool) (c : List α) : assertNone p c = true ↔ ∀ x ∈ c, p x = false := by
  simp [assertNone]

/-- … i.e. exactly when `assert_any` panics; and `assert_contains` is `assert_any` of `== x` -/
theorem assertNone_eq_not_any (p : α → Bool) (c : List α) : assertNone p c = !assertAny p c := by
  simp [assertNone, assertAny, List.all_eq_not_any_not]

theorem assertContains_eq_any (c : List α) (x : α) : assertContains c x = assertAny (· == x) c := by
  rw [Bool.eq_iff_iff, assertContains_iff, assertAny_iff]
  simp

/-- none of the five looks at the order of the elements -/
theorem assert_pred_perm (p : α → Bool) (a b : List α) (x : α) (n : Nat) (h : a.Perm b) :
    assertAll p a = assertAll p b ∧ assertAny p a = assertAny p b ∧ assertNone p a = assertNone p b ∧
      assertContains a x = assertContains b x ∧ assertSize a n = assertSize b n := by
  refine ⟨h.all_eq, h.any_eq, h.all_eq, ?_, ?_⟩
  · rw [Bool.eq_iff_iff, assertContains_iff, assertContains_iff]; exact h.mem_iff
  · simp [assertSize, h.length_eq]

/-! ## the instances the driver evaluates (`i64` keys as `Int`, order `leInt`) -/

theorem assertKv_leInt_iff (a b : List (Int × α)) : assertKv leInt a b = true ↔ a.Perm b :=
  assertKv_iff leInt leInt_order.1 leInt_order.2.1 leInt_order.2.2 a b

theorem assertGrouped_leInt_iff (a b : List (Int × List α)) :
    assertGrouped leInt a b = true ↔ GroupsEquiv a b :=
  assertGrouped_iff_groups leInt leInt_order.1 leInt_order.2.1 leInt_order.2.2 a b

/-! ## the other element / key types the driver evaluates (`struct P(i64, i64)`, `String`) -/

/-- derived `Ord` of `P` (lexicographic on `Int × Int`) is a total order -/
theorem lePair_order :
    (∀ a b c, lePair a b → lePair b c → lePair a c) ∧ (∀ a b, lePair a b || lePair b a) ∧
      (∀ a b, lePair a b → lePair b a → a = b) := by
  refine ⟨?_, ?_, ?_⟩
  · rintro ⟨a1, a2⟩ ⟨b1, b2⟩ ⟨c1, c2⟩ h1 h2
    simp only [lePair, decide_eq_true_eq] at *; omega
  · rintro ⟨a1, a2⟩ ⟨b1, b2⟩
    simp only [lePair, Bool.or_eq_true, decide_eq_true_eq]; omega
  · rintro ⟨a1, a2⟩ ⟨b1, b2⟩ h1 h2
    simp only [lePair, decide_eq_true_eq] at *
    have : a1 = b1 ∧ a2 = b2 := by omega
    rw [this.1, this.2]

/-- `Ord` of `String` is a total order -/
theorem leStr_order :
    (∀ a b c, leStr a b → leStr b c → leStr a c) ∧ (∀ a b, leStr a b || leStr b a) ∧
      (∀ a b, leStr a b → leStr b a → a = b) := by
  refine ⟨?_, ?_, ?_⟩
  · intro a b c h1 h2; simp only [leStr, decide_eq_true_eq] at *; exact String.le_trans h1 h2
  · intro a b; simp only [leStr, Bool.or_eq_true, decide_eq_true_eq]; exact String.le_total a b
  · intro a b h1 h2; simp only [leStr, decide_eq_true_eq] at *; exact String.le_antisymm h1 h2

/-- the embedding of the request's integers into `P` is injective and monotone (so the harness may
    compute its reference verdicts on the integers) -/
theorem embP_injective (x y : Int) (h : embP x = embP y) : x = y := by
  simp only [embP, Prod.mk.injEq] at h; omega

theorem embP_mono (x y : Int) : lePair (embP x) (embP y) = leInt x y := by
  simp only [lePair, embP, leInt]
  apply decide_eq_decide.mpr
  omega

theorem assertKv_lePair_iff (a b : List ((Int × Int) × α)) : assertKv lePair a b = true ↔ a.Perm b :=
  assertKv_iff lePair lePair_order.1 lePair_order.2.1 lePair_order.2.2 a b

theorem assertKv_leStr_iff (a b : List (String × α)) : assertKv leStr a b = true ↔ a.Perm b :=
  assertKv_iff leStr leStr_order.1 leStr_order.2.1 leStr_order.2.2 a b

theorem assertGrouped_lePair_iff (a b : List ((Int × Int) × List α)) :
    assertGrouped lePair a b = true ↔ GroupsEquiv a b :=
  assertGrouped_iff_groups lePair lePair_order.1 lePair_order.2.1 lePair_order.2.2 a b

theorem assertGrouped_leStr_iff (a b : List (String × List α)) :
    assertGrouped leStr a b = true ↔ GroupsEquiv a b :=
  assertGrouped_iff_groups leStr leStr_order.1 leStr_order.2.1 leStr_order.2.2 a b

/-! ## the file assertions (`assert_jsonl_equals`, `assert_csv_equals`; `src/testing/mock_io.rs`) -/

section files
variable {L : Type}

/-- `assert_jsonl_equals` IS the ordered assertion applied to what `read_jsonl_output` returns
    (a reader error panics) -/
theorem assertJsonl_eq (isBlank : L → Bool) (parse : L → Option α) (file : Option (List L))
    (expected : List α) :
    assertJsonl isBlank parse file expected =
      match file.bind (readJsonl isBlank parse) with
      | none => false
      | some actual => assertEqual actual expected := by
  unfold assertJsonl assertEqual; rfl

/-- **C20 (ordered, JSONL file)**: `assert_jsonl_equals` returns **iff** the file can be opened, every
    non-blank line parses, and the parsed records — in file order — are exactly `expected`. -/
theorem assertJsonl_iff (isBlank : L → Bool) (parse : L → Option α) (file : Option (List L))
    (expected : List α) :
    assertJsonl isBlank parse file expected = true ↔
      ∃ lines, file = some lines ∧
        (lines.filter (fun l => !isBlank l)).map parse = expected.map some := by
  rw [assertJsonl_eq]
  cases file with
  | none => simp
  | some lines =>
    simp only [Option.bind_some, Option.some.injEq, exists_eq_left']
    rw [← parseAll_eq_some_iff, ← readJsonl_eq_parseAll_filter]
    cases h : readJsonl isBlank parse lines with
    | none => simp
    | some actual => simp [assertEqual_iff]

/-- what `mock_jsonl_file(data)` writes (one line per record, `parse ∘ ser = some`, no record
    serialises to a blank line), possibly interleaved with blank lines, is accepted iff `data = expected` -/
theorem assertJsonl_mock_iff (isBlank : L → Bool) (parse : L → Option α) (ser : α → L)
    (hb : ∀ x, isBlank (ser x) = false) (hp : ∀ x, parse (ser x) = some x) (data expected : List α) :
    assertJsonl isBlank parse (some (data.map ser)) expected = true ↔ data = expected := by
  rw [assertJsonl_iff]
  simp only [Option.some.injEq, exists_eq_left']
  have hf : (data.map ser).filter (fun l => !isBlank l) = data.map ser := by
    apply List.filter_eq_self.mpr
    intro l hl
    obtain ⟨x, _, rfl⟩ := List.mem_map.mp hl
    simp [hb]
  rw [hf, ← parseAll_eq_some_iff, parseAll_map_ser parse ser hp]
  simp

/-- a file that cannot be opened is rejected -/
theorem assertJsonl_missing (isBlank : L → Bool) (parse : L → Option α) (expected : List α) :
    assertJsonl isBlank parse none expected = false := rfl

/-- a non-blank line that does not parse makes the assertion panic, whatever `expected` is -/
theorem assertJsonl_bad_line (isBlank : L → Bool) (parse : L → Option α) (lines : List L)
    (expected : List α) (l : L) (hl : l ∈ lines) (hb : isBlank l = false) (hp : parse l = none) :
    assertJsonl isBlank parse (some lines) expected = false := by
  cases h : assertJsonl isBlank parse (some lines) expected with
  | false => rfl
  | true =>
    obtain ⟨ls, hls, hm⟩ := (assertJsonl_iff isBlank parse _ expected).mp h
    cases hls
    have : parse l ∈ (lines.filter (fun l => !isBlank l)).map parse :=
      List.mem_map.mpr ⟨l, List.mem_filter.mpr ⟨hl, by simp [hb]⟩, rfl⟩
    rw [hm, hp] at this
    simp at this

/-- In particular a file holding a different NUMBER of records is rejected: a proper prefix of
    `expected`, or `expected` followed by further records, never passes (the length check cannot be
    left to `zip`, which stops at the shorter side). -/
theorem assertJsonl_rejects_length (isBlank : L → Bool) (parse : L → Option α) (lines : List L)
    (actual expected : List α) (hr : readJsonl isBlank parse lines = some actual)
    (hlen : actual.length ≠ expected.length) :
    assertJsonl isBlank parse (some lines) expected = false := by
  rw [assertJsonl_eq]
  simp only [Option.bind_some, hr]
  cases h : assertEqual actual expected with
  | false => rfl
  | true => exact absurd (congrArg List.length ((assertEqual_iff _ _).mp h)) hlen

/-- `assert_csv_equals` IS the ordered assertion applied to what `read_csv_output` returns
    (a reader error panics) -/
theorem assertCsv_eq (isEmpty : L → Bool) (parse : L → L → Option α) (file : Option (List L))
    (expected : List α) :
    assertCsv isEmpty parse file expected =
      match file.bind (readCsv isEmpty parse) with
      | none => false
      | some actual => assertEqual actual expected := by
  unfold assertCsv assertEqual; rfl

/-- **C20 (ordered, CSV file)**: `assert_csv_equals` returns **iff** the file can be opened and either
    it has no non-empty line and `expected` is empty, or its first non-empty line is taken as the header
    row and every further non-empty line deserialises against it, to exactly `expected`, in file order. -/
theorem assertCsv_iff (isEmpty : L → Bool) (parse : L → L → Option α) (file : Option (List L))
    (expected : List α) :
    assertCsv isEmpty parse file expected = true ↔
      ∃ lines, file = some lines ∧
        ((lines.filter (fun l => !isEmpty l) = [] ∧ expected = []) ∨
         ∃ hdr rows, lines.filter (fun l => !isEmpty l) = hdr :: rows ∧
           rows.map (parse hdr) = expected.map some) := by
  rw [assertCsv_eq]
  cases file with
  | none => simp
  | some lines =>
    simp only [Option.bind_some, Option.some.injEq, exists_eq_left', readCsv]
    cases hf : lines.filter (fun l => !isEmpty l) with
    | nil =>
      simp only [assertEqual_iff, true_and, reduceCtorEq, false_and, exists_false, or_false]
      exact eq_comm
    | cons hdr rows =>
      simp only [reduceCtorEq, false_and, List.cons.injEq, false_or]
      cases h : parseAll (parse hdr) rows with
      | none =>
        simp only [Bool.false_eq_true, false_iff, not_exists, not_and]
        rintro h' r' ⟨rfl, rfl⟩ hm
        rw [← parseAll_eq_some_iff, h] at hm
        cases hm
      | some actual =>
        simp only [assertEqual_iff]
        constructor
        · rintro rfl; exact ⟨hdr, rows, ⟨rfl, rfl⟩, (parseAll_eq_some_iff _ _ _).mp h⟩
        · rintro ⟨h', r', ⟨rfl, rfl⟩, hm⟩
          rw [← parseAll_eq_some_iff, h] at hm
          exact Option.some.inj hm

/-- what `mock_csv_file(data, _)` writes — a header row, then one line per record, none of them
    empty, `parse hdr ∘ ser = some` — is accepted iff `data = expected` -/
theorem assertCsv_mock_iff (isEmpty : L → Bool) (parse : L → L → Option α) (hdr : L) (ser : α → L)
    (hh : isEmpty hdr = false) (hb : ∀ x, isEmpty (ser x) = false)
    (hp : ∀ x, parse hdr (ser x) = some x) (data expected : List α) :
    assertCsv isEmpty parse (some (hdr :: data.map ser)) expected = true ↔ data = expected := by
  rw [assertCsv_eq]
  have hf : (hdr :: data.map ser).filter (fun l => !isEmpty l) = hdr :: data.map ser := by
    apply List.filter_eq_self.mpr
    intro l hl
    rcases List.mem_cons.mp hl with rfl | hl
    · simp [hh]
    · obtain ⟨x, _, rfl⟩ := List.mem_map.mp hl
      simp [hb]
  simp only [Option.bind_some, readCsv, hf, parseAll_map_ser (parse hdr) ser hp, assertEqual_iff]

theorem assertCsv_missing (isEmpty : L → Bool) (parse : L → L → Option α) (expected : List α) :
    assertCsv isEmpty parse none expected = false := rfl

/-- a different NUMBER of records is rejected (cf. `assertJsonl_rejects_length`) -/
theorem assertCsv_rejects_length (isEmpty : L → Bool) (parse : L → L → Option α) (lines : List L)
    (actual expected : List α) (hr : readCsv isEmpty parse lines = some actual)
    (hlen : actual.length ≠ expected.length) :
    assertCsv isEmpty parse (some lines) expected = false := by
  rw [assertCsv_eq]
  simp only [Option.bind_some, hr]
  cases h : assertEqual actual expected with
  | false => rfl
  | true => exact absurd (congrArg List.length ((assertEqual_iff _ _).mp h)) hlen

/-- the line classes of the driver satisfy the hypotheses of the two `mock` theorems -/
theorem jline_lawful :
    (∀ x : Int × Int, JLine.isBlank (JLine.record x.1 x.2) = false) ∧
      (∀ x : Int × Int, JLine.parse (JLine.record x.1 x.2) = some x) := ⟨fun _ => rfl, fun _ => rfl⟩

theorem cline_lawful :
    CLine.isEmpty CLine.hdr = false ∧ (∀ x : Int × Int, CLine.isEmpty (CLine.row x.1 x.2) = false) ∧
      (∀ x : Int × Int, CLine.parse CLine.hdr (CLine.row x.1 x.2) = some x) ∧
      (∀ x : Int × Int, CLine.parse CLine.hdrSwapped (CLine.row x.2 x.1) = some x) :=
  ⟨rfl, fun _ => rfl, fun _ => rfl, fun _ => rfl⟩

/-- witnesses (JSONL): equal file, blank lines ignored; proper prefix, extension, one record changed,
    a bad line, the empty file against a non-empty expectation — all rejected -/
theorem assertJsonl_witnesses :
    let A := assertJsonl JLine.isBlank JLine.parse
    A (some [.record 1 2, .blank, .record 3 4]) [(1, 2), (3, 4)] = true ∧
    A (some [.record 1 2]) [(1, 2), (3, 4)] = false ∧
    A (some [.record 1 2, .record 3 4, .record 5 6]) [(1, 2), (3, 4)] = false ∧
    A (some [.record 1 2, .record 3 5]) [(1, 2), (3, 4)] = false ∧
    A (some [.record 1 2, .bad, .record 3 4]) [(1, 2), (3, 4)] = false ∧
    A (some []) [(1, 2)] = false ∧ A (some [.blank]) [] = true ∧ A none [] = false := by
  decide

theorem assertCsv_witnesses :
    let A := assertCsv CLine.isEmpty CLine.parse
    A (some [.hdr, .row 1 2, .empty, .row 3 4]) [(1, 2), (3, 4)] = true ∧
    A (some [.hdrSwapped, .row 2 1, .row 4 3]) [(1, 2), (3, 4)] = true ∧
    A (some [.hdr, .row 1 2]) [(1, 2), (3, 4)] = false ∧
    A (some [.hdr, .row 1 2, .row 3 4, .row 5 6]) [(1, 2), (3, 4)] = false ∧
    A (some [.hdr, .row 1 2, .row 3 5]) [(1, 2), (3, 4)] = false ∧
    A (some [.hdr, .row 1 2, .bad]) [(1, 2)] = false ∧
    A (some [.row 1 2, .row 3 4]) [(1, 2), (3, 4)] = false ∧
    A (some [.row 1 2]) [] = true ∧
    A (some []) [] = true ∧ A (some [.hdr]) [(1, 2)] = false ∧ A none [] = false := by
  decide
end files

/-! ## non-vacuity: concrete non-trivial inputs satisfy the hypotheses and both sides of the iffs -/

/-- `assertGrouped_iff_groups` with a repeated key on both sides: the groups of key 0 are listed in
    a different relative order and with their values permuted (true ↔ true) -/
example :
    let a : List (Int × List Int) := [(0, [1, 2]), (1, [7]), (0, [3])]
    let b : List (Int × List Int) := [(0, [3]), (0, [2, 1]), (1, [7])]
    assertGrouped leInt a b = true ∧ GroupsEquiv a b := by
  intro a b
  have hg : GroupsEquiv a b := by
    refine ⟨[(0, [2, 1]), (1, [7]), (0, [3])], ?_, rfl, ?_⟩
    · exact ((List.Perm.swap _ _ _).trans ((List.Perm.swap _ _ _).cons _)).symm
    · intro p hp
      simp only [a, List.zip_cons_cons, List.zip_nil_right, List.mem_cons, List.mem_nil_iff,
        or_false] at hp
      rcases hp with rfl | rfl | rfl
      · exact ⟨rfl, List.Perm.swap _ _ _⟩
      · exact ⟨rfl, List.Perm.refl _⟩
      · exact ⟨rfl, List.Perm.refl _⟩
  exact ⟨(assertGrouped_leInt_iff a b).mpr hg, hg⟩

/-- `assertMaps_iff`: hypotheses and both sides for two maps listed in different entry orders -/
example :
    let a : List (Int × Int) := [(1, 10), (2, 20), (3, 30)]
    let e : List (Int × Int) := [(3, 30), (1, 10), (2, 20)]
    (a.map Prod.fst).Nodup ∧ (e.map Prod.fst).Nodup ∧ assertMaps a e = true := by
  decide


/-- `assertKv_iff`: repeated key, rows of that key in a different relative order (true ↔ true) -/
example : assertKv leNat [(2, 5), (1, 7), (1, 8)] [(1, 8), (1, 7), (2, 5)] = true ∧
    ([(2, 5), (1, 7), (1, 8)] : List (Nat × Nat)).Perm [(1, 8), (1, 7), (2, 5)] := by
  have hp : ([(2, 5), (1, 7), (1, 8)] : List (Nat × Nat)).Perm [(1, 8), (1, 7), (2, 5)] :=
    List.perm_iff_count.mpr (by
      intro x
      simp only [List.count_cons, List.count_nil]
      by_cases h1 : (2, 5) = x <;> by_cases h2 : (1, 7) = x <;> by_cases h3 : (1, 8) = x <;>
        simp [h1, h2, h3])
  exact ⟨(assertKv_iff leNat leNat_order.1 leNat_order.2.1 leNat_order.2.2 _ _).mpr hp, hp⟩

/-- `assertGrouped_iff`: hypotheses (distinct keys on both sides) and the right-hand side hold for
    a two-key input whose groups are permuted and listed in a different key order. -/
example :
    let a : List (Nat × List Nat) := [(2, [5, 6, 5]), (1, [7])]
    let b : List (Nat × List Nat) := [(1, [7]), (2, [6, 5, 5])]
    (a.map Prod.fst).Nodup ∧ (b.map Prod.fst).Nodup ∧ assertGrouped leNat a b = true := by
  intro a b
  refine ⟨by decide, by decide, ?_⟩
  apply assertGrouped_complete leNat leNat_order.1 leNat_order.2.1 leNat_order.2.2
  · exact List.Perm.swap _ _ _
  · intro k vs ws ha hb
    simp only [a, b, List.mem_cons, Prod.mk.injEq, List.mem_nil_iff, or_false] at ha hb
    rcases ha with ⟨rfl, rfl⟩ | ⟨rfl, rfl⟩ <;> rcases hb with ⟨h, rfl⟩ | ⟨h, rfl⟩
    · omega
    · exact List.Perm.swap 6 5 [5]
    · exact List.Perm.refl _
    · omega

end IB.Assertions
