import IbModel.Generated.Kernels
import IbModel.Model.Checkpoint
/-!
# C11 — kernel ties (translator route)

Tied here (`checkpoint.rs::CheckpointManager::should_checkpoint`): the `!self.config.enabled` exit and the four policy
arms — `AfterEveryBarrier => is_barrier`, `EveryNNodes(n) => node_index > 0 && node_index.is_multiple_of(n)`
(`is_multiple_of` is translated to `% n == 0`, which is also right for `n = 0`), the `elapsed >= Duration::from_secs(secs)`
comparison inside `TimeInterval` and inside `Hybrid` (durations are the `Nat` parameters `elapsed`, `interval`; the model
counts nanoseconds), `Hybrid`'s `barriers && is_barrier` and `should_by_barrier || should_by_time`
↔ `Checkpoint.shouldCheckpoint` / `timeDue`.

Not tied: `SystemTime::now()`, `duration_since` (`l ≤ now` in the model: an `Err` for a clock that went backwards) and
`is_none_or` (closures over std types); the `f64` progress percentage of `runner.rs` (floats are not translated).
-/
set_option autoImplicit false
namespace IB.KTies.C11
open IB.Generated IB.Checkpoint

theorem k_ckpt_should_disabled : ∀ enabled : Bool, K.ckpt_should_disabled enabled = !enabled := by intros; rfl

theorem k_ckpt_should_barrier : ∀ isBarrier : Bool, K.ckpt_should_barrier isBarrier = isBarrier := by intros; rfl

theorem k_ckpt_should_every_n : ∀ nodeIndex n : Nat,
    K.ckpt_should_every_n nodeIndex n = (decide (nodeIndex > 0) && nodeIndex % n == 0) := by intros; rfl

theorem k_ckpt_should_time_due : ∀ elapsed interval : Nat,
    K.ckpt_should_time_due elapsed interval = decide (interval ≤ elapsed) := by intros; rfl

theorem k_ckpt_should_hybrid_time_due : ∀ elapsed interval : Nat,
    K.ckpt_should_hybrid_time_due elapsed interval = decide (interval ≤ elapsed) := by intros; rfl

theorem k_ckpt_should_hybrid_barrier : ∀ barriers isBarrier : Bool,
    K.ckpt_should_hybrid_barrier barriers isBarrier = (barriers && isBarrier) := by intros; rfl

theorem k_ckpt_should_hybrid : ∀ byBarrier byTime : Bool, K.ckpt_should_hybrid byBarrier byTime = (byBarrier || byTime) := by
  intros; rfl

theorem k_time_due_model : ∀ (last : Option Nat) (now secs : Nat),
    timeDue last now secs = match last with
      | none => true
      | some l => decide (l ≤ now) && K.ckpt_should_time_due (now - l) (secs * 1000000000) := by
  intro last now secs; cases last <;> rfl

theorem k_should_checkpoint_model : ∀ (enabled : Bool) (policy : Policy) (last : Option Nat) (now nodeIndex : Nat)
    (isBarrier : Bool),
    shouldCheckpoint enabled policy last now nodeIndex isBarrier =
      if K.ckpt_should_disabled enabled then false
      else match policy with
        | .afterEveryBarrier => K.ckpt_should_barrier isBarrier
        | .everyNNodes n => K.ckpt_should_every_n nodeIndex n
        | .timeInterval secs => timeDue last now secs
        | .hybrid barriers secs =>
          K.ckpt_should_hybrid (K.ckpt_should_hybrid_barrier barriers isBarrier)
            (match last with
             | none => true
             | some l => decide (l ≤ now) && K.ckpt_should_hybrid_time_due (now - l) (secs * 1000000000)) := by
  intro enabled policy last now nodeIndex isBarrier
  cases enabled <;> cases policy <;> cases last <;> rfl

end IB.KTies.C11
