import IbModel.Model.Io
import IbModel.Proofs.Io
/-!
# C09 — file I/O round-trips; sharded, streamed and parallel paths equal the plain ones

Property theorems about the model in `Model/Io.lean` (a transliteration of `io/jsonl.rs`,
`io/csv.rs`, `io/parquet.rs`, `io/glob.rs`, the file-source `VecOps` and the way `runner.rs`
consumes a source). Helper lemmas live in `Proofs/Io.lean`.

Conventions. `Chain a b rs` (defined in `Proofs/Io.lean`) says that the half-open ranges `rs` are
contiguous and in order, the first starts at `a`, the last ends at `b`. `Option`: `none` = the
Rust call returns `Err` (readers) or panics (slice indexing in the writers).
The third-party serialisers are parameters (`ser`, `de`, `blank`); what is assumed about them is
a hypothesis of the theorem that needs it.
-/
namespace IB.Io

/-! ## 1. The shard ranges tile the file — for EVERY shard size (0 is clamped to 1, sizes > total) -/

/-- `build_jsonl_shards` / `build_csv_shards`: the ranges are contiguous from 0 to `total`,
    each is non-empty, and together they enumerate every line index exactly once, in order. -/
theorem ranges_tile (total per : Nat) :
    Chain 0 total (mkRanges total per) ∧
    (∀ r ∈ mkRanges total per, r.1 < r.2) ∧
    (mkRanges total per).flatMap (fun r => List.range' r.1 (r.2 - r.1)) = List.range total := by
  refine ⟨mkRanges_chain total per, mkRanges_nonempty total per, ?_⟩
  rw [(mkRanges_chain total per).cover, List.range_eq_range']
  rfl

/-- `build_parquet_shards`: the same for ranges of row-group indices. -/
theorem groupRanges_tile (numGroups per : Nat) :
    Chain 0 numGroups (mkGroupRanges numGroups per) ∧
    (∀ r ∈ mkGroupRanges numGroups per, r.1 < r.2) ∧
    (mkGroupRanges numGroups per).flatMap (fun r => List.range' r.1 (r.2 - r.1)) =
      List.range numGroups := by
  have h := mkGroupRanges_chain numGroups per
  refine ⟨h.1, h.2, ?_⟩
  rw [h.1.cover, List.range_eq_range']
  rfl

/-- `split_ranges(len, parts)` (used by `write_csv_par`), for all `len`, `parts` (incl. 0 and
    `parts > len`): contiguous from 0 to `len`, non-empty, every row index exactly once. -/
theorem splitRanges_tile (len parts : Nat) :
    Chain 0 len ((splitRanges len parts).map (·.2)) ∧
    (∀ x ∈ splitRanges len parts, x.2.1 < x.2.2) ∧
    ((splitRanges len parts).map (·.2)).flatMap (fun r => List.range' r.1 (r.2 - r.1)) =
      List.range len := by
  have h := splitRanges_spec len parts
  refine ⟨h.1, h.2, ?_⟩
  rw [h.1.cover, List.range_eq_range']
  rfl

/-! ## 2. Streamed (sharded) reads equal the whole read, in both execution modes -/

section readers
variable {Line Rec : Type} (blank : Line → Bool) (de : Line → Option Rec)

/-- `clone_any` (what `exec_seq` uses) reads exactly what `read_*_vec` reads. -/
theorem seqView_eq_readAll (ls : List Line) : seqView blank de ls = readAll blank de ls := by
  unfold seqView readRange
  exact readRangeFrom_eq_readAll blank de ls.length ls 0 (by omega)

/-- Concatenating the per-shard reads (`VecOps::split`) = reading the whole file, for every file
    content (blank lines, unparsable lines) and every shard size; failures included (some shard
    fails iff the whole read fails). -/
theorem streamed_eq_whole (ls : List Line) (per : Nat) :
    (splitView blank de ls per).map List.flatten = readAll blank de ls := by
  unfold splitView
  rw [readRange_chain blank de ls (mkRanges_chain ls.length per)]
  exact seqView_eq_readAll blank de ls

/-- The sequential source view (`clone_any`) = the concatenation of the parallel split, including
    the zero-shard case of an empty file. This is the source contract `concat (split n) = whole`
    that C01's engine theorem needs, discharged for file sources. -/
theorem clone_any_eq_concat_split (ls : List Line) (per : Nat) :
    (splitView blank de ls per).map List.flatten = seqView blank de ls := by
  rw [streamed_eq_whole, seqView_eq_readAll]

/-- `collect_par` on a streaming source returns what `collect_seq` returns, for every shard size;
    when the file does not parse the sequential run returns `Err` and the parallel run panics
    (`expect("cloneable source")`) — never a silently different result. -/
theorem runPar_eq_runSeq (ls : List Line) (per : Nat) :
    runPar blank de ls per =
      match runSeq blank de ls with
      | .ok v => .ok v
      | .err => .panic
      | .panic => .panic := by
  have h := clone_any_eq_concat_split blank de ls per
  unfold runPar runSeq
  cases hs : splitView blank de ls per with
  | none => rw [hs] at h; simp only [Option.map_none] at h; rw [← h]
  | some parts => rw [hs] at h; simp only [Option.map_some] at h; rw [← h]

/-- In particular, whenever the whole read succeeds, both execution modes return it. -/
theorem streamed_both_modes (ls : List Line) (per : Nat) (v : List Rec)
    (h : readAll blank de ls = some v) :
    runSeq blank de ls = .ok v ∧ runPar blank de ls per = .ok v := by
  have hs : runSeq blank de ls = .ok v := by
    unfold runSeq; rw [seqView_eq_readAll, h]
  exact ⟨hs, by rw [runPar_eq_runSeq, hs]⟩

end readers

/-- Parquet: the row-group shards concatenate to the whole file, and so does the sequential view,
    for every number of groups (incl. 0) and every `groups_per_shard` (incl. 0). -/
theorem parquet_streamed_eq_whole {Rec : Type} (groups : List (List Rec)) (per : Nat) :
    (parquetSplit groups per).flatten = parquetAll groups ∧
    parquetSeq groups per = parquetAll groups := by
  have h := mkGroupRanges_chain groups.length per
  have hall : readGroups groups 0 groups.length = parquetAll groups := by
    simp [readGroups, parquetAll]
  constructor
  · unfold parquetSplit
    rw [readGroups_chain groups h.1, hall]
  · unfold parquetSeq
    by_cases hne : mkGroupRanges groups.length per = []
    · have h0 : groups.length = 0 := by
        have := h.1; rw [hne] at this; exact this.nil_inv.symm
      have : groups = [] := List.eq_nil_of_length_eq_zero h0
      subst this
      simp [readGroups, parquetAll]
    · rw [h.1.getLast hne]
      exact hall

/-! ## 3. The parallel writers produce the sequentially written file -/

section parwrite
variable {α : Type}

/-- `write_jsonl_par` (current code): for ALL data and ALL shard counts (`None`, 0, counts that do
    not divide `n`, counts above `n`) no slice index panics and the part files, concatenated in
    index order, hold exactly the input records in order. -/
theorem parWriteJsonl_concat (data : List α) (shards : Option Nat) (auto : Nat) :
    parWriteJsonl data shards auto = some data := by
  unfold parWriteJsonl parWriteWith
  simp only
  split
  · next h =>
    have : data = [] := List.eq_nil_of_length_eq_zero h
    subst this; rfl
  · next h =>
    have hsc := shardCount_pos shards auto data.length (by omega)
    obtain ⟨parts, hp, hf⟩ := slices_of_chain_map data (fun (b : Nat × Nat × Nat) => b.2) _ 0 data.length
      (jsonlShardBounds_chain data.length _ hsc.1) (Nat.le_refl _)
    rw [hp]
    simp [hf]

theorem writeJsonl_flatten (ser : α → List Char) (parts : List (List α)) :
    writeJsonl ser parts.flatten = (parts.map (writeJsonl ser)).flatten := by
  induction parts with
  | nil => simp [writeJsonl]
  | cons p ps ih =>
    rw [List.flatten_cons, List.map_cons, List.flatten_cons, ← ih]
    simp [writeJsonl]

/-- index form used by the `PARWRITE` correspondence request -/
theorem parWriteJsonl_range (n : Nat) (shards : Option Nat) (auto : Nat) :
    parWriteJsonl (List.range n) shards auto = some (List.range n) :=
  parWriteJsonl_concat _ _ _

/-- byte level: the concatenation of the part files is byte-identical to what `write_jsonl_vec`
    writes. -/
theorem parWriteJsonlBytes_eq_seq (ser : α → List Char) (data : List α) (shards : Option Nat)
    (auto : Nat) : parWriteJsonlBytes ser data shards auto = some (writeJsonl ser data) := by
  have h := parWriteJsonl_concat data shards auto
  unfold parWriteJsonl at h
  unfold parWriteJsonlBytes
  cases hp : parWriteWith jsonlShardBounds data shards auto with
  | none => rw [hp] at h; simp at h
  | some parts =>
    rw [hp] at h
    simp only [Option.map_some, Option.some.injEq] at h ⊢
    subst h
    exact (writeJsonl_flatten ser parts).symm

/-- The pinned-commit writer (`start = i * chunk`, not clamped) panics on the design witness
    `(rows, shards) = (5, 4)` — and on `(17,16)`, `(100,16)`, the latter being what
    `write_jsonl_par(.., None)` does on a 16-core machine. (Negation witness: plain `decide`.) -/
theorem legacy_parWriteJsonl_panics :
    Legacy.parWriteJsonl (List.range 5) (some 4) 16 = none ∧
    Legacy.parWriteJsonl (List.range 17) (some 16) 16 = none ∧
    Legacy.parWriteJsonl (List.range 100) none 16 = none := by
  decide

/-- What the pinned-commit writer did guarantee: it is correct exactly under the arithmetic side
    condition that the LAST shard's start `(s'-1)·ceil(n/s')` is within the data (`s'` = clamped
    shard count). -/
theorem legacy_parWriteJsonl_partial (data : List α) (shards : Option Nat) (auto : Nat)
    (h : (shardCount shards auto data.length - 1) *
          divCeil data.length (shardCount shards auto data.length) ≤ data.length) :
    Legacy.parWriteJsonl data shards auto = some data := by
  rw [← parWriteJsonl_concat data shards auto]
  unfold Legacy.parWriteJsonl parWriteJsonl parWriteWith
  simp only
  split
  · rfl
  · rw [legacy_bounds_eq _ _ h]

/-- … and the side condition is tight: whenever it fails the pinned-commit writer panics. -/
theorem legacy_parWriteJsonl_panics_iff {α : Type} (data : List α) (shards : Option Nat) (auto : Nat) :
    Legacy.parWriteJsonl data shards auto = none ↔
      data.length < (shardCount shards auto data.length - 1) *
          divCeil data.length (shardCount shards auto data.length) := by
  constructor
  · intro h
    apply Classical.byContradiction
    intro hn
    rw [legacy_parWriteJsonl_partial data shards auto (by omega)] at h
    cases h
  · intro h
    have hn : data.length ≠ 0 := by
      intro h0
      rw [h0, divCeil_zero] at h
      simp at h
    have hsc := shardCount_pos shards auto data.length (by omega)
    unfold Legacy.parWriteJsonl parWriteWith
    simp only [if_neg hn]
    rw [mapM_none_of_mem]
    · rfl
    · refine ⟨(shardCount shards auto data.length - 1,
        (shardCount shards auto data.length - 1) * divCeil data.length (shardCount shards auto data.length),
        min ((shardCount shards auto data.length - 1 + 1) * divCeil data.length (shardCount shards auto data.length)) data.length), ?_, ?_⟩
      · unfold Legacy.jsonlShardBounds
        simp only [List.mem_map, List.mem_range]
        exact ⟨shardCount shards auto data.length - 1, by omega, rfl⟩
      · unfold slice?
        rw [if_neg]
        simp only
        omega

/-- non-vacuity of the side condition: `(6, 4)` satisfies it, `(5, 4)` does not -/
example : (shardCount (some 4) 16 6 - 1) * divCeil 6 (shardCount (some 4) 16 6) ≤ 6 ∧
    ¬ (shardCount (some 4) 16 5 - 1) * divCeil 5 (shardCount (some 4) 16 5) ≤ 5 := by decide

/-- `VecOpsImpl::split` + concatenation is the identity for every partition count
    (`PCollection::write_csv_par` = `collect_par(shards)` + `write_csv_vec`). -/
theorem collectParVec_eq (data : List α) (partitions : Nat) :
    collectParVec data partitions = data := by
  unfold collectParVec vecSplit
  split
  · simp
  · next h =>
    have h1 : 1 < data.length := by omega
    apply chunksFuel_flatten _ (divCeil_pos _ _ (by omega) (by omega)) _ _ (Nat.le_refl _)

end parwrite

section csv
variable {Line Rec : Type}

/-- `write_csv_par`: for ALL data, shard counts and both header flags the concatenated buffers
    are exactly what `write_csv_vec` writes — the header once, first, only from chunk 0. -/
theorem parWriteCsv_eq_seq (hdr : Bool) (header : Line) (ser : Rec → Line) (data : List Rec)
    (shards : Option Nat) (auto : Nat) :
    parWriteCsv hdr header ser data shards auto = some (csvWrite hdr header ser data) := by
  unfold parWriteCsv parWriteCsvParts
  simp only
  split
  · next h =>
    have : data = [] := List.eq_nil_of_length_eq_zero h
    subst this
    cases hdr <;> simp [csvWrite]
  · next h =>
    have hn : 0 < data.length := by omega
    obtain ⟨e, rest, hsr, he, hrest⟩ := splitRanges_head data.length (shardCount shards auto data.length) hn
    have hspec := (splitRanges_spec data.length (shardCount shards auto data.length)).1
    rw [hsr] at hspec ⊢
    rw [List.map_cons] at hspec
    obtain ⟨_, _, hch⟩ := hspec.cons_inv
    have hen : e ≤ data.length := hch.le
    obtain ⟨parts, hp, hf⟩ := csv_tail_buffers hdr header ser data rest e data.length hch
      (Nat.le_refl _) hrest
    rw [List.mapM_cons, hp]
    have hs : slice? data 0 e = some (data.take e) := by
      unfold slice?; rw [if_pos]; simp; omega
    simp only [hs, Option.map_some, Option.bind_eq_bind, Option.bind_some, Option.pure_def,
      List.flatten_cons, hf, Option.some.injEq, beq_self_eq_true, Bool.and_true]
    have htake : (data.take e).isEmpty = false := by
      cases data with
      | nil => simp at hn
      | cons x xs =>
        cases e with
        | zero => omega
        | succ e => simp
    have hdata : data.isEmpty = false := by
      cases data with
      | nil => simp at hn
      | cons x xs => rfl
    have hsplit : (List.take e data).map ser ++
        (List.take (data.length - e) (List.drop e data)).map ser = data.map ser := by
      rw [← List.map_append]
      congr 1
      rw [List.take_of_length_le (l := List.drop e data) (by simp), List.take_append_drop]
    unfold csvWrite
    cases hdr
    · simpa using hsplit
    · simp only [htake, hdata, Bool.not_false, Bool.and_self, if_true, List.cons_append, hsplit]

/-- CSV round trip at the record level: what `write_csv_vec` writes, `read_csv_vec` (same header
    flag) reads back unchanged and in order — given that the csv/serde codec round-trips a row. -/
theorem csv_roundtrip (hdr : Bool) (header : Line) (ser : Rec → Line) (de : Line → Option Rec)
    (hde : ∀ r, de (ser r) = some r) (rows : List Rec) :
    csvRead hdr de (csvWrite hdr header ser rows) = some rows := by
  have h := readAll_map_ser (fun _ => false) de ser hde (fun _ => rfl) rows
  unfold csvRead csvBody csvWrite
  cases hdr
  · simpa using h
  · cases rows with
    | nil => simp [readAll]
    | cons r rs => simpa using h

/-- … and the file written by the parallel CSV writer reads back identically. -/
theorem parWriteCsv_roundtrip (hdr : Bool) (header : Line) (ser : Rec → Line)
    (de : Line → Option Rec) (hde : ∀ r, de (ser r) = some r) (rows : List Rec)
    (shards : Option Nat) (auto : Nat) :
    (parWriteCsv hdr header ser rows shards auto).bind (csvRead hdr de) = some rows := by
  rw [parWriteCsv_eq_seq]
  exact csv_roundtrip hdr header ser de hde rows

end csv

/-! ## 4. Round trip modulo the serialiser (JSONL, byte level) -/

section jsonl
variable {Rec : Type}

/-- What is assumed of serde_json for the record type: one record = one line that parses back to
    the record, is not blank, contains no raw line feed and does not end in a carriage return.
    (Validated, not proved, by the correspondence harness on adversarial records.) -/
structure LineCodec (ser : Rec → List Char) (de : List Char → Option Rec) : Prop where
  roundtrip : ∀ r, de (ser r) = some r
  nonblank : ∀ r, blankLine (ser r) = false
  noNewline : ∀ r, '\n' ∉ ser r
  noTrailingCr : ∀ r, (ser r).getLast? ≠ some '\r'

/-- `read_jsonl_vec (write_jsonl_vec rs) = rs`: records written by the JSONL writer and read by the
    JSONL reader come back unchanged and in order (any number of records, incl. 0). -/
theorem roundtrip_modulo_serialiser (ser : Rec → List Char) (de : List Char → Option Rec)
    (h : LineCodec ser de) (rs : List Rec) :
    readAll blankLine de (splitLines (writeJsonl ser rs)) = some rs := by
  rw [splitLines_writeJsonl ser h.noNewline h.noTrailingCr]
  exact readAll_map_ser blankLine de ser h.roundtrip h.nonblank rs

/-- … through the streaming source with ANY shard size, in BOTH execution modes. -/
theorem streamed_roundtrip (ser : Rec → List Char) (de : List Char → Option Rec)
    (h : LineCodec ser de) (rs : List Rec) (per : Nat) :
    runSeq blankLine de (splitLines (writeJsonl ser rs)) = .ok rs ∧
    runPar blankLine de (splitLines (writeJsonl ser rs)) per = .ok rs :=
  streamed_both_modes blankLine de _ per rs (roundtrip_modulo_serialiser ser de h rs)

/-- … and the file produced by the parallel writer with ANY shard count reads back identically to
    the sequentially written one (whole, or streamed in either mode). -/
theorem parwrite_roundtrip (ser : Rec → List Char) (de : List Char → Option Rec)
    (h : LineCodec ser de) (rs : List Rec) (shards : Option Nat) (auto per : Nat) :
    ∃ bytes, parWriteJsonlBytes ser rs shards auto = some bytes ∧
      bytes = writeJsonl ser rs ∧
      readAll blankLine de (splitLines bytes) = some rs ∧
      runSeq blankLine de (splitLines bytes) = .ok rs ∧
      runPar blankLine de (splitLines bytes) per = .ok rs := by
  refine ⟨_, parWriteJsonlBytes_eq_seq ser rs shards auto, rfl,
    roundtrip_modulo_serialiser ser de h rs, ?_⟩
  exact streamed_roundtrip ser de h rs per

/-- non-vacuity: a concrete codec (decimal digits of a `Nat`, parsed back) with a witness of the
    four hypotheses on the values it is used with is exercised by the driver (`JSONLRD`); here the
    smallest instance: records are single non-blank characters. -/
example : LineCodec (fun (c : Bool) => if c then ['1'] else ['0'])
    (fun l => if l = ['1'] then some true else if l = ['0'] then some false else none) := by
  constructor <;> intro r <;> cases r <;> decide

end jsonl

/-! ## 5. Glob reads: sorted, deterministic, concatenation of the per-file reads -/

/-- `expand_glob` returns the matched files in ascending component-wise path order … -/
theorem sortPaths_sorted {β : Type} (files : List (PathC × β)) :
    (sortPaths files).Pairwise (fun a b => pathLe a.1 b.1 = true) := by
  unfold sortPaths
  exact List.pairwise_mergeSort (fun a b c => pathLe_trans a.1 b.1 c.1)
    (fun a b => by simpa using pathLe_total a.1 b.1) files

/-- … it returns exactly the matched files … -/
theorem sortPaths_perm {β : Type} (files : List (PathC × β)) : (sortPaths files).Perm files :=
  List.mergeSort_perm _ _

/-- … and the result does not depend on the order in which the directory walk found them
    (distinct paths): the read order of a glob is a function of the SET of files. -/
theorem sortPaths_deterministic {β : Type} (l1 l2 : List (PathC × β))
    (hnd : (l1.map Prod.fst).Nodup) (h : l1.Perm l2) : sortPaths l1 = sortPaths l2 := by
  have h1 := sortPaths_perm l1
  have h2 := sortPaths_perm l2
  refine List.Perm.eq_of_pairwise ?_ (sortPaths_sorted l1) (sortPaths_sorted l2)
    (h1.trans (h.trans h2.symm))
  intro x y hx hy hxy hyx
  exact eq_of_mem_nodup_keys x y (pathLe_antisymm _ _ hxy hyx) l1 hnd (h1.mem_iff.mp hx)
    (h.mem_iff.mpr (h2.mem_iff.mp hy))

theorem sortPaths_map {β γ : Type} (g : β → γ) (files : List (PathC × β)) :
    (sortPaths files).map (fun f => (f.1, g f.2)) = sortPaths (files.map fun f => (f.1, g f.2)) := by
  unfold sortPaths
  exact List.map_mergeSort (fun _ _ _ _ => rfl)

/-- Glob round trip: files written from record lists `rsᵢ` and read through a glob yield the
    concatenation of the `rsᵢ` in sorted path order (= reading each file whole, in that order),
    given the single-file round trip `readFile (write rs) = some rs` (e.g. `roundtrip_modulo_serialiser`,
    `csv_roundtrip`). -/
theorem globRead_roundtrip {Line Rec : Type} (readFile : List Line → Option (List Rec))
    (write : List Rec → List Line) (hrt : ∀ rs, readFile (write rs) = some rs)
    (files : List (PathC × List Rec)) :
    globRead readFile (files.map fun f => (f.1, write f.2)) =
      some ((sortPaths files).flatMap (·.2)) := by
  unfold globRead
  rw [← sortPaths_map write files, List.mapM_map]
  rw [mapM_some_of_forall _ (fun f => f.2) _ (fun f _ => hrt f.2)]
  simp [List.flatMap_def]


/-- the listing order never matters for what a glob read returns -/
theorem globRead_deterministic {Line Rec : Type} (readFile : List Line → Option (List Rec))
    (l1 l2 : List (PathC × List Line)) (hnd : (l1.map Prod.fst).Nodup) (h : l1.Perm l2) :
    globRead readFile l1 = globRead readFile l2 := by
  unfold globRead
  rw [sortPaths_deterministic l1 l2 hnd h]

/-- witness: component-wise order is not byte-string order — `a/x` < `a-b/x` < `a.jsonl`, although
    as strings `a-b/x` < `a.jsonl` < `a/x` (`-` < `.` < `/`) -/
example : pathLe [[97], [120]] [[97, 45, 98], [120]] = true ∧
    pathLe [[97, 45, 98], [120]] [[97, 46, 106]] = true ∧
    pathLe [[97, 46, 106]] [[97], [120]] = false := by decide

end IB.Io
