import IbModel.Model.Io
import IbModel.Proofs.Io
import IbModel.Proofs.Io2
/-!
# C09 — file I/O round-trips; sharded, streamed and parallel paths equal the plain ones

Property theorems about the model in `Model/Io.lean` (a transliteration of `io/jsonl.rs`,
`io/csv.rs`, `io/parquet.rs`, `io/glob.rs`, the file-source `VecOps` and the way `runner.rs`
consumes a source). Helper lemmas live in `Proofs/Io.lean`.

Conventions. `Chain a b rs` (defined in `Proofs/Io.lean`) says that the half-open ranges `rs` are
contiguous and in order, the first starts at `a`, the last ends at `b`. `Option`: `none` = the
Rust call returns `Err` (readers) or panics (slice indexing in the writers).
The third-party serialisers are parameters (`ser`, `de`, `blank`); what is assumed about them is
a hypothesis of the theorem that needs it.
-/
namespace IB.Io

/-! ## 1. The shard ranges tile the file — for EVERY shard size (0 is clamped to 1, sizes > total) -/

/-- `build_jsonl_shards` / `build_csv_shards`: the ranges are contiguous from 0 to `total`,
    each is non-empty, and together they enumerate every line index exactly once, in order. -/
theorem ranges_tile (total per : Nat) :
    Chain 0 total (mkRanges total per) ∧
    (∀ r ∈ mkRanges total per, r.1 < r.2) ∧
    (mkRanges total per).flatMap (fun r => List.range' r.1 (r.2 - r.1)) = List.range total := by
  refine ⟨mkRanges_chain total per, mkRanges_nonempty total per, ?_⟩
  rw [(mkRanges_chain total per).cover, List.range_eq_range']
  rfl

/-- `build_parquet_shards`: the same for ranges of row-group indices. -/
theorem groupRanges_tile (numGroups per : Nat) :
    Chain 0 numGroups (mkGroupRanges numGroups per) ∧
    (∀ r ∈ mkGroupRanges numGroups per, r.1 < r.2) ∧
    (mkGroupRanges numGroups per).flatMap (fun r => List.range' r.1 (r.2 - r.1)) =
      List.range numGroups := by
  have h := mkGroupRanges_chain numGroups per
  refine ⟨h.1, h.2, ?_⟩
  rw [h.1.cover, List.range_eq_range']
  rfl

/-- `split_ranges(len, parts)` (used by `write_csv_par`), for all `len`, `parts` (incl. 0 and
    `parts > len`): contiguous from 0 to `len`, non-empty, every row index exactly once. -/
theorem splitRanges_tile (len parts : Nat) :
    Chain 0 len ((splitRanges len parts).map (·.2)) ∧
    (∀ x ∈ splitRanges len parts, x.2.1 < x.2.2) ∧
    ((splitRanges len parts).map (·.2)).flatMap (fun r => List.range' r.1 (r.2 - r.1)) =
      List.range len := by
  have h := splitRanges_spec len parts
  refine ⟨h.1, h.2, ?_⟩
  rw [h.1.cover, List.range_eq_range']
  rfl

/-! ## 2. Streamed (sharded) reads equal the whole read, in both execution modes -/

section readers
variable {Line Rec : Type} (blank : Line → Bool) (de : Line → Option Rec)

/-- `clone_any` (what `exec_seq` uses) reads exactly what `read_*_vec` reads. -/
theorem seqView_eq_readAll (ls : List Line) : seqView blank de ls = readAll blank de ls := by
  unfold seqView readRange
  exact readRangeFrom_eq_readAll blank de ls.length ls 0 (by omega)

/-- Concatenating the per-shard reads (`VecOps::split`) = reading the whole file, for every file
    content (blank lines, unparsable lines) and every shard size; failures included (some shard
    fails iff the whole read fails). -/
theorem streamed_eq_whole (ls : List Line) (per : Nat) :
    (splitView blank de ls per).map List.flatten = readAll blank de ls := by
  unfold splitView
  rw [readRange_chain blank de ls (mkRanges_chain ls.length per)]
  exact seqView_eq_readAll blank de ls

/-- The sequential source view (`clone_any`) = the concatenation of the parallel split, including
    the zero-shard case of an empty file. This is the source contract `concat (split n) = whole`
    that C01's engine theorem needs, discharged for file sources. -/
theorem clone_any_eq_concat_split (ls : List Line) (per : Nat) :
    (splitView blank de ls per).map List.flatten = seqView blank de ls := by
  rw [streamed_eq_whole, seqView_eq_readAll]

/-- `collect_par` on a streaming source returns what `collect_seq` returns, for every shard size;
    when the file does not parse the sequential run returns `Err` and the parallel run panics
    (`expect("cloneable source")`) — never a silently different result. -/
theorem runPar_eq_runSeq (ls : List Line) (per : Nat) :
    runPar blank de ls per =
      match runSeq blank de ls with
      | .ok v => .ok v
      | .err => .panic
      | .panic => .panic := by
  have h := clone_any_eq_concat_split blank de ls per
  unfold runPar runSeq
  cases hs : splitView blank de ls per with
  | none => rw [hs] at h; simp only [Option.map_none] at h; rw [← h]
  | some parts => rw [hs] at h; simp only [Option.map_some] at h; rw [← h]

/-- In particular, whenever the whole read succeeds, both execution modes return it. -/
theorem streamed_both_modes (ls : List Line) (per : Nat) (v : List Rec)
    (h : readAll blank de ls = some v) :
    runSeq blank de ls = .ok v ∧ runPar blank de ls per = .ok v := by
  have hs : runSeq blank de ls = .ok v := by
    unfold runSeq; rw [seqView_eq_readAll, h]
  exact ⟨hs, by rw [runPar_eq_runSeq, hs]⟩

/-- "with any shard size", between two shard sizes: the shard size is not observable in what a streamed read returns —
    neither in the records nor in whether the read fails -/
theorem streamed_shard_size_irrelevant (ls : List Line) (per per' : Nat) :
    (splitView blank de ls per).map List.flatten = (splitView blank de ls per').map List.flatten := by
  rw [streamed_eq_whole, streamed_eq_whole]

/-- … and the same for the parallel run as a whole (result, error or panic) -/
theorem runPar_shard_size_irrelevant (ls : List Line) (per per' : Nat) :
    runPar blank de ls per = runPar blank de ls per' := by
  rw [runPar_eq_runSeq, runPar_eq_runSeq]

/-- a streamed read fails for some shard size iff the whole read fails (no shard size hides or invents a bad line) -/
theorem streamed_fails_iff_whole_fails (ls : List Line) (per : Nat) :
    splitView blank de ls per = none ↔ readAll blank de ls = none := by
  rw [← streamed_eq_whole blank de ls per]
  cases splitView blank de ls per <;> simp

end readers

/-- Parquet: the row-group shards concatenate to the whole file, and so does the sequential view,
    for every number of groups (incl. 0) and every `groups_per_shard` (incl. 0). -/
theorem parquet_streamed_eq_whole {Rec : Type} (groups : List (List Rec)) (per : Nat) :
    (parquetSplit groups per).flatten = parquetAll groups ∧
    parquetSeq groups per = parquetAll groups := by
  have h := mkGroupRanges_chain groups.length per
  have hall : readGroups groups 0 groups.length = parquetAll groups := by
    simp [readGroups, parquetAll]
  constructor
  · unfold parquetSplit
    rw [readGroups_chain groups h.1, hall]
  · unfold parquetSeq
    by_cases hne : mkGroupRanges groups.length per = []
    · have h0 : groups.length = 0 := by
        have := h.1; rw [hne] at this; exact this.nil_inv.symm
      have : groups = [] := List.eq_nil_of_length_eq_zero h0
      subst this
      simp [readGroups, parquetAll]
    · rw [h.1.getLast hne]
      exact hall

/-! ## 3. The parallel writers produce the sequentially written file -/

section parwrite
variable {α : Type}

/-- `write_jsonl_par` (current code): for ALL data and ALL shard counts (`None`, 0, counts that do
    not divide `n`, counts above `n`) no slice index panics and the part files, concatenated in
    index order, hold exactly the input records in order. -/
theorem parWriteJsonl_concat (data : List α) (shards : Option Nat) (auto : Nat) :
    parWriteJsonl data shards auto = some data := by
  unfold parWriteJsonl parWriteWith
  simp only
  split
  · next h =>
    have : data = [] := List.eq_nil_of_length_eq_zero h
    subst this; rfl
  · next h =>
    have hsc := shardCount_pos shards auto data.length (by omega)
    obtain ⟨parts, hp, hf⟩ := slices_of_chain_map data (fun (b : Nat × Nat × Nat) => b.2) _ 0 data.length
      (jsonlShardBounds_chain data.length _ hsc.1) (Nat.le_refl _)
    rw [hp]
    simp [hf]

theorem writeJsonl_flatten (ser : α → List Char) (parts : List (List α)) :
    writeJsonl ser parts.flatten = (parts.map (writeJsonl ser)).flatten := by
  induction parts with
  | nil => simp [writeJsonl]
  | cons p ps ih =>
    rw [List.flatten_cons, List.map_cons, List.flatten_cons, ← ih]
    simp [writeJsonl]

/-- index form used by the `PARWRITE` correspondence request -/
theorem parWriteJsonl_range (n : Nat) (shards : Option Nat) (auto : Nat) :
    parWriteJsonl (List.range n) shards auto = some (List.range n) :=
  parWriteJsonl_concat _ _ _

/-- byte level: the concatenation of the part files is byte-identical to what `write_jsonl_vec`
    writes. -/
theorem parWriteJsonlBytes_eq_seq (ser : α → List Char) (data : List α) (shards : Option Nat)
    (auto : Nat) : parWriteJsonlBytes ser data shards auto = some (writeJsonl ser data) := by
  have h := parWriteJsonl_concat data shards auto
  unfold parWriteJsonl at h
  unfold parWriteJsonlBytes
  cases hp : parWriteWith jsonlShardBounds data shards auto with
  | none => rw [hp] at h; simp at h
  | some parts =>
    rw [hp] at h
    simp only [Option.map_some, Option.some.injEq] at h ⊢
    subst h
    exact (writeJsonl_flatten ser parts).symm

/-- The pinned-commit writer (`start = i * chunk`, not clamped) panics on the design witness
    `(rows, shards) = (5, 4)` — and on `(17,16)`, `(100,16)`, the latter being what
    `write_jsonl_par(.., None)` does on a 16-core machine. (Negation witness: plain `decide`.) -/
theorem legacy_parWriteJsonl_panics :
    Legacy.parWriteJsonl (List.range 5) (some 4) 16 = none ∧
    Legacy.parWriteJsonl (List.range 17) (some 16) 16 = none ∧
    Legacy.parWriteJsonl (List.range 100) none 16 = none := by
  decide

/-- What the pinned-commit writer did guarantee: it is correct exactly under the arithmetic side
    condition that the LAST shard's start `(s'-1)·ceil(n/s')` is within the data (`s'` = clamped
    shard count). -/
theorem legacy_parWriteJsonl_partial (data : List α) (shards : Option Nat) (auto : Nat)
    (h : (shardCount shards auto data.length - 1) *
          divCeil data.length (shardCount shards auto data.length) ≤ data.length) :
    Legacy.parWriteJsonl data shards auto = some data := by
  rw [← parWriteJsonl_concat data shards auto]
  unfold Legacy.parWriteJsonl parWriteJsonl parWriteWith
  simp only
  split
  · rfl
  · rw [legacy_bounds_eq _ _ h]

/-- … and the side condition is tight: whenever it fails the pinned-commit writer panics. -/
theorem legacy_parWriteJsonl_panics_iff {α : Type} (data : List α) (shards : Option Nat) (auto : Nat) :
    Legacy.parWriteJsonl data shards auto = none ↔
      data.length < (shardCount shards auto data.length - 1) *
          divCeil data.length (shardCount shards auto data.length) := by
  constructor
  · intro h
    apply Classical.byContradiction
    intro hn
    rw [legacy_parWriteJsonl_partial data shards auto (by omega)] at h
    cases h
  · intro h
    have hn : data.length ≠ 0 := by
      intro h0
      rw [h0, divCeil_zero] at h
      simp at h
    have hsc := shardCount_pos shards auto data.length (by omega)
    unfold Legacy.parWriteJsonl parWriteWith
    simp only [if_neg hn]
    rw [mapM_none_of_mem]
    · rfl
    · refine ⟨(shardCount shards auto data.length - 1,
        (shardCount shards auto data.length - 1) * divCeil data.length (shardCount shards auto data.length),
        min ((shardCount shards auto data.length - 1 + 1) * divCeil data.length (shardCount shards auto data.length)) data.length), ?_, ?_⟩
      · unfold Legacy.jsonlShardBounds
        simp only [List.mem_map, List.mem_range]
        exact ⟨shardCount shards auto data.length - 1, by omega, rfl⟩
      · unfold slice?
        rw [if_neg]
        simp only
        omega

/-- non-vacuity of the side condition: `(6, 4)` satisfies it, `(5, 4)` does not -/
example : (shardCount (some 4) 16 6 - 1) * divCeil 6 (shardCount (some 4) 16 6) ≤ 6 ∧
    ¬ (shardCount (some 4) 16 5 - 1) * divCeil 5 (shardCount (some 4) 16 5) ≤ 5 := by decide

/-- `VecOpsImpl::split` + concatenation (`exec_par` on an in-memory source) is the identity for every
    partition count. Used by `pcWriteCsvPar_eq_seq`: `PCollection::write_csv_par` =
    `collect_par(threads := shards, partitions := the planner's suggestion)` + `write_csv_vec` — its `shards`
    argument is the rayon THREAD count, not a partition count. -/
theorem collectParVec_eq (data : List α) (partitions : Nat) :
    collectParVec data partitions = data := by
  unfold collectParVec vecSplit
  split
  · simp
  · next h =>
    have h1 : 1 < data.length := by omega
    apply chunksFuel_flatten _ (divCeil_pos _ _ (by omega) (by omega)) _ _ (Nat.le_refl _)

end parwrite

section csv
variable {Line Rec : Type}

/-- `write_csv_par`: for ALL data, shard counts and both header flags the concatenated buffers
    are exactly what `write_csv_vec` writes — the header once, first, only from chunk 0. -/
theorem parWriteCsv_eq_seq (hdr : Bool) (header : Line) (ser : Rec → Line) (data : List Rec)
    (shards : Option Nat) (auto : Nat) :
    parWriteCsv hdr header ser data shards auto = some (csvWrite hdr header ser data) := by
  unfold parWriteCsv parWriteCsvParts
  simp only
  split
  · next h =>
    have : data = [] := List.eq_nil_of_length_eq_zero h
    subst this
    cases hdr <;> simp [csvWrite]
  · next h =>
    have hn : 0 < data.length := by omega
    obtain ⟨e, rest, hsr, he, hrest⟩ := splitRanges_head data.length (shardCount shards auto data.length) hn
    have hspec := (splitRanges_spec data.length (shardCount shards auto data.length)).1
    rw [hsr] at hspec ⊢
    rw [List.map_cons] at hspec
    obtain ⟨_, _, hch⟩ := hspec.cons_inv
    have hen : e ≤ data.length := hch.le
    obtain ⟨parts, hp, hf⟩ := csv_tail_buffers hdr header ser data rest e data.length hch
      (Nat.le_refl _) hrest
    rw [List.mapM_cons, hp]
    have hs : slice? data 0 e = some (data.take e) := by
      unfold slice?; rw [if_pos]; simp; omega
    simp only [hs, Option.map_some, Option.bind_eq_bind, Option.bind_some, Option.pure_def,
      List.flatten_cons, hf, Option.some.injEq, beq_self_eq_true, Bool.and_true]
    have htake : (data.take e).isEmpty = false := by
      cases data with
      | nil => simp at hn
      | cons x xs =>
        cases e with
        | zero => omega
        | succ e => simp
    have hdata : data.isEmpty = false := by
      cases data with
      | nil => simp at hn
      | cons x xs => rfl
    have hsplit : (List.take e data).map ser ++
        (List.take (data.length - e) (List.drop e data)).map ser = data.map ser := by
      rw [← List.map_append]
      congr 1
      rw [List.take_of_length_le (l := List.drop e data) (by simp), List.take_append_drop]
    unfold csvWrite
    cases hdr
    · simpa using hsplit
    · simp only [htake, hdata, Bool.not_false, Bool.and_self, if_true, List.cons_append, hsplit]

/-- CSV round trip at the record level: what `write_csv_vec` writes, `read_csv_vec` (same header
    flag) reads back unchanged and in order — given that the csv/serde codec round-trips a row. -/
theorem csv_roundtrip (hdr : Bool) (header : Line) (ser : Rec → Line) (de : Line → Option Rec)
    (hde : ∀ r, de (ser r) = some r) (rows : List Rec) :
    csvRead hdr de (csvWrite hdr header ser rows) = some rows := by
  have h := readAll_map_ser (fun _ => false) de ser hde (fun _ => rfl) rows
  unfold csvRead csvBody csvWrite
  cases hdr
  · simpa using h
  · cases rows with
    | nil => simp [readAll]
    | cons r rs => simpa using h

/-- … and the file written by the parallel CSV writer reads back identically. -/
theorem parWriteCsv_roundtrip (hdr : Bool) (header : Line) (ser : Rec → Line)
    (de : Line → Option Rec) (hde : ∀ r, de (ser r) = some r) (rows : List Rec)
    (shards : Option Nat) (auto : Nat) :
    (parWriteCsv hdr header ser rows shards auto).bind (csvRead hdr de) = some rows := by
  rw [parWriteCsv_eq_seq]
  exact csv_roundtrip hdr header ser de hde rows

end csv

/-! ## 4. Round trip modulo the serialiser (JSONL, byte level) -/

section jsonl
variable {Rec : Type}

/-- What is assumed of serde_json for the record type: one record = one line that parses back to
    the record, is not blank, contains no raw line feed and does not end in a carriage return.
    (Validated, not proved, by the correspondence harness on adversarial records.) -/
structure LineCodec (ser : Rec → List Char) (de : List Char → Option Rec) : Prop where
  roundtrip : ∀ r, de (ser r) = some r
  nonblank : ∀ r, blankLine (ser r) = false
  noNewline : ∀ r, '\n' ∉ ser r
  noTrailingCr : ∀ r, (ser r).getLast? ≠ some '\r'

/-- `read_jsonl_vec (write_jsonl_vec rs) = rs`: records written by the JSONL writer and read by the
    JSONL reader come back unchanged and in order (any number of records, incl. 0). -/
theorem roundtrip_modulo_serialiser (ser : Rec → List Char) (de : List Char → Option Rec)
    (h : LineCodec ser de) (rs : List Rec) :
    readAll blankLine de (splitLines (writeJsonl ser rs)) = some rs := by
  rw [splitLines_writeJsonl ser h.noNewline h.noTrailingCr]
  exact readAll_map_ser blankLine de ser h.roundtrip h.nonblank rs

/-- … through the streaming source with ANY shard size, in BOTH execution modes. -/
theorem streamed_roundtrip (ser : Rec → List Char) (de : List Char → Option Rec)
    (h : LineCodec ser de) (rs : List Rec) (per : Nat) :
    runSeq blankLine de (splitLines (writeJsonl ser rs)) = .ok rs ∧
    runPar blankLine de (splitLines (writeJsonl ser rs)) per = .ok rs :=
  streamed_both_modes blankLine de _ per rs (roundtrip_modulo_serialiser ser de h rs)

/-- … and the file produced by the parallel writer with ANY shard count reads back identically to
    the sequentially written one (whole, or streamed in either mode). -/
theorem parwrite_roundtrip (ser : Rec → List Char) (de : List Char → Option Rec)
    (h : LineCodec ser de) (rs : List Rec) (shards : Option Nat) (auto per : Nat) :
    ∃ bytes, parWriteJsonlBytes ser rs shards auto = some bytes ∧
      bytes = writeJsonl ser rs ∧
      readAll blankLine de (splitLines bytes) = some rs ∧
      runSeq blankLine de (splitLines bytes) = .ok rs ∧
      runPar blankLine de (splitLines bytes) per = .ok rs := by
  refine ⟨_, parWriteJsonlBytes_eq_seq ser rs shards auto, rfl,
    roundtrip_modulo_serialiser ser de h rs, ?_⟩
  exact streamed_roundtrip ser de h rs per

/-- non-vacuity, smallest instance: records are single non-blank characters. The codec the driver really
    runs (`serI64` / `deI64`, requests `JSONLRD` and `WRJSONL`) is proved to be a `LineCodec` in §9
    (`intCodec`). -/
example : LineCodec (fun (c : Bool) => if c then ['1'] else ['0'])
    (fun l => if l = ['1'] then some true else if l = ['0'] then some false else none) := by
  constructor <;> intro r <;> cases r <;> decide

end jsonl

/-! ## 5. Glob reads: sorted, deterministic, concatenation of the per-file reads -/

/-- `expand_glob` returns the matched files in ascending component-wise path order … -/
theorem sortPaths_sorted {β : Type} (files : List (PathC × β)) :
    (sortPaths files).Pairwise (fun a b => pathLe a.1 b.1 = true) := by
  unfold sortPaths
  exact List.pairwise_mergeSort (fun a b c => pathLe_trans a.1 b.1 c.1)
    (fun a b => by simpa using pathLe_total a.1 b.1) files

/-- … it returns exactly the matched files … -/
theorem sortPaths_perm {β : Type} (files : List (PathC × β)) : (sortPaths files).Perm files :=
  List.mergeSort_perm _ _

/-- … and the result does not depend on the order in which the directory walk found them
    (distinct paths): the read order of a glob is a function of the SET of files. -/
theorem sortPaths_deterministic {β : Type} (l1 l2 : List (PathC × β))
    (hnd : (l1.map Prod.fst).Nodup) (h : l1.Perm l2) : sortPaths l1 = sortPaths l2 := by
  have h1 := sortPaths_perm l1
  have h2 := sortPaths_perm l2
  refine List.Perm.eq_of_pairwise ?_ (sortPaths_sorted l1) (sortPaths_sorted l2)
    (h1.trans (h.trans h2.symm))
  intro x y hx hy hxy hyx
  exact eq_of_mem_nodup_keys x y (pathLe_antisymm _ _ hxy hyx) l1 hnd (h1.mem_iff.mp hx)
    (h.mem_iff.mpr (h2.mem_iff.mp hy))

theorem sortPaths_map {β γ : Type} (g : β → γ) (files : List (PathC × β)) :
    (sortPaths files).map (fun f => (f.1, g f.2)) = sortPaths (files.map fun f => (f.1, g f.2)) := by
  unfold sortPaths
  exact List.map_mergeSort (fun _ _ _ _ => rfl)

/-- Glob round trip: files written from record lists `rsᵢ` and read through a glob yield the
    concatenation of the `rsᵢ` in sorted path order (= reading each file whole, in that order),
    given the single-file round trip `readFile (write rs) = some rs` (e.g. `roundtrip_modulo_serialiser`,
    `csv_roundtrip`). -/
theorem globRead_roundtrip {Line Rec : Type} (readFile : List Line → Option (List Rec))
    (write : List Rec → List Line) (hrt : ∀ rs, readFile (write rs) = some rs)
    (files : List (PathC × List Rec)) :
    globRead readFile (files.map fun f => (f.1, write f.2)) =
      some ((sortPaths files).flatMap (·.2)) := by
  unfold globRead
  rw [← sortPaths_map write files, List.mapM_map]
  rw [mapM_some_of_forall _ (fun f => f.2) _ (fun f _ => hrt f.2)]
  simp [List.flatMap_def]


/-- the listing order never matters for what a glob read returns -/
theorem globRead_deterministic {Line Rec : Type} (readFile : List Line → Option (List Rec))
    (l1 l2 : List (PathC × List Line)) (hnd : (l1.map Prod.fst).Nodup) (h : l1.Perm l2) :
    globRead readFile l1 = globRead readFile l2 := by
  unfold globRead
  rw [sortPaths_deterministic l1 l2 hnd h]

/-- witness: component-wise order is not byte-string order — `a/x` < `a-b/x` < `a.jsonl`, although
    as strings `a-b/x` < `a.jsonl` < `a/x` (`-` < `.` < `/`) -/
example : pathLe [[97], [120]] [[97, 45, 98], [120]] = true ∧
    pathLe [[97, 45, 98], [120]] [[97, 46, 106]] = true ∧
    pathLe [[97, 46, 106]] [[97], [120]] = false := by decide

/-! ## 6. Parquet: our batch / row-group arithmetic, with the failure outcomes

Assumed law of serde_arrow (hypothesis `RowWise`): `from_record_batch` decodes a batch row by row.
Everything else — the batch loops, the group ranges, the `.ok()?` plumbing, the runner — is proved. -/

section parquetIO
variable {Row Rec : Type}

/-- serde_arrow's `from_record_batch` decodes a batch row by row (first bad row → `Err`) -/
def RowWise (dec : List Row → Option (List Rec)) (decRow : Row → Option Rec) : Prop :=
  ∀ batch, dec batch = readAll (fun _ => false) decRow batch

/-- The `while let Some(batch) … out.append(&mut rows)` loops (`read_parquet_vec`,
    `read_parquet_row_group_range`): however the reader cuts the rows into batches — ANY list of batches, so
    any batch size and batches that do or do not span row groups — the appended result is the row-wise
    decoding of all rows in order; one undecodable row anywhere → `Err`. -/
theorem pq_batch_partition_irrelevant (dec : List Row → Option (List Rec)) (decRow : Row → Option Rec)
    (h : RowWise dec decRow) (bs : List (List Row)) :
    readBatches dec bs = readAll (fun _ => false) decRow bs.flatten :=
  readBatches_flatten dec decRow h bs

/-- … in particular for the two batch sizes the code uses (1024, 65 536) and every other one (0 is
    treated as 1): a shard read returns the rows of its row groups. -/
theorem pq_batch_size_irrelevant (dec : List Row → Option (List Rec)) (decRow : Row → Option Rec)
    (h : RowWise dec decRow) (b : Nat) (groups : List (List Row)) (s e : Nat) :
    pqReadRange true b dec groups s e = readAll (fun _ => false) decRow (groupRows groups s e) := by
  unfold pqReadRange
  rw [if_pos rfl, pq_batch_partition_irrelevant dec decRow h, pqBatches_flatten]

/-- Streamed = whole for Parquet, failures included: the concatenated `split` partitions and the
    `clone_any` view both equal `read_parquet_vec`, for every number of row groups, every
    `groups_per_shard` (incl. 0) and every pair of batch sizes. -/
theorem pq_streamed_eq_whole (dec : List Row → Option (List Rec)) (decRow : Row → Option Rec)
    (h : RowWise dec decRow) (b b' : Nat) (groups : List (List Row)) (per : Nat) :
    (pqSplit true b dec groups per).map List.flatten = pqReadAll true b' dec groups ∧
    pqSeq true b dec groups per = pqReadAll true b' dec groups := by
  have hc := mkGroupRanges_chain groups.length per
  have hall : pqReadAll true b' dec groups = decRows decRow groups.flatten := by
    unfold pqReadAll decRows
    rw [if_pos rfl, pq_batch_partition_irrelevant dec decRow h, pqBatches_flatten]
  constructor
  · unfold pqSplit
    have : (fun r : Nat × Nat => pqReadRange true b dec groups r.1 r.2) =
        fun r => decRows decRow (groupRows groups r.1 r.2) := by
      funext r; exact pq_batch_size_irrelevant dec decRow h b groups r.1 r.2
    rw [this, decRows_chain decRow groups hc.1, groupRows_all, hall]
  · unfold pqSeq
    rw [pq_batch_size_irrelevant dec decRow h, hall]
    by_cases hne : mkGroupRanges groups.length per = []
    · have h0 : groups.length = 0 := by
        have := hc.1; rw [hne] at this; exact this.nil_inv.symm
      have : groups = [] := List.eq_nil_of_length_eq_zero h0
      subst this
      simp [groupRows, decRows]
    · rw [hc.1.getLast hne]
      simp only [Option.getD_some, groupRows_all]
      rfl

/-- `collect_par` on a Parquet source returns what `collect_seq` returns; when a shard cannot be decoded the
    sequential run returns `Err` and the parallel run panics (`expect("cloneable source")`) — never a
    silently different result. (File readable at read time; see `pq_vanished_file` otherwise.) -/
theorem pq_runPar_eq_runSeq (dec : List Row → Option (List Rec)) (decRow : Row → Option Rec)
    (h : RowWise dec decRow) (b : Nat) (groups : List (List Row)) (per : Nat) :
    runParP true b dec groups per =
      match runSeqP true b dec groups per with
      | .ok v => .ok v
      | .err => .panic
      | .panic => .panic := by
  obtain ⟨h1, h2⟩ := pq_streamed_eq_whole dec decRow h b b groups per
  unfold runParP runSeqP
  rw [h2]
  cases hs : pqSplit true b dec groups per with
  | none => rw [hs] at h1; simp only [Option.map_none] at h1; rw [← h1]
  | some parts => rw [hs] at h1; simp only [Option.map_some] at h1; rw [← h1]

/-- A file that can no longer be opened when the shards are read (it was there when they were built):
    with at least one row group the sequential run returns `Err` and the parallel run panics; with NO row
    group the parallel run reads nothing and returns `[]` while the sequential one still opens the file. -/
theorem pq_vanished_file (dec : List Row → Option (List Rec)) (b : Nat) (groups : List (List Row))
    (per : Nat) :
    runSeqP false b dec groups per = .err ∧
    runParP false b dec groups per = (if groups = [] then .ok [] else .panic) := by
  constructor
  · simp [runSeqP, pqSeq, pqReadRange]
  · unfold runParP pqSplit
    cases groups with
    | nil => simp [mkGroupRanges]
    | cons g gs =>
      have hc := (mkGroupRanges_chain (g :: gs).length per).1
      cases hr : mkGroupRanges (g :: gs).length per with
      | nil => rw [hr] at hc; have := hc.nil_inv; simp at this
      | cons r rs => simp [pqReadRange, pqSeq]

/-- Parquet round trip: what `write_parquet_vec` writes (row groups of any maximal size), `read_parquet_vec`
    reads back unchanged and in order with any batch size, and so does the streaming source with any
    `groups_per_shard` in both execution modes — given that a row survives the arrow/parquet encoding. -/
theorem parquet_roundtrip (enc : Rec → Row) (dec : List Row → Option (List Rec))
    (decRow : Row → Option Rec) (h : RowWise dec decRow) (hrt : ∀ r, decRow (enc r) = some r)
    (maxRG b per : Nat) (data : List Rec) :
    pqReadAll true b dec (pqWrite maxRG enc data) = some data ∧
    runSeqP true b dec (pqWrite maxRG enc data) per = .ok data ∧
    runParP true b dec (pqWrite maxRG enc data) per = .ok data := by
  have hall : pqReadAll true b dec (pqWrite maxRG enc data) = some data := by
    unfold pqReadAll pqWrite
    rw [if_pos rfl, pq_batch_partition_irrelevant dec decRow h, pqBatches_flatten, pqGroups_flatten]
    exact readAll_map_ser (fun _ => false) decRow enc hrt (fun _ => rfl) data
  obtain ⟨_, h2⟩ := pq_streamed_eq_whole dec decRow h b b (pqWrite maxRG enc data) per
  have hs : runSeqP true b dec (pqWrite maxRG enc data) per = .ok data := by
    unfold runSeqP; rw [h2, hall]
  exact ⟨hall, hs, by rw [pq_runPar_eq_runSeq dec decRow h, hs]⟩

/-- non-vacuity: identity encoding, row-wise decoder that rejects the row `0` -/
example : RowWise (Row := Nat) (Rec := Nat) (readAll (fun _ => false) fun r => if r = 0 then none else some r)
    (fun r => if r = 0 then none else some r) := fun _ => rfl

/-- witness: a non-decodable row in the second of three groups, `groups_per_shard = 1`, batch size 2 —
    sequential `Err`, parallel panic, whole read `Err` -/
example :
    let dec : List Nat → Option (List Nat) := readAll (fun _ => false) fun r => if r = 0 then none else some r
    runSeqP true 2 dec [[1, 2, 3], [4, 0], [6]] 1 = .err ∧ runParP true 2 dec [[1, 2, 3], [4, 0], [6]] 1 = .panic ∧
    pqReadAll true 2 dec [[1, 2, 3], [4, 0], [6]] = none ∧
    runParP true 2 dec [[1, 2, 3], [4, 5], [6]] 2 = .ok [1, 2, 3, 4, 5, 6] := by decide

end parquetIO

/-! ## 7. The directory around the writers: prior content is irrelevant -/

section parfs
variable {α : Type}

/-- `write_jsonl_par` in a directory with ARBITRARY prior content (stale `*.part{i}` files of an interrupted
    earlier run at any index, an older and longer target, anything else): it does not fail, the target holds
    exactly the bytes `write_jsonl_vec` would write, every part file it used is gone, and no other path is
    touched. Hypotheses on the naming only: a part path is never the target and distinct indices give distinct
    part paths (true of `path.with_extension("jsonl.part{i}")` for every path with a file name). -/
theorem parWriteJsonlFs_prior_content_irrelevant (ser : α → List Char) (part : Nat → String)
    (path : String) (hpart : ∀ i, part i ≠ path) (hinj : ∀ i j, part i = part j → i = j)
    (data : List α) (shards : Option Nat) (auto : Nat) (fs : Fs) :
    ∃ fs', parWriteJsonlFs ser part path data shards auto fs = some fs' ∧
      fs' path = some (writeJsonl ser data) ∧
      (∀ i, i < jsonlPartCount data.length shards auto → fs' (part i) = none) ∧
      (∀ q, q ≠ path → (∀ i, i < jsonlPartCount data.length shards auto → q ≠ part i) → fs' q = fs q) := by
  unfold parWriteJsonlFs jsonlPartCount
  simp only
  split
  · next h0 =>
    have : data = [] := List.eq_nil_of_length_eq_zero h0
    subst this
    refine ⟨_, rfl, by simp [fsCreate, writeJsonl], fun i hi => absurd hi (Nat.not_lt_zero _), ?_⟩
    intro q hq _
    simp [fsCreate, hq]
  · next h0 =>
    have hsc := shardCount_pos shards auto data.length (by omega)
    -- the slices exist and concatenate to the data
    have hcat := parWriteJsonl_concat data shards auto
    unfold parWriteJsonl parWriteWith at hcat
    simp only [if_neg h0] at hcat
    cases hp : (jsonlShardBounds data.length (shardCount shards auto data.length)).mapM
        (fun b => slice? data b.2.1 b.2.2) with
    | none => rw [hp] at hcat; simp at hcat
    | some parts =>
      rw [hp] at hcat
      simp only [Option.map_some, Option.some.injEq] at hcat
      have hidx := jsonlShardBounds_idx data.length (shardCount shards auto data.length)
      obtain ⟨fs1, hw, hc, hu⟩ := writeParts_spec ser part hinj data _ fs parts
        (by rw [hidx]; exact List.nodup_range) hp
      rw [hidx] at hc
      rw [hw]
      simp only
      have hc2 : concatParts part (fsCreate fs1 path []) (List.range (shardCount shards auto data.length)) =
          some ((parts.map (writeJsonl ser)).flatten) := by
        rw [concatParts_congr part fs1 _ _ (fun i _ => by simp [fsCreate, hpart i]), hc]
      rw [hc2]
      refine ⟨_, rfl, ?_, ?_, ?_⟩
      · rw [removeParts_spec, if_neg]
        · simp only [fsCreate, if_true]
          rw [← writeJsonl_flatten, hcat]
        · rintro ⟨i, _, hi⟩; exact hpart i hi.symm
      · intro i hi
        rw [removeParts_spec, if_pos ⟨i, List.mem_range.mpr hi, rfl⟩]
      · intro q hq hparts
        rw [removeParts_spec, if_neg]
        · simp only [fsCreate, if_neg hq]
          apply hu
          intro b hb
          have : b.1 ∈ List.range (shardCount shards auto data.length) := by
            rw [← hidx]; exact List.mem_map_of_mem hb
          exact hparts b.1 (List.mem_range.mp this)
        · rintro ⟨i, hi, hqi⟩; exact hparts i (List.mem_range.mp hi) hqi

/-- … so two directories that differ in any way yield the same target file. -/
theorem parWriteJsonlFs_same_target (ser : α → List Char) (part : Nat → String)
    (path : String) (hpart : ∀ i, part i ≠ path) (hinj : ∀ i j, part i = part j → i = j)
    (data : List α) (shards : Option Nat) (auto : Nat) (fs fs' : Fs) :
    (parWriteJsonlFs ser part path data shards auto fs).bind (· path) =
      (parWriteJsonlFs ser part path data shards auto fs').bind (· path) ∧
    (parWriteJsonlFs ser part path data shards auto fs).bind (· path) =
      writeFileFs fs path (writeJsonl ser data) path := by
  obtain ⟨a, ha, hpa, _⟩ := parWriteJsonlFs_prior_content_irrelevant ser part path hpart hinj data shards auto fs
  obtain ⟨b, hb, hpb, _⟩ := parWriteJsonlFs_prior_content_irrelevant ser part path hpart hinj data shards auto fs'
  rw [ha, hb]
  simp [hpa, hpb, writeFileFs, fsCreate]

end parfs

/-- The sequential writers and `write_csv_par` create or TRUNCATE the target: afterwards it holds exactly
    the new bytes whatever it held before (e.g. a longer older file), and nothing else changes. -/
theorem writers_truncate (fs : Fs) (path : String) (bytes : List Char) :
    writeFileFs fs path bytes path = some bytes ∧ parWriteCsvFs fs path bytes path = some bytes ∧
    (∀ q, q ≠ path → writeFileFs fs path bytes q = fs q ∧ parWriteCsvFs fs path bytes q = fs q) := by
  refine ⟨by simp [writeFileFs, fsCreate], by simp [parWriteCsvFs, fsCreate], fun q hq => ?_⟩
  simp [writeFileFs, parWriteCsvFs, fsCreate, hq]

/-- Missing parent directory: each parallel writer behaves like its sequential counterpart (both create the
    parents, so both succeed) — for the free functions and the `PCollection` methods. -/
theorem par_writers_create_parents_like_seq :
    createsParents "write_jsonl_par" = createsParents "write_jsonl_vec" ∧
    createsParents "write_csv_par" = createsParents "write_csv_vec" ∧
    createsParents "pc_write_jsonl_par" = createsParents "pc_write_jsonl" ∧
    createsParents "pc_write_csv_par" = createsParents "pc_write_csv" ∧
    (∀ {β : Type} (r : β), writeAt (createsParents "write_csv_par") false r = some r) := by
  refine ⟨by decide, by decide, by decide, by decide, fun r => ?_⟩
  have : createsParents "write_csv_par" = true := by decide
  simp [writeAt, this]

/-- Pinned commit: `write_csv_par` failed below a missing directory where `write_csv_vec` (and its own
    `PCollection` method, which ends in `write_csv_vec`) succeeded. (Negation witness.) -/
theorem legacy_csv_par_fails_below_missing_parent :
    writeAt (Legacy.createsParents "write_csv_par") false () = none ∧
    writeAt (Legacy.createsParents "write_csv_vec") false () = some () ∧
    writeAt (Legacy.createsParents "pc_write_csv_par") false () = some () := by decide

/-! ## 8. `PCollection` writer methods -/

/-- `PCollection::write_csv_par(path, shards, hdr)` = `collect_par(threads := shards, partitions := planner
    suggestion)` + `write_csv_vec`: for every thread count, every machine (`hw`) and every data size the rows
    written are those `write_csv_vec` writes. (`shards` never reaches the data path.) -/
theorem pcWriteCsvPar_eq_seq {Line Rec : Type} (hdr : Bool) (header : Line) (ser : Rec → Line)
    (data : List Rec) (threads : Option Nat) (hw : Nat) :
    pcWriteCsvPar hdr header ser data threads hw = csvWrite hdr header ser data := by
  unfold pcWriteCsvPar
  rw [collectParVec_eq]

/-- `PCollection::write_jsonl_par` = `collect_seq` + the free function: the input records in order. -/
theorem pcWriteJsonlPar_concat {α : Type} (data : List α) (shards : Option Nat) (auto : Nat) :
    pcWriteJsonlPar data shards auto = some data :=
  parWriteJsonl_concat data shards auto

/-! ## 9. The integer line codec the driver runs satisfies `LineCodec` -/

/-- `serde_json` on `i64` (decimal digits, `-` for negatives / whitespace-tolerant canonical-integer parser
    with range check) satisfies all four `LineCodec` hypotheses — so `roundtrip_modulo_serialiser`,
    `streamed_roundtrip` and `parwrite_roundtrip` hold unconditionally for the codec that the `JSONLRD` /
    `WRJSONL` correspondence requests execute against the real bytes. -/
theorem intCodec : LineCodec serI64 deI64 := by
  have key : ∀ r : I64, ∃ (neg : Bool) (ds : List Char),
      serI64 r = (if neg then '-' :: ds else ds) ∧ ds.all Char.isDigit = true ∧ ds ≠ [] ∧
      deI64 (serI64 r) = some r := by
    intro ⟨v, hv⟩
    obtain ⟨h1, h2, h3, h4⟩ := serNat_spec v.natAbs
    by_cases hneg : v < 0
    · refine ⟨true, serNat v.natAbs, by simp [serI64, serInt, hneg], h1, h3, ?_⟩
      have hval : (if true = true then - (Int.ofNat (parseDigits (serNat v.natAbs))) else
          Int.ofNat (parseDigits (serNat v.natAbs))) = v := by
        rw [h2]; simp only [if_true, Int.ofNat_eq_natCast]; omega
      have := deInt_of_digits true (serNat v.natAbs) h1 h3 h4 (by intro _; rw [h2]; omega)
        (by rw [hval]; exact hv)
      rw [hval] at this
      simp only [if_true] at this
      simp only [deI64, serI64, serInt, if_pos hneg, this, dif_pos hv]
    · refine ⟨false, serNat v.natAbs, by simp [serI64, serInt, hneg], h1, h3, ?_⟩
      have hval : (if false = true then - (Int.ofNat (parseDigits (serNat v.natAbs))) else
          Int.ofNat (parseDigits (serNat v.natAbs))) = v := by
        rw [h2]; simp only [Bool.false_eq_true, if_false, Int.ofNat_eq_natCast]; omega
      have := deInt_of_digits false (serNat v.natAbs) h1 h3 h4 (by intro h; cases h)
        (by rw [hval]; exact hv)
      rw [hval] at this
      simp only [Bool.false_eq_true, if_false] at this
      simp only [deI64, serI64, serInt, if_neg hneg, this, dif_pos hv]
  constructor
  · intro r; obtain ⟨_, _, _, _, _, h⟩ := key r; exact h
  · intro r
    obtain ⟨neg, ds, hs, hd, hne, _⟩ := key r
    obtain ⟨z, hz, hzd⟩ := all_digits_getLast ds hd hne
    have hmem : z ∈ serI64 r := by
      rw [hs]
      have : z ∈ ds := List.mem_of_getLast? hz
      cases neg <;> simp [this]
    unfold blankLine
    rw [Bool.eq_false_iff]
    intro hall
    have := (List.all_eq_true.mp hall) z hmem
    rw [(isDigit_facts z hzd).2.1] at this
    cases this
  · intro r
    obtain ⟨neg, ds, hs, hd, _, _⟩ := key r
    rw [hs]
    intro hmem
    have hin : '\n' ∈ ds := by
      cases neg
      · simpa using hmem
      · simp only [if_true, List.mem_cons] at hmem
        rcases hmem with h | h
        · cases h
        · exact h
    exact (isDigit_facts _ ((List.all_eq_true.mp hd) _ hin)).2.2.1 rfl
  · intro r
    obtain ⟨neg, ds, hs, hd, hne, _⟩ := key r
    obtain ⟨z, hz, hzd⟩ := all_digits_getLast ds hd hne
    have hl : (serI64 r).getLast? = some z := by
      rw [hs]
      cases neg
      · simpa using hz
      · cases ds with
        | nil => exact absurd rfl hne
        | cons a m => simp only [if_true]; rw [List.getLast?_cons_cons]; exact hz
    rw [hl]
    intro h
    simp only [Option.some.injEq] at h
    exact (isDigit_facts z hzd).2.2.2.1 h

/-- the three JSONL round-trip statements, instantiated: no hypothesis left for `i64` records -/
theorem i64_jsonl_roundtrip (rs : List I64) (shards : Option Nat) (auto per : Nat) :
    readAll blankLine deI64 (splitLines (writeJsonl serI64 rs)) = some rs ∧
    parWriteJsonlBytes serI64 rs shards auto = some (writeJsonl serI64 rs) ∧
    runSeq blankLine deI64 (splitLines (writeJsonl serI64 rs)) = .ok rs ∧
    runPar blankLine deI64 (splitLines (writeJsonl serI64 rs)) per = .ok rs :=
  ⟨roundtrip_modulo_serialiser serI64 deI64 intCodec rs, parWriteJsonlBytes_eq_seq serI64 rs shards auto,
    (streamed_roundtrip serI64 deI64 intCodec rs per).1, (streamed_roundtrip serI64 deI64 intCodec rs per).2⟩


/-- `globRead_roundtrip` instantiated, no hypothesis left: JSONL files of `i64` records written by
    `write_jsonl_vec` (byte level) and read through a glob come back as the concatenation of the files in
    sorted path order. -/
theorem glob_i64_jsonl_roundtrip (files : List (PathC × List I64)) :
    globRead (readAll blankLine deI64) (files.map fun f => (f.1, splitLines (writeJsonl serI64 f.2))) =
      some ((sortPaths files).flatMap (·.2)) :=
  globRead_roundtrip (readAll blankLine deI64) (fun rs => splitLines (writeJsonl serI64 rs))
    (roundtrip_modulo_serialiser serI64 deI64 intCodec) files

/-- … and for CSV files (record level, same header flag for writer and reader, row codec round-trips). -/
theorem glob_csv_roundtrip {Line Rec : Type} (hdr : Bool) (header : Line) (ser : Rec → Line)
    (de : Line → Option Rec) (hde : ∀ r, de (ser r) = some r) (files : List (PathC × List Rec)) :
    globRead (csvRead hdr de) (files.map fun f => (f.1, csvWrite hdr header ser f.2)) =
      some ((sortPaths files).flatMap (·.2)) :=
  globRead_roundtrip (csvRead hdr de) (csvWrite hdr header ser) (csv_roundtrip hdr header ser de hde) files

/-! ## 10. The path helpers: glob branch or literal file -/

/-- A path without `* ? [` is read as ONE file by `read_jsonl` / `read_csv` — exactly `read_*_vec`. -/
theorem readHelper_literal {Line Rec : Type} (readFile : List Line → Option (List Rec))
    (path : List Char) (h : isPattern path = false) (ls : List Line) (matched : List (PathC × List Line)) :
    readHelper readFile path (some ls) matched = readFile ls := by
  simp [readHelper, h]

/-- A pattern that matches at least one file yields the glob round trip; one that matches none is an error
    (`bail!("no files found …")`), never an empty collection. -/
theorem readHelper_pattern {Line Rec : Type} (readFile : List Line → Option (List Rec))
    (write : List Rec → List Line) (hrt : ∀ rs, readFile (write rs) = some rs)
    (path : List Char) (h : isPattern path = true) (lit : Option (List Line))
    (files : List (PathC × List Rec)) :
    readHelper readFile path lit (files.map fun f => (f.1, write f.2)) =
      if files = [] then none else some ((sortPaths files).flatMap (·.2)) := by
  unfold readHelper
  rw [if_pos h]
  cases files with
  | nil => simp
  | cons f fs =>
    rw [globRead_roundtrip readFile write hrt]
    simp

/-- witness of the dispatch rule: a file the writers create under the name `out[1].jsonl` is not read back
    under that name (the name is a pattern; it matches `out1.jsonl`) -/
example : isPattern "out[1].jsonl".toList = true ∧ isPattern "dir/out-1.jsonl".toList = false := by decide

end IB.Io
