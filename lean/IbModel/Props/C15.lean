import IbModel.Model.Sketches
import IbModel.Proofs.Sketches
import IbModel.Proofs.SketchesSorted
import IbModel.Proofs.SketchesKMV
/-!
# C15 — approximate aggregations stay within their stated bounds

Property theorems only (helper lemmas: `Proofs/Sketches.lean`, `Proofs/SketchesSorted.lean`, `Proofs/SketchesKMV.lean`).

## What is proved over which carrier (read this before trusting a theorem name)

The model (`Model/Sketches.lean`) is generic over the numeric carrier. The driver runs it on `Float` (IEEE
binary64, the type of the real code) and `bin/ibcheck` compares every number it prints with the real code's
answer to 1e-12 relative, `inf`/`NaN` literally. Lean's `Float` operations are opaque to the kernel, so NO
arithmetic fact about `Float` can be a theorem here. Consequently:

* **`Rat`-ONLY (exact arithmetic)** — everything that needs an order or field law: the invariant `TDInv` and its
  preservation, `tdigest_sorted_*`, `tdigest_tree_*`, `quantile_in_range*`, `quantile_zero*`, `quantile_one*`,
  `quantile_none_iff_empty*`, `approxQuantiles_*`, `approxMedian_spec`, `quantile_between_endpoints`,
  `quantile_monotone_same_cover*`, `quantile_inversion_only_where_cover_changes`, `quantile_eq_noclamp`,
  `quantile_fix_invisible_for_pipelines`, `tdigest_tree_total*`, `add_weighted_total`, and the negation witnesses. They say what the ALGORITHM guarantees; they do not see rounding, overflow, subnormals or a
  NaN that is `some NaN`. All three defects repaired in `quantiles.rs` for C15 that were arithmetic
  (`ad184d4` estimate past `max` by rounding / `inf` / NaN by overflow; `994fdb6` merged mean out of order by
  rounding or overflow) were invisible to these theorems and were found by the harness's strict oracle on real
  doubles — that oracle (range with no tolerance, end points exact, NaN iff empty, sortedness of the queried
  centroids, inversions classified by the real centroids) is the only guard on the `f64` side.
* **ANY carrier, hence also `Float`** — facts that use no law of arithmetic or order, only the control flow:
  `nonfinite_ignored`, `nonfinite_ignored_tree` (a non-finite input never reaches the digest),
  `add_weighted_ignores_bad_weight` / `add_weighted_ignores_nonfinite_value` (a call of the public `add_weighted` whose
  weight is not a positive finite number — on doubles: `0`, `-0`, negative, NaN, `±∞` — or whose value is not finite
  changes nothing), `quantile_eq_shortcut_first_unless_single_centroid` (the order of the tests in `quantile` matters
  only for a single centroid with `min ≠ max`) and `quantile_shape_any_carrier` (the value returned by `quantile` is `min`, `max`, the mean of a stored centroid,
  or a value `v` that passed the final clamp, i.e. `¬ v < min ∧ ¬ v > max`; on doubles the last alternative
  is "inside `[min,max]` or NaN").
* **KMV** — over `Nat` ranks (only `<` and `==` are used). The real rank is `(hash as f64) / 2^64`; the
  correspondence to `f64` ranks is checked by the driver on `Float`, not proved. `k = 0` (public field) is
  outside the theorems (correspondence only). `build_from_group` is the loop of an element-wise leaf
  (`KTree.built`, `kmv_build_from_group_is_elementwise`); the harness executes the real one.
* **`add_weighted` IS inside the theorems** (since the `add_weighted` fix): a merge tree may contain `wleaf` leaves
  (`TDigest::new` + `add_weighted` of (value, weight) pairs, ANY weights); `MTree.leaves` lists the values offered with
  a positive weight, and every `quantile_*` / `approxQuantiles_*` theorem quantifies over such trees. `TDInv` asks
  `0 < weight` (not `1 ≤`) and no longer contains "a single centroid has `min = max`" — that holds for unit weights
  only (`UnitInv`, `quantile_fix_invisible_for_pipelines`) and was what made `quantile(1) = max` true "for the
  unit-weight reason" before the fix (**negations** `legacy_shortcut_first_quantile_one_is_min`,
  `legacy_zero_weight_empty_with_data`).
* **NOT provable here (statistical accuracy, checked empirically only)**: the rank error of the t-digest and
  the error band of the KMV estimator. No theorem about `cdf`.

## Contents

* t-digest (`src/combiners/quantiles.rs`), `α := Rat`: the invariant and its preservation; the centroids are
  sorted by mean at ALL times (`add` inserts in order since `673b7b5`, `compress` sorts and keeps the order since
  `994fdb6`); for EVERY merge tree over EVERY input and EVERY `q` (also outside `[0,1]`): the estimate lies
  between the smallest and the largest input, equals them for `q ≤ 0` / `q ≥ 1`, is NaN (`none`) iff there is no
  input; total weight = the weight the tree was fed with (`tdigest_tree_total`; = number of inputs for a pipeline,
  `tdigest_tree_total_unit`).
  **Negation** `quantile_not_monotone`: the estimate is NOT monotone in `q` (known finding). What does hold:
  `quantile_monotone_same_cover` — on every reachable digest the estimate can only decrease between two `q` whose
  covering branch (`TDigest.cover`: which centroid the walk stops at) differs, i.e. at a centroid boundary. The
  harness attributes an observed inversion to the known finding only if the REAL centroids show exactly that.
  **Negation** `legacy_append_quantile_decreases_inside_one_centroid`: before `673b7b5` a digest queried straight
  after out-of-order `add`s decreased inside one centroid (real code: `100,99,…,1` gave q̂(0.05)=95, q̂(0.95)=5).
* KMV (`src/combiners/distinct.rs`): for EVERY merge tree the kept set is THE `k` smallest distinct ranks of the
  input (`kmv_state` + `kmv_state_unique`), hence set, heap and the estimate depend on the MEMBERS of the input
  only — not on duplicates, order or partitioning (`kmv_independent`); `|heap| ≤ k`; heap and set agree; the count
  is exact while #distinct < k (hypothesis: the hash is injective on the inputs); otherwise `(k−1)/r_k` with `r_k`
  the largest kept rank.
-/
set_option linter.unusedSectionVars false
namespace IB.Sketches
open NumOps

/-! ## t-digest: the invariant (weights > 0, total = Σ weights, every mean ∈ [min,max], min/max undefined iff no
    centroid) is preserved by every operation, `add_weighted` with ANY weight included -/

theorem tdigest_inv_new (δ : Rat) : TDInv (TDigest.new δ) := new_inv δ
theorem tdigest_inv_add (d : TDigest Rat) (h : TDInv d) (x : Rat) : TDInv (d.add x) := add_inv h x
/-- the public `add_weighted`, ANY weight (a weight that is not positive is ignored: `add_weighted_ignores_bad_weight`) -/
theorem tdigest_inv_add_weighted (d : TDigest Rat) (h : TDInv d) (x w : Rat) : TDInv (d.addWeighted x w) :=
  addWeighted_inv h x w
theorem tdigest_inv_merge (d o : TDigest Rat) (h : TDInv d) (ho : TDInv o) : TDInv (d.merge o) := merge_inv h ho
theorem tdigest_inv_compress (d : TDigest Rat) (h : TDInv d) : TDInv d.compress := compress_inv h

/-- after `compress` (hence after every `merge`, every `build_from_group` and before every `finish`) the
    centroids are sorted by mean -/
theorem tdigest_sorted_after_compress (d : TDigest Rat) (h : TDInv d) :
    d.compress.centroids.Pairwise (fun a b => a.mean ≤ b.mean) := compress_sorted h

/-- … and in fact at ALL times: every accumulator the engine can build (any merge tree, element-wise leaves that
    were never compressed included) has its centroids sorted by mean — `add` inserts in order, `compress` keeps the
    order. `quantile` and `cdf` walk the centroids in order, so this is what makes a query between two
    compressions meaningful (before `673b7b5` it was not: `legacy_append_quantile_decreases_inside_one_centroid`). -/
theorem tdigest_sorted_always (δ : Rat) (t : MTree Rat) :
    (t.eval δ).centroids.Pairwise (fun a b => a.mean ≤ b.mean) := eval_sorted δ t

/-- every accumulator the engine can build (any merge tree, element-wise or lifted leaves) satisfies the
    invariant and summarises exactly its inputs: total weight = n, `min`/`max` = those of the inputs -/
theorem tdigest_tree_sound (δ : Rat) (t : MTree Rat) : TDInv (t.eval δ) ∧ Summary (t.eval δ) t.leaves :=
  eval_sound δ t

/-- merge in any tree: the total weight is the weight the tree was fed with — 1 per element-wise input, the admitted
    (positive) weights of an `add_weighted` leaf -/
theorem tdigest_tree_total (δ : Rat) (t : MTree Rat) : (t.eval δ).total = t.weight := eval_total δ t

/-- … for the accumulators of a pipeline (`add_input` only): the number of inputs -/
theorem tdigest_tree_total_unit (δ : Rat) (t : MTree Rat) (hu : t.unit = true) :
    (t.eval δ).total = (t.leaves.length : Rat) := by
  rw [eval_total]
  induction t with
  | leaf xs => rfl
  | built xs => rfl
  | wleaf ps => simp [MTree.unit] at hu
  | node l r ihl ihr =>
    simp only [MTree.unit, Bool.and_eq_true] at hu
    simp only [MTree.weight, MTree.leaves, List.length_append, ihl hu.1, ihr hu.2]
    grind

/-- non-vacuity: a digest over a concrete input satisfies the invariant with a non-empty range -/
example : TDInv (foldAdd (100 : Rat) [3, 1, 2]) ∧ Summary (foldAdd (100 : Rat) [3, 1, 2]) [3, 1, 2] :=
  foldAdd_sound 100 [3, 1, 2]

/-! ## `add_weighted`: what is not an input is ignored -/
section generic0
variable {α : Type} [Add α] [Sub α] [Mul α] [Div α] [LE α] [LT α] [DecidableLE α] [DecidableLT α]
  [BEq α] [NumOps α]

/-- ANY carrier (so also IEEE doubles, where `weightOk w = w.is_finite() && !(w <= 0.0)` is false for `0`, `-0`, negative
    numbers, NaN and `±∞`): `add_weighted` with such a weight leaves the digest unchanged -/
theorem add_weighted_ignores_bad_weight (d : TDigest α) (x w : α) (h : weightOk w = false) : d.addWeighted x w = d :=
  addWeighted_badWeight d x w h

theorem add_weighted_ignores_nonfinite_value (d : TDigest α) (x w : α) (h : isFinite x = false) : d.addWeighted x w = d :=
  addWeighted_nonfinite d x w h
end generic0

/-- over `Rat`: exactly the weights `≤ 0` are ignored … -/
theorem add_weighted_nonpositive_ignored (d : TDigest Rat) (x w : Rat) (hw : w ≤ 0) : d.addWeighted x w = d :=
  addWeighted_ignored d x w hw

/-- … and a positive weight adds exactly that weight -/
theorem add_weighted_total (d : TDigest Rat) (x w : Rat) (hw : 0 < w) : (d.addWeighted x w).total = d.total + w :=
  addWeighted_total d x w hw

/-! ## range, end points, NaN — for any digest that satisfies the invariant and summarises `xs` -/

/-- `min ≤ q̂ ≤ max` for EVERY `q` (also `q < 0`, `q > 1`: clamped) -/
theorem quantile_in_range_of {d : TDigest Rat} {xs : List Rat} (h : TDInv d) (hs : Summary d xs) (hne : xs ≠ [])
    (q : Rat) : ∃ mn mx v, IsMin mn xs ∧ IsMax mx xs ∧ d.quantile q = some v ∧ mn ≤ v ∧ v ≤ mx := by
  obtain ⟨mn, mx, c, cs, hmn, hmx, hc, hmin, hmax, hle, hall⟩ := digest_facts h hs hne
  have := quantileCore_mem (fun x => clamp x mn mx) d.total mn mx q (c :: cs) hle (fun v => clamp_mem hle) hall
  exact ⟨mn, mx, _, hmin, hmax, quantile_eq hc hmn hmx q, this.1, this.2⟩

/-- `q̂ = min` for `q ≤ 0` -/
theorem quantile_zero_of {d : TDigest Rat} {xs : List Rat} (h : TDInv d) (hs : Summary d xs) (hne : xs ≠ [])
    (q : Rat) (hq : q ≤ 0) : ∃ mn, IsMin mn xs ∧ d.quantile q = some mn := by
  obtain ⟨mn, mx, c, cs, hmn, hmx, hc, hmin, _, _, _⟩ := digest_facts h hs hne
  exact ⟨mn, hmin, by rw [quantile_eq hc hmn hmx q, quantileCore_zero _ _ _ _ _ _ hq]⟩

/-- `q̂ = max` for `q ≥ 1` — for every digest, also one fed through `add_weighted` whose single centroid covers
    several values (before the fix false there: `legacy_shortcut_first_quantile_one_is_min`) -/
theorem quantile_one_of {d : TDigest Rat} {xs : List Rat} (h : TDInv d) (hs : Summary d xs) (hne : xs ≠ [])
    (q : Rat) (hq : 1 ≤ q) : ∃ mx, IsMax mx xs ∧ d.quantile q = some mx := by
  obtain ⟨mn, mx, c, cs, hmn, hmx, hc, _, hmax, _, _⟩ := digest_facts h hs hne
  exact ⟨mx, hmax, by rw [quantile_eq hc hmn hmx q, quantileCore_one _ _ _ _ _ _ hq]⟩

/-- NaN iff no input -/
theorem quantile_none_iff_empty_of {d : TDigest Rat} {xs : List Rat} (h : TDInv d) (hs : Summary d xs) (q : Rat) :
    d.quantile q = none ↔ xs = [] := by
  constructor
  · intro hq
    false_or_by_contra
    rename_i hne
    obtain ⟨_, _, v, _, _, hv, _, _⟩ := quantile_in_range_of h hs hne q
    rw [hq] at hv; cases hv
  · intro h0
    exact quantile_nil ((centroids_nil_iff h hs).mpr h0) q

/-! ## … instantiated: `TDigest::quantile` on the merged accumulator of ANY merge tree -/

theorem quantile_in_range (δ : Rat) (t : MTree Rat) (hne : t.leaves ≠ []) (q : Rat) :
    ∃ mn mx v, IsMin mn t.leaves ∧ IsMax mx t.leaves ∧ (t.eval δ).quantile q = some v ∧ mn ≤ v ∧ v ≤ mx :=
  quantile_in_range_of (eval_sound δ t).1 (eval_sound δ t).2 hne q

theorem quantile_zero (δ : Rat) (t : MTree Rat) (hne : t.leaves ≠ []) :
    ∃ mn, IsMin mn t.leaves ∧ (t.eval δ).quantile 0 = some mn :=
  quantile_zero_of (eval_sound δ t).1 (eval_sound δ t).2 hne 0 Rat.le_refl

theorem quantile_one (δ : Rat) (t : MTree Rat) (hne : t.leaves ≠ []) :
    ∃ mx, IsMax mx t.leaves ∧ (t.eval δ).quantile 1 = some mx :=
  quantile_one_of (eval_sound δ t).1 (eval_sound δ t).2 hne 1 Rat.le_refl

theorem quantile_none_iff_empty (δ : Rat) (t : MTree Rat) (q : Rat) :
    (t.eval δ).quantile q = none ↔ t.leaves = [] :=
  quantile_none_iff_empty_of (eval_sound δ t).1 (eval_sound δ t).2 q

/-! ## … and through `ApproxQuantiles::finish` / `ApproxMedian::finish` (one more `compress`) -/

theorem isEmpty_iff (δ : Rat) (t : MTree Rat) : (t.eval δ).isEmpty = true ↔ t.leaves = [] := by
  have hs := (eval_sound δ t).2
  simp only [TDigest.isEmpty, beq_iff_eq, rat_zero]
  constructor
  · intro h
    false_or_by_contra
    rename_i hne
    have := hs.total_pos hne
    grind
  · intro h; exact hs.total_zero h

/-- every requested quantile is NaN when there is no (finite) input … -/
theorem approxQuantiles_empty (δ : Rat) (t : MTree Rat) (qs : List Rat) (h : t.leaves = []) :
    approxQuantilesFinish qs (t.eval δ) = qs.map (fun _ => none) := by
  simp [approxQuantilesFinish, (isEmpty_iff δ t).mpr h]

/-- … and otherwise a number between the smallest and the largest input, `min` for `q ≤ 0`, `max` for `q ≥ 1` -/
theorem approxQuantiles_in_range (δ : Rat) (t : MTree Rat) (qs : List Rat) (hne : t.leaves ≠ []) :
    ∃ mn mx, IsMin mn t.leaves ∧ IsMax mx t.leaves ∧
      (approxQuantilesFinish qs (t.eval δ)).length = qs.length ∧
      ∀ i (hi : i < qs.length), ∃ v, (approxQuantilesFinish qs (t.eval δ))[i]? = some (some v) ∧ mn ≤ v ∧ v ≤ mx ∧
        (qs[i] ≤ 0 → v = mn) ∧ (1 ≤ qs[i] → v = mx) := by
  have hi := compress_inv (eval_sound δ t).1
  have hs := compress_summary (eval_sound δ t).2
  have hemp : (t.eval δ).isEmpty = false := by
    cases h : (t.eval δ).isEmpty with
    | false => rfl
    | true => exact absurd ((isEmpty_iff δ t).mp h) hne
  obtain ⟨mn, mx, c, cs, hmn, hmx, hc, hmin, hmax, hle, hall⟩ := digest_facts hi hs hne
  refine ⟨mn, mx, hmin, hmax, by simp [approxQuantilesFinish, hemp, TDigest.quantiles], ?_⟩
  intro i hi'
  have hm := quantileCore_mem (fun x => clamp x mn mx) (t.eval δ).compress.total mn mx qs[i] (c :: cs) hle (fun v => clamp_mem hle) hall
  refine ⟨_, ?_, hm.1, hm.2, ?_, ?_⟩
  · simp only [approxQuantilesFinish, hemp, Bool.false_eq_true, ↓reduceIte, TDigest.quantiles, List.getElem?_map,
      List.getElem?_eq_getElem hi', Option.map_some, quantile_eq hc hmn hmx]
  · intro hq; exact quantileCore_zero _ _ _ _ _ _ hq
  · intro hq; exact quantileCore_one _ _ _ _ _ _ hq

theorem approxMedian_spec (δ : Rat) (t : MTree Rat) :
    (t.leaves = [] → approxMedianFinish (t.eval δ) = none) ∧
    (t.leaves ≠ [] → ∃ mn mx v, IsMin mn t.leaves ∧ IsMax mx t.leaves ∧
        approxMedianFinish (t.eval δ) = some v ∧ mn ≤ v ∧ v ≤ mx) := by
  constructor
  · intro h; simp [approxMedianFinish, (isEmpty_iff δ t).mpr h]
  · intro hne
    have hemp : (t.eval δ).isEmpty = false := by
      cases h : (t.eval δ).isEmpty with
      | false => rfl
      | true => exact absurd ((isEmpty_iff δ t).mp h) hne
    simp only [approxMedianFinish, hemp, Bool.false_eq_true, ↓reduceIte]
    exact quantile_in_range_of (compress_inv (eval_sound δ t).1) (compress_summary (eval_sound δ t).2) hne _

/-! ## non-finite inputs are ignored (any carrier, in particular `Float` with NaN / ±∞) -/
section generic
variable {α : Type} [Add α] [Sub α] [Mul α] [Div α] [LE α] [LT α] [DecidableLE α] [DecidableLT α]
  [BEq α] [NumOps α]

theorem nonfinite_ignored (d : TDigest α) (x : α) (h : isFinite x = false) : d.add x = d :=
  add_nonfinite d x h

/-- any merge tree gives the same accumulator as the tree with the non-finite values deleted -/
theorem nonfinite_ignored_tree (δ : α) (t : MTree α) :
    t.eval δ = t.finiteOnly.eval δ ∧ t.finiteOnly.leaves = t.leaves.filter isFinite :=
  ⟨(eval_finiteOnly δ t).symm, leaves_finiteOnly t⟩

/-- what `quantile` can return on ANY carrier — in particular on IEEE doubles, where the comparisons are false
    on NaN: `min`, `max`, the mean of a stored centroid, or a value that passed the final clamp
    (`¬ v < min ∧ ¬ v > max`). No order or arithmetic law is used. -/
theorem quantile_shape_any_carrier (d : TDigest α) (q : α) :
    (d.quantile q = none ∧ (d.centroids = [] ∨ d.min = none ∨ d.max = none)) ∨
    ∃ mn mx v, d.min = some mn ∧ d.max = some mx ∧ d.quantile q = some v ∧ QShape d.centroids mn mx v := by
  unfold TDigest.quantile
  cases hc : d.centroids with
  | nil => exact Or.inl ⟨rfl, Or.inl rfl⟩
  | cons c cs =>
    cases hmn : d.min with
    | none => exact Or.inl ⟨rfl, Or.inr (Or.inl rfl)⟩
    | some mn =>
      cases hmx : d.max with
      | none => exact Or.inl ⟨rfl, Or.inr (Or.inr rfl)⟩
      | some mx =>
        refine Or.inr ⟨mn, mx, _, rfl, rfl, rfl, ?_⟩
        unfold quantileCoreWith
        simp only
        split
        · exact Or.inl rfl
        · split
          · exact Or.inr (Or.inl rfl)
          · split
            · exact Or.inl rfl
            · exact quantileLoop_shape mn mx _ (c :: cs) mn zero

end generic

/-! ## the clamp of `fix: clamp …` is invisible in exact arithmetic; the code without it already stayed in range there -/

theorem quantile_eq_noclamp {d : TDigest Rat} (h : TDInv d) (q : Rat) : d.quantile q = d.quantileNoClamp q := by
  by_cases hc : d.centroids = []
  · simp [TDigest.quantile, TDigest.quantileNoClamp, hc]
  · obtain ⟨mn, mx, hmn, hmx, hle, hall⟩ := h.range hc
    cases hcs : d.centroids with
    | nil => exact absurd hcs hc
    | cons c cs =>
      rw [quantile_eq hcs hmn hmx, quantileNoClamp_eq hcs hmn hmx]
      congr 1
      apply quantileCore_eq_noclamp _ _ _ _ _ hle (by rw [← hcs]; exact hall)
      have := wsum_pos_of_ok hc hall
      rw [h.total_eq]; exact this

/-! ## the order of the tests in `quantile` (end points before the single-centroid short cut) matters only for a
    single centroid with `min ≠ max` — ANY carrier, no arithmetic law used -/
section generic1
variable {α : Type} [Add α] [Sub α] [Mul α] [Div α] [LE α] [LT α] [DecidableLE α] [DecidableLT α]
  [BEq α] [NumOps α]

theorem quantile_eq_shortcut_first_unless_single_centroid (d : TDigest α) (q : α)
    (h : d.centroids.length ≠ 1 ∨ d.min = d.max) : d.quantile q = Legacy.quantileShortcutFirst d q := by
  unfold TDigest.quantile Legacy.quantileShortcutFirst
  cases hc : d.centroids with
  | nil => rfl
  | cons c cs =>
    cases hmn : d.min with
    | none => rfl
    | some mn =>
      cases hmx : d.max with
      | none => rfl
      | some mx =>
        simp only [quantileCoreWith, Legacy.quantileCoreWith]
        congr 1
        by_cases hL : (c :: cs).length = 1
        · have e : mn = mx := by
            rcases h with h | h
            · rw [hc] at h; exact absurd hL h
            · rw [hmn, hmx] at h; exact Option.some.inj h
          subst e
          have hb : ((c :: cs).length == 1) = true := by rw [beq_iff_eq]; exact hL
          simp only [hb, Bool.or_true, ↓reduceIte, ite_self]
        · have hb : ((c :: cs).length == 1) = false := by
            cases hx : ((c :: cs).length == 1) with
            | false => rfl
            | true => exact absurd (beq_iff_eq.mp hx) hL
          simp only [hb, Bool.or_false, Bool.false_eq_true, ↓reduceIte, decide_eq_true_eq]
end generic1

/-! ## NEGATION: the estimate is not monotone in `q` (known finding `C15-quantile-not-monotone`)

The interpolation inside the centroid that covers `q·W` runs between the NEIGHBOURING centroids' means, so
the estimate saw-tooths at every centroid boundary. Witness: the inputs `1,2,3,4`, δ = 100 (reproduced on the
real crate: corpus case 0 of `harness/src/c15.rs`). -/

/-- the digest of `[1,2,3,4]`, δ = 100 -/
def witnessDigest : TDigest Rat := ⟨100, [⟨1, 1⟩, ⟨2, 1⟩, ⟨3, 1⟩, ⟨4, 1⟩], 4, some 1, some 4⟩

theorem witnessDigest_eq : foldAdd (100 : Rat) [1, 2, 3, 4] = witnessDigest := by
  have e1 : TDigest.add (⟨100, [], 0, none, none⟩ : TDigest Rat) 1 = ⟨100, [⟨1,1⟩], 1, some 1, some 1⟩ := by
    rw [add_explicit 100 _ _ _ _ _ (by simp; grind)]
    simp only [ominV, omaxV, List.nil_append]; congr 1 <;> grind
  have e2 : TDigest.add (⟨100, [⟨1,1⟩], 1, some 1, some 1⟩ : TDigest Rat) 2 = ⟨100, [⟨1,1⟩,⟨2,1⟩], 2, some 1, some 2⟩ := by
    rw [add_explicit 100 _ _ _ _ _ (by simp; grind)]
    simp only [ominV, omaxV, rat_fmin, rat_fmax, List.cons_append, List.nil_append]; congr 1 <;> grind
  have e3 : TDigest.add (⟨100, [⟨1,1⟩,⟨2,1⟩], 2, some 1, some 2⟩ : TDigest Rat) 3 = ⟨100, [⟨1,1⟩,⟨2,1⟩,⟨3,1⟩], 3, some 1, some 3⟩ := by
    rw [add_explicit 100 _ _ _ _ _ (by simp; grind)]
    simp only [ominV, omaxV, rat_fmin, rat_fmax, List.cons_append, List.nil_append]; congr 1 <;> grind
  have e4 : TDigest.add (⟨100, [⟨1,1⟩,⟨2,1⟩,⟨3,1⟩], 3, some 1, some 3⟩ : TDigest Rat) 4 = witnessDigest := by
    rw [add_explicit 100 _ _ _ _ _ (by simp; grind)]
    simp only [witnessDigest, ominV, omaxV, rat_fmin, rat_fmax, List.cons_append, List.nil_append]; congr 1 <;> grind
  simp only [foldAdd, List.foldl, TDigest.new, rat_zero, e1, e2, e3, e4]

theorem witness_q25 : witnessDigest.quantile (1 / 4) = some 2 := by
  rw [quantile_eq (c := ⟨1,1⟩) (cs := [⟨2,1⟩,⟨3,1⟩,⟨4,1⟩]) (mn := 1) (mx := 4) rfl rfl rfl]
  rw [quantileCore_mid _ _ _ _ _ _ (by grind) (by grind) (by simp)]
  rw [quantileLoop_hit _ _ _ _ _ _ _ _ (by simp [witnessDigest]; grind) (by simp; grind)]
  simp only [witnessDigest]; congr 1; rw [clamp_id (by grind) (by grind)]; grind

theorem witness_q26 : witnessDigest.quantile (26 / 100) = some (27 / 25) := by
  rw [quantile_eq (c := ⟨1,1⟩) (cs := [⟨2,1⟩,⟨3,1⟩,⟨4,1⟩]) (mn := 1) (mx := 4) rfl rfl rfl]
  rw [quantileCore_mid _ _ _ _ _ _ (by grind) (by grind) (by simp)]
  rw [quantileLoop_skip _ _ _ _ _ _ _ (by simp [witnessDigest]; grind)]
  rw [quantileLoop_hit _ _ _ _ _ _ _ _ (by simp [witnessDigest]; grind) (by simp; grind)]
  simp only [witnessDigest]; congr 1; rw [clamp_id (by grind) (by grind)]; grind

/-- "never decrease as q increases" is FALSE for the code as it is: `q̂(0.25) = 2 > q̂(0.26) = 1.08` -/
theorem quantile_not_monotone :
    ∃ (xs : List Rat) (δ q₁ q₂ v₁ v₂ : Rat), q₁ ≤ q₂ ∧ (foldAdd δ xs).quantile q₁ = some v₁ ∧
      (foldAdd δ xs).quantile q₂ = some v₂ ∧ v₂ < v₁ := by
  refine ⟨[1, 2, 3, 4], 100, 1 / 4, 26 / 100, 2, 27 / 25, by grind, ?_, ?_, by grind⟩
  · rw [witnessDigest_eq]; exact witness_q25
  · rw [witnessDigest_eq]; exact witness_q26

/-- what does hold (`…_partial`), part 1: as long as the centroid that covers `q·W` does not change
    (`wsum pre < q₁·W ≤ q₂·W ≤ wsum pre + c.weight`) and its two neighbours are in order (`compress` sorts,
    `tdigest_sorted_after_compress`), a larger `q` never gives a smaller estimate. So the inversions of
    `quantile_not_monotone` sit exactly at centroid boundaries. -/
theorem quantile_monotone_within_centroid_partial (d : TDigest Rat) (mn mx : Rat) (pre : List (Centroid Rat))
    (c : Centroid Rat) (rest : List (Centroid Rat)) (q₁ q₂ : Rat)
    (hmn : d.min = some mn) (hmx : d.max = some mx) (hle : mn ≤ mx) (hcs : d.centroids = pre ++ c :: rest)
    (hw : ∀ x ∈ d.centroids, 1 ≤ x.weight) (hsorted : lastMean pre mn ≤ rightMean mx rest)
    (hq0 : (1 : Rat) / 4503599627370496 < q₁) (hq : q₁ ≤ q₂) (hq1 : q₂ < 1 - 1 / 4503599627370496)
    (hlen : d.centroids.length ≠ 1) (htot : 0 ≤ d.total)
    (h1 : wsum pre < q₁ * d.total) (h2 : q₂ * d.total ≤ wsum pre + c.weight) :
    ∃ v₁ v₂, d.quantile q₁ = some v₁ ∧ d.quantile q₂ = some v₂ ∧ v₁ ≤ v₂ := by
  have hqe : ∀ q, d.quantile q = some (quantileCoreWith (fun x => clamp x mn mx) d.total d.centroids mn mx q) := by
    intro q
    cases hc : d.centroids with
    | nil => rw [hc] at hcs; cases pre <;> simp at hcs
    | cons c0 cs => exact quantile_eq hc hmn hmx q
  refine ⟨_, _, hqe q₁, hqe q₂, ?_⟩
  rw [quantileCore_mid _ _ _ _ _ _ hq0 (by grind) hlen, quantileCore_mid _ _ _ _ _ _ (by grind) hq1 hlen, hcs]
  have hmul : q₁ * d.total ≤ q₂ * d.total := by
    have := Rat.mul_nonneg (a := q₂ - q₁) (b := d.total) (by grind) htot
    grind
  apply quantileLoop_mono_same_centroid mn mx pre c rest _ _ hle
  · intro x hx; have := hw x (by rw [hcs]; simp [hx]); grind
  · have := hw c (by rw [hcs]; simp); grind
  · exact hsorted
  · exact h1
  · exact hmul
  · exact h2

/-- non-vacuity: on the witness digest, `q = 0.26 ≤ 0.49` are both covered by the second centroid -/
example : ∃ v₁ v₂, witnessDigest.quantile (26 / 100) = some v₁ ∧ witnessDigest.quantile (49 / 100) = some v₂ ∧ v₁ ≤ v₂ := by
  apply quantile_monotone_within_centroid_partial witnessDigest 1 4 [⟨1, 1⟩] ⟨2, 1⟩ [⟨3, 1⟩, ⟨4, 1⟩] _ _ rfl rfl
    (by grind) rfl
  · intro x hx; simp [witnessDigest] at hx; rcases hx with rfl | rfl | rfl | rfl <;> exact Rat.le_refl
  · simp [lastMean, rightMean]; grind
  all_goals first | (simp [witnessDigest, wsum]; done) | (simp [witnessDigest, wsum]; grind) | grind

/-- the two end points bracket every estimate: `q̂(0) ≤ q̂(q) ≤ q̂(1)`. This is range containment restated through
    the end points (it is NOT a monotonicity statement for interior `q`; that one is false:
    `quantile_not_monotone`; what holds for interior `q` is `quantile_monotone_same_cover`). -/
theorem quantile_between_endpoints (δ : Rat) (t : MTree Rat) (hne : t.leaves ≠ []) (q : Rat) :
    ∃ v0 v v1, (t.eval δ).quantile 0 = some v0 ∧ (t.eval δ).quantile q = some v ∧ (t.eval δ).quantile 1 = some v1 ∧
      v0 ≤ v ∧ v ≤ v1 := by
  obtain ⟨mn, hmin, h0⟩ := quantile_zero δ t hne
  obtain ⟨mx, hmax, h1⟩ := quantile_one δ t hne
  obtain ⟨mn', mx', v, hmin', hmax', hv, hl, hr⟩ := quantile_in_range δ t hne q
  have e1 : mn = mn' := Rat.le_antisymm (hmin.2 _ hmin'.1) (hmin'.2 _ hmin.1)
  have e2 : mx = mx' := Rat.le_antisymm (hmax'.2 _ hmax.1) (hmax.2 _ hmax'.1)
  exact ⟨mn, v, mx, h0, hv, h1, e1 ▸ hl, e2 ▸ hr⟩

/-! ## what does hold about monotonicity: the estimate can only decrease where the covering branch changes

`TDigest.cover d q` names the branch of `quantile` that answers `q`: the `min` / `max` short cuts, the index of the
centroid the walk stops at, or the fall-through. The hypotheses of `quantile_monotone_within_centroid_partial`
above (sorted neighbours, positive weights, a decomposition of the centroid list) are discharged here for EVERY
digest the engine can build and for the digest `finish` queries. -/

theorem quantile_monotone_same_cover_of {d : TDigest Rat} (h : TDInv d) (hs : SortedC d.centroids)
    (hne : d.centroids ≠ []) (q₁ q₂ : Rat) (hq : q₁ ≤ q₂) (hc : d.cover q₁ = d.cover q₂) :
    ∃ v₁ v₂, d.quantile q₁ = some v₁ ∧ d.quantile q₂ = some v₂ ∧ v₁ ≤ v₂ := by
  obtain ⟨mn, mx, hmn, hmx, hle, hall⟩ := h.range hne
  have htot : 0 ≤ d.total := by
    rw [h.total_eq]; have := wsum_pos_of_ok hne hall; grind
  cases hcs : d.centroids with
  | nil => exact absurd hcs hne
  | cons c cs =>
    refine ⟨_, _, quantile_eq hcs hmn hmx q₁, quantile_eq hcs hmn hmx q₂, ?_⟩
    rw [hcs] at hall hs
    have r1 := quantileCore_mem (fun x => clamp x mn mx) d.total mn mx q₁ (c :: cs) hle (fun v => clamp_mem hle) hall
    have r2 := quantileCore_mem (fun x => clamp x mn mx) d.total mn mx q₂ (c :: cs) hle (fun v => clamp_mem hle) hall
    have hq' : clamp q₁ 0 1 ≤ clamp q₂ 0 1 := clamp_mono (by grind) hq
    have ha := clamp01_mem q₁
    have hb := clamp01_mem q₂
    -- `q₁` answered by the `min` test: `min` is below every estimate
    by_cases A1 : abs (clamp q₁ (0:Rat) 1 - 0) ≤ (eps : Rat)
    · rw [quantileCore_branch_min _ _ _ _ _ _ A1]; exact r2.1
    by_cases A2 : abs (clamp q₂ (0:Rat) 1 - 0) ≤ (eps : Rat)
    · exfalso; simp only [rat_abs, rat_eps] at A1 A2; grind
    -- `q₂` answered by the `max` test: `max` is above every estimate
    by_cases B2 : abs (clamp q₂ (0:Rat) 1 - 1) ≤ (eps : Rat)
    · rw [quantileCore_branch_max _ _ _ _ _ _ A2 B2]; exact r1.2
    by_cases B1 : abs (clamp q₁ (0:Rat) 1 - 1) ≤ (eps : Rat)
    · exfalso; simp only [rat_abs, rat_eps] at B1 B2; grind
    by_cases L : (c :: cs).length = 1
    · rw [quantileCore_branch_single _ _ _ _ _ _ A1 B1 L, quantileCore_branch_single _ _ _ _ _ _ A2 B2 L]
      exact Rat.le_refl
    rw [quantileCore_branch_loop _ _ _ _ _ _ A1 B1 L, quantileCore_branch_loop _ _ _ _ _ _ A2 B2 L]
    rw [cover_branch_loop d c cs hcs q₁ A1 B1 L, cover_branch_loop d c cs hcs q₂ A2 B2 L] at hc
    have hmul : clamp q₁ 0 1 * d.total ≤ clamp q₂ 0 1 * d.total := by
      have := Rat.mul_nonneg (a := clamp q₂ 0 1 - clamp q₁ 0 1) (b := d.total) (by grind) htot
      grind
    exact quantileLoop_mono_same_cover mn mx hle _ _ hmul (c :: cs) mn 0 0 hall hs
      (fun x hx => (hall x hx).2.1) hle hc

/-- `TDigest::quantile(s)` on the merged accumulator of ANY merge tree: `q₁ ≤ q₂` answered by the same branch give
    `q̂(q₁) ≤ q̂(q₂)` -/
theorem quantile_monotone_same_cover (δ : Rat) (t : MTree Rat) (hne : t.leaves ≠ []) (q₁ q₂ : Rat) (hq : q₁ ≤ q₂)
    (hc : (t.eval δ).cover q₁ = (t.eval δ).cover q₂) :
    ∃ v₁ v₂, (t.eval δ).quantile q₁ = some v₁ ∧ (t.eval δ).quantile q₂ = some v₂ ∧ v₁ ≤ v₂ :=
  quantile_monotone_same_cover_of (eval_sound δ t).1 (eval_sorted δ t)
    (fun h0 => hne ((centroids_nil_iff (eval_sound δ t).1 (eval_sound δ t).2).mp h0)) q₁ q₂ hq hc

/-- … and on the digest that `ApproxQuantiles::finish` / `ApproxMedian::finish` query (one more `compress`;
    `approxQuantilesFinish qs d = d.compress.quantiles qs` for a non-empty `d` by definition) -/
theorem approxQuantiles_monotone_same_cover (δ : Rat) (t : MTree Rat) (hne : t.leaves ≠ []) (q₁ q₂ : Rat) (hq : q₁ ≤ q₂)
    (hc : (t.eval δ).compress.cover q₁ = (t.eval δ).compress.cover q₂) :
    ∃ v₁ v₂, (t.eval δ).compress.quantile q₁ = some v₁ ∧ (t.eval δ).compress.quantile q₂ = some v₂ ∧ v₁ ≤ v₂ :=
  quantile_monotone_same_cover_of (compress_inv (eval_sound δ t).1) (compress_sorted (eval_sound δ t).1)
    (fun h0 => hne ((centroids_nil_iff (compress_inv (eval_sound δ t).1) (compress_summary (eval_sound δ t).2)).mp h0))
    q₁ q₂ hq hc

/-- contrapositive, the form the harness uses: an inversion `q₁ ≤ q₂`, `q̂(q₂) < q̂(q₁)` on a reachable digest sits
    where the covering branch changes (a centroid boundary) — in exact arithmetic never inside one centroid -/
theorem quantile_inversion_only_where_cover_changes (δ : Rat) (t : MTree Rat) (q₁ q₂ v₁ v₂ : Rat) (hq : q₁ ≤ q₂)
    (h1 : (t.eval δ).quantile q₁ = some v₁) (h2 : (t.eval δ).quantile q₂ = some v₂) (hinv : v₂ < v₁) :
    (t.eval δ).cover q₁ ≠ (t.eval δ).cover q₂ := by
  intro hc
  have hne : t.leaves ≠ [] := by
    intro h0
    have := (quantile_none_iff_empty δ t q₁).mpr h0
    rw [h1] at this; cases this
  obtain ⟨w₁, w₂, e1, e2, hle⟩ := quantile_monotone_same_cover δ t hne q₁ q₂ hq hc
  rw [h1] at e1; rw [h2] at e2
  cases e1; cases e2
  grind

/-- non-vacuity: on the witness digest every `q ∈ (0.25, 0.5]` is answered by the second centroid (so `0.26 ≤ 0.49`
    satisfy the hypothesis), while `q = 0.25` is answered by the first: the inversion of `quantile_not_monotone`
    between `0.25` and `0.26` sits at a change of cover -/
theorem witness_cover_second (q : Rat) (h1 : 1 / 4 < q) (h2 : q ≤ 1 / 2) : witnessDigest.cover q = .at 1 := by
  have hq : clamp q 0 1 = q := clamp_id (by grind) (by grind)
  rw [cover_branch_loop witnessDigest ⟨1, 1⟩ [⟨2, 1⟩, ⟨3, 1⟩, ⟨4, 1⟩] rfl q
    (by rw [hq]; simp only [rat_abs, rat_eps]; grind) (by rw [hq]; simp only [rat_abs, rat_eps]; grind) (by simp), hq]
  simp only [witnessDigest]
  unfold coverLoop; simp only; rw [if_neg (by grind)]
  unfold coverLoop; simp only; rw [if_pos (by grind)]

theorem witness_cover_first : witnessDigest.cover (1 / 4) = .at 0 := by
  have hq : clamp (1 / 4 : Rat) 0 1 = 1 / 4 := clamp_id (by grind) (by grind)
  rw [cover_branch_loop witnessDigest ⟨1, 1⟩ [⟨2, 1⟩, ⟨3, 1⟩, ⟨4, 1⟩] rfl (1 / 4)
    (by rw [hq]; simp only [rat_abs, rat_eps]; grind) (by rw [hq]; simp only [rat_abs, rat_eps]; grind) (by simp), hq]
  simp only [witnessDigest]
  unfold coverLoop; simp only; rw [if_pos (by grind)]

example : witnessDigest.cover (26 / 100) = witnessDigest.cover (49 / 100) ∧ witnessDigest.cover (1 / 4) ≠ witnessDigest.cover (26 / 100) := by
  rw [witness_cover_second _ (by grind) (by grind), witness_cover_second _ (by grind) (by grind), witness_cover_first]
  exact ⟨rfl, by intro h; cases h⟩

/-! ## NEGATION (code before `673b7b5`, `Legacy.add` appends): a digest queried between two compressions walked
    UNSORTED centroids; the estimate then decreases INSIDE one centroid — not the saw-tooth of the known finding.
    Inputs `3, 1, 2`, δ = 100 (reproduced on the real crate before the fix: `TDIGEST … raw full L3 [3,1,2]
    qs=[0.5,0.6]` answered `Q F2.5 F2.2 … INV U0`; now `Q F2.0 F2.2…`) -/

def legacyWitness : TDigest Rat := ⟨100, [⟨3, 1⟩, ⟨1, 1⟩, ⟨2, 1⟩], 3, some 1, some 3⟩

theorem legacyWitness_eq : Legacy.foldAdd (100 : Rat) [3, 1, 2] = legacyWitness := by
  have e1 : Legacy.add (⟨100, [], 0, none, none⟩ : TDigest Rat) 3 = ⟨100, [⟨3,1⟩], 1, some 3, some 3⟩ := by
    rw [legacy_add_explicit 100 _ _ _ _ _ (by simp; grind)]
    simp only [ominV, omaxV, List.nil_append]; congr 1 <;> grind
  have e2 : Legacy.add (⟨100, [⟨3,1⟩], 1, some 3, some 3⟩ : TDigest Rat) 1 = ⟨100, [⟨3,1⟩,⟨1,1⟩], 2, some 1, some 3⟩ := by
    rw [legacy_add_explicit 100 _ _ _ _ _ (by simp; grind)]
    simp only [ominV, omaxV, rat_fmin, rat_fmax, List.cons_append, List.nil_append]; congr 1 <;> grind
  have e3 : Legacy.add (⟨100, [⟨3,1⟩,⟨1,1⟩], 2, some 1, some 3⟩ : TDigest Rat) 2 = legacyWitness := by
    rw [legacy_add_explicit 100 _ _ _ _ _ (by simp; grind)]
    simp only [legacyWitness, ominV, omaxV, rat_fmin, rat_fmax, List.cons_append, List.nil_append]; congr 1 <;> grind
  simp only [Legacy.foldAdd, List.foldl, TDigest.new, rat_zero, e1, e2, e3]

theorem legacyWitness_q50 : Legacy.quantile legacyWitness (1 / 2) = some (5 / 2) := by
  rw [legacy_quantile_eq (c := ⟨3,1⟩) (cs := [⟨1,1⟩,⟨2,1⟩]) (mn := 1) (mx := 3) rfl rfl rfl]
  rw [legacy_quantileCore_mid _ _ _ _ _ _ (by grind) (by grind) (by simp)]
  rw [quantileLoop_skip _ _ _ _ _ _ _ (by simp [legacyWitness]; grind)]
  rw [quantileLoop_hit _ _ _ _ _ _ _ _ (by simp [legacyWitness]; grind) (by simp; grind)]
  simp only [legacyWitness, id]; congr 1; grind

theorem legacyWitness_q60 : Legacy.quantile legacyWitness (3 / 5) = some (11 / 5) := by
  rw [legacy_quantile_eq (c := ⟨3,1⟩) (cs := [⟨1,1⟩,⟨2,1⟩]) (mn := 1) (mx := 3) rfl rfl rfl]
  rw [legacy_quantileCore_mid _ _ _ _ _ _ (by grind) (by grind) (by simp)]
  rw [quantileLoop_skip _ _ _ _ _ _ _ (by simp [legacyWitness]; grind)]
  rw [quantileLoop_hit _ _ _ _ _ _ _ _ (by simp [legacyWitness]; grind) (by simp; grind)]
  simp only [legacyWitness, id]; congr 1; grind

theorem legacyWitness_cover (q : Rat) (h1 : 1 / 3 < q) (h2 : q ≤ 2 / 3) : legacyWitness.cover q = .at 1 := by
  have hq : clamp q 0 1 = q := clamp_id (by grind) (by grind)
  rw [cover_branch_loop legacyWitness ⟨3, 1⟩ [⟨1, 1⟩, ⟨2, 1⟩] rfl q
    (by rw [hq]; simp only [rat_abs, rat_eps]; grind) (by rw [hq]; simp only [rat_abs, rat_eps]; grind) (by simp), hq]
  simp only [legacyWitness]
  unfold coverLoop; simp only; rw [if_neg (by grind)]
  unfold coverLoop; simp only; rw [if_pos (by grind)]

theorem legacy_append_quantile_decreases_inside_one_centroid :
    ∃ (q₁ q₂ v₁ v₂ : Rat), q₁ ≤ q₂ ∧
      (Legacy.foldAdd (100 : Rat) [3, 1, 2]).cover q₁ = (Legacy.foldAdd (100 : Rat) [3, 1, 2]).cover q₂ ∧
      Legacy.quantile (Legacy.foldAdd (100 : Rat) [3, 1, 2]) q₁ = some v₁ ∧
      Legacy.quantile (Legacy.foldAdd (100 : Rat) [3, 1, 2]) q₂ = some v₂ ∧ v₂ < v₁ := by
  refine ⟨1 / 2, 3 / 5, 5 / 2, 11 / 5, by grind, ?_, ?_, ?_, by grind⟩
  · rw [legacyWitness_eq, legacyWitness_cover _ (by grind) (by grind), legacyWitness_cover _ (by grind) (by grind)]
  · rw [legacyWitness_eq]; exact legacyWitness_q50
  · rw [legacyWitness_eq]; exact legacyWitness_q60

/-- the current `add` on the same inputs keeps the centroids in order: `[1, 2, 3]` -/
example : (foldAdd (100 : Rat) [3, 1, 2]).centroids.Pairwise (fun a b => a.mean ≤ b.mean) :=
  tdigest_sorted_always 100 (.leaf [3, 1, 2])

/-! ## NEGATION (code before the `add_weighted` fix, `Legacy.addWeighted` / `Legacy.quantileShortcutFirst`): through
    the public `TDigest::add_weighted` two clauses of the property were false.
    Reproduced on the real crate (corpus of `harness/src/c15.rs`): `add_weighted(1.0, 0.5); add_weighted(2.0, 0.5)`
    merged into `TDigest::new(100)` is the single centroid `(1.5, 1.0)` with min 1, max 2, and `quantile(1.0)` answered 1;
    `add_weighted(3.0, 0.0)` gave `is_empty() == true` with `quantile(0.5) == 3`. -/

/-- two half-weight points, merged into an empty digest: ONE centroid (mean 3/2, weight 1), min 1, max 2 -/
def weightedWitness : TDigest Rat := ⟨100, [⟨3 / 2, 1⟩], 1, some 1, some 2⟩
def weightedWitnessTree : MTree Rat := .node (.leaf []) (.wleaf [(1, 1 / 2), (2, 1 / 2)])

theorem weightedLeaf_eq : foldAddW (100 : Rat) [(1, 1 / 2), (2, 1 / 2)] = ⟨100, [⟨1, 1 / 2⟩, ⟨2, 1 / 2⟩], 1, some 1, some 2⟩ := by
  have e1 : TDigest.addWeighted (⟨100, [], 0, none, none⟩ : TDigest Rat) 1 (1 / 2) = ⟨100, [⟨1, 1 / 2⟩], 1 / 2, some 1, some 1⟩ := by
    rw [addWeighted_explicit 100 _ _ _ _ _ _ (by grind) (by simp; grind)]
    simp only [ominV, omaxV]; congr 1 <;> grind
  have e2 : TDigest.addWeighted (⟨100, [⟨1, 1 / 2⟩], 1 / 2, some 1, some 1⟩ : TDigest Rat) 2 (1 / 2) = ⟨100, [⟨1, 1 / 2⟩, ⟨2, 1 / 2⟩], 1, some 1, some 2⟩ := by
    rw [addWeighted_explicit 100 _ _ _ _ _ _ (by grind) (by simp; grind)]
    simp only [ominV, omaxV, rat_fmin, rat_fmax]; congr 1 <;> grind
  simp only [foldAddW, List.foldl, TDigest.new, rat_zero, e1, e2]

theorem weightedWitness_eq : weightedWitnessTree.eval 100 = weightedWitness := by
  simp only [weightedWitnessTree, MTree.eval, foldAdd, List.foldl, weightedLeaf_eq, TDigest.new, rat_zero]
  rw [merge_eq]
  have hz : ((⟨100, [⟨1, 1 / 2⟩, ⟨2, 1 / 2⟩], 1, some 1, some 2⟩ : TDigest Rat).total == 0) = false := by
    simp
  rw [hz]
  simp only [Bool.false_eq_true, ↓reduceIte, mergePre, ominO, omaxO, List.nil_append]
  unfold TDigest.compress
  have hsort : ([⟨1, 1 / 2⟩, ⟨2, 1 / 2⟩] : List (Centroid Rat)).mergeSort meanLe = [⟨1, 1 / 2⟩, ⟨2, 1 / 2⟩] := by
    apply List.mergeSort_of_pairwise
    simp [meanLe]; grind
  simp only [hsort]
  have hfit : fits (100:Rat) (0 + 1) zero ⟨1, 1/2⟩ ⟨2, 1/2⟩ = true := by
    simp only [fits, kSize, clamp, rat_fmin, rat_fmax, rat_zero, rat_one, rat_two, decide_eq_true_eq]
    grind
  unfold compressLoopWith
  simp only [hfit, ↓reduceIte]
  unfold compressLoopWith
  simp only [weightedWitness, mergeCentroid, boundBetween, rat_mulAdd, rat_fmin, rat_fmax]
  congr 1
  · congr 1; congr 1 <;> grind
  · grind

theorem weightedWitness_leaves : weightedWitnessTree.leaves = [1, 2] := by
  have h : weightOk (1 / 2 : Rat) = true := rat_weightOk_pos (by grind)
  simp [weightedWitnessTree, MTree.leaves, List.filter, h]

/-- current code: `q = 1` answers `max = 2` (instance of `quantile_one`) -/
theorem weightedWitness_q1 : (weightedWitnessTree.eval 100).quantile 1 = some 2 := by
  obtain ⟨mx, hmax, h⟩ := quantile_one 100 weightedWitnessTree (by rw [weightedWitness_leaves]; simp)
  rw [weightedWitness_leaves] at hmax
  have : mx = 2 := by
    have h1 := hmax.1; have h2 := hmax.2 2 (by simp)
    simp at h1; grind
  rw [h, this]

/-- code before the fix: the single-centroid short cut answers `min = 1` for `q = 1` -/
theorem weightedWitness_legacy_q1 : Legacy.quantileShortcutFirst (weightedWitnessTree.eval 100) 1 = some 1 := by
  rw [weightedWitness_eq]
  rw [legacy_quantileShortcutFirst_eq (c := ⟨3 / 2, 1⟩) (cs := []) (mn := 1) (mx := 2) rfl rfl rfl]
  simp [Legacy.quantileCoreWith]

/-- "equal them exactly at q = 1" was FALSE for the code before the fix, through the public `add_weighted` -/
theorem legacy_shortcut_first_quantile_one_is_min :
    ∃ (t : MTree Rat) (mx v : Rat), IsMax mx t.leaves ∧ Legacy.quantileShortcutFirst (t.eval 100) 1 = some v ∧ v < mx :=
  ⟨weightedWitnessTree, 2, 1, by rw [weightedWitness_leaves]; simp [IsMax]; grind, weightedWitness_legacy_q1, by grind⟩

theorem legacy_zeroWeight_eq : Legacy.addWeighted (TDigest.new (100 : Rat)) 3 0 = ⟨100, [⟨3, 0⟩], 0, some 3, some 3⟩ := by
  unfold Legacy.addWeighted
  simp only [rat_isFinite, Bool.not_true, Bool.false_eq_true, ↓reduceIte, TDigest.new, rat_zero, rat_ofNat, rat_two,
    insertByMean_length, ominV, omaxV]
  rw [if_neg (by simp; grind)]
  congr 1 <;> grind

/-- code before the fix: a zero weight was stored — the digest then claims to be empty (`is_empty()`, so `finish`
    answers NaN) while `quantile` answers the value: "NaN only for an empty input" fails either way one reads it -/
theorem legacy_zero_weight_empty_with_data :
    (Legacy.addWeighted (TDigest.new (100 : Rat)) 3 0).isEmpty = true ∧
    approxMedianFinish (Legacy.addWeighted (TDigest.new (100 : Rat)) 3 0) = none ∧
    Legacy.quantileShortcutFirst (Legacy.addWeighted (TDigest.new (100 : Rat)) 3 0) (1 / 2) = some 3 := by
  rw [legacy_zeroWeight_eq]
  refine ⟨by simp [TDigest.isEmpty], by simp [approxMedianFinish, TDigest.isEmpty], ?_⟩
  rw [legacy_quantileShortcutFirst_eq (c := ⟨3, 0⟩) (cs := []) (mn := 3) (mx := 3) rfl rfl rfl]
  simp [Legacy.quantileCoreWith]

/-- current code: the call is ignored, the digest stays empty in every respect -/
example : (TDigest.new (100 : Rat)).addWeighted 3 0 = TDigest.new 100 :=
  add_weighted_nonpositive_ignored _ 3 0 Rat.le_refl


/-- for everything a PIPELINE builds (`add_input` only, weight 1) the fix changes nothing: a single centroid there has
    seen a single value (`min = max`), so both orders of the tests answer the same — on the merged accumulator and on
    the compressed copy `finish` queries -/
theorem quantile_fix_invisible_for_pipelines (δ : Rat) (t : MTree Rat) (hu : t.unit = true) (q : Rat) :
    (t.eval δ).quantile q = Legacy.quantileShortcutFirst (t.eval δ) q ∧
    (t.eval δ).compress.quantile q = Legacy.quantileShortcutFirst (t.eval δ).compress q := by
  have h1 := eval_unit δ t hu
  have h2 := compress_unit h1
  constructor
  · apply quantile_eq_shortcut_first_unless_single_centroid
    by_cases hl : (t.eval δ).centroids.length = 1
    · exact Or.inr (h1.one hl)
    · exact Or.inl hl
  · apply quantile_eq_shortcut_first_unless_single_centroid
    by_cases hl : (t.eval δ).compress.centroids.length = 1
    · exact Or.inr (h2.one hl)
    · exact Or.inl hl

/-! ## KMV -/

/-- `KMVApproxDistinctCount::new` never builds a sketch of size 0, so the theorems below (`0 < k`) apply -/
theorem kmvK_pos (k : Nat) : 0 < kmvK k := by
  unfold kmvK; have : 4 ≤ Nat.max k 4 := Nat.le_max_right k 4; omega

/-- for EVERY merge tree: the set is duplicate-free, ⊆ inputs, `≤ k` long, and every input that is not kept
    finds the set full of strictly smaller ranks — i.e. the set is the `k` smallest distinct ranks -/
theorem kmv_state (k : Nat) (hk : 0 < k) (t : KTree Nat) : KSmallest k t.leaves (t.eval k).set :=
  (ktree_inv hk t).spec

/-- that description determines the set (up to order): two sets that satisfy it for inputs with the same
    members are permutations of each other -/
theorem kmv_state_unique (k : Nat) (xs ys S T : List Nat) (hS : KSmallest k xs S) (hT : KSmallest k ys T)
    (hm : ∀ x, x ∈ xs ↔ x ∈ ys) : S.Perm T := hS.unique hT hm

/-- heap and set hold the same ranks -/
theorem kmv_heap_set_agree (k : Nat) (hk : 0 < k) (t : KTree Nat) : (t.eval k).heap.Perm (t.eval k).set :=
  (ktree_inv hk t).perm

/-- `|heap| ≤ k` -/
theorem kmv_heap_le_k (k : Nat) (hk : 0 < k) (t : KTree Nat) : (t.eval k).heap.length ≤ k := by
  have h := ktree_inv hk t
  rw [h.perm.length_eq]; exact h.spec.2.2.1

theorem kmv_k (k : Nat) (hk : 0 < k) (t : KTree Nat) : (t.eval k).k = k := (ktree_inv hk t).hk

/-- independent of duplicates, input order and partitioning: two merge trees whose inputs have the same
    members keep the same ranks and return the same answer -/
theorem kmv_independent (k : Nat) (hk : 0 < k) (t₁ t₂ : KTree Nat) (hm : ∀ x, x ∈ t₁.leaves ↔ x ∈ t₂.leaves) :
    (t₁.eval k).set.Perm (t₂.eval k).set ∧ (t₁.eval k).finish = (t₂.eval k).finish := by
  have h1 := ktree_inv hk t₁
  have h2 := ktree_inv hk t₂
  have hp := h1.spec.unique h2.spec hm
  refine ⟨hp, ?_⟩
  have hheap : heapMax (t₁.eval k).heap = heapMax (t₂.eval k).heap :=
    heapMax_congr (fun x => by rw [h1.perm.mem_iff, h2.perm.mem_iff, hp.mem_iff])
  simp only [KMV.finish, hp.length_eq, h1.hk, h2.hk, hheap]

/-- exact while fewer than `k` distinct values were seen (hypothesis: the hash is injective on the inputs);
    `D` is any duplicate-free enumeration of the input values -/
theorem kmv_exact_below_k {β : Type} (hash : β → Nat) (k : Nat) (hk : 0 < k) (t : KTree β) (D : List β)
    (hD : D.Nodup) (hm : ∀ v, v ∈ D ↔ v ∈ t.leaves)
    (hinj : ∀ a ∈ t.leaves, ∀ b ∈ t.leaves, hash a = hash b → a = b) (hlt : D.length < k) :
    ((t.map hash).eval k).finish = (if D.length = 0 then KmvOut.zero else KmvOut.exact D.length) := by
  have h := ktree_inv hk (t.map hash)
  have hD' : (D.map hash).Nodup :=
    nodup_map_of_inj_on hash D hD (fun a ha b hb => hinj a ((hm a).mp ha) b ((hm b).mp hb))
  have hm' : ∀ x, x ∈ D.map hash ↔ x ∈ (t.map hash).leaves := by
    intro x; simp only [KTree.leaves_map, List.mem_map, hm]
  have hlen := h.spec.length_eq_of_lt hD' hm' (by simpa using hlt)
  simp only [List.length_map] at hlen
  simp only [KMV.finish, hlen, h.hk]
  by_cases h0 : D.length = 0
  · simp [h0]
  · simp [h0, hlt]

/-- with `k` or more distinct ranks the answer is `(k − 1) / r_k`, `r_k` = the largest of the `k` kept ranks -/
theorem kmv_estimate_at_least_k (k : Nat) (hk : 0 < k) (t : KTree Nat) (hfull : (t.eval k).set.length = k) :
    ∃ rk, (t.eval k).finish = KmvOut.est k rk ∧ rk ∈ (t.eval k).set ∧ ∀ s ∈ (t.eval k).set, s ≤ rk := by
  have h := ktree_inv hk t
  have hne : (t.eval k).heap ≠ [] := by
    intro h0; have := h.perm.length_eq; rw [h0] at this; simp at this; omega
  cases hm : heapMax (t.eval k).heap with
  | none => exact absurd (heapMax_none.mp hm) hne
  | some rk =>
    obtain ⟨hin, hmax⟩ := heapMax_some hm
    refine ⟨rk, ?_, h.perm.mem_iff.mp hin, fun s hs => hmax s (h.perm.mem_iff.mpr hs)⟩
    simp only [KMV.finish, hfull, h.hk, hm]
    have : ¬ k = 0 := by omega
    simp [this]

/-- `build_from_group` runs the loop of an element-wise leaf (`create` + `try_insert` of every value) -/
theorem kmv_build_from_group_is_elementwise (k : Nat) (xs : List Nat) :
    (KTree.built xs).eval k = (KTree.leaf xs).eval k := rfl

/-- non-vacuity of `kmv_exact_below_k`: three distinct values, one repeated, two partitions, `k = 4` -/
example : ∃ (hash : Nat → Nat) (t : KTree Nat) (D : List Nat), D.Nodup ∧ (∀ v, v ∈ D ↔ v ∈ t.leaves) ∧
    (∀ a ∈ t.leaves, ∀ b ∈ t.leaves, hash a = hash b → a = b) ∧ D.length < 4 :=
  ⟨fun n => 7 * n + 1, .node (.leaf [5, 3]) (.leaf [5, 9]), [5, 3, 9], by decide, by
    intro v; simp [KTree.leaves]; omega, by intro a _ b _ h; simp at h; omega, by decide⟩

end IB.Sketches
