import IbModel.Generated.Kernels
import IbModel.Model.Combiners
/-!
# C06 — kernel ties (translator route)

Tied here (`combiners/topk.rs`): `add_input` `if acc.len() > self.k`, `merge` `if acc.len() + other.len() <= self.k`,
`build_from_group` `if heap.len() > self.k` ↔ the three size tests of `topAdd` / `topMerge` / `topBuild`.

Not tied: the two-pointer loop condition and the `Ord` comparisons of `merge` (generic `T`; the model's `twoPointer`
takes the remaining budget as fuel).
-/
set_option autoImplicit false
namespace IB.KTies.C06
open IB.Generated IB.Combiners
variable {α : Type} (le : α → α → Bool)

theorem k_topk_add_guard : ∀ len k : Nat, K.topk_add_guard len k = decide (len > k) := by intros; rfl

theorem k_topk_merge_fits : ∀ a b k : Nat, K.topk_merge_fits a b k = decide (a + b ≤ k) := by intros; rfl

theorem k_topk_group_guard : ∀ len k : Nat, K.topk_group_guard len k = decide (len > k) := by intros; rfl

theorem k_topk_add_guard_model : ∀ (k : Nat) (acc : List α) (v : α),
    topAdd le k acc v =
      if K.topk_add_guard (heapPush le acc v).length k then (heapPush le acc v).tail else heapPush le acc v := by
  intro k acc v; simp [topAdd, K.topk_add_guard]

theorem k_topk_merge_fits_model : ∀ (k : Nat) (acc other : List α),
    topMerge le k acc other =
      if K.topk_merge_fits acc.length other.length k then other.foldl (heapPush le) acc
      else (twoPointer le k acc.reverse (other.mergeSort le).reverse).foldl (heapPush le) [] := by
  intro k acc other; simp [topMerge, K.topk_merge_fits]

theorem k_topk_group_guard_model : ∀ (k : Nat) (xs : List α),
    topBuild le k xs = xs.foldl (fun heap v =>
      if K.topk_group_guard (heapPush le heap v).length k then (heapPush le heap v).tail else heapPush le heap v) [] := by
  intro k xs; simp [topBuild, K.topk_group_guard]

end IB.KTies.C06
