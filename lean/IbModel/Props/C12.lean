import IbModel.Proofs.CheckpointCodec
import IbModel.Proofs.CheckpointNames
import IbModel.Proofs.CheckpointStore
import IbModel.Proofs.CheckpointUtf8
import IbModel.Proofs.CheckpointSha
import IbModel.Proofs.CheckpointTrunc
import IbModel.Proofs.CheckpointFile
import IbModel.Proofs.CheckpointHistory
import IbModel.Generated.Tables
/-!
# C12 — checkpoint store: faithful round trip, integrity, bounded retention, true latest

Property theorems about `IB.Checkpoint` (model of `src/checkpoint.rs`, see `Model/Checkpoint.lean`).
Helper lemmas live in `Proofs/Checkpoint*.lean`. The hash `H` (SHA-256 in the code) is a parameter
everywhere. What the theorems need of it is stated pointwise and holds for the real hash:
* the round trip needs "digests are UTF-8 text of at most 4 KiB" — PROVED for `Sha.sha256Hex` (the function the
  driver runs, `Model/CheckpointSha.lean`) for every input, see `roundtrip_every_unicode_state_sha256`;
* tamper rejection needs `NoCollisionAt H (metaString s') (metaString s)` — no collision on the TWO strings
  involved (not global injectivity, which no hash with bounded output has); checked by kernel evaluation for
  `Sha.sha256Hex` on concrete pairs in the non-vacuity section, where ONE `H` satisfies all of them at once.
`IB.Generated.ckptDecodeLimit` / `IB.Generated.ckptReadCap` are printed from the running code on every run, so the
theorems that mention them are re-checked against the code's current constants.

Scope of the model (what the theorems do NOT say; DESIGN §13.8):
* `load` / `decodeState` = the decoder on a buffer; `loadFile` = `load_checkpoint(path)` including the read buffer
  (`loadFile_eq_load`: the two agree on every file, so the `load` theorems are theorems about files).
* the file system: `save` is the save in an existing directory under a usable file name; `saveChecked` /
  `latestChecked` / `clearChecked` add the unusable-name and missing / non-directory cases. ASSUMED of the file system
  (not modelled, not injectable as root): `read_dir` lists every entry, `remove_file` on a listed regular file succeeds
  (the code ignores its error — a failed deletion would silently leave more than `max` files), and the clean-up that
  follows the write does not fail (`save_checkpoint` is not atomic: an `Err` from the clean-up's `read_dir` would leave
  the new file written). Entries that are not regular files after following symlinks are invisible to every scan
  (checked by the harness on directories, symlinks to directories, dangling symlinks and sockets).
* integrity: a file in which protected fields AND checksum were altered CONSISTENTLY is a different genuine checkpoint
  and is accepted (the hash is unkeyed) — the "both differ" disjunct of `accepted_bytes_agree_or_both_differ`; the
  property's sentence is proved for alterations of exactly one side. `NoCollisionAt` is discharged by kernel
  evaluation for one pair (`sha256_noCollision_example`); for every other pair of a run the harness oracle
  `altered-protected-field-or-checksum-accepted` stands in for it.
-/
namespace IB.Checkpoint

/-- the decoder configuration of the running code: `standard().with_limit::<MAX_CHECKPOINT_DECODE_BYTES>()`;
    `mem` = the largest single buffer the allocator can provide -/
def currentCfg (mem : Nat) : Cfg := { limit := some IB.Generated.ckptDecodeLimit, mem := mem }

/-! ## 1. Faithful round trip -/

/-- **Round trip, every state**: decoding the encoding of ANY well-formed record (numbers up to `2^64-1`,
    arbitrary UTF-8 strings) returns exactly that record and exactly the bytes that followed it — for every
    decoder configuration under which the record's claimed size passes the limit and its strings fit in memory
    (`NoLimit`: no condition). -/
theorem decode_encode (cfg : Cfg) (s : State) (wf : s.WF) (hm : FitsMem cfg s)
    (hc : overLimit cfg (claims s) = false) (tl : Bytes) :
    decodeState cfg (encode s ++ tl) = .ok (s, tl) :=
  decodeState_encode_append cfg s wf hm hc tl

/-- **A saved checkpoint loads back field-for-field equal** (`load_checkpoint ∘ save_checkpoint`), for every
    hash function, when the stored checksum is the hash of the record's own checksum string. -/
theorem load_encode (H : Bytes → Bytes) (cfg : Cfg) (s : State) (wf : s.WF) (hm : FitsMem cfg s)
    (hc : overLimit cfg (claims s) = false) (hck : s.checksum = H (metaString s)) :
    load H cfg (encode s) = .ok s := by
  have := decode_encode cfg s wf hm hc []
  rw [List.append_nil] at this
  simp [load, this, hck]

/-- the property's own quantifier: each of the four strings has at most 4 KiB -/
def Within4K (s : State) : Prop :=
  s.pipelineId.length ≤ 4096 ∧ s.checksum.length ≤ 4096 ∧ s.execMode.length ≤ 4096 ∧
  s.metadata.lastNodeType.length ≤ 4096

/-- **Round trip through the code as configured today** (limit read from the running code): every
    well-formed record whose strings are at most 4 KiB each is loaded back unchanged. -/
theorem load_encode_current (H : Bytes → Bytes) (mem : Nat) (hmem : IB.Generated.ckptDecodeLimit ≤ mem)
    (s : State) (wf : s.WF) (h4 : Within4K s) (hck : s.checksum = H (metaString s)) :
    load H (currentCfg mem) (encode s) = .ok s := by
  obtain ⟨h1, h2, h3, h4⟩ := h4
  have hlim : 65 + 4 * 4096 ≤ IB.Generated.ckptDecodeLimit := by decide
  apply load_encode H (currentCfg mem) s wf
  · unfold FitsMem currentCfg; simp only; omega
  · unfold overLimit currentCfg claims; simp only [decide_eq_false_iff_not]; omega
  · exact hck

/-- the UTF-8 automaton of the model accepts the encoding of EVERY sequence of Unicode scalar values, so
    "arbitrary unicode strings" satisfy the `validUtf8` fields of `State.WF` -/
theorem every_unicode_string_is_valid (cs : List Char) : validUtf8 (utf8Of cs) = true := validUtf8_utf8Of cs

/-- a record built from arbitrary Unicode strings and numbers, with the genuine checksum -/
def mkState (H : Bytes → Bytes) (pid em lnt : List Char) (idx ts pc tn : Nat) (pp : UInt8) : State :=
  let s0 : State := { pipelineId := utf8Of pid, completedNodeIndex := idx, timestamp := ts, partitionCount := pc,
                      checksum := [], execMode := utf8Of em,
                      metadata := { totalNodes := tn, lastNodeType := utf8Of lnt, progressPercent := pp } }
  { s0 with checksum := H (metaString s0) }

/-- **The property's quantifier, literally**: for ALL Unicode strings (as sequences of scalar values) of at most
    4 KiB encoded, ALL numbers up to `2^64-1`, every progress byte, and every hash whose digests are UTF-8 text of at
    most 4 KiB (the real one: 64 hex digits) — the record with its genuine checksum is loaded back unchanged by the
    code as configured today. -/
theorem roundtrip_every_unicode_state (H : Bytes → Bytes)
    (hHu : ∀ x, validUtf8 (H x) = true) (hHl : ∀ x, (H x).length ≤ 4096)
    (mem : Nat) (hmem : IB.Generated.ckptDecodeLimit ≤ mem)
    (pid em lnt : List Char) (idx ts pc tn : Nat) (pp : UInt8)
    (hpid : (utf8Of pid).length ≤ 4096) (hem : (utf8Of em).length ≤ 4096) (hlnt : (utf8Of lnt).length ≤ 4096)
    (hidx : idx ≤ u64Max) (hts : ts ≤ u64Max) (hpc : pc ≤ u64Max) (htn : tn ≤ u64Max) :
    load H (currentCfg mem) (encode (mkState H pid em lnt idx ts pc tn pp)) =
      .ok (mkState H pid em lnt idx ts pc tn pp) := by
  have h4k : (4096 : Nat) ≤ isizeMax := by decide
  apply load_encode_current H mem hmem
  · exact {
      idx := hidx, ts := hts, pc := hpc, tn := htn,
      pidU := validUtf8_utf8Of pid, ckU := hHu _, emU := validUtf8_utf8Of em, lntU := validUtf8_utf8Of lnt,
      pidL := Nat.le_trans hpid h4k, ckL := Nat.le_trans (hHl _) h4k, emL := Nat.le_trans hem h4k,
      lntL := Nat.le_trans hlnt h4k }
  · exact ⟨hpid, hHl _, hem, hlnt⟩
  · rfl

/-- **The same for the real hash, no hypothesis on it left**: `Sha.sha256Hex` (the SHA-256 the driver runs against the
    `sha2` crate on every case) prints 64 ASCII hex digits for EVERY input (`Sha.sha256Hex_length`,
    `Sha.sha256Hex_validUtf8`), so every record of the property's quantifier round-trips. -/
theorem roundtrip_every_unicode_state_sha256
    (mem : Nat) (hmem : IB.Generated.ckptDecodeLimit ≤ mem)
    (pid em lnt : List Char) (idx ts pc tn : Nat) (pp : UInt8)
    (hpid : (utf8Of pid).length ≤ 4096) (hem : (utf8Of em).length ≤ 4096) (hlnt : (utf8Of lnt).length ≤ 4096)
    (hidx : idx ≤ u64Max) (hts : ts ≤ u64Max) (hpc : pc ≤ u64Max) (htn : tn ≤ u64Max) :
    load Sha.sha256Hex (currentCfg mem) (encode (mkState Sha.sha256Hex pid em lnt idx ts pc tn pp)) =
      .ok (mkState Sha.sha256Hex pid em lnt idx ts pc tn pp) :=
  roundtrip_every_unicode_state Sha.sha256Hex Sha.sha256Hex_validUtf8
    (fun x => by rw [Sha.sha256Hex_length]; decide) mem hmem pid em lnt idx ts pc tn pp hpid hem hlnt hidx hts hpc htn

/-- Without a limit (`Legacy.cfg`) the round trip needs only that the strings fit in memory. -/
theorem load_encode_nolimit (H : Bytes → Bytes) (mem : Nat) (s : State) (wf : s.WF)
    (hm : FitsMem (Legacy.cfg mem) s) (hck : s.checksum = H (metaString s)) :
    Legacy.load H mem (encode s) = .ok s :=
  load_encode H (Legacy.cfg mem) s wf hm rfl hck

/-- bytes after the record are ignored by `load_checkpoint` (`(state, _len)`) -/
theorem load_ignores_trailing (H : Bytes → Bytes) (cfg : Cfg) (s : State) (wf : s.WF) (hm : FitsMem cfg s)
    (hc : overLimit cfg (claims s) = false) (hck : s.checksum = H (metaString s)) (tl : Bytes) :
    load H cfg (encode s ++ tl) = .ok s := by
  simp [load, decode_encode cfg s wf hm hc tl, hck]

/-! ## 2. Malformed bytes: an error, never a crash, never an unbounded allocation -/

/-- **Bounded allocation, every input** (the DECODER's buffers; the buffer the file is read into is the subject of
    `loadFile_never_crashes` below): with a decode limit `L` that the allocator can satisfy
    (`L ≤ mem`, `L ≤ isize::MAX`), the decoding half of `load_checkpoint` on ARBITRARY bytes never hits "capacity
    overflow" and never exhausts memory. (Totality — it always returns `ok` or an error — is by construction: `load` is a total
    function.) Taking `mem = L` says: no single buffer larger than the limit is ever requested. -/
theorem load_never_crashes_of_limit (H : Bytes → Bytes) (cfg : Cfg) (L : Nat) (hL : cfg.limit = some L)
    (hmem : L ≤ cfg.mem) (hI : L ≤ isizeMax) (bytes : Bytes) : NoCrash (load H cfg bytes) := by
  unfold load
  refine andThen_noCrash (decodeState_noCrash cfg L hL hmem hI bytes) fun r _ => ?_
  split
  · exact noCrash_error (by decide) (by decide)
  · exact noCrash_ok _

/-- **The running code** (its limit is read from the code on every run) never crashes on any file content. -/
theorem load_never_crashes (H : Bytes → Bytes) (mem : Nat) (hmem : IB.Generated.ckptDecodeLimit ≤ mem)
    (bytes : Bytes) : NoCrash (load H (currentCfg mem) bytes) :=
  load_never_crashes_of_limit H (currentCfg mem) _ rfl hmem (by decide) bytes

/-- the requested buffer never exceeds the limit: even an allocator that can give exactly `limit` bytes suffices -/
theorem load_allocates_at_most_limit (H : Bytes → Bytes) (bytes : Bytes) :
    NoCrash (load H (currentCfg IB.Generated.ckptDecodeLimit) bytes) :=
  load_never_crashes H _ (Nat.le_refl _) bytes

/-- **All buffers together**: `NoCrash` above bounds each single request. For every ACCEPTED file the decoder's
    running total — 8 per integer / length prefix, 1 for the `u8` and EVERY byte of all four string buffers
    together — passed the limit check, i.e. `65 + Σ string lengths ≤ limit`.
    (`…_partial`: for a REJECTED file the buffers requested before the rejection are not summed by the model; each
    of them is covered by `load_never_crashes`, and each was claimed against the same running total first.) -/
theorem accepted_total_allocation_bounded_partial (H : Bytes → Bytes) (cfg : Cfg) (bytes : Bytes) (s' : State)
    (hl : load H cfg bytes = .ok s') : overLimit cfg (claims s') = false := by
  unfold load at hl
  obtain ⟨r, hd, _⟩ := andThen_eq_ok hl
  have := decodeState_ok_claims (rest := r.2) (s := r.1) hd
  split at * <;> simp_all

/-- the same for the running code, spelled out -/
theorem accepted_total_allocation_bounded_current_partial (H : Bytes → Bytes) (mem : Nat) (bytes : Bytes)
    (s' : State) (hl : load H (currentCfg mem) bytes = .ok s') :
    65 + s'.pipelineId.length + s'.checksum.length + s'.execMode.length + s'.metadata.lastNodeType.length ≤
      IB.Generated.ckptDecodeLimit := by
  have := accepted_total_allocation_bounded_partial H (currentCfg mem) bytes s' hl
  unfold overLimit currentCfg claims at this
  simp only [decide_eq_false_iff_not] at this
  omega

/-- **Every truncation of a saved file is an error** ("unexpected end"), for every record, every length `n` shorter
    than the file — the property's "∀ truncations of the encoded file", literally. -/
theorem truncated_file_rejected (H : Bytes → Bytes) (cfg : Cfg) (s : State) (wf : s.WF) (hm : FitsMem cfg s)
    (hc : overLimit cfg (claims s) = false) (n : Nat) (hn : n < (encode s).length) :
    load H cfg ((encode s).take n) = .error .eof := by
  have hd := decode_encode cfg s wf hm hc []
  rw [List.append_nil] at hd
  exact load_error_of_decode (decodeState_strict_prefix hd n hn)

/-- … by the code as configured today, for the property's records (strings of at most 4 KiB) -/
theorem truncated_file_rejected_current (H : Bytes → Bytes) (mem : Nat) (hmem : IB.Generated.ckptDecodeLimit ≤ mem)
    (s : State) (wf : s.WF) (h4 : Within4K s) (n : Nat) (hn : n < (encode s).length) :
    load H (currentCfg mem) ((encode s).take n) = .error .eof := by
  obtain ⟨h1, h2, h3, h4⟩ := h4
  have hlim : 65 + 4 * 4096 ≤ IB.Generated.ckptDecodeLimit := by decide
  apply truncated_file_rejected H (currentCfg mem) s wf
  · unfold FitsMem currentCfg; simp only; omega
  · unfold overLimit currentCfg claims; simp only [decide_eq_false_iff_not]; omega
  · exact hn

/-- **Appended bytes never matter, for ANY file**: whatever `load_checkpoint` answers on `bytes` — acceptance, or
    a rejection other than "unexpected end" — it answers on `bytes ++ tail` (generalises `load_ignores_trailing`
    from pristine encodings to arbitrary content). -/
theorem load_append_stable (H : Bytes → Bytes) (cfg : Cfg) (bytes tail : Bytes) :
    (∀ s', load H cfg bytes = .ok s' → load H cfg (bytes ++ tail) = .ok s') ∧
    (∀ e, load H cfg bytes = .error e → e ≠ .eof → load H cfg (bytes ++ tail) = .error e) := by
  obtain ⟨h1, h2⟩ := decodeState_ext cfg bytes tail
  unfold load
  cases hd : decodeState cfg bytes with
  | error e =>
    refine ⟨fun s' h => (by simp at h), fun e' h hne => ?_⟩
    simp only [andThen_error] at h
    injection h with h; subst h
    rw [h2 e hd hne]; rfl
  | ok r =>
    obtain ⟨s0, r0⟩ := r
    rw [h1 s0 r0 hd]
    exact ⟨fun s' h => h, fun e h _ => h⟩

/-! ### The file on disk: the read buffer

`load`/`decodeState` above speak about the decoder running on a buffer that already holds the file's bytes. The real
`load_checkpoint(path)` first fills that buffer: since the `fix:` with at most `MAX_CHECKPOINT_FILE_BYTES` bytes
(`File::take`), before it with the WHOLE file (`read_to_end`), however large. `loadFile` models both (cap `some c` /
`none`); the cap is printed from the running code (`IB.Generated.ckptReadCap`). -/

/-- the read cap of the running code -/
def currentCap : Option Nat := some IB.Generated.ckptReadCap

/-- the read buffer never holds more than the cap, whatever the size of the file -/
theorem read_buffer_bounded (file : Bytes) : (readPart currentCap file).length ≤ IB.Generated.ckptReadCap := by
  unfold readPart currentCap
  simp only [List.length_take]
  omega

/-- **The cap is sufficient — capping the read changes no answer**: for EVERY file content, `load_checkpoint(path)`
    (read at most the cap, then decode and verify) answers exactly what decoding and verifying the whole content
    answers. (Why: the decoder claims before it reads and consumes at most one byte more than it claims per integer,
    so it never looks beyond `limit + 8` bytes — `decodeState_eof_short`; the theorem needs `limit + 9 ≤ cap`,
    re-checked against the two constants of the running code by `decide`.) Hence every theorem about `load` in this
    file is a theorem about the files `load_checkpoint` is given. -/
theorem loadFile_eq_load (H : Bytes → Bytes) (mem : Nat) (hmem : IB.Generated.ckptReadCap ≤ mem) (file : Bytes) :
    loadFile H (currentCfg mem) currentCap file = load H (currentCfg mem) file := by
  have hcap : IB.Generated.ckptDecodeLimit + 9 ≤ IB.Generated.ckptReadCap := by decide
  have hI : IB.Generated.ckptReadCap ≤ isizeMax := by decide
  have hb := read_buffer_bounded file
  unfold loadFile
  have ha : alloc (currentCfg mem) (readPart currentCap file).length = .ok () := by
    unfold alloc
    rw [if_neg (by omega), if_neg (by unfold currentCfg; simp only; omega)]
  rw [ha, andThen_ok]
  exact load_take H (currentCfg mem) _ rfl _ hcap file

/-- **`load_checkpoint(path)` never crashes and never allocates beyond the cap, for EVERY file** — of any size,
    any content: the read buffer has at most `MAX_CHECKPOINT_FILE_BYTES` bytes and every decoder buffer at most
    `MAX_CHECKPOINT_DECODE_BYTES ≤` that. Taking `mem = cap`: an allocator that can give exactly `cap` bytes per request
    suffices. -/
theorem loadFile_never_crashes (H : Bytes → Bytes) (mem : Nat) (hmem : IB.Generated.ckptReadCap ≤ mem)
    (file : Bytes) : NoCrash (loadFile H (currentCfg mem) currentCap file) := by
  have hle : IB.Generated.ckptDecodeLimit ≤ IB.Generated.ckptReadCap := by decide
  rw [loadFile_eq_load H mem hmem file]
  exact load_never_crashes H mem (Nat.le_trans hle hmem) file

theorem loadFile_allocates_at_most_cap (H : Bytes → Bytes) (file : Bytes) :
    NoCrash (loadFile H (currentCfg IB.Generated.ckptReadCap) currentCap file) :=
  loadFile_never_crashes H _ (Nat.le_refl _) file

/-- the round trip through the file: every record of the property's quantifier, saved and loaded by path -/
theorem loadFile_encode_current (H : Bytes → Bytes) (mem : Nat) (hmem : IB.Generated.ckptReadCap ≤ mem)
    (s : State) (wf : s.WF) (h4 : Within4K s) (hck : s.checksum = H (metaString s)) :
    loadFile H (currentCfg mem) currentCap (encode s) = .ok s := by
  have hle : IB.Generated.ckptDecodeLimit ≤ IB.Generated.ckptReadCap := by decide
  rw [loadFile_eq_load H mem hmem]
  exact load_encode_current H mem (Nat.le_trans hle hmem) s wf h4 hck

/-- a long run of one byte behind a head (a sparse / padded file) may be shortened to the cap without changing the
    answer — what the driver does with the `CKPT-DECBIG` files of several hundred MiB -/
theorem loadFile_padded (H : Bytes → Bytes) (cfg : Cfg) (cap : Nat) (head : Bytes) (k : Nat) (v : UInt8) :
    loadFile H cfg (some cap) (head ++ List.replicate k v) =
      loadFile H cfg (some cap) (head ++ List.replicate (min k cap) v) := by
  have : readPart (some cap) (head ++ List.replicate k v) =
      readPart (some cap) (head ++ List.replicate (min k cap) v) := by
    unfold readPart
    simp only [List.take_append, List.take_replicate]
    congr 2
    omega
  unfold loadFile
  rw [this]

/-- NEGATION for the code before the read-cap `fix:` (reproduced on the real code: a 256 MiB sparse file named like a
    checkpoint made `load_checkpoint` allocate 256 MiB — 269 MB resident — and, in a 64 MiB address space, fail with
    "Failed to read checkpoint"): for EVERY amount of memory there is a file — `mem + 1` zero bytes — whose load
    asks the allocator for more than there is, before any decode limit applies. The current code reads at most the
    cap of the same file and answers without crashing. -/
theorem legacy_loadFile_allocates_file_size (H : Bytes → Bytes) (mem : Nat) (hmem : mem < isizeMax) :
    Legacy.loadFile H (currentCfg mem) (List.replicate (mem + 1) 0) = .error .allocFail ∧
    (IB.Generated.ckptReadCap ≤ mem →
      NoCrash (loadFile H (currentCfg mem) currentCap (List.replicate (mem + 1) 0))) := by
  refine ⟨?_, fun h => loadFile_never_crashes H mem h _⟩
  unfold Legacy.loadFile loadFile readPart
  simp only [List.length_replicate]
  have : alloc (currentCfg mem) (mem + 1) = .error .allocFail := by
    unfold alloc
    rw [if_neg (by omega), if_pos (by unfold currentCfg; simp only; omega)]
  rw [this]; rfl

/-- NEGATION for the pinned commit (DESIGN §8 #8): nine bytes — a length prefix of `2^63` — make the
    unlimited decoder panic with "capacity overflow", whatever the hash and however much memory there is. -/
theorem legacy_load_panics (H : Bytes → Bytes) (mem : Nat) :
    Legacy.load H mem [253, 0, 0, 0, 0, 0, 0, 0, 128] = .error .capacityOverflow := by
  have hv : leVal [0, 0, 0, 0, 0, 0, 0, 128] = 9223372036854775808 := by decide
  have hr : readVarint [253, 0, 0, 0, 0, 0, 0, 0, 128] = .ok (9223372036854775808, []) := by
    rw [← hv]; exact readVarint_253 [0, 0, 0, 0, 0, 0, 0, 128] [] rfl
  apply load_error_of_decode
  apply decodeState_error_first
  rw [decString_of_readVarint hr]
  simp only [Legacy.cfg, claim_nolimit, andThen_ok]
  have : alloc { limit := none, mem := mem } 9223372036854775808 = .error .capacityOverflow := by
    unfold alloc isizeMax; rw [if_pos (by omega)]
  rw [this]; rfl

/-- NEGATION for the pinned commit: for EVERY amount of memory below 1 TiB, a nine-byte file makes the
    unlimited decoder request more than there is (the process aborts). -/
theorem legacy_load_exhausts_memory (H : Bytes → Bytes) (mem : Nat) (h : mem < 1099511627776) :
    Legacy.load H mem [253, 0, 0, 0, 0, 0, 1, 0, 0] = .error .allocFail := by
  have hv : leVal [0, 0, 0, 0, 0, 1, 0, 0] = 1099511627776 := by decide
  have hr : readVarint [253, 0, 0, 0, 0, 0, 1, 0, 0] = .ok (1099511627776, []) := by
    rw [← hv]; exact readVarint_253 [0, 0, 0, 0, 0, 1, 0, 0] [] rfl
  apply load_error_of_decode
  apply decodeState_error_first
  rw [decString_of_readVarint hr]
  simp only [Legacy.cfg, claim_nolimit, andThen_ok]
  have : alloc { limit := none, mem := mem } 1099511627776 = .error .allocFail := by
    unfold alloc isizeMax; rw [if_neg (by omega), if_pos (by simp only; omega)]
  rw [this]; rfl

/-- the same hostile file is a plain error for the running code -/
theorem current_load_rejects_hostile_prefix (H : Bytes → Bytes) (mem : Nat) :
    load H (currentCfg mem) [253, 0, 0, 0, 0, 0, 0, 0, 128] = .error .limit := by
  have hv : leVal [0, 0, 0, 0, 0, 0, 0, 128] = 9223372036854775808 := by decide
  have hr : readVarint [253, 0, 0, 0, 0, 0, 0, 0, 128] = .ok (9223372036854775808, []) := by
    rw [← hv]; exact readVarint_253 [0, 0, 0, 0, 0, 0, 0, 128] [] rfl
  apply load_error_of_decode
  apply decodeState_error_first
  rw [decString_of_readVarint hr]
  have h1 : claim (currentCfg mem) 0 8 = .ok 8 := by
    apply claim_ok; unfold overLimit currentCfg; simp only [decide_eq_false_iff_not]; decide
  have h2 : claim (currentCfg mem) 8 9223372036854775808 = .error .limit := by
    unfold claim overLimit currentCfg
    rw [if_pos]; simp only [decide_eq_true_eq]; decide
  rw [h1, andThen_ok, h2]; rfl

/-! ## 3. Integrity: altered protected fields or checksum are rejected -/

theorem metaString_of_protectedFields {s t : State} (h : protectedFields s = protectedFields t) :
    metaString s = metaString t := by
  unfold protectedFields at h
  simp only [Prod.mk.injEq] at h
  obtain ⟨h1, h2, h3, h4⟩ := h
  unfold metaString; rw [h1, h2, h3, h4]

/-- the checksum string determines pipeline id, progress index, timestamp and partition count
    (a pipeline id may itself contain `:` and digits — the split is still unambiguous) -/
theorem metaString_determines_protected {s t : State} :
    metaString s = metaString t ↔ protectedFields s = protectedFields t :=
  ⟨metaString_injective, metaString_of_protectedFields⟩

/-- `H` has no collision on the two strings `a`, `b`. This is all the tamper theorems need — at the checksum
    strings of the altered and the genuine record. (It follows from global injectivity, `noCollisionAt_of_injective`,
    but unlike that it is satisfiable by a hash with bounded output: `noCollisionAt_of_ne`.) -/
def NoCollisionAt (H : Bytes → Bytes) (a b : Bytes) : Prop := H a = H b → a = b

theorem noCollisionAt_of_injective {H : Bytes → Bytes} (hH : ∀ a b, H a = H b → a = b) (a b : Bytes) :
    NoCollisionAt H a b := hH a b

theorem noCollisionAt_of_ne {H : Bytes → Bytes} {a b : Bytes} (h : H a ≠ H b) : NoCollisionAt H a b :=
  fun e => absurd e h

theorem noCollisionAt_self (H : Bytes → Bytes) (a : Bytes) : NoCollisionAt H a a := fun _ => rfl

/-- **Tamper rejection (protected fields)**: let `s` be a record whose checksum is genuine. ANY file content that
    decodes to a record carrying `s`'s checksum but different protected fields (pipeline id, progress index,
    timestamp, partition count) is rejected with "checksum mismatch" — provided `H` does not collide on the two
    checksum strings involved. Covers bit flips, overwrites and re-encodings alike: the hypothesis is about what
    the bytes decode to. -/
theorem tamper_rejected (H : Bytes → Bytes) (cfg : Cfg)
    (s s' : State) (bytes rest : Bytes) (hs : s.checksum = H (metaString s))
    (hd : decodeState cfg bytes = .ok (s', rest)) (hck : s'.checksum = s.checksum)
    (hp : protectedFields s' ≠ protectedFields s)
    (hH : NoCollisionAt H (metaString s') (metaString s)) :
    load H cfg bytes = .error .checksum := by
  have hne : H (metaString s') ≠ s'.checksum := by
    rw [hck, hs]
    intro e
    exact hp (metaString_injective (hH e))
  simp [load, hd, hne]

/-- the special case of the property text: re-encode the record with an altered protected field, keep the checksum -/
theorem tamper_rejected_reencoded (H : Bytes → Bytes) (cfg : Cfg)
    (s s' : State) (hs : s.checksum = H (metaString s)) (wf : s'.WF) (hm : FitsMem cfg s')
    (hc : overLimit cfg (claims s') = false) (hck : s'.checksum = s.checksum)
    (hp : protectedFields s' ≠ protectedFields s)
    (hH : NoCollisionAt H (metaString s') (metaString s)) :
    load H cfg (encode s') = .error .checksum := by
  have hd := decode_encode cfg s' wf hm hc []
  rw [List.append_nil] at hd
  exact tamper_rejected H cfg s s' _ [] hs hd hck hp hH

/-- **Tamper rejection (checksum)**: a file that decodes to the same protected fields but a different checksum is
    rejected — for every hash function, no assumption. -/
theorem checksum_tamper_rejected (H : Bytes → Bytes) (cfg : Cfg) (s s' : State) (bytes rest : Bytes)
    (hs : s.checksum = H (metaString s)) (hd : decodeState cfg bytes = .ok (s', rest))
    (hp : protectedFields s' = protectedFields s) (hck : s'.checksum ≠ s.checksum) :
    load H cfg bytes = .error .checksum := by
  have hne : H (metaString s') ≠ s'.checksum := by
    rw [metaString_of_protectedFields hp, ← hs]; exact fun e => hck e.symm
  simp [load, hd, hne]

/-- what `load` returns on acceptance is what the decoder produced, and its checksum is the hash of its own
    checksum string (the only way through `load_checkpoint`'s comparison) -/
theorem load_ok_inv {H : Bytes → Bytes} {cfg : Cfg} {bytes : Bytes} {s' : State} (hl : load H cfg bytes = .ok s') :
    (∃ rest, decodeState cfg bytes = .ok (s', rest)) ∧ s'.checksum = H (metaString s') := by
  unfold load at hl
  cases hd : decodeState cfg bytes with
  | error e => simp [hd] at hl
  | ok r =>
    simp only [hd, andThen_ok] at hl
    split at hl
    · cases hl
    · rename_i hne
      injection hl with hl
      subst hl
      exact ⟨⟨r.2, rfl⟩, (by simpa using hne : H (metaString r.1) = r.1.checksum).symm⟩

/-- **Whatever is accepted is intact** (the contrapositive the harness oracle evaluates on the real code): if a file
    derived from a genuine record `s` is accepted and still carries `s`'s checksum, its protected fields are `s`'s. -/
theorem accepted_is_intact (H : Bytes → Bytes) (cfg : Cfg)
    (s s' : State) (bytes : Bytes) (hs : s.checksum = H (metaString s))
    (hl : load H cfg bytes = .ok s') (hck : s'.checksum = s.checksum)
    (hH : NoCollisionAt H (metaString s') (metaString s)) :
    protectedFields s' = protectedFields s := by
  have h' := (load_ok_inv hl).2
  exact metaString_injective (hH (by rw [← h', hck, hs]))

/-! ### Bytes level: ANY file content, however it was obtained from the genuine file

The four theorems above speak about the record a file decodes to. The statements below quantify over the file's
BYTES: nothing is assumed about `bytes` (a bit flip in a length prefix that shifts every later field, an
overwrite, a truncation, an insertion, several of them, or unrelated bytes). -/

/-- **No hypothesis on `H` at all**: if `load_checkpoint` accepts ANY bytes as `s'` then
    (1) `s'` is intact with respect to its own checksum,
    (2) if `s'` has the protected fields of the genuine record `s` it has `s`'s checksum too, and
    (3) if its protected fields differ from `s`'s then its checksum differs from `s`'s — unless `H` collides on
        exactly the two checksum strings `metaString s'`, `metaString s` (a collision is exhibited). -/
theorem accepted_bytes_consistent (H : Bytes → Bytes) (cfg : Cfg) (s s' : State) (bytes : Bytes)
    (hs : s.checksum = H (metaString s)) (hl : load H cfg bytes = .ok s') :
    s'.checksum = H (metaString s') ∧
    (protectedFields s' = protectedFields s → s'.checksum = s.checksum) ∧
    (protectedFields s' ≠ protectedFields s →
      s'.checksum ≠ s.checksum ∨ (H (metaString s') = H (metaString s) ∧ metaString s' ≠ metaString s)) := by
  have h' := (load_ok_inv hl).2
  refine ⟨h', ?_, ?_⟩
  · intro hp; rw [h', hs, metaString_of_protectedFields hp]
  · intro hp
    by_cases hck : s'.checksum = s.checksum
    · right
      exact ⟨by rw [← h', hck, hs], fun e => hp (metaString_injective e)⟩
    · exact Or.inl hck

/-- **Bytes-level integrity**: with no collision on the two strings involved, whatever `load_checkpoint` accepts
    from ANY bytes either agrees with the genuine record `s` on ALL protected fields AND the checksum, or differs
    from it in BOTH (a consistently re-computed record, i.e. a different genuine checkpoint — never `s` with one
    side altered). -/
theorem accepted_bytes_agree_or_both_differ (H : Bytes → Bytes) (cfg : Cfg) (s s' : State) (bytes : Bytes)
    (hs : s.checksum = H (metaString s)) (hl : load H cfg bytes = .ok s')
    (hH : NoCollisionAt H (metaString s') (metaString s)) :
    (protectedFields s' = protectedFields s ∧ s'.checksum = s.checksum) ∨
    (protectedFields s' ≠ protectedFields s ∧ s'.checksum ≠ s.checksum) := by
  obtain ⟨_, h2, h3⟩ := accepted_bytes_consistent H cfg s s' bytes hs hl
  by_cases hp : protectedFields s' = protectedFields s
  · exact Or.inl ⟨hp, h2 hp⟩
  · rcases h3 hp with h | ⟨he, hne⟩
    · exact Or.inr ⟨hp, h⟩
    · exact absurd (hH he) hne

/-- the same as a rejection statement: bytes that decode to a record in which EXACTLY ONE of {protected fields,
    checksum} differs from the genuine record are rejected with "checksum mismatch" -/
theorem altered_one_side_rejected (H : Bytes → Bytes) (cfg : Cfg) (s s' : State) (bytes rest : Bytes)
    (hs : s.checksum = H (metaString s)) (hd : decodeState cfg bytes = .ok (s', rest))
    (hH : NoCollisionAt H (metaString s') (metaString s))
    (hx : (protectedFields s' ≠ protectedFields s ∧ s'.checksum = s.checksum) ∨
          (protectedFields s' = protectedFields s ∧ s'.checksum ≠ s.checksum)) :
    load H cfg bytes = .error .checksum := by
  rcases hx with ⟨hp, hck⟩ | ⟨hp, hck⟩
  · exact tamper_rejected H cfg s s' bytes rest hs hd hck hp hH
  · exact checksum_tamper_rejected H cfg s s' bytes rest hs hd hp hck

/-- the faults of the property's quantifier, as operations on the file's bytes (positions out of range: no-op) -/
inductive Fault
  | flip (pos : Nat) (bit : Nat)        -- single-bit flip of byte `pos`
  | overwrite (pos : Nat) (v : UInt8)    -- byte overwrite
  | truncate (len : Nat)                 -- keep the first `len` bytes
  | insert (pos : Nat) (v : UInt8)
  | delete (pos : Nat)
  | append (tail : Bytes)

def applyFault (b : Bytes) : Fault → Bytes
  | .flip pos bit => b.modify pos (fun x => x ^^^ ((1 : UInt8) <<< UInt8.ofNat (bit % 8)))
  | .overwrite pos v => b.modify pos (fun _ => v)
  | .truncate len => b.take len
  | .insert pos v => b.take pos ++ v :: b.drop pos
  | .delete pos => b.eraseIdx pos
  | .append tail => b ++ tail

/-- a fault SEQUENCE applied left to right -/
def applyFaults (b : Bytes) (fs : List Fault) : Bytes := fs.foldl applyFault b

/-- **For all fault sequences on the encoded file** (single-bit flips, overwrites, truncations, insertions,
    deletions, appended bytes, any number of them in any order): the DECODER of the running code, run on a buffer holding
    the damaged content, does not crash, requests no buffer beyond the decode limit (the buffer that holds the content
    itself is the subject of `faulted_file_on_disk`), and — if it accepts the damaged file at all — returns a record that is intact with
    respect to its own checksum and agrees with the saved record on all protected fields and the checksum or
    differs from it in both. -/
theorem faulted_file (H : Bytes → Bytes) (mem : Nat) (hmem : IB.Generated.ckptDecodeLimit ≤ mem)
    (s : State) (hs : s.checksum = H (metaString s)) (faults : List Fault) :
    NoCrash (load H (currentCfg mem) (applyFaults (encode s) faults)) ∧
    ∀ s', load H (currentCfg mem) (applyFaults (encode s) faults) = .ok s' →
      s'.checksum = H (metaString s') ∧
      (NoCollisionAt H (metaString s') (metaString s) →
        (protectedFields s' = protectedFields s ∧ s'.checksum = s.checksum) ∨
        (protectedFields s' ≠ protectedFields s ∧ s'.checksum ≠ s.checksum)) :=
  ⟨load_never_crashes H mem hmem _, fun s' hl =>
    ⟨(load_ok_inv hl).2, accepted_bytes_agree_or_both_differ H _ s s' _ hs hl⟩⟩

/-- **The same for the file on disk** (`load_checkpoint(path)`: read at most the cap, then decode): whatever the fault
    sequence did to the saved file — including appending ANY number of bytes, e.g. a tail of several hundred MiB — the
    load neither crashes nor requests a buffer beyond `MAX_CHECKPOINT_FILE_BYTES`, and what it accepts is intact. -/
theorem faulted_file_on_disk (H : Bytes → Bytes) (mem : Nat) (hmem : IB.Generated.ckptReadCap ≤ mem)
    (s : State) (hs : s.checksum = H (metaString s)) (faults : List Fault) :
    NoCrash (loadFile H (currentCfg mem) currentCap (applyFaults (encode s) faults)) ∧
    (readPart currentCap (applyFaults (encode s) faults)).length ≤ IB.Generated.ckptReadCap ∧
    ∀ s', loadFile H (currentCfg mem) currentCap (applyFaults (encode s) faults) = .ok s' →
      s'.checksum = H (metaString s') ∧
      (NoCollisionAt H (metaString s') (metaString s) →
        (protectedFields s' = protectedFields s ∧ s'.checksum = s.checksum) ∨
        (protectedFields s' ≠ protectedFields s ∧ s'.checksum ≠ s.checksum)) := by
  have hle : IB.Generated.ckptDecodeLimit ≤ IB.Generated.ckptReadCap := by decide
  refine ⟨loadFile_never_crashes H mem hmem _, read_buffer_bounded _, ?_⟩
  rw [loadFile_eq_load H mem hmem]
  exact (faulted_file H mem (Nat.le_trans hle hmem) s hs faults).2

/-- every accepted record carries the hash of its own checksum string -/
theorem accepted_checksum_matches (H : Bytes → Bytes) (cfg : Cfg) (bytes : Bytes) (s' : State)
    (hl : load H cfg bytes = .ok s') : s'.checksum = H (metaString s') := (load_ok_inv hl).2

/-! ## 4. File names: whose checkpoint is it -/

/-- the name `save_checkpoint` writes is a well-formed checkpoint of that pipeline, with the state's timestamp -/
theorem saved_name_stamp (s : State) (h : s.timestamp ≤ u64Max) :
    fileStamp (pfx s.pipelineId) (fileName s) = some s.timestamp :=
  fileStamp_fileNameOf s.pipelineId s.timestamp h

theorem saved_name_isOwn (s : State) (h : s.timestamp ≤ u64Max) : isOwn s.pipelineId (fileName s) = true := by
  unfold isOwn; rw [saved_name_stamp s h]; rfl

/-- **A well-formed checkpoint name belongs to exactly one pipeline** — also when one id extends another
    (`p` vs `p_x`, `p` vs `p_7`), contains `.`/`_`/digits, or is empty. -/
theorem own_unique {p q : Bytes} {name : Name} (hp : isOwn p name = true) (hq : isOwn q name = true) : p = q :=
  isOwn_unique hp hq

/-- the sort key the scans use is the parsed timestamp on every file they consider -/
theorem sortKey_eq_stamp {pid : Bytes} {name : Name} {t : Nat} (h : fileStamp (pfx pid) name = some t) :
    sortKey (pfx pid) name = t := sortKey_of_fileStamp h

/-! ## 5. Bounded retention, newest kept — after every save, for every history -/

/-- names of `pid`'s well-formed checkpoints in a directory -/
def ownNames (pid : Bytes) (fs : FS) : List Name := (names fs).filter (isOwn pid)

/-- **Retention bound**: after `save_checkpoint` with `max_checkpoints = Some m` — whatever the directory held
    before (any earlier history, timestamps in any order, other pipelines, foreign files), for every `m ≥ 0` — exactly
    `min m (#own files incl. the new one)` of that pipeline's checkpoints remain; in particular at most `m`. -/
theorem retention_count (m : Nat) (fs : FS) (s : State) (hn : (names fs).Nodup) :
    (ownNames s.pipelineId (save (some m) fs s)).length =
      min m (ownNames s.pipelineId (write fs (fileName s) (encode s))).length :=
  own_count_after_cleanup _ _ m _ (names_write_nodup hn _ _)

theorem retention_bound (m : Nat) (fs : FS) (s : State) (hn : (names fs).Nodup) :
    (ownNames s.pipelineId (save (some m) fs s)).length ≤ m := by
  rw [retention_count m fs s hn]; exact Nat.min_le_left _ _

/-- **The kept ones are the most recent ones**: every checkpoint of the pipeline that the save removed has a
    timestamp ≤ the timestamp of every checkpoint of the pipeline that remains (ties included). -/
theorem retention_newest (m : Nat) (fs : FS) (s : State) (kept dropped : Name) (tk td : Nat)
    (hk : kept ∈ ownNames s.pipelineId (save (some m) fs s))
    (hd : dropped ∈ ownNames s.pipelineId (write fs (fileName s) (encode s)))
    (hgone : dropped ∉ names (save (some m) fs s))
    (hsk : fileStamp (pfx s.pipelineId) kept = some tk) (hsd : fileStamp (pfx s.pipelineId) dropped = some td) :
    td ≤ tk := by
  have := cleanup_keeps_greatest (isOwn s.pipelineId) (sortKey (pfx s.pipelineId)) m
    (write fs (fileName s) (encode s)) kept dropped hk hd hgone
  rwa [sortKey_of_fileStamp hsk, sortKey_of_fileStamp hsd] at this

/-- `max_checkpoints = None` keeps everything -/
theorem retention_none (fs : FS) (s : State) : save none fs s = write fs (fileName s) (encode s) := rfl

/-- **A save never touches anything that is not a well-formed checkpoint of the saving pipeline** (other
    pipelines' checkpoints, foreign files, look-alikes such as `checkpoint_p_garbage.bin`), and creates nothing but
    its own file. -/
theorem save_keeps_foreign (max : Option Nat) (fs : FS) (s : State) (f : Name × Bytes) (hf : f ∈ fs)
    (hne : f.1 ≠ fileName s) (hforeign : isOwn s.pipelineId f.1 = false) : f ∈ save max fs s := by
  apply cleanup_keeps_noncandidates _ _ max _ f _ hforeign
  unfold write
  split
  · refine List.mem_map.mpr ⟨f, hf, ?_⟩
    rw [if_neg (by simpa using hne)]
  · exact List.mem_append_left _ hf

/-- in particular the checkpoints of every OTHER pipeline survive, whatever the two ids look like -/
theorem save_keeps_other_pipelines (max : Option Nat) (fs : FS) (s : State) (q : Bytes) (f : Name × Bytes)
    (hf : f ∈ fs) (hq : isOwn q f.1 = true) (hne : q ≠ s.pipelineId) (hts : s.timestamp ≤ u64Max) :
    f ∈ save max fs s := by
  have hforeign : isOwn s.pipelineId f.1 = false := by
    cases h : isOwn s.pipelineId f.1 with
    | false => rfl
    | true => exact absurd (own_unique hq h) hne
  refine save_keeps_foreign max fs s f hf ?_ hforeign
  intro e
  rw [e, saved_name_isOwn s hts] at hforeign
  cases hforeign

theorem save_creates_only_its_file (max : Option Nat) (fs : FS) (s : State) (n : Name)
    (h : n ∈ names (save max fs s)) : n ∈ names fs ∨ n = fileName s := by
  have hsub := (cleanup_sublist (isOwn s.pipelineId) (sortKey (pfx s.pipelineId)) max
    (write fs (fileName s) (encode s))).map (·.1)
  exact (mem_names_write fs _ _ n).mp (hsub.subset h)

/-- a whole history of saves (any pipelines, any timestamps, any order) -/
def saves (max : Option Nat) (fs : FS) (hist : List State) : FS := hist.foldl (save max) fs

theorem names_nodup_save (max : Option Nat) (fs : FS) (s : State) (hn : (names fs).Nodup) :
    (names (save max fs s)).Nodup :=
  names_cleanup_nodup _ _ (names_write_nodup hn _ _) max

theorem names_nodup_saves (max : Option Nat) (hist : List State) :
    ∀ (fs : FS), (names fs).Nodup → (names (saves max fs hist)).Nodup := by
  induction hist with
  | nil => intro fs hn; exact hn
  | cons s r ih => intro fs hn; exact ih _ (names_nodup_save max fs s hn)

/-- **Every history**: start from any directory with distinct file names (foreign files included), perform any
    sequence of saves of any pipelines with timestamps in any order, then save `s`: at most `m` checkpoints of
    `s`'s pipeline remain. (The bound is re-established by every single save, so it holds after each step.) -/
theorem retention_every_history (m : Nat) (fs0 : FS) (hn : (names fs0).Nodup) (hist : List State) (s : State) :
    (ownNames s.pipelineId (saves (some m) fs0 (hist ++ [s]))).length ≤ m := by
  unfold saves
  rw [List.foldl_append]
  exact retention_bound m _ s (names_nodup_saves (some m) hist fs0 hn)

/-! ## 6. True latest -/

/-- **Latest = greatest timestamp among that pipeline's well-formed checkpoints**: the returned name is in the
    directory, is a well-formed checkpoint of `pid`, and no checkpoint of `pid` has a greater timestamp. -/
theorem latest_is_greatest (pid : Bytes) (fs : FS) (n : Name) (h : latest true pid fs = some n) :
    n ∈ names fs ∧ (∃ tn, fileStamp (pfx pid) n = some tn ∧
      ∀ c ∈ names fs, ∀ tc, fileStamp (pfx pid) c = some tc → tc ≤ tn) := by
  obtain ⟨⟨hmem, hown⟩, hmax⟩ := latestWith_some (isOwn pid) (sortKey (pfx pid)) h
  obtain ⟨tn, htn⟩ := Option.isSome_iff_exists.mp hown
  refine ⟨hmem, tn, htn, ?_⟩
  intro c hc tc htc
  have := hmax c hc (by unfold isOwn; rw [htc]; rfl)
  rwa [sortKey_of_fileStamp htc, sortKey_of_fileStamp htn] at this

/-- it answers `None` exactly when the pipeline has no well-formed checkpoint (other files do not matter) -/
theorem latest_none_iff (pid : Bytes) (fs : FS) : latest true pid fs = none ↔ ownNames pid fs = [] :=
  latestWith_none (isOwn pid) (sortKey (pfx pid))

theorem latest_disabled (pid : Bytes) (fs : FS) : latest false pid fs = none := rfl

/-- **Latest ignores other pipelines' and foreign files**: the answer is the same on the directory with everything
    but `pid`'s own well-formed checkpoints deleted. -/
theorem latest_ignores_others (en : Bool) (pid : Bytes) (fs : FS) :
    latest en pid fs = latest en pid (fs.filter (fun f => isOwn pid f.1)) := by
  unfold latest latestWith
  rw [names_filter fs (isOwn pid), List.filter_filter]
  simp

/-- after a save (retention ≥ 1, or none) of a state newer than everything present, latest is that state's file -/
theorem latest_none_of_no_own (pid : Bytes) (fs : FS) (h : ∀ n ∈ names fs, isOwn pid n = false) :
    latest true pid fs = none := by
  rw [latest_none_iff]
  exact List.filter_eq_nil_iff.mpr (fun n hn => by simp [h n hn])

/-! ### save ; find_latest ; load — the user-level round trip through the directory -/

/-- retention that keeps at least one checkpoint: `None` or `Some m` with `m ≥ 1` -/
def KeepsOne : Option Nat → Prop
  | none => True
  | some m => 1 ≤ m

/-- the file just written survives its own clean-up when it is the newest of its pipeline -/
theorem saved_file_survives (max : Option Nat) (hmax : KeepsOne max) (fs : FS) (s : State)
    (hn : (names fs).Nodup) (hts : s.timestamp ≤ u64Max)
    (hnew : ∀ n ∈ names fs, n ≠ fileName s → ∀ t, fileStamp (pfx s.pipelineId) n = some t → t < s.timestamp) :
    fileName s ∈ names (save max fs s) := by
  have hFW : fileName s ∈ names (write fs (fileName s) (encode s)) :=
    (mem_names_write fs _ _ _).mpr (Or.inr rfl)
  cases max with
  | none => exact hFW
  | some m =>
    have hm : 1 ≤ m := hmax
    apply Classical.byContradiction
    intro hgone
    have hFown : fileName s ∈ ownNames s.pipelineId (write fs (fileName s) (encode s)) :=
      List.mem_filter.mpr ⟨hFW, saved_name_isOwn s hts⟩
    have hcount := retention_count m fs s hn
    have hpos : 0 < (ownNames s.pipelineId (save (some m) fs s)).length := by
      rw [hcount]
      have : 0 < (ownNames s.pipelineId (write fs (fileName s) (encode s))).length :=
        List.length_pos_of_mem hFown
      omega
    obtain ⟨k, hk⟩ := List.exists_mem_of_length_pos hpos
    have hkown : isOwn s.pipelineId k = true := (List.mem_filter.mp hk).2
    obtain ⟨tk, htk⟩ := Option.isSome_iff_exists.mp hkown
    have hle := retention_newest m fs s k (fileName s) tk s.timestamp hk hFown hgone htk (saved_name_stamp s hts)
    have hkin : k ∈ names (save (some m) fs s) := (List.mem_filter.mp hk).1
    rcases save_creates_only_its_file (some m) fs s k hkin with h | h
    · have hne : k ≠ fileName s := by intro e; rw [e] at hkin; exact hgone hkin
      have := hnew k h hne tk htk
      omega
    · rw [h] at hkin; exact hgone hkin

/-- **save ; latest ; load** — after saving a state that is newer than every other checkpoint of its pipeline
    (retention `None` or ≥ 1; any other files around), `find_latest_checkpoint` returns exactly the file just
    written, the file holds exactly the encoding, and `load_checkpoint` of it yields the state field for field. -/
theorem save_latest_load (H : Bytes → Bytes) (cfg : Cfg) (max : Option Nat) (hmax : KeepsOne max) (fs : FS)
    (s : State) (hn : (names fs).Nodup) (wf : s.WF) (hm : FitsMem cfg s)
    (hc : overLimit cfg (claims s) = false) (hck : s.checksum = H (metaString s))
    (hnew : ∀ n ∈ names fs, n ≠ fileName s → ∀ t, fileStamp (pfx s.pipelineId) n = some t → t < s.timestamp) :
    latest true s.pipelineId (save max fs s) = some (fileName s) ∧
    read (save max fs s) (fileName s) = some (encode s) ∧
    load H cfg (encode s) = .ok s := by
  have hF := saved_file_survives max hmax fs s hn wf.ts hnew
  refine ⟨?_, ?_, load_encode H cfg s wf hm hc hck⟩
  · cases hl : latest true s.pipelineId (save max fs s) with
    | none =>
      have := (latest_none_iff s.pipelineId _).mp hl
      have hmem : fileName s ∈ ownNames s.pipelineId (save max fs s) :=
        List.mem_filter.mpr ⟨hF, saved_name_isOwn s wf.ts⟩
      rw [this] at hmem; cases hmem
    | some n =>
      obtain ⟨hnin, tn, htn, hmaxn⟩ := latest_is_greatest s.pipelineId _ n hl
      have hge := hmaxn (fileName s) hF s.timestamp (saved_name_stamp s wf.ts)
      rcases save_creates_only_its_file max fs s n hnin with h | h
      · by_cases hne : n = fileName s
        · rw [hne]
        · have := hnew n h hne tn htn; omega
      · rw [h]
  · unfold save cleanup
    rw [read_cleanup_of_mem _ _ max _ _ hF]
    exact read_write_same fs _ _

/-! ### The store invariant and resume after ANY history

`save_latest_load` needs the saved state to be the newest. The statements below drop that: after any history of saves
— any pipelines interleaved, timestamps in any order, `max_checkpoints` changing from save to save — every file is what
the LAST save under its name wrote, and `find_latest_checkpoint ; load_checkpoint` yields the surviving saved state of
the greatest timestamp, field for field. -/

/-- a state `save_checkpoint` ; `load_checkpoint` round-trips under `cfg` (cf. `load_encode`) -/
structure Good (H : Bytes → Bytes) (cfg : Cfg) (s : State) : Prop where
  wf : s.WF
  fits : FitsMem cfg s
  lim : overLimit cfg (claims s) = false
  ck : s.checksum = H (metaString s)

/-- **Store invariant**: start from a directory without well-formed checkpoints of `pid` (foreign files and other
    pipelines' files allowed), run ANY history. Every well-formed checkpoint file of `pid` that is there afterwards
    holds exactly the encoding of the state most recently saved under that name; that state belongs to `pid` and its
    timestamp is the stamp in the name. -/
theorem store_invariant (pid : Bytes) (fs0 : FS) (hfs0 : ∀ n ∈ names fs0, isOwn pid n = false) (hist : Hist)
    (hts : ∀ h ∈ hist, h.2.timestamp ≤ u64Max) (f : Name × Bytes) (hf : f ∈ savesV fs0 hist)
    (hown : isOwn pid f.1 = true) :
    ∃ s, lastSaved f.1 hist = some s ∧ f.2 = encode s ∧ fileName s = f.1 ∧ s.pipelineId = pid ∧
      fileStamp (pfx pid) f.1 = some s.timestamp := by
  obtain ⟨h1, h2⟩ := savesV_content hist fs0 f hf
  cases hl : lastSaved f.1 hist with
  | none =>
    have hmem : f.1 ∈ names fs0 := List.mem_map.mpr ⟨f, h2 hl, rfl⟩
    rw [hfs0 f.1 hmem] at hown; cases hown
  | some s =>
    obtain ⟨hn, m, hm⟩ := lastSaved_name hl
    have hts' := hts (m, s) hm
    have hpid : s.pipelineId = pid := by
      have := saved_name_isOwn s hts'
      rw [hn] at this
      exact own_unique this hown
    refine ⟨s, rfl, h1 s hl, hn, hpid, ?_⟩
    rw [← hn, ← hpid]; exact saved_name_stamp s hts'

/-- **Resume after any history** (turns the harness oracle `latest-file-holds-another-checkpoint` into a theorem): if
    `find_latest_checkpoint(pid)` answers `n` after an arbitrary history of saves of round-trippable states, then `n`
    is the file of the state `s` most recently saved under that name, `s` is a state of `pid`, the file holds exactly
    `encode s`, `load_checkpoint` of it returns `s` field for field, and no well-formed checkpoint of `pid` left in the
    directory has a greater stamp than `s.timestamp`. No "newest" hypothesis, no fixed `max`. -/
theorem resume_after_any_history (H : Bytes → Bytes) (cfg : Cfg) (pid : Bytes) (fs0 : FS)
    (hfs0 : ∀ n ∈ names fs0, isOwn pid n = false) (hist : Hist) (hgood : ∀ h ∈ hist, Good H cfg h.2)
    (n : Name) (hl : latest true pid (savesV fs0 hist) = some n) :
    ∃ s, lastSaved n hist = some s ∧ s.pipelineId = pid ∧ fileName s = n ∧
      read (savesV fs0 hist) n = some (encode s) ∧ load H cfg (encode s) = .ok s ∧
      ∀ c ∈ names (savesV fs0 hist), ∀ tc, fileStamp (pfx pid) c = some tc → tc ≤ s.timestamp := by
  obtain ⟨hmem, tn, htn, hmax⟩ := latest_is_greatest pid _ n hl
  obtain ⟨c, hread, hc⟩ := read_some_mem hmem
  have hown : isOwn pid n = true := by unfold isOwn; rw [htn]; rfl
  obtain ⟨s, hs, hcont, hname, hpid, hstamp⟩ :=
    store_invariant pid fs0 hfs0 hist (fun h hh => (hgood h hh).wf.ts) (n, c) hc hown
  obtain ⟨_, m, hm⟩ := lastSaved_name hs
  have g := hgood (m, s) hm
  simp only at hcont hstamp
  have : tn = s.timestamp := by rw [htn] at hstamp; injection hstamp
  refine ⟨s, hs, hpid, hname, by rw [hread, hcont], load_encode H cfg s g.wf g.fits g.lim g.ck, ?_⟩
  rw [← this]; exact hmax

/-- **Retention after every step of every history, `max_checkpoints` varying**: whatever was saved before with
    whatever limits, after a save with `max_checkpoints = Some m` at most `m` checkpoints of that pipeline remain
    (supersedes `retention_every_history`, which fixes one `m` for the whole history). -/
theorem retention_every_history_varying (fs0 : FS) (hn : (names fs0).Nodup) (hist : Hist) (m : Nat) (s : State) :
    (ownNames s.pipelineId (savesV fs0 (hist ++ [(some m, s)]))).length ≤ m := by
  rw [savesV_append]
  exact retention_bound m _ s (names_nodup_savesV hist fs0 hn)

/-! ### The directory as the manager finds it: unusable names, missing / unreadable directory -/

/-- with a usable file name in an existing directory `save_checkpoint` is `save` — every theorem above applies;
    whether the manager is `enabled` does not matter (the code never reads it in `save_checkpoint`) -/
theorem saveChecked_ok (en : Bool) (nmax : Nat) (max : Option Nat) (fs : FS) (s : State)
    (h : nameOK nmax (fileName s) = true) : saveChecked en nmax max (.dir fs) s = some (save max fs s) := by
  simp only [saveChecked, h, if_true]

/-- a pipeline id that gives an unusable file name (contains `/` or NUL, or makes the name longer than `NAME_MAX`) is
    refused: `Err`, and the directory is what it was (nothing created, nothing deleted) -/
theorem saveChecked_unusable_name (en : Bool) (nmax : Nat) (max : Option Nat) (d : Dir) (s : State)
    (h : nameOK nmax (fileName s) = false) : saveChecked en nmax max d s = none := by
  unfold saveChecked
  cases d with
  | dir fs => simp only [h, Bool.false_eq_true, if_false]
  | missing => rfl
  | notDir => rfl

/-- **save ; latest ; load through the manager's entry points**: `save_latest_load` with the file-system side
    condition made explicit (`nameOK`) and the load by path -/
theorem save_latest_load_checked (H : Bytes → Bytes) (mem : Nat) (hmem : IB.Generated.ckptReadCap ≤ mem)
    (en : Bool) (nmax : Nat) (max : Option Nat) (hmax : KeepsOne max) (fs : FS)
    (s : State) (hn : (names fs).Nodup) (wf : s.WF) (h4 : Within4K s) (hck : s.checksum = H (metaString s))
    (hname : nameOK nmax (fileName s) = true)
    (hnew : ∀ n ∈ names fs, n ≠ fileName s → ∀ t, fileStamp (pfx s.pipelineId) n = some t → t < s.timestamp) :
    ∃ fs', saveChecked en nmax max (.dir fs) s = some fs' ∧
      latestChecked true s.pipelineId (.dir fs') = some (some (fileName s)) ∧
      read fs' (fileName s) = some (encode s) ∧
      loadFile H (currentCfg mem) currentCap (encode s) = .ok s := by
  have hle : IB.Generated.ckptDecodeLimit ≤ IB.Generated.ckptReadCap := by decide
  have hlim : 65 + 4 * 4096 ≤ IB.Generated.ckptDecodeLimit := by decide
  obtain ⟨a1, a2, a3, a4⟩ := h4
  have hm : FitsMem (currentCfg mem) s := by unfold FitsMem currentCfg; simp only; omega
  have hc : overLimit (currentCfg mem) (claims s) = false := by
    unfold overLimit currentCfg claims; simp only [decide_eq_false_iff_not]; omega
  obtain ⟨h1, h2, _⟩ := save_latest_load H (currentCfg mem) max hmax fs s hn wf hm hc hck hnew
  refine ⟨save max fs s, saveChecked_ok en nmax max fs s hname, ?_, h2,
    loadFile_encode_current H mem hmem s wf ⟨a1, a2, a3, a4⟩ hck⟩
  unfold latestChecked
  simp only [Bool.not_true, Bool.false_eq_true, if_false, h1]

/-- `find_latest_checkpoint` on a configured directory that does not exist is `Ok(None)` (not an error); a disabled
    manager answers `Ok(None)` whatever the directory is -/
theorem latestChecked_missing_or_disabled (pid : Bytes) (d : Dir) :
    latestChecked true pid .missing = some none ∧ latestChecked false pid d = some none := ⟨rfl, rfl⟩

/-- `clear_checkpoints` removes exactly the pipeline's well-formed checkpoints -/
theorem clear_spec (pid : Bytes) (fs : FS) (f : Name × Bytes) :
    f ∈ clear pid fs ↔ f ∈ fs ∧ isOwn pid f.1 = false :=
  mem_clearWith (isOwn pid)

/-! ## 7. What the pinned commit did instead (DESIGN §8 #9) — negation witnesses -/

section Witnesses

/-- `"checkpoint_p_x_50.bin"`, `"checkpoint_p_60.bin"`, `"checkpoint_p_70.bin"`, `"checkpoint_q_garbage.bin"` -/
def n_px50 : Name := [99, 104, 101, 99, 107, 112, 111, 105, 110, 116, 95, 112, 95, 120, 95, 53, 48, 46, 98, 105, 110]
def n_p60 : Name := [99, 104, 101, 99, 107, 112, 111, 105, 110, 116, 95, 112, 95, 54, 48, 46, 98, 105, 110]
def n_p70 : Name := [99, 104, 101, 99, 107, 112, 111, 105, 110, 116, 95, 112, 95, 55, 48, 46, 98, 105, 110]
def n_qgarbage : Name :=
  [99, 104, 101, 99, 107, 112, 111, 105, 110, 116, 95, 113, 95, 103, 97, 114, 98, 97, 103, 101, 46, 98, 105, 110]
/-- pipeline ids `"p"`, `"p_x"`, `"q"` -/
def pid_p : Bytes := [112]
def pid_px : Bytes := [112, 95, 120]
def pid_q : Bytes := [113]

/-- the directory: one checkpoint of pipeline `p_x` and two of pipeline `p` -/
def dirW : FS := [(n_px50, []), (n_p60, []), (n_p70, [])]

theorem witness_px50_belongs_to_px : isOwn pid_px n_px50 = true ∧ isOwn pid_p n_px50 = false := by
  constructor <;> decide

/-- NEGATION (pinned commit): with two checkpoints of `p` present and `max_checkpoints = 2`, the clean-up that
    follows a save by pipeline `p` DELETES `checkpoint_p_x_50.bin`, a checkpoint of pipeline `p_x`. -/
theorem legacy_cleanup_deletes_other_pipeline :
    n_px50 ∉ names (Legacy.cleanup (some 2) pid_p dirW) := by
  have hs : ([n_px50, n_p60, n_p70].mergeSort (fun a b => decide (sortKey (pfx pid_p) a ≤ sortKey (pfx pid_p) b)))
      = [n_px50, n_p60, n_p70] := by
    apply List.mergeSort_of_pairwise
    decide
  have hf : (names dirW).filter (Legacy.isCandidate pid_p) = [n_px50, n_p60, n_p70] := by decide
  have hd : doomed (Legacy.isCandidate pid_p) (sortKey (pfx pid_p)) 2 (names dirW) = [n_px50] := by
    unfold doomed
    simp only [hf, hs]
    decide
  unfold Legacy.cleanup cleanupWith
  simp only [hd]
  decide

/-- … the current code keeps it (instance of `save_keeps_other_pipelines`). -/
theorem current_cleanup_keeps_other_pipeline (max : Option Nat) :
    (n_px50, []) ∈ cleanup max pid_p dirW :=
  cleanup_keeps_noncandidates _ _ max dirW (n_px50, []) (by decide) (by decide)

/-- NEGATION (pinned commit): `find_latest_checkpoint("q")` returns `checkpoint_q_garbage.bin`, which is not a
    checkpoint (its stamp does not parse); the current code answers `None`. -/
theorem legacy_latest_returns_garbage :
    Legacy.latest true pid_q [(n_qgarbage, [])] = some n_qgarbage ∧
    fileStamp (pfx pid_q) n_qgarbage = none ∧
    latest true pid_q [(n_qgarbage, [])] = none := by
  refine ⟨?_, by decide, ?_⟩
  · have hf : (names [(n_qgarbage, ([] : Bytes))]).filter (Legacy.isCandidate pid_q) = [n_qgarbage] := by decide
    unfold Legacy.latest latestWith
    simp only [hf, List.mergeSort_singleton]
    rfl
  · exact latest_none_of_no_own pid_q _ (by decide)

/-- `"checkpoint_p_5.bin"`, `"checkpoint_p_9.bin"` -/
def n_p5 : Name := [99, 104, 101, 99, 107, 112, 111, 105, 110, 116, 95, 112, 95, 53, 46, 98, 105, 110]
def n_p9 : Name := [99, 104, 101, 99, 107, 112, 111, 105, 110, 116, 95, 112, 95, 57, 46, 98, 105, 110]

/-- NEGATION (before the `is_file` fix; reproduced on the real code, `CKPT-SAVE max=1 … ts=5` with a sub-directory
    `checkpoint_p_9.bin`): the directory is counted as a checkpoint of `p` with stamp 9, so with `max_checkpoints = 1`
    the clean-up that follows the save of stamp 5 deletes the ONLY checkpoint — the file just written — and
    `find_latest_checkpoint` answers with the directory. The current code (directories are invisible to the scans,
    i.e. the model file system without them) keeps the file and returns it. -/
theorem legacy_directory_counted_as_checkpoint :
    Legacy.cleanupWithDirs (some 1) pid_p [n_p9] [(n_p5, ([] : Bytes))] = [] ∧
    Legacy.latestWithDirs pid_p [n_p9] [(n_p5, ([] : Bytes))] = some n_p9 ∧
    cleanup (some 1) pid_p [(n_p5, ([] : Bytes))] = [(n_p5, ([] : Bytes))] ∧
    latest true pid_p [(n_p5, ([] : Bytes))] = some n_p5 := by
  have hs : ([n_p5, n_p9].mergeSort (fun a b => decide (sortKey (pfx pid_p) a ≤ sortKey (pfx pid_p) b)))
      = [n_p5, n_p9] := by
    apply List.mergeSort_of_pairwise
    decide
  have hf : (names [(n_p5, ([] : Bytes))] ++ [n_p9]).filter (isOwn pid_p) = [n_p5, n_p9] := by decide
  have hf1 : (names [(n_p5, ([] : Bytes))]).filter (isOwn pid_p) = [n_p5] := by decide
  refine ⟨?_, ?_, ?_, ?_⟩
  · have hd : doomed (isOwn pid_p) (sortKey (pfx pid_p)) 1 (names [(n_p5, ([] : Bytes))] ++ [n_p9]) = [n_p5] := by
      unfold doomed
      simp only [hf, hs]
      decide
    unfold Legacy.cleanupWithDirs
    simp only [hd]
    decide
  · unfold Legacy.latestWithDirs
    simp only [hf, hs]
    rfl
  · have hd : doomed (isOwn pid_p) (sortKey (pfx pid_p)) 1 (names [(n_p5, ([] : Bytes))]) = [] := by
      unfold doomed
      simp only [hf1]
      decide
    unfold cleanup cleanupWith
    simp only [hd]
    simp
  · unfold latest latestWith
    simp only [hf1, List.mergeSort_singleton]
    rfl

/-- pipeline id `"a/b"`; the two leaf names `"b_5.bin"`, `"b_6.bin"` the OS resolved inside `checkpoint_a/` -/
def pid_ab : Bytes := [97, 47, 98]
def leaf_b5 : Name := [98, 95, 53, 46, 98, 105, 110]
def leaf_b6 : Name := [98, 95, 54, 46, 98, 105, 110]
def st_ab (ts : Nat) : State :=
  { pipelineId := pid_ab, completedNodeIndex := 1, timestamp := ts, partitionCount := 1, checksum := [],
    execMode := [], metadata := { totalNodes := 3, lastNodeType := [], progressPercent := 33 } }

/-- NEGATION for the code before the single-component `fix:` (reproduced on the real code: id `a/b`, sub-directory
    `checkpoint_a/` present, `max_checkpoints = 1`, three saves ⇒ three files in the sub-directory and
    `find_latest_checkpoint("a/b") = None`): two saves with `max_checkpoints = 1` leave TWO checkpoints (in the
    sub-directory) and the parent, which is all the scans ever look at, has none. The current code refuses the id
    (`saveChecked … = none`, nothing written). -/
theorem legacy_slash_id_escapes_retention :
    let r1 := Legacy.saveSlash (some 1) [] [] leaf_b5 (st_ab 5)
    let r2 := Legacy.saveSlash (some 1) r1.1 r1.2 leaf_b6 (st_ab 6)
    (names r2.2).length = 2 ∧ latest true pid_ab r2.1 = none ∧
    nameOK 255 (fileName (st_ab 5)) = false ∧
    saveChecked true 255 (some 1) (.dir []) (st_ab 5) = none := by
  refine ⟨by decide, ?_, by decide, saveChecked_unusable_name _ _ _ _ _ (by decide)⟩
  exact latest_none_of_no_own pid_ab _ (by decide)

end Witnesses

/-! ## Non-vacuity: the hypotheses of the conditional theorems are satisfiable by real inputs -/

section NonVacuity

/-- `CheckpointState { pipeline_id: "p", completed_node_index: 3, timestamp: 7, partition_count: 2,
      checksum: sha256("p:3:7:2"), exec_mode: "seq", metadata: { total_nodes: 9, last_node_type: "S", 50 } }` -/
def exState : State :=
  { pipelineId := [112], completedNodeIndex := 3, timestamp := 7, partitionCount := 2,
    checksum := [97, 98, 51, 98, 55, 48, 99, 49, 51, 49, 98, 56, 48, 97, 56, 97, 57, 55, 48, 54, 99, 48, 97, 97, 51,
      51, 101, 49, 55, 48, 49, 56, 102, 97, 49, 50, 50, 49, 52, 56, 51, 102, 98, 99, 54, 51, 53, 54, 100, 49, 102, 48,
      51, 56, 49, 99, 57, 99, 57, 98, 54, 54, 49, 53],
    execMode := [115, 101, 113],
    metadata := { totalNodes := 9, lastNodeType := [83], progressPercent := 50 } }

example : exState.WF := by
  constructor <;> decide

example : Within4K exState := by unfold Within4K; decide

theorem metaString_exState : metaString exState = [112, 58, 51, 58, 55, 58, 50] := by
  simp [metaString, exState, decDigits, digit, colon]

/-- `exState`'s checksum is genuine for the real hash: `sha256("p:3:7:2")`, by kernel evaluation of `Sha.sha256Hex` -/
theorem exState_genuine : exState.checksum = Sha.sha256Hex (metaString exState) := by
  rw [metaString_exState]; decide +kernel

/-- the tampered record: timestamp 7 ↦ 8, checksum kept -/
def exTampered : State := { exState with timestamp := 8 }

theorem metaString_exTampered : metaString exTampered = [112, 58, 51, 58, 56, 58, 50] := by
  simp [metaString, exTampered, exState, decDigits, digit, colon]

/-- the real hash does not collide on the two checksum strings of the example (kernel evaluation of both digests) -/
theorem sha256_noCollision_example :
    NoCollisionAt Sha.sha256Hex (metaString exTampered) (metaString exState) := by
  rw [metaString_exState, metaString_exTampered]
  exact noCollisionAt_of_ne (by decide +kernel)

/-- **ONE hash satisfies the hypotheses of the round-trip family and of the tamper family simultaneously** — and it
    is the real one: UTF-8 digests (∀ inputs), at most 4 KiB (∀ inputs), `exState`'s checksum genuine, no collision at
    the pair (`exTampered`, `exState`), whose protected fields differ while the checksum is kept. -/
theorem one_hash_satisfies_all_hypotheses :
    ∃ H : Bytes → Bytes,
      (∀ x, validUtf8 (H x) = true) ∧ (∀ x, (H x).length ≤ 4096) ∧
      exState.checksum = H (metaString exState) ∧
      NoCollisionAt H (metaString exTampered) (metaString exState) ∧
      protectedFields exTampered ≠ protectedFields exState ∧ exTampered.checksum = exState.checksum :=
  ⟨Sha.sha256Hex, Sha.sha256Hex_validUtf8, fun x => by rw [Sha.sha256Hex_length]; decide, exState_genuine,
    sha256_noCollision_example, by decide, rfl⟩

example : exTampered.WF := by constructor <;> decide

/-- the conditional theorems applied to the example with the real hash: the genuine file loads, the file with the
    timestamp altered is rejected with "checksum mismatch" by the code as configured today -/
example (mem : Nat) (hmem : IB.Generated.ckptDecodeLimit ≤ mem) :
    load Sha.sha256Hex (currentCfg mem) (encode exState) = .ok exState ∧
    load Sha.sha256Hex (currentCfg mem) (encode exTampered) = .error .checksum := by
  have hlim : 1000 ≤ IB.Generated.ckptDecodeLimit := by decide
  refine ⟨load_encode_current _ mem hmem exState (by constructor <;> decide) (by unfold Within4K; decide)
      exState_genuine, ?_⟩
  refine tamper_rejected_reencoded _ _ exState exTampered exState_genuine (by constructor <;> decide) ?_ ?_ rfl
    (by decide) sha256_noCollision_example
  · have e1 : exTampered.pipelineId.length = 1 := rfl
    have e2 : exTampered.checksum.length = 64 := rfl
    have e3 : exTampered.execMode.length = 3 := rfl
    have e4 : exTampered.metadata.lastNodeType.length = 1 := rfl
    unfold FitsMem currentCfg; simp only [e1, e2, e3, e4]; omega
  · have e : claims exTampered = 134 := rfl
    unfold overLimit currentCfg; simp only [e, decide_eq_false_iff_not]; omega

/-- every one of the 78 truncations of the example file is "unexpected end" for the code as configured today
    (instance of `truncated_file_rejected_current`; its hypotheses hold for `exState`) -/
example (mem : Nat) (hmem : IB.Generated.ckptDecodeLimit ≤ mem) (n : Nat) (hn : n < 78) :
    load Sha.sha256Hex (currentCfg mem) ((encode exState).take n) = .error .eof :=
  truncated_file_rejected_current _ mem hmem exState (by constructor <;> decide) (by unfold Within4K; decide) n
    (by rw [show (encode exState).length = 78 by decide]; exact hn)

/-- global injectivity (satisfiable only by unbounded-output functions such as `id`) implies the pointwise hypothesis,
    so the previous formulation of the tamper theorems is an instance of the current one -/
example : ∃ H : Bytes → Bytes, ∀ a b, NoCollisionAt H a b := ⟨id, fun _ _ h => h⟩

/-- a fault sequence on the example file: flip bit 0 of byte 3 (the timestamp varint `07` ↦ `06`), then truncate to
    70 bytes, then overwrite byte 0 — `applyFaults` computes -/
example : (applyFaults (encode exState) [.flip 3 0, .truncate 70, .overwrite 0 255]).take 5 = [255, 112, 3, 6, 2] := by
  decide

/-- the model encoder on the example is the 78-byte file the real `save_checkpoint` writes (cf. `CKPT-ENC`) -/
example : (encode exState).length = 78 := by decide

example : (names dirW).Nodup := by decide

/-! UTF-8 validity (witnesses only — the DFA's agreement with `String::from_utf8` is checked by `CKPT-DEC` on every
    single-bit flip/overwrite of strings containing all sequence lengths). Accepted: the first and last scalar
    value of every encoded length, U+D7FF/U+E000 around the surrogate gap, U+10FFFF. -/
example : validUtf8 [0, 127, 194, 128, 223, 191, 224, 160, 128, 237, 159, 191, 238, 128, 128, 239, 191, 191,
    240, 144, 128, 128, 244, 143, 191, 191, 240, 159, 152, 128] = true := by decide
/-- rejected: overlong `C0 80`, `C1 BF`, `E0 9F BF`, `F0 8F BF BF`; surrogate `ED A0 80`; beyond U+10FFFF `F4 90 80 80`;
    `F5`..`FF`; a lone continuation byte; truncated sequences -/
example : [[0xC0, 0x80], [0xC1, 0xBF], [0xE0, 0x9F, 0xBF], [0xF0, 0x8F, 0xBF, 0xBF], [0xED, 0xA0, 0x80],
    [0xF4, 0x90, 0x80, 0x80], [0xF5, 0x80, 0x80, 0x80], [0xFF], [0x80], [0xC2], [0xE1, 0x80], [0xF1, 0x80, 0x80],
    [0x61, 0xC2, 0x41]].all (fun b => validUtf8 b == false) = true := by decide

/-- `exState`'s file name `checkpoint_p_7.bin` is usable on a `NAME_MAX = 255` file system -/
example : nameOK 255 (fileName exState) = true := by decide +kernel

/-- `Good` is satisfiable: `exState` with the real hash under the running configuration -/
example (mem : Nat) (hmem : IB.Generated.ckptDecodeLimit ≤ mem) : Good Sha.sha256Hex (currentCfg mem) exState := by
  have hlim : 1000 ≤ IB.Generated.ckptDecodeLimit := by decide
  refine ⟨by constructor <;> decide, ?_, ?_, exState_genuine⟩
  · have e1 : exState.pipelineId.length = 1 := rfl
    have e2 : exState.checksum.length = 64 := rfl
    have e3 : exState.execMode.length = 3 := rfl
    have e4 : exState.metadata.lastNodeType.length = 1 := rfl
    unfold FitsMem currentCfg; simp only [e1, e2, e3, e4]; omega
  · have e : claims exState = 134 := rfl
    unfold overLimit currentCfg; simp only [e, decide_eq_false_iff_not]; omega

/-- `lastSaved` computes: the second save under one name wins -/
example : lastSaved (fileName exState) [(none, exState), (some 1, { exState with partitionCount := 9 })] =
    some { exState with partitionCount := 9 } := by decide +kernel

end NonVacuity

end IB.Checkpoint
