import IbModel.Generated.Kernels
import IbModel.Model.Engine
import IbModel.Model.Closures
import IbModel.Model.Io
/-!
# C01 — kernel ties (translator route)

`Generated/Kernels.lean` is re-translated from the Rust SOURCE TEXT on every run (`bin/rs2lean.py`,
entries in `bin/kernels.json`). Every theorem below says that a generated definition is the expression
the hand-written model uses; when somebody edits the Rust arithmetic the definition changes and the
theorem stops building.

Tied here
* `runner.rs::exec_par` / `run_subplan_par`: `let parts = partitions.max(1).min(total_len.max(1));`
  ↔ `IB.clampParts` (used by `execPar` / `runSubPar`), and the same expression in `Io.collectParVec`.
* `type_token.rs::VecOpsImpl::split`: the guard `n <= 1 || len <= 1` and `let chunk = len.div_ceil(n);`
  ↔ `IB.vecSplit` (Model/Closures.lean, written `(len + n - 1) / n`) and `Io.vecSplit` (written `divCeil`).

Not tied (no explicit model expression): `Runner::run_collect`'s `partitions.or(suggested).unwrap_or(default)`
(the model's `ExecMode.parallel` carries the resolved count); `slice::chunks` itself (std, modelled by `chunksOf`).
-/
set_option autoImplicit false
namespace IB.KTies.C01
open IB.Generated

theorem k_runner_parts_par : ∀ partitions total_len : Nat,
    K.runner_parts_par partitions total_len = IB.clampParts partitions total_len := by
  intro p t; rfl

theorem k_runner_parts_subplan : ∀ partitions total_len : Nat,
    K.runner_parts_subplan partitions total_len = IB.clampParts partitions total_len := by
  intro p t; rfl

/-- the use sites in the engine model: the split count of `execPar` / `runSubPar` is the generated expression -/
theorem k_runner_parts_par_model {P : Type} : ∀ (concat : List P → P) (w : P) (len : Nat) (split : Nat → List P)
    (rest : List (Node P)) (n : Nat),
    execPar concat (.source w len split :: rest) n
      = (do let curr ← rest.foldlM (stepPar n) (split (K.runner_parts_par n len)); pure (coalesce concat curr)) := by
  intros; rfl

theorem k_runner_parts_subplan_model {P : Type} : ∀ (w : P) (len : Nat) (split : Nat → List P)
    (rest : List (Node P)) (n : Nat),
    runSubPar (.source w len split :: rest) n = rest.foldlM stepSubPar (split (K.runner_parts_subplan n len)) := by
  intros; rfl

theorem k_vec_split_guard : ∀ n len : Nat, K.vec_split_guard n len = decide (n ≤ 1 ∨ len ≤ 1) := by
  intro n len; simp [K.vec_split_guard]

/-- `div_ceil` as std computes it vs. the `(len + n - 1) / n` the pipeline model writes (`n > 0`) -/
theorem k_vec_split_chunk : ∀ len n : Nat, 0 < n → K.vec_split_chunk len n = (len + n - 1) / n := by
  intro len n hn
  unfold K.vec_split_chunk K.divCeil
  have h1 := Nat.div_add_mod len n
  have h2 := Nat.mod_lt len hn
  generalize len / n = q at *
  generalize len % n = r at *
  subst h1
  split
  · have : n * q + r + n - 1 = (r - 1) + n * (q + 1) := by rw [Nat.mul_add]; omega
    rw [this, Nat.add_mul_div_left _ _ hn, Nat.div_eq_of_lt (by omega)]; omega
  · have : n * q + r + n - 1 = (n - 1) + n * q := by omega
    rw [this, Nat.add_mul_div_left _ _ hn, Nat.div_eq_of_lt (by omega)]; omega

/-- `VecOpsImpl::split` of the pipeline model is the generated guard and chunk size -/
theorem k_vec_split_model : ∀ (xs : List Val) (n : Nat),
    IB.vecSplit xs n = if K.vec_split_guard n xs.length then [xs] else IB.chunks (K.vec_split_chunk xs.length n) xs := by
  intro xs n
  unfold IB.vecSplit
  by_cases h : n ≤ 1 ∨ xs.length ≤ 1
  · simp [k_vec_split_guard, h]
  · have hn : 0 < n := by omega
    simp [k_vec_split_guard, h, k_vec_split_chunk _ _ hn]

/-- the C09 copy of the same function (`Io.vecSplit`, used by `collect_par` + `write_csv_vec`) -/
theorem k_vec_split_io_model {α : Type} : ∀ (data : List α) (n : Nat),
    IB.Io.vecSplit data n = if K.vec_split_guard n data.length then [data]
      else IB.Io.chunksFuel (K.vec_split_chunk data.length n) data.length data := by
  intro data n
  unfold IB.Io.vecSplit
  by_cases h : n ≤ 1 ∨ data.length ≤ 1
  · simp [k_vec_split_guard, h]
  · simp [k_vec_split_guard, h, K.vec_split_chunk, K.divCeil, IB.Io.divCeil]

theorem k_collect_par_vec_model {α : Type} : ∀ (data : List α) (partitions : Nat),
    IB.Io.collectParVec data partitions = (IB.Io.vecSplit data (K.runner_parts_par partitions data.length)).flatten := by
  intros; rfl

end IB.KTies.C01
