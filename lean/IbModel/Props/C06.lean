import IbModel.Proofs.CombinersBasic
import IbModel.Proofs.CombinersDistinct
import IbModel.Proofs.CombinersTopK
import IbModel.Proofs.CombinersOrd
import IbModel.Proofs.CombinersFloat
import IbModel.Proofs.CombinersTopKKey
import IbModel.Proofs.CombinersKMV
import IbModel.Proofs.CombBridge
/-!
# C06 — built-in combiners are mergeable: any split and merge order equals the fold

Property theorems only (helper lemmas are in `Proofs/Combiner*.lean`).

* Part 1 — once and for all, for every `Mergeable c R` (= `LawfulCombiner c R` + `add_input` respects `R`
  + `merge` commutes on folds): every merge tree (any number of possibly-empty parts, each built with
  `add_input` or with `build_from_group`, merged in any grouping, leaves in any order, values added after
  merges) finishes to the same output as adding all values to one fresh accumulator; merging with a
  fresh accumulator changes nothing; `merge` is associative and commutative on everything reachable.
* Part 2 — each built-in is `Mergeable` (hence `LawfulCombiner`, which C05/C01 consume).
* Part 3 — the outputs are the mathematical ones, for every tree.

* Part 4 (round 3) — `Min` / `Max` / `TopK` for ANY `T: Ord`, including element types whose `Ord` ignores part
  of the value (ties between distinguishable values): the code's tie rule per entry point, what holds on the
  nose (partition order), what holds up to `Ord`-equality (any order), and the one clause that fails on the
  nose (`Max::build_from_group` returns the LAST of equal maxima, `add_input` keeps the first) with its
  witness. The property ("the mathematical maximum") is not affected: `Ord`-equal values are equal as far as
  `Ord` — hence `==` of a lawful `Eq` — can tell; which representative is returned is not part of it.
* Part 5 (round 3) — IEEE doubles: `OrdF64`'s order (`total_cmp`) is a total order on bit patterns, with the
  place of NaNs and infinities; the class (finite / +inf / -inf / NaN) of `Sum<f64>` / `AverageF64` results for
  every merge tree, over an abstract float whose classification is a homomorphism into the IEEE class table.
* Part 6 (round 3) — the pipeline model's `Val`-level built-ins (`Model/Program.lean`) are encodings of the typed
  models above: their lawfulness (what C05 / C01 consume) is DERIVED from Part 2 / Part 4.
* Part 7 (round 3) — KMV (`KMVApproxDistinctCount`, named in C06's anchors; theory in C15) on C06's merge trees,
  `build_from_group` and values added after merges included.

Scope: `u64`/`i64` are `Nat`/`Int` (no overflow); `f64` is `Rat` (`Sum<f64>`, `AverageF64`: exact
arithmetic — the real code agrees only up to IEEE rounding, which the correspondence check compares with
1e-9 tolerance; the round-3 float requests compare bit patterns with Lean's `Float`, about which nothing is
proved). `Min`/`Max` output `none` = the real `finish` panics (`expect` on an empty accumulator).
-/
namespace IB.Combiners
open IB

/-! ## Part 1 — the generic merge-tree theorems -/

section Generic
variable {V A O : Type} {c : Combiner V A O} {R : A → A → Prop}

/-- Any grouping: a merge tree finishes to the fold over its leaves, left to right. -/
theorem mergeTree_eq_fold (h : Mergeable c R) (t : MergeTree V) :
    c.finish (t.eval c) = c.finish (c.foldAdd c.create t.leaves) :=
  h.finish_congr (h.eval_fold t)

/-- Any grouping **and any order**: if the tree's values are a permutation of `xs` (in particular if its
    leaves are the parts of any split of `xs`, taken in any order), it finishes to the fold over `xs`. -/
theorem mergeTree_any_order (h : Mergeable c R) (t : MergeTree V) (xs : List V)
    (p : t.leaves.Perm xs) : c.finish (t.eval c) = c.finish (c.foldAdd c.create xs) :=
  h.finish_congr (h.trans (h.eval_fold t) (h.fold_perm p))

/-- The property as worded: `ps` = the parts of a split of the input (possibly empty parts, any number),
    the tree uses exactly these parts as leaves in any order, grouping and build mode. -/
theorem mergeTree_split_any_order (h : Mergeable c R) (t : MergeTree V) (ps : List (List V))
    (p : t.parts.Perm ps) : c.finish (t.eval c) = c.finish (c.foldAdd c.create ps.flatten) :=
  mergeTree_any_order h t ps.flatten (by rw [MergeTree.leaves_eq_flatten]; exact p.flatten)

/-- … i.e. for every input `xs`, every split `ps` of it (`ps.flatten = xs`; parts may be empty), and
    every tree over these parts in any order. -/
theorem mergeTree_of_split (h : Mergeable c R) (xs : List V) (ps : List (List V)) (hsplit : ps.flatten = xs)
    (t : MergeTree V) (p : t.parts.Perm ps) :
    c.finish (t.eval c) = c.finish (c.foldAdd c.create xs) :=
  hsplit ▸ mergeTree_split_any_order h t ps p

/-- Two trees over the same parts (any order, grouping, build mode) give the same output. -/
theorem mergeTrees_agree (h : Mergeable c R) (s t : MergeTree V) (p : s.parts.Perm t.parts) :
    c.finish (s.eval c) = c.finish (t.eval c) :=
  h.finish_congr (h.eval_perm s t (by
    rw [MergeTree.leaves_eq_flatten, MergeTree.leaves_eq_flatten]; exact p.flatten))

/-- Merging a fresh accumulator into anything reachable, or anything reachable into a fresh one,
    changes nothing. -/
theorem merge_fresh (h : Mergeable c R) (t : MergeTree V) :
    R (c.merge (t.eval c) c.create) (t.eval c) ∧ R (c.merge c.create (t.eval c)) (t.eval c) := by
  have e := h.eval_fold t
  have r1 := h.eval_fold (MergeTree.node t (MergeTree.leaf []))
  have r2 := h.eval_fold (MergeTree.node (MergeTree.leaf []) t)
  simp only [MergeTree.eval, MergeTree.leaves, List.append_nil, List.nil_append,
    Combiner.foldAdd_nil] at r1 r2
  exact ⟨h.trans r1 (h.symm e), h.trans r2 (h.symm e)⟩

theorem merge_fresh_finish (h : Mergeable c R) (t : MergeTree V) :
    c.finish (c.merge (t.eval c) c.create) = c.finish (t.eval c) ∧
      c.finish (c.merge c.create (t.eval c)) = c.finish (t.eval c) :=
  ⟨h.finish_congr (merge_fresh h t).1, h.finish_congr (merge_fresh h t).2⟩

/-- `merge` is associative and commutative on all reachable accumulators. -/
theorem merge_assoc_comm (h : Mergeable c R) (s t u : MergeTree V) :
    R (c.merge (c.merge (s.eval c) (t.eval c)) (u.eval c))
        (c.merge (s.eval c) (c.merge (t.eval c) (u.eval c))) ∧
      R (c.merge (s.eval c) (t.eval c)) (c.merge (t.eval c) (s.eval c)) := by
  constructor
  · exact h.eval_perm (.node (.node s t) u) (.node s (.node t u))
      (by simp [MergeTree.leaves, List.append_assoc])
  · exact h.eval_perm (.node s t) (.node t s) (by simpa [MergeTree.leaves] using List.perm_append_comm)

/-- Building an accumulator from a whole group equals adding the group's values one at a time. -/
theorem build_eq_fold (h : Mergeable c R) (xs : List V) :
    R (c.build xs) (c.foldAdd c.create xs) ∧ c.finish (c.build xs) = c.finish (c.foldAdd c.create xs) :=
  ⟨h.build_fold xs, h.finish_congr (h.build_fold xs)⟩

/-- With `R = Eq` (all built-ins except the two set-valued ones) these are literal equalities of
    accumulators. -/
theorem merge_fresh_eq (h : Mergeable c Eq) (t : MergeTree V) :
    c.merge (t.eval c) c.create = t.eval c ∧ c.merge c.create (t.eval c) = t.eval c :=
  merge_fresh h t

end Generic

/-! ## Part 2 — every built-in combiner is mergeable -/

theorem count_mergeable (V : Type) : Mergeable (count V) Eq := count_mergeable' V
theorem sum_mergeable : Mergeable sum Eq := sumG_mergeable' intOps intOps_lawful
/-- `Sum<f64>` in exact arithmetic (any number type whose `+` is associative-commutative with unit) -/
theorem sumG_mergeable {α : Type} (N : NumOps α) (hN : N.Lawful) : Mergeable (sumG N) Eq :=
  sumG_mergeable' N hN
theorem sumRat_mergeable : Mergeable sumRat Eq := sumG_mergeable' ratOps ratOps_lawful
theorem averageG_mergeable {α : Type} (N : NumOps α) (hN : N.Lawful) : Mergeable (averageG N) Eq :=
  averageG_mergeable' N hN
theorem average_mergeable : Mergeable average Eq := averageG_mergeable' ratOps ratOps_lawful
theorem min_mergeable : Mergeable minC Eq := minC_mergeable'
theorem max_mergeable : Mergeable maxC Eq := maxC_mergeable'
/-- accumulators (hash sets) are compared as duplicate-free collections up to order -/
theorem distinctCount_mergeable (α : Type) [DecidableEq α] : Mergeable (distinctCount α) List.Perm :=
  distinctCount_mergeable' α
theorem distinctSet_mergeable : Mergeable distinctSet List.Perm :=
  distinctSetBy_mergeable' leInt leInt_total
/-- for every `k`, including 0 -/
theorem topK_mergeable (k : Nat) : Mergeable (topK k) Eq := topKBy_mergeable' leInt_total k
/-- for every element type with a total order -/
theorem topKBy_mergeable {α : Type} {le : α → α → Bool} (hle : TotalOrderB le) (k : Nat) :
    Mergeable (topKBy le k) Eq := topKBy_mergeable' hle k

/-- what C05 / C01 consume -/
theorem builtins_lawful :
    LawfulCombiner (count Int) Eq ∧ LawfulCombiner sum Eq ∧ LawfulCombiner average Eq ∧
    LawfulCombiner minC Eq ∧ LawfulCombiner maxC Eq ∧ LawfulCombiner (distinctCount Int) List.Perm ∧
    LawfulCombiner distinctSet List.Perm ∧ ∀ k, LawfulCombiner (topK k) Eq :=
  ⟨(count_mergeable Int).toLawfulCombiner, sum_mergeable.toLawfulCombiner,
   average_mergeable.toLawfulCombiner, min_mergeable.toLawfulCombiner, max_mergeable.toLawfulCombiner,
   (distinctCount_mergeable Int).toLawfulCombiner, distinctSet_mergeable.toLawfulCombiner,
   fun k => (topK_mergeable k).toLawfulCombiner⟩

/-! ## Part 3 — the outputs are the mathematical ones, whatever the tree -/

/-- Count = number of values -/
theorem count_spec {V : Type} (t : MergeTree V) : (count V).finish (t.eval (count V)) = t.leaves.length := by
  rw [mergeTree_eq_fold (count_mergeable V), count_foldAdd]; simp [count]

/-- Sum = the sum -/
theorem sum_spec (t : MergeTree Int) : sum.finish (t.eval sum) = t.leaves.sum := by
  rw [mergeTree_eq_fold sum_mergeable]
  show List.foldl (· + ·) (0 : Int) t.leaves = _
  rw [int_foldl_add]; simp

theorem sumRat_spec (t : MergeTree Rat) : sumRat.finish (t.eval sumRat) = t.leaves.sum := by
  rw [mergeTree_eq_fold sumRat_mergeable]
  show List.foldl (· + ·) (0 : Rat) t.leaves = _
  rw [rat_foldl_add, Rat.zero_add]

/-- Min = the minimum; `none` (the real code panics) exactly on no values at all -/
theorem min_spec (t : MergeTree Int) : minC.finish (t.eval minC) = t.leaves.min? := by
  rw [mergeTree_eq_fold min_mergeable, minC_fold_eq_min?]; rfl

theorem max_spec (t : MergeTree Int) : maxC.finish (t.eval maxC) = t.leaves.max? := by
  rw [mergeTree_eq_fold max_mergeable, maxC_fold_eq_max?]; rfl

/-- Average = sum / count (exact), and `0` on no values -/
theorem average_spec (t : MergeTree Rat) :
    average.finish (t.eval average) =
      if t.leaves.length = 0 then 0 else t.leaves.sum / (t.leaves.length : Rat) := by
  rw [mergeTree_eq_fold average_mergeable]
  show average.finish ((averageG ratOps).foldAdd (ratOps.zero, 0) t.leaves) = _
  rw [averageG_foldAdd]
  show (if (0 + t.leaves.length == 0) = true then (0 : Rat)
        else List.foldl (· + ·) (0 : Rat) t.leaves / ((0 + t.leaves.length : Nat) : Rat)) = _
  rw [rat_foldl_add, Rat.zero_add, Nat.zero_add]
  by_cases h : t.leaves.length = 0 <;> simp [h]

/-- DistinctCount = the number of distinct values: the length of *any* duplicate-free enumeration of
    the values that occur -/
theorem distinctCount_spec {α : Type} [DecidableEq α] (t : MergeTree α) (d : List α)
    (hd : d.Nodup) (hmem : ∀ x, x ∈ d ↔ x ∈ t.leaves) :
    (distinctCount α).finish (t.eval (distinctCount α)) = d.length := by
  rw [mergeTree_eq_fold (distinctCount_mergeable α)]
  show (setCollect t.leaves).length = d.length
  apply List.Perm.length_eq
  rw [List.perm_ext_iff_of_nodup (nodup_setCollect _) hd]
  intro x; rw [mem_setCollect, hmem]

/-- … in particular the length of the input with duplicates erased -/
theorem distinctCount_eq_eraseDups {α : Type} [DecidableEq α] (t : MergeTree α) :
    (distinctCount α).finish (t.eval (distinctCount α)) = t.leaves.eraseDups.length :=
  distinctCount_spec t _ (nodup_eraseDups _) (fun _ => List.mem_eraseDups)

/-- DistinctSet = the set of values: the output (in canonical order) is strictly ascending, hence
    duplicate-free, and contains exactly the values that occur -/
theorem distinctSet_spec (t : MergeTree Int) :
    (distinctSet.finish (t.eval distinctSet)).Pairwise (· < ·) ∧
      ∀ x, x ∈ distinctSet.finish (t.eval distinctSet) ↔ x ∈ t.leaves := by
  rw [mergeTree_eq_fold distinctSet_mergeable]
  show ((setCollect t.leaves).mergeSort leInt).Pairwise (· < ·) ∧
    ∀ x, x ∈ (setCollect t.leaves).mergeSort leInt ↔ x ∈ t.leaves
  constructor
  · have hs := mergeSort_sorted leInt_total (setCollect t.leaves)
    have hn : ((setCollect t.leaves).mergeSort leInt).Nodup :=
      (List.mergeSort_perm _ _).nodup_iff.mpr (nodup_setCollect _)
    have := List.Pairwise.and hs hn
    refine this.imp ?_
    intro a b hab
    have h1 : a ≤ b := by simpa [leInt] using hab.1
    have h2 : a ≠ b := hab.2
    omega
  · intro x; rw [List.mem_mergeSort, mem_setCollect]

/-- TopK = the `k` largest values in descending order, for every tree, every `k` (0 and `k > n` included)
    and every totally ordered element type -/
theorem topKBy_spec {α : Type} {le : α → α → Bool} (hle : TotalOrderB le) (k : Nat) (t : MergeTree α) :
    (topKBy le k).finish (t.eval (topKBy le k)) = (t.leaves.mergeSort (fun a b => le b a)).take k := by
  rw [mergeTree_eq_fold (topKBy_mergeable hle k)]
  exact topFold_create_reverse hle k t.leaves

theorem topK_spec (k : Nat) (t : MergeTree Int) :
    (topK k).finish (t.eval (topK k)) = (t.leaves.mergeSort (fun a b => decide (a ≥ b))).take k :=
  topKBy_spec leInt_total k t

/-- the sorted list used in the spec really is the descending sort: a descending permutation -/
theorem topK_spec_sort_is_sort (xs : List Int) :
    (xs.mergeSort (fun a b => decide (a ≥ b))).Pairwise (· ≥ ·) ∧
      (xs.mergeSort (fun a b => decide (a ≥ b))).Perm xs := by
  constructor
  · have := mergeSort_sorted (leInt_total.flip) xs
    refine this.imp ?_
    intro a b hab; simpa [leInt] using hab
  · exact List.mergeSort_perm _ _

/-- it has `min k n` elements -/
theorem topK_length (k : Nat) (t : MergeTree Int) :
    ((topK k).finish (t.eval (topK k))).length = min k t.leaves.length := by
  rw [topK_spec, List.length_take, List.length_mergeSort]

theorem topK_zero (t : MergeTree Int) : (topK 0).finish (t.eval (topK 0)) = [] := by
  rw [topK_spec]; simp

theorem topK_all (k : Nat) (t : MergeTree Int) (hk : t.leaves.length ≤ k) :
    (topK k).finish (t.eval (topK k)) = t.leaves.mergeSort (fun a b => decide (a ≥ b)) := by
  rw [topK_spec]; exact List.take_of_length_le (by simpa using hk)

/-! ### the accumulators themselves (what the correspondence check also compares) -/

/-- every reachable TopK accumulator is exactly the ascending list of the `k` largest values seen:
    the heap never holds more than `k` elements, whatever was merged or added -/
theorem topK_acc_spec (k : Nat) (t : MergeTree Int) :
    t.eval (topK k) = ((t.leaves.mergeSort (fun a b => decide (a ≥ b))).take k).reverse ∧
      (t.eval (topK k)).length ≤ k := by
  have e : t.eval (topK k) = (topK k).foldAdd (topK k).create t.leaves := (topK_mergeable k).eval_fold t
  have r := topFold_create_reverse leInt_total k t.leaves
  have e2 : t.eval (topK k) = ((t.leaves.mergeSort (fun a b => decide (a ≥ b))).take k).reverse := by
    rw [e]; apply List.reverse_inj.mp; rw [List.reverse_reverse]; exact r
  refine ⟨e2, ?_⟩
  rw [e2, List.length_reverse, List.length_take]; omega

/-- every reachable hash-set accumulator is duplicate-free and holds exactly the values seen -/
theorem distinct_acc_spec {α : Type} [DecidableEq α] (t : MergeTree α) :
    (t.eval (distinctCount α)).Nodup ∧ ∀ x, x ∈ t.eval (distinctCount α) ↔ x ∈ t.leaves := by
  have p : (t.eval (distinctCount α)).Perm (setCollect t.leaves) := (distinctCount_mergeable α).eval_fold t
  exact ⟨p.nodup_iff.mpr (nodup_setCollect _), fun x => p.mem_iff.trans mem_setCollect⟩


/-! ## Part 4 — `Min` / `Max` / `TopK` for any `T: Ord` (ties between distinguishable values) -/

section AnyOrd
variable {α : Type} {lt : α → α → Bool}

/-- `Min<T>`, any `Ord` (a strict weak order: `Equal` need not mean identical): lawful ON THE NOSE in the sense
    the engine needs (parts merged in partition order): split + merge = fold, `build_from_group` = fold.
    The returned representative is the FIRST minimal value. -/
theorem min_any_ord_lawful (h : StrictWeakB lt) : LawfulCombiner (minBy lt) Eq := minBy_lawful h

/-- … hence every merge tree (any grouping, any build mode, values added after merges) whose leaves are in
    input order holds exactly the accumulator of the plain fold -/
theorem min_any_ord_in_order (h : StrictWeakB lt) (t : MergeTree α) :
    t.eval (minBy lt) = (minBy lt).foldAdd (minBy lt).create t.leaves :=
  LawfulCombiner.eval_fold_eq (minBy_lawful h) t

/-- `Max<T>`: the same with the trait's default `build_from_group` (the `add_input` loop) … -/
theorem max_any_ord_lawful_partial (h : StrictWeakB lt) : LawfulCombiner (maxByDefault lt) Eq :=
  maxByDefault_lawful h

/-- … and with the real `build_from_group = iter().max()` whenever `Equal` means identical (`i64`, `OrdF64`, …) -/
theorem max_total_ord_lawful (h : StrictWeakB lt) (anti : ∀ a b, Equiv lt a b → a = b) :
    LawfulCombiner (maxBy lt) Eq := maxBy_lawful h anti

/-- FULL statement that FAILS: `LawfulCombiner (maxBy lt) Eq` for every `Ord`. Witness: two `Equal` values with
    different tags: `build_from_group` (= `iter().max()`) returns the last one, the `add_input` loop the first. -/
theorem max_build_tie_witness : ¬ LawfulCombiner (maxBy ltKey) Eq := by
  intro h
  have := h.build_fold [((1 : Int), 0), (1, 1)]
  revert this
  decide

/-- … but the two are `Ord`-equal, for every group -/
theorem max_build_equiv_fold (h : StrictWeakB lt) (xs : List α) :
    OptEquiv lt ((maxBy lt).build xs) ((maxBy lt).foldAdd (maxBy lt).create xs) := maxBy_build_equiv_fold h xs

/-- `Min<T>` / `Max<T>`, any `Ord`, ANY ORDER of the parts: mergeable up to `Ord`-equality of the accumulators;
    every observation `key` that does not look beyond `Ord` gives equal outputs -/
theorem min_any_ord_mergeable (h : StrictWeakB lt) {κ : Type} (key : α → κ)
    (hkey : ∀ a b, Equiv lt a b → key a = key b) :
    Mergeable ((minBy lt).mapFinish (Option.map key)) (OptEquiv lt) := minBy_mergeable_equiv h key hkey

theorem max_any_ord_mergeable (h : StrictWeakB lt) {κ : Type} (key : α → κ)
    (hkey : ∀ a b, Equiv lt a b → key a = key b) :
    Mergeable ((maxBy lt).mapFinish (Option.map key)) (OptEquiv lt) := maxBy_mergeable_equiv h key hkey

/-- the property as worded, for `Min`: any split, any order, any grouping, any build mode — an `Ord`-equal result -/
theorem min_tree_any_order (h : StrictWeakB lt) (t : MergeTree α) (xs : List α) (p : t.leaves.Perm xs) :
    OptEquiv lt ((minBy lt).finish (t.eval (minBy lt))) ((minBy lt).finish ((minBy lt).foldAdd (minBy lt).create xs)) := by
  have hm := minBy_mergeable_equiv h (fun (_ : α) => ()) (fun _ _ _ => rfl)
  have e := hm.trans (hm.eval_fold t) (hm.fold_perm p)
  rw [eval_mapFinish] at e
  exact e

theorem max_tree_any_order (h : StrictWeakB lt) (t : MergeTree α) (xs : List α) (p : t.leaves.Perm xs) :
    OptEquiv lt ((maxBy lt).finish (t.eval (maxBy lt))) ((maxBy lt).finish ((maxBy lt).foldAdd (maxBy lt).create xs)) := by
  have hm := maxBy_mergeable_equiv h (fun (_ : α) => ()) (fun _ _ _ => rfl)
  have e := hm.trans (hm.eval_fold t) (hm.fold_perm p)
  rw [eval_mapFinish] at e
  exact e

/-- the outputs are the mathematical ones: a value of the input below (above) which there is none; `none`
    (the real `finish` panics) exactly on no values at all -/
theorem min_is_minimum (h : StrictWeakB lt) (t : MergeTree α) :
    IsMinOf lt t.leaves ((minBy lt).finish (t.eval (minBy lt))) := minBy_tree_isMin h t

theorem max_is_maximum (h : StrictWeakB lt) (t : MergeTree α) :
    IsMaxOf lt t.leaves ((maxBy lt).finish (t.eval (maxBy lt))) := maxBy_tree_isMax h t

/-- total orders: everything on the nose, any order (the round-1 `i64` theorems are the instance `lt = <`) -/
theorem min_total_ord_mergeable (h : StrictWeakB lt) (anti : ∀ a b, Equiv lt a b → a = b) :
    Mergeable (minBy lt) Eq := minBy_mergeable_total h anti
theorem max_total_ord_mergeable (h : StrictWeakB lt) (anti : ∀ a b, Equiv lt a b → a = b) :
    Mergeable (maxBy lt) Eq := maxBy_mergeable_total h anti

end AnyOrd

/-- the round-1 models of `Min<i64>` / `Max<i64>` are the generic ones -/
theorem minC_is_minBy : minC = minBy (fun a b : Int => decide (a < b)) := minC_eq_minBy
theorem maxC_is_maxBy : maxC = maxBy (fun a b : Int => decide (a < b)) := maxC_eq_maxBy

/-- `TopK<T>` when `Ord` only looks at `key` (a total order `leκ` on the keys): the keys of the output are the `k`
    largest keys in descending order — every tree, every `k` … -/
theorem topKBy_keys_spec {α κ : Type} {le : α → α → Bool} {leκ : κ → κ → Bool} {key : α → κ}
    (hκ : TotalOrderB leκ) (hle : ∀ a b, le a b = leκ (key a) (key b)) (k : Nat) (t : MergeTree α) :
    ((topKBy le k).finish (t.eval (topKBy le k))).map key
      = ((t.leaves.map key).mergeSort (fun a b => leκ b a)).take k := by
  show (topFinish (t.eval (topKBy le k))).map key = _
  rw [topFinish, List.map_reverse, topKBy_eval_map hle k t]
  have := topKBy_spec hκ k (t.map key)
  rw [MergeTree.leaves_map] at this
  exact this

/-- … and the output is a selection (sub-multiset) of the input, whatever `Ord` is: which of several `Equal`
    values at the `k`-th place is kept is decided by the heap, never anything that was not put in -/
theorem topKBy_selection {α : Type} (le : α → α → Bool) (k : Nat) (t : MergeTree α) :
    Sel ((topKBy le k).finish (t.eval (topKBy le k))) t.leaves :=
  (Sel.of_perm (List.reverse_perm _)).trans (topKBy_eval_sel le k t)

/-- the harness's `Tagged { key, tag }` -/
theorem topK_tagged_spec (k : Nat) (t : MergeTree Tagged) :
    ((topKBy leKey k).finish (t.eval (topKBy leKey k))).map (·.1)
      = ((t.leaves.map (·.1)).mergeSort (fun a b => decide (a ≥ b))).take k :=
  topKBy_keys_spec leInt_total leKey_hom k t

/-! ## Part 5 — IEEE doubles -/

/-- `OrdF64` (`f64::total_cmp` on bit patterns) is a total order: `Min/Max/TopK<OrdF64>` are instances of the
    total-order theorems — on the nose, any order, NaNs included -/
theorem ordF64_total_order : TotalOrderB leF64 ∧ StrictWeakB ltF64 ∧ (∀ a b, Equiv ltF64 a b → a = b) ∧
    ∀ a b, leF64 a b = !ltF64 b a :=
  ⟨leF64_total, ltF64_strictWeak, ltF64_anti, leF64_eq_not_lt⟩

/-- where everything sits: every negative-sign pattern is below every non-negative one (`-0.0 < +0.0`);
    among non-negative patterns the order is the order of the bits (finite < `+inf` = `0x7FF0…0` < the NaNs);
    among negative ones it is reversed (negative NaNs < `-inf` < negative finite) -/
theorem ordF64_order (a b : UInt64) :
    (two63 ≤ a.toNat → b.toNat < two63 → ltF64 a b = true) ∧
    (a.toNat < two63 → b.toNat < two63 → (ltF64 a b = true ↔ a.toNat < b.toNat)) ∧
    (two63 ≤ a.toNat → two63 ≤ b.toNat → (ltF64 a b = true ↔ b.toNat < a.toNat)) := by
  have ha := a.toNat_lt
  have hb := b.toNat_lt
  simp only [ltF64, decide_eq_true_eq]
  rcases ordKey_cases a with ⟨ha1, ha2⟩ | ⟨ha1, ha2⟩ <;> rcases ordKey_cases b with ⟨hb1, hb2⟩ | ⟨hb1, hb2⟩ <;>
    rw [ha2, hb2] <;> unfold two63 at * <;> refine ⟨?_, ?_, ?_⟩ <;> intro h1 h2 <;> omega

theorem minF64_mergeable : Mergeable (minBy ltF64) Eq := minBy_mergeable_total ltF64_strictWeak ltF64_anti
theorem maxF64_mergeable : Mergeable (maxBy ltF64) Eq := maxBy_mergeable_total ltF64_strictWeak ltF64_anti
theorem topKF64_spec (k : Nat) (t : MergeTree UInt64) :
    (topKBy leF64 k).finish (t.eval (topKBy leF64 k)) = (t.leaves.mergeSort (fun a b => leF64 b a)).take k :=
  topKBy_spec leF64_total k t

/-- a non-negative-sign NaN: exponent all ones, mantissa non-zero -/
def isPosNaN (b : UInt64) : Prop := 0x7FF0000000000000 < b.toNat ∧ b.toNat < two63
def posInfBits : UInt64 := 0x7FF0000000000000

/-- the NaN-vs-inf rule of `Max<OrdF64>`: a positive NaN among the values ⇒ the maximum is a positive NaN
    (`total_cmp` puts them above `+inf`) -/
theorem maxF64_nan_rule (t : MergeTree UInt64) (x : UInt64) (hx : x ∈ t.leaves) (hn : isPosNaN x) :
    ∃ m, (maxBy ltF64).finish (t.eval (maxBy ltF64)) = some m ∧ isPosNaN m := by
  have h := maxBy_tree_isMax ltF64_strictWeak t
  show ∃ m, t.eval (maxBy ltF64) = some m ∧ isPosNaN m
  cases hm : t.eval (maxBy ltF64) with
  | none => rw [hm] at h; simp only [IsMaxOf] at h; rw [h] at hx; exact absurd hx (by simp)
  | some m =>
    rw [hm] at h
    refine ⟨m, rfl, ?_⟩
    have hle := h.2 x hx
    have hmlt := m.toNat_lt
    simp only [ltF64, decide_eq_false_iff_not] at hle
    unfold isPosNaN at *
    rcases ordKey_cases m with ⟨hm1, hm2⟩ | ⟨hm1, hm2⟩ <;> rcases ordKey_cases x with ⟨hx1, hx2⟩ | ⟨hx1, hx2⟩ <;>
      rw [hm2, hx2] at hle <;> unfold two63 at * <;> omega

/-- … no positive NaN but `+inf` among them ⇒ the maximum is `+inf` -/
theorem maxF64_inf_rule (t : MergeTree UInt64) (hinf : posInfBits ∈ t.leaves) (hnn : ∀ x ∈ t.leaves, ¬ isPosNaN x) :
    (maxBy ltF64).finish (t.eval (maxBy ltF64)) = some posInfBits := by
  have h := maxBy_tree_isMax ltF64_strictWeak t
  show t.eval (maxBy ltF64) = some posInfBits
  cases hm : t.eval (maxBy ltF64) with
  | none => rw [hm] at h; simp only [IsMaxOf] at h; rw [h] at hinf; exact absurd hinf (by simp)
  | some m =>
    rw [hm] at h
    congr 1
    have hle := h.2 posInfBits hinf
    have hnot := hnn m h.1
    have hmlt := m.toNat_lt
    apply UInt64.toNat_inj.mp
    have hp : posInfBits.toNat = 0x7FF0000000000000 := by decide
    simp only [ltF64, decide_eq_false_iff_not] at hle
    unfold isPosNaN at hnot
    rw [hp]
    rcases ordKey_cases m with ⟨hm1, hm2⟩ | ⟨hm1, hm2⟩ <;>
      rcases ordKey_cases posInfBits with ⟨hx1, hx2⟩ | ⟨hx1, hx2⟩ <;>
      rw [hm2, hx2, hp] at hle <;> rw [hp] at hx1 <;> unfold two63 at * <;> omega

/-- `Sum<f64>`: the class of the result of EVERY merge tree, for any number type `N` whose classification `cls` is a
    homomorphism into the IEEE class table (`f64`, as long as no addition of finite values overflows): NaN iff a
    NaN or both infinities are among the values, else the infinity that is, else finite -/
theorem sum_class_spec {α : Type} {N : NumOps α} {cls : α → FClass} (h : NumHom N classOps cls) (t : MergeTree α) :
    cls ((sumG N).finish (t.eval (sumG N))) = sumClass (t.leaves.map cls) := by
  show cls (t.eval (sumG N)) = _
  rw [sumG_eval_hom h t]
  have e := mergeTree_eq_fold (sumG_mergeable classOps classOps_lawful) (t.map cls)
  show (sumG classOps).finish ((t.map cls).eval (sumG classOps)) = _
  rw [e, MergeTree.leaves_map]
  exact foldl_classAdd_fin _

/-- `AverageF64`: finite (`0.0`) on no values; otherwise the class of the sum (`x / n` keeps the class) -/
theorem average_class_spec {α : Type} {N : NumOps α} {cls : α → FClass} (h : NumHom N classOps cls) (t : MergeTree α) :
    cls ((averageG N).finish (t.eval (averageG N))) =
      if t.leaves.length = 0 then FClass.fin else sumClass (t.leaves.map cls) := by
  have hc := averageG_eval_count N t
  have hh := averageG_eval_hom h t
  show cls (if (t.eval (averageG N)).2 == 0 then N.zero else N.divNat (t.eval (averageG N)).1 (t.eval (averageG N)).2) = _
  rw [hc]
  by_cases h0 : t.leaves.length = 0
  · simp only [h0, beq_self_eq_true, if_true]; exact h.zero
  · have hpos : 0 < t.leaves.length := Nat.pos_of_ne_zero h0
    simp only [h0, if_false, beq_iff_eq]
    rw [h.div _ _ hpos]
    show cls (t.eval (averageG N)).1 = _
    have e1 : cls (t.eval (averageG N)).1 = ((t.map cls).eval (averageG classOps)).1 := congrArg Prod.fst hh
    rw [e1]
    have e := (averageG_mergeable classOps classOps_lawful).eval_fold (t.map cls)
    rw [e, MergeTree.leaves_map]
    show ((averageG classOps).foldAdd (FClass.fin, 0) (t.leaves.map cls)).1 = _
    rw [averageG_foldAdd]
    exact foldl_classAdd_fin _

/-! ## Part 6 — the pipeline model's built-ins are these combiners (what C05 / C01 consume) -/

/-- `Comb.toCombiner` (`Model/Program.lean`) of every built-in is a `Val`-encoding of the typed model of this file
    (`TopK`: by definition, `Proofs/CombTransfer.lean`) -/
theorem val_builtins_are_encodings :
    SimEq Comb.count.toCombiner (count Val) id (fun n => .int n) (fun n => .int n) ∧
    SimEq Comb.sum.toCombiner sum Val.toInt (fun i => .int i) (fun i => .int i) ∧
    SimEq Comb.min.toCombiner (minBy Val.lt) id encOptAcc encOptPanic ∧
    SimEq Comb.max.toCombiner (maxBy Val.lt) id encOptAcc encOptPanic ∧
    (∀ k, (Comb.topK k).toCombiner = Combiner.toVal id Val.ofList Val.toList Val.ofList (topKBy Val.le k)) :=
  ⟨sim_count, sim_sum, sim_min, sim_max, fun _ => rfl⟩

/-- hence their lawfulness is a COROLLARY of Part 2 / Part 4 (for all values, no well-formedness assumption) -/
theorem val_builtins_lawful :
    LawfulCombiner Comb.count.toCombiner Eq ∧ LawfulCombiner Comb.sum.toCombiner Eq ∧
    LawfulCombiner Comb.min.toCombiner Eq ∧ LawfulCombiner Comb.max.toCombiner Eq ∧
    LawfulCombiner Comb.minT.toCombiner Eq ∧ LawfulCombiner Comb.maxT.toCombiner Eq ∧
    ∀ k, LawfulCombiner (Comb.topK k).toCombiner Eq :=
  ⟨sim_count.lawful (count_mergeable Val).toLawfulCombiner,
   sim_sum.lawful builtins_lawful.2.1,
   sim_min.lawful (min_any_ord_lawful Val.lt_strictWeak),
   sim_max.lawful (max_total_ord_lawful Val.lt_strictWeak Val.lt_anti),
   sim_minT.lawful (min_any_ord_lawful Val.lt_strictWeak),
   sim_maxT.lawful (max_total_ord_lawful Val.lt_strictWeak Val.lt_anti),
   fun k => topKVal_lawful k⟩

/-- every merge tree of a `Val`-level built-in computes the encoding of the typed tree: the Part 3 / Part 4 output
    theorems speak about the pipeline model's combiners too -/
theorem val_min_tree (tr : MergeTree Val) :
    ∃ r, Comb.min.toCombiner.finish (tr.eval Comb.min.toCombiner) = encOptPanic r ∧ IsMinOf Val.lt tr.leaves r := by
  refine ⟨(minBy Val.lt).finish ((tr.map id).eval (minBy Val.lt)), sim_min.finish_eval tr, ?_⟩
  have := min_is_minimum Val.lt_strictWeak (tr.map id)
  rw [MergeTree.leaves_map, List.map_id] at this
  exact this

theorem val_max_tree (tr : MergeTree Val) :
    ∃ r, Comb.max.toCombiner.finish (tr.eval Comb.max.toCombiner) = encOptPanic r ∧ IsMaxOf Val.lt tr.leaves r := by
  refine ⟨(maxBy Val.lt).finish ((tr.map id).eval (maxBy Val.lt)), sim_max.finish_eval tr, ?_⟩
  have := max_is_maximum Val.lt_strictWeak (tr.map id)
  rw [MergeTree.leaves_map, List.map_id] at this
  exact this

theorem val_count_tree (tr : MergeTree Val) :
    Comb.count.toCombiner.finish (tr.eval Comb.count.toCombiner) = .int tr.leaves.length := by
  rw [sim_count.finish_eval tr, count_spec, MergeTree.leaves_map, List.length_map]

theorem val_sum_tree (tr : MergeTree Val) :
    Comb.sum.toCombiner.finish (tr.eval Comb.sum.toCombiner) = .int (tr.leaves.map Val.toInt).sum := by
  rw [sim_sum.finish_eval tr, sum_spec, MergeTree.leaves_map]

/-- the two models of the `HashSet` (first-occurrence order in `Program.lean`, newest-first here) hold the same
    elements after every merge tree: the pipeline model's `DistinctSet` accumulator is a duplicate-free list of
    exactly the values seen -/
theorem val_distinct_tree (tr : MergeTree Val) :
    ∃ l, tr.eval Comb.distinctSet.toCombiner = Val.ofList l ∧ l.Nodup ∧ ∀ x, x ∈ l ↔ x ∈ tr.leaves := by
  obtain ⟨l, hl, p⟩ := distinct_rel_eval tr
  have hs := distinct_acc_spec tr
  exact ⟨l, hl, p.nodup_iff.mpr hs.1, fun x => p.mem_iff.trans (hs.2 x)⟩

/-! ## Part 7 — KMV on C06's merge trees (pointer to C15's theory) -/

section KMV
open IB.Sketches

/-- `KMVApproxDistinctCount`: for EVERY merge tree of C06 — leaves built by `add_input` OR by the real
    `build_from_group`, merged in any grouping, values added after merges — heap and set hold the same ranks and
    they are THE `k` smallest distinct ranks of the input (C15's `KSmallest`, which determines them uniquely) -/
theorem kmv_tree_state (k : Nat) (t : MergeTree Nat) :
    (t.eval (kmvComb k)).heap.Perm (t.eval (kmvComb k)).set ∧ (t.eval (kmvComb k)).k = kmvK k ∧
      KSmallest (kmvK k) t.leaves (t.eval (kmvComb k)).set :=
  let h := kmv_mergeTree_inv k t
  ⟨h.perm, h.hk, h.spec⟩

/-- mergeability: two merge trees whose inputs have the same MEMBERS (any split, order, grouping, duplicates, build
    mode) keep the same ranks and `finish` to the same answer -/
theorem kmv_tree_independent (k : Nat) (t₁ t₂ : MergeTree Nat) (hm : ∀ x, x ∈ t₁.leaves ↔ x ∈ t₂.leaves) :
    (t₁.eval (kmvComb k)).set.Perm (t₂.eval (kmvComb k)).set ∧
      (kmvComb k).finish (t₁.eval (kmvComb k)) = (kmvComb k).finish (t₂.eval (kmvComb k)) := by
  have h1 := kmv_mergeTree_inv k t₁
  have h2 := kmv_mergeTree_inv k t₂
  have hp := h1.spec.unique h2.spec hm
  refine ⟨hp, ?_⟩
  have hheap : heapMax (t₁.eval (kmvComb k)).heap = heapMax (t₂.eval (kmvComb k)).heap :=
    heapMax_congr (fun x => by rw [h1.perm.mem_iff, h2.perm.mem_iff, hp.mem_iff])
  show KMV.finish _ = KMV.finish _
  simp only [KMV.finish, hp.length_eq, h1.hk, h2.hk, hheap]

/-- `build_from_group` IS the `add_input` loop; merging a fresh accumulator (either side) changes no answer -/
theorem kmv_build_and_fresh (k : Nat) (xs : List Nat) (t : MergeTree Nat) :
    (kmvComb (α := Nat) k).build xs = (kmvComb k).foldAdd (kmvComb k).create xs ∧
    (kmvComb k).finish ((kmvComb k).merge (t.eval (kmvComb k)) (kmvComb k).create) = (kmvComb k).finish (t.eval (kmvComb k)) ∧
    (kmvComb k).finish ((kmvComb k).merge (kmvComb k).create (t.eval (kmvComb k))) = (kmvComb k).finish (t.eval (kmvComb k)) :=
  ⟨rfl,
   (kmv_tree_independent k (.node t (.leaf [])) t (fun x => by simp [MergeTree.leaves])).2,
   (kmv_tree_independent k (.node (.leaf []) t) t (fun x => by simp [MergeTree.leaves])).2⟩

end KMV

/-! ## Non-vacuity and witnesses (tests, not theorems) -/

/-- the hypotheses of `mergeTree_split_any_order` on a concrete tree: 3 parts (one empty), leaves in the
    order 3,1,2, one built with `build_from_group`, right-nested -/
example : (MergeTree.node (.leaf [7]) (.node (.built [1, 2]) (.leaf ([] : List Int)))).parts.Perm
    [[1, 2], [], [7]] := by
  simp only [MergeTree.parts, List.cons_append, List.nil_append]
  exact (List.Perm.swap _ _ _).trans ((List.Perm.swap _ _ _).cons _)

/-- … and these parts are a split of the input `[1, 2, 7]` (`mergeTree_of_split`) -/
example : ([[1, 2], [], [7]] : List (List Int)).flatten = [1, 2, 7] := by decide

/-- `distinctCount_spec`'s hypotheses are satisfiable: `eraseDups` is such an enumeration's membership -/
example : ([1, 2] : List Int).Nodup ∧ ∀ x, x ∈ ([1, 2] : List Int) ↔ x ∈ ([1, 2, 1] : List Int) := by
  constructor
  · decide
  · intro x; simp only [List.mem_cons, List.not_mem_nil, or_false]; omega

/-- `topK_all`'s hypothesis (`k > n`) -/
example : (MergeTree.node (.leaf [1]) (.leaf ([2] : List Int))).leaves.length ≤ 3 := by decide

/-- witness: the two-pointer path with a tie across the two sides (`k = 2`, `[1,2] ⊎ [2,1]`) -/
example : (topK 2).finish ((MergeTree.node (.leaf [1, 2]) (.leaf [2, 1])).eval (topK 2)) = [2, 2] := by
  have l1 : (topK 2).foldAdd (topK 2).create [1, 2] = [1, 2] := by decide
  have l2 : (topK 2).foldAdd (topK 2).create [2, 1] = [1, 2] := by decide
  have e : ([1, 2] : List Int).mergeSort leInt = [1, 2] := List.mergeSort_of_pairwise (by decide)
  show topFinish (topMerge leInt 2 ((topK 2).foldAdd (topK 2).create [1, 2])
    ((topK 2).foldAdd (topK 2).create [2, 1])) = _
  rw [l1, l2]
  unfold topMerge
  simp only [e]
  decide

/-- witness: `k = 0` keeps nothing, the extend path (`0 + 0 ≤ 0`) -/
example : (topK 0).finish ((MergeTree.node (.leaf [1]) (.built [2])).eval (topK 0)) = [] := by decide

/-- witness: Min on no values = `none` (the real `finish` panics), also through a merge -/
example : minC.finish ((MergeTree.node (.leaf []) (.built [])).eval minC) = none := by decide

/-- `ltKey` (the harness's `Tagged`) satisfies `StrictWeakB` but not antisymmetry: two `Equal`, different values -/
example : StrictWeakB ltKey ∧ Equiv ltKey ((1 : Int), 0) (1, 1) ∧ ((1 : Int), 0) ≠ ((1, 1) : Tagged) :=
  ⟨ltKey_strictWeak, ⟨by decide, by decide⟩, by decide⟩

/-- witness of the tie rules: `Max::build_from_group` returns the LAST, `add_input` / `merge` keep the FIRST -/
example : (maxBy ltKey).build [((1 : Int), 0), (1, 1)] = some (1, 1) ∧
    (maxBy ltKey).foldAdd none [((1 : Int), 0), (1, 1)] = some (1, 0) ∧
    (maxBy ltKey).merge (some ((1 : Int), 0)) (some (1, 1)) = some (1, 0) ∧
    (minBy ltKey).build [((1 : Int), 0), (1, 1)] = some (1, 0) := by decide

/-- `NumHom … classOps cls` is satisfiable: the class monoid itself, classified by the identity -/
example : NumHom classOps classOps id := ⟨rfl, rfl, fun _ _ => rfl, fun _ _ _ => rfl⟩

/-- witness of `sumClass`: `+inf` and `-inf` anywhere ⇒ NaN; `+inf` alone ⇒ `+inf` -/
example : sumClass [.fin, .pinf, .fin, .ninf] = .nan ∧ sumClass [.fin, .pinf] = .pinf ∧ sumClass [] = .fin := by decide

/-- `maxF64_nan_rule` / `maxF64_inf_rule`: the hypotheses are satisfiable (`0x7FF8…0` is a positive NaN) -/
example : isPosNaN 0x7FF8000000000000 ∧ ¬ isPosNaN posInfBits := by
  unfold isPosNaN two63 posInfBits; decide

end IB.Combiners
