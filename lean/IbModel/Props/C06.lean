import IbModel.Proofs.CombinersBasic
import IbModel.Proofs.CombinersDistinct
import IbModel.Proofs.CombinersTopK
/-!
# C06 — built-in combiners are mergeable: any split and merge order equals the fold

Property theorems only (helper lemmas are in `Proofs/Combiner*.lean`).

* Part 1 — once and for all, for every `Mergeable c R` (= `LawfulCombiner c R` + `add_input` respects `R`
  + `merge` commutes on folds): every merge tree (any number of possibly-empty parts, each built with
  `add_input` or with `build_from_group`, merged in any grouping, leaves in any order, values added after
  merges) finishes to the same output as adding all values to one fresh accumulator; merging with a
  fresh accumulator changes nothing; `merge` is associative and commutative on everything reachable.
* Part 2 — each built-in is `Mergeable` (hence `LawfulCombiner`, which C05/C01 consume).
* Part 3 — the outputs are the mathematical ones, for every tree.

Scope: `u64`/`i64` are `Nat`/`Int` (no overflow); `f64` is `Rat` (`Sum<f64>`, `AverageF64`: exact
arithmetic — the real code agrees only up to IEEE rounding, which the correspondence check compares with
1e-9 tolerance). `Min`/`Max` output `none` = the real `finish` panics (`expect` on an empty accumulator).
-/
namespace IB.Combiners
open IB

/-! ## Part 1 — the generic merge-tree theorems -/

section Generic
variable {V A O : Type} {c : Combiner V A O} {R : A → A → Prop}

/-- Any grouping: a merge tree finishes to the fold over its leaves, left to right. -/
theorem mergeTree_eq_fold (h : Mergeable c R) (t : MergeTree V) :
    c.finish (t.eval c) = c.finish (c.foldAdd c.create t.leaves) :=
  h.finish_congr (h.eval_fold t)

/-- Any grouping **and any order**: if the tree's values are a permutation of `xs` (in particular if its
    leaves are the parts of any split of `xs`, taken in any order), it finishes to the fold over `xs`. -/
theorem mergeTree_any_order (h : Mergeable c R) (t : MergeTree V) (xs : List V)
    (p : t.leaves.Perm xs) : c.finish (t.eval c) = c.finish (c.foldAdd c.create xs) :=
  h.finish_congr (h.trans (h.eval_fold t) (h.fold_perm p))

/-- The property as worded: `ps` = the parts of a split of the input (possibly empty parts, any number),
    the tree uses exactly these parts as leaves in any order, grouping and build mode. -/
theorem mergeTree_split_any_order (h : Mergeable c R) (t : MergeTree V) (ps : List (List V))
    (p : t.parts.Perm ps) : c.finish (t.eval c) = c.finish (c.foldAdd c.create ps.flatten) :=
  mergeTree_any_order h t ps.flatten (by rw [MergeTree.leaves_eq_flatten]; exact p.flatten)

/-- … i.e. for every input `xs`, every split `ps` of it (`ps.flatten = xs`; parts may be empty), and
    every tree over these parts in any order. -/
theorem mergeTree_of_split (h : Mergeable c R) (xs : List V) (ps : List (List V)) (hsplit : ps.flatten = xs)
    (t : MergeTree V) (p : t.parts.Perm ps) :
    c.finish (t.eval c) = c.finish (c.foldAdd c.create xs) :=
  hsplit ▸ mergeTree_split_any_order h t ps p

/-- Two trees over the same parts (any order, grouping, build mode) give the same output. -/
theorem mergeTrees_agree (h : Mergeable c R) (s t : MergeTree V) (p : s.parts.Perm t.parts) :
    c.finish (s.eval c) = c.finish (t.eval c) :=
  h.finish_congr (h.eval_perm s t (by
    rw [MergeTree.leaves_eq_flatten, MergeTree.leaves_eq_flatten]; exact p.flatten))

/-- Merging a fresh accumulator into anything reachable, or anything reachable into a fresh one,
    changes nothing. -/
theorem merge_fresh (h : Mergeable c R) (t : MergeTree V) :
    R (c.merge (t.eval c) c.create) (t.eval c) ∧ R (c.merge c.create (t.eval c)) (t.eval c) := by
  have e := h.eval_fold t
  have r1 := h.eval_fold (MergeTree.node t (MergeTree.leaf []))
  have r2 := h.eval_fold (MergeTree.node (MergeTree.leaf []) t)
  simp only [MergeTree.eval, MergeTree.leaves, List.append_nil, List.nil_append,
    Combiner.foldAdd_nil] at r1 r2
  exact ⟨h.trans r1 (h.symm e), h.trans r2 (h.symm e)⟩

theorem merge_fresh_finish (h : Mergeable c R) (t : MergeTree V) :
    c.finish (c.merge (t.eval c) c.create) = c.finish (t.eval c) ∧
      c.finish (c.merge c.create (t.eval c)) = c.finish (t.eval c) :=
  ⟨h.finish_congr (merge_fresh h t).1, h.finish_congr (merge_fresh h t).2⟩

/-- `merge` is associative and commutative on all reachable accumulators. -/
theorem merge_assoc_comm (h : Mergeable c R) (s t u : MergeTree V) :
    R (c.merge (c.merge (s.eval c) (t.eval c)) (u.eval c))
        (c.merge (s.eval c) (c.merge (t.eval c) (u.eval c))) ∧
      R (c.merge (s.eval c) (t.eval c)) (c.merge (t.eval c) (s.eval c)) := by
  constructor
  · exact h.eval_perm (.node (.node s t) u) (.node s (.node t u))
      (by simp [MergeTree.leaves, List.append_assoc])
  · exact h.eval_perm (.node s t) (.node t s) (by simpa [MergeTree.leaves] using List.perm_append_comm)

/-- Building an accumulator from a whole group equals adding the group's values one at a time. -/
theorem build_eq_fold (h : Mergeable c R) (xs : List V) :
    R (c.build xs) (c.foldAdd c.create xs) ∧ c.finish (c.build xs) = c.finish (c.foldAdd c.create xs) :=
  ⟨h.build_fold xs, h.finish_congr (h.build_fold xs)⟩

/-- With `R = Eq` (all built-ins except the two set-valued ones) these are literal equalities of
    accumulators. -/
theorem merge_fresh_eq (h : Mergeable c Eq) (t : MergeTree V) :
    c.merge (t.eval c) c.create = t.eval c ∧ c.merge c.create (t.eval c) = t.eval c :=
  merge_fresh h t

end Generic

/-! ## Part 2 — every built-in combiner is mergeable -/

theorem count_mergeable (V : Type) : Mergeable (count V) Eq := count_mergeable' V
theorem sum_mergeable : Mergeable sum Eq := sumG_mergeable' intOps intOps_lawful
/-- `Sum<f64>` in exact arithmetic (any number type whose `+` is associative-commutative with unit) -/
theorem sumG_mergeable {α : Type} (N : NumOps α) (hN : N.Lawful) : Mergeable (sumG N) Eq :=
  sumG_mergeable' N hN
theorem sumRat_mergeable : Mergeable sumRat Eq := sumG_mergeable' ratOps ratOps_lawful
theorem averageG_mergeable {α : Type} (N : NumOps α) (hN : N.Lawful) : Mergeable (averageG N) Eq :=
  averageG_mergeable' N hN
theorem average_mergeable : Mergeable average Eq := averageG_mergeable' ratOps ratOps_lawful
theorem min_mergeable : Mergeable minC Eq := minC_mergeable'
theorem max_mergeable : Mergeable maxC Eq := maxC_mergeable'
/-- accumulators (hash sets) are compared as duplicate-free collections up to order -/
theorem distinctCount_mergeable (α : Type) [DecidableEq α] : Mergeable (distinctCount α) List.Perm :=
  distinctCount_mergeable' α
theorem distinctSet_mergeable : Mergeable distinctSet List.Perm :=
  distinctSetBy_mergeable' leInt leInt_total
/-- for every `k`, including 0 -/
theorem topK_mergeable (k : Nat) : Mergeable (topK k) Eq := topKBy_mergeable' leInt_total k
/-- for every element type with a total order -/
theorem topKBy_mergeable {α : Type} {le : α → α → Bool} (hle : TotalOrderB le) (k : Nat) :
    Mergeable (topKBy le k) Eq := topKBy_mergeable' hle k

/-- what C05 / C01 consume -/
theorem builtins_lawful :
    LawfulCombiner (count Int) Eq ∧ LawfulCombiner sum Eq ∧ LawfulCombiner average Eq ∧
    LawfulCombiner minC Eq ∧ LawfulCombiner maxC Eq ∧ LawfulCombiner (distinctCount Int) List.Perm ∧
    LawfulCombiner distinctSet List.Perm ∧ ∀ k, LawfulCombiner (topK k) Eq :=
  ⟨(count_mergeable Int).toLawfulCombiner, sum_mergeable.toLawfulCombiner,
   average_mergeable.toLawfulCombiner, min_mergeable.toLawfulCombiner, max_mergeable.toLawfulCombiner,
   (distinctCount_mergeable Int).toLawfulCombiner, distinctSet_mergeable.toLawfulCombiner,
   fun k => (topK_mergeable k).toLawfulCombiner⟩

/-! ## Part 3 — the outputs are the mathematical ones, whatever the tree -/

/-- Count = number of values -/
theorem count_spec {V : Type} (t : MergeTree V) : (count V).finish (t.eval (count V)) = t.leaves.length := by
  rw [mergeTree_eq_fold (count_mergeable V), count_foldAdd]; simp [count]

/-- Sum = the sum -/
theorem sum_spec (t : MergeTree Int) : sum.finish (t.eval sum) = t.leaves.sum := by
  rw [mergeTree_eq_fold sum_mergeable]
  show List.foldl (· + ·) (0 : Int) t.leaves = _
  rw [int_foldl_add]; simp

theorem sumRat_spec (t : MergeTree Rat) : sumRat.finish (t.eval sumRat) = t.leaves.sum := by
  rw [mergeTree_eq_fold sumRat_mergeable]
  show List.foldl (· + ·) (0 : Rat) t.leaves = _
  rw [rat_foldl_add, Rat.zero_add]

/-- Min = the minimum; `none` (the real code panics) exactly on no values at all -/
theorem min_spec (t : MergeTree Int) : minC.finish (t.eval minC) = t.leaves.min? := by
  rw [mergeTree_eq_fold min_mergeable, minC_fold_eq_min?]; rfl

theorem max_spec (t : MergeTree Int) : maxC.finish (t.eval maxC) = t.leaves.max? := by
  rw [mergeTree_eq_fold max_mergeable, maxC_fold_eq_max?]; rfl

/-- Average = sum / count (exact), and `0` on no values -/
theorem average_spec (t : MergeTree Rat) :
    average.finish (t.eval average) =
      if t.leaves.length = 0 then 0 else t.leaves.sum / (t.leaves.length : Rat) := by
  rw [mergeTree_eq_fold average_mergeable]
  show average.finish ((averageG ratOps).foldAdd (ratOps.zero, 0) t.leaves) = _
  rw [averageG_foldAdd]
  show (if (0 + t.leaves.length == 0) = true then (0 : Rat)
        else List.foldl (· + ·) (0 : Rat) t.leaves / ((0 + t.leaves.length : Nat) : Rat)) = _
  rw [rat_foldl_add, Rat.zero_add, Nat.zero_add]
  by_cases h : t.leaves.length = 0 <;> simp [h]

/-- DistinctCount = the number of distinct values: the length of *any* duplicate-free enumeration of
    the values that occur -/
theorem distinctCount_spec {α : Type} [DecidableEq α] (t : MergeTree α) (d : List α)
    (hd : d.Nodup) (hmem : ∀ x, x ∈ d ↔ x ∈ t.leaves) :
    (distinctCount α).finish (t.eval (distinctCount α)) = d.length := by
  rw [mergeTree_eq_fold (distinctCount_mergeable α)]
  show (setCollect t.leaves).length = d.length
  apply List.Perm.length_eq
  rw [List.perm_ext_iff_of_nodup (nodup_setCollect _) hd]
  intro x; rw [mem_setCollect, hmem]

/-- … in particular the length of the input with duplicates erased -/
theorem distinctCount_eq_eraseDups {α : Type} [DecidableEq α] (t : MergeTree α) :
    (distinctCount α).finish (t.eval (distinctCount α)) = t.leaves.eraseDups.length :=
  distinctCount_spec t _ (nodup_eraseDups _) (fun _ => List.mem_eraseDups)

/-- DistinctSet = the set of values: the output (in canonical order) is strictly ascending, hence
    duplicate-free, and contains exactly the values that occur -/
theorem distinctSet_spec (t : MergeTree Int) :
    (distinctSet.finish (t.eval distinctSet)).Pairwise (· < ·) ∧
      ∀ x, x ∈ distinctSet.finish (t.eval distinctSet) ↔ x ∈ t.leaves := by
  rw [mergeTree_eq_fold distinctSet_mergeable]
  show ((setCollect t.leaves).mergeSort leInt).Pairwise (· < ·) ∧
    ∀ x, x ∈ (setCollect t.leaves).mergeSort leInt ↔ x ∈ t.leaves
  constructor
  · have hs := mergeSort_sorted leInt_total (setCollect t.leaves)
    have hn : ((setCollect t.leaves).mergeSort leInt).Nodup :=
      (List.mergeSort_perm _ _).nodup_iff.mpr (nodup_setCollect _)
    have := List.Pairwise.and hs hn
    refine this.imp ?_
    intro a b hab
    have h1 : a ≤ b := by simpa [leInt] using hab.1
    have h2 : a ≠ b := hab.2
    omega
  · intro x; rw [List.mem_mergeSort, mem_setCollect]

/-- TopK = the `k` largest values in descending order, for every tree, every `k` (0 and `k > n` included)
    and every totally ordered element type -/
theorem topKBy_spec {α : Type} {le : α → α → Bool} (hle : TotalOrderB le) (k : Nat) (t : MergeTree α) :
    (topKBy le k).finish (t.eval (topKBy le k)) = (t.leaves.mergeSort (fun a b => le b a)).take k := by
  rw [mergeTree_eq_fold (topKBy_mergeable hle k)]
  exact topFold_create_reverse hle k t.leaves

theorem topK_spec (k : Nat) (t : MergeTree Int) :
    (topK k).finish (t.eval (topK k)) = (t.leaves.mergeSort (fun a b => decide (a ≥ b))).take k :=
  topKBy_spec leInt_total k t

/-- the sorted list used in the spec really is the descending sort: a descending permutation -/
theorem topK_spec_sort_is_sort (xs : List Int) :
    (xs.mergeSort (fun a b => decide (a ≥ b))).Pairwise (· ≥ ·) ∧
      (xs.mergeSort (fun a b => decide (a ≥ b))).Perm xs := by
  constructor
  · have := mergeSort_sorted (leInt_total.flip) xs
    refine this.imp ?_
    intro a b hab; simpa [leInt] using hab
  · exact List.mergeSort_perm _ _

/-- it has `min k n` elements -/
theorem topK_length (k : Nat) (t : MergeTree Int) :
    ((topK k).finish (t.eval (topK k))).length = min k t.leaves.length := by
  rw [topK_spec, List.length_take, List.length_mergeSort]

theorem topK_zero (t : MergeTree Int) : (topK 0).finish (t.eval (topK 0)) = [] := by
  rw [topK_spec]; simp

theorem topK_all (k : Nat) (t : MergeTree Int) (hk : t.leaves.length ≤ k) :
    (topK k).finish (t.eval (topK k)) = t.leaves.mergeSort (fun a b => decide (a ≥ b)) := by
  rw [topK_spec]; exact List.take_of_length_le (by simpa using hk)

/-! ### the accumulators themselves (what the correspondence check also compares) -/

/-- every reachable TopK accumulator is exactly the ascending list of the `k` largest values seen:
    the heap never holds more than `k` elements, whatever was merged or added -/
theorem topK_acc_spec (k : Nat) (t : MergeTree Int) :
    t.eval (topK k) = ((t.leaves.mergeSort (fun a b => decide (a ≥ b))).take k).reverse ∧
      (t.eval (topK k)).length ≤ k := by
  have e : t.eval (topK k) = (topK k).foldAdd (topK k).create t.leaves := (topK_mergeable k).eval_fold t
  have r := topFold_create_reverse leInt_total k t.leaves
  have e2 : t.eval (topK k) = ((t.leaves.mergeSort (fun a b => decide (a ≥ b))).take k).reverse := by
    rw [e]; apply List.reverse_inj.mp; rw [List.reverse_reverse]; exact r
  refine ⟨e2, ?_⟩
  rw [e2, List.length_reverse, List.length_take]; omega

/-- every reachable hash-set accumulator is duplicate-free and holds exactly the values seen -/
theorem distinct_acc_spec {α : Type} [DecidableEq α] (t : MergeTree α) :
    (t.eval (distinctCount α)).Nodup ∧ ∀ x, x ∈ t.eval (distinctCount α) ↔ x ∈ t.leaves := by
  have p : (t.eval (distinctCount α)).Perm (setCollect t.leaves) := (distinctCount_mergeable α).eval_fold t
  exact ⟨p.nodup_iff.mpr (nodup_setCollect _), fun x => p.mem_iff.trans mem_setCollect⟩

/-! ## Non-vacuity and witnesses (tests, not theorems) -/

/-- the hypotheses of `mergeTree_split_any_order` on a concrete tree: 3 parts (one empty), leaves in the
    order 3,1,2, one built with `build_from_group`, right-nested -/
example : (MergeTree.node (.leaf [7]) (.node (.built [1, 2]) (.leaf ([] : List Int)))).parts.Perm
    [[1, 2], [], [7]] := by
  simp only [MergeTree.parts, List.cons_append, List.nil_append]
  exact (List.Perm.swap _ _ _).trans ((List.Perm.swap _ _ _).cons _)

/-- … and these parts are a split of the input `[1, 2, 7]` (`mergeTree_of_split`) -/
example : ([[1, 2], [], [7]] : List (List Int)).flatten = [1, 2, 7] := by decide

/-- `distinctCount_spec`'s hypotheses are satisfiable: `eraseDups` is such an enumeration's membership -/
example : ([1, 2] : List Int).Nodup ∧ ∀ x, x ∈ ([1, 2] : List Int) ↔ x ∈ ([1, 2, 1] : List Int) := by
  constructor
  · decide
  · intro x; simp only [List.mem_cons, List.not_mem_nil, or_false]; omega

/-- `topK_all`'s hypothesis (`k > n`) -/
example : (MergeTree.node (.leaf [1]) (.leaf ([2] : List Int))).leaves.length ≤ 3 := by decide

/-- witness: the two-pointer path with a tie across the two sides (`k = 2`, `[1,2] ⊎ [2,1]`) -/
example : (topK 2).finish ((MergeTree.node (.leaf [1, 2]) (.leaf [2, 1])).eval (topK 2)) = [2, 2] := by
  have l1 : (topK 2).foldAdd (topK 2).create [1, 2] = [1, 2] := by decide
  have l2 : (topK 2).foldAdd (topK 2).create [2, 1] = [1, 2] := by decide
  have e : ([1, 2] : List Int).mergeSort leInt = [1, 2] := List.mergeSort_of_pairwise (by decide)
  show topFinish (topMerge leInt 2 ((topK 2).foldAdd (topK 2).create [1, 2])
    ((topK 2).foldAdd (topK 2).create [2, 1])) = _
  rw [l1, l2]
  unfold topMerge
  simp only [e]
  decide

/-- witness: `k = 0` keeps nothing, the extend path (`0 + 0 ≤ 0`) -/
example : (topK 0).finish ((MergeTree.node (.leaf [1]) (.built [2])).eval (topK 0)) = [] := by decide

/-- witness: Min on no values = `none` (the real `finish` panics), also through a merge -/
example : minC.finish ((MergeTree.node (.leaf []) (.built [])).eval minC) = none := by decide

end IB.Combiners
