import IbModel.Generated.Kernels
import IbModel.Model.Sampling
/-!
# C14 — kernel ties (translator route)

Tied here (`combiners/sampling.rs`)
* `SplitMix64::next_u64` (whole body, translation mode `wrap64`: `UInt64`, wrapping): the increment constant, the two
  xor-shift-multiply rounds with their shifts and constants, the final `z ^ (z >> 31)`, and the new state
  ↔ `smNextU64` / `smMix`;
* the `>> 11` of `next_f64` (`self.next_u64()` is the parameter `r`) ↔ `smNextPrio`; the conversion to `f64` and the
  scale `2^-53` are NOT translated (floats): the model orders priorities by the 53-bit integer instead;
* `create`: `SplitMix64::new(self.seed.wrapping_mul(0xA24B_AED4_0B9C_497C))` ↔ `seedState`;
* the `acc.k == 0` exits of `add_input` / `merge`, the `while acc.alive > acc.k` trim guards, `acc.k = acc.k.max(other.k)`,
  `finish`'s `acc.k == 0 || acc.alive == 0` ↔ `addInput`, `merge`, `trimLoop`, `finish`.

Not tied: `u == 0.0` replacement, `total_cmp` ordering, heap pops (`popMin`), the slot remapping loops.
-/
set_option autoImplicit false
namespace IB.KTies.C14
open IB.Generated IB.Sampling

theorem k_sampling_next_u64 : ∀ s : UInt64, K.sampling_next_u64 s = smNextU64 s := by intros; rfl

theorem k_sampling_prio_shift : ∀ s : UInt64,
    smNextPrio s = ((K.sampling_prio_shift (K.sampling_next_u64 s).1).toNat, (K.sampling_next_u64 s).2) := by
  intros; rfl

theorem k_sampling_seed : ∀ seed : UInt64, K.sampling_seed seed = seedState seed := by intros; rfl

theorem k_sampling_add_zero_k : ∀ k : Nat, K.sampling_add_zero_k k = (k == 0) := by intros; rfl
theorem k_sampling_merge_zero_k : ∀ k : Nat, K.sampling_merge_zero_k k = (k == 0) := by intros; rfl
theorem k_sampling_add_trim : ∀ alive k : Nat, K.sampling_add_trim alive k = decide (alive > k) := by intros; rfl
theorem k_sampling_merge_trim : ∀ alive k : Nat, K.sampling_merge_trim alive k = decide (alive > k) := by intros; rfl
theorem k_sampling_merge_k : ∀ k ok : Nat, K.sampling_merge_k k ok = max k ok := by intros; rfl
theorem k_sampling_finish_empty : ∀ k alive : Nat, K.sampling_finish_empty k alive = (k == 0 || alive == 0) := by
  intros; rfl

section model
variable {σ α : Type}

theorem k_add_input_model : ∀ (next : σ → Nat × σ) (a : PRAcc σ α) (v : α),
    addInput next a v =
      if K.sampling_add_zero_k a.k then a
      else trim { a with rng := (next a.rng).2, seq := a.seq + 1,
                         store := a.store ++ [some ((next a.rng).1, a.seq, v)],
                         heap := ((next a.rng).1, a.seq, a.store.length) :: a.heap,
                         alive := a.alive + 1 } := by
  intros; rfl

theorem k_merge_model : ∀ (a o : PRAcc σ α),
    merge a o =
      if K.sampling_merge_zero_k a.k then a
      else trim { a with k := K.sampling_merge_k a.k o.k,
                         store := (moveLive o.store (a.store, [], a.alive)).1,
                         heap := drainHeap (moveLive o.store (a.store, [], a.alive)).2.1 o.heap.length o.heap a.heap,
                         alive := (moveLive o.store (a.store, [], a.alive)).2.2 } := by
  intros; rfl

theorem k_trim_loop_model : ∀ (fuel : Nat) (a : PRAcc σ α),
    trimLoop (fuel + 1) a =
      if K.sampling_add_trim a.alive a.k then
        match popMin a.heap with
        | none => a
        | some (e, h') =>
          match a.store[e.2.2]? with
          | some (some _) =>
              trimLoop fuel { a with heap := h', store := a.store.set e.2.2 none, alive := a.alive - 1 }
          | _ => trimLoop fuel { a with heap := h' }
      else a := by
  intro fuel a
  rw [trimLoop, k_sampling_add_trim]
  by_cases h : a.alive > a.k
  · simp only [h, if_true, decide_true]; rfl
  · simp only [h, if_false, decide_false]; rfl

theorem k_finish_model : ∀ (a : PRAcc σ α),
    finish a = if K.sampling_finish_empty a.k a.alive then []
               else ((sortItems (live a.store)).take a.k).map (fun it => it.2.2) := by
  intros; rfl

end model
end IB.KTies.C14
