import IbModel.Proofs.JoinSpec
import IbModel.Proofs.JoinCount
import IbModel.Proofs.JoinEngine
import IbModel.Model.Program
import IbModel.Proofs.JoinX
import IbModel.Proofs.JoinLen
/-!
# C07 — joins return exactly the relational join of their two inputs

Rows are `Val.pair k v`; `Val.key` / `Val.value` project them. All statements are by permutation /
multiplicity, hence independent of any row order (the real closures iterate `HashMap`s; the model fixes
one order, the theorems do not look at it).

* §1 relational characterisation: each closure is a permutation of the nested-loop join (+ the
  unmatched rows of the preserved side(s), each exactly once, the other side absent);
* §2 the multiplicity statements derived from §1, and "nothing else occurs";
* §3 `join_perm_congr`: permuting either input (hash order upstream) permutes the output;
* §4 `nested_join_rejected*`: a join fed by another join is an error in both modes, never rows;
* §5 `join_mode_independent`, `join_downstream`, `join_result_exact`: parallel = sequential for every
  partition count, with arbitrary (contract-meeting) transforms upstream of either side and downstream;
* §6 non-vacuity examples and witnesses.
-/
namespace IB.Join
open Val

/-! ## §1 relational characterisation -/

/-- inner join = one row for every pair of a left and a right row with equal keys -/
theorem joinInner_perm_nestedLoop (L R : List Val) :
    (joinInner L R).Perm
      (L.flatMap (fun a => (R.filter (fun b => b.key == a.key)).map
        (fun b => .pair a.key (.pair a.value b.value)))) :=
  joinInner_perm L R

/-- left join = nested loop (right value `some`) + every left row without a partner exactly once
    with the right side `none` -/
theorem joinLeft_perm_nestedLoop (L R : List Val) :
    (joinLeft L R).Perm
      (L.flatMap (fun a => (R.filter (fun b => b.key == a.key)).map
          (fun b => .pair a.key (.pair a.value (.some b.value))))
        ++ (L.filter (fun a => !R.any (fun b => b.key == a.key))).map
          (fun a => .pair a.key (.pair a.value .none))) :=
  joinLeft_perm L R

/-- right join = nested loop (left value `some`) + every right row without a partner exactly once
    with the left side `none` -/
theorem joinRight_perm_nestedLoop (L R : List Val) :
    (joinRight L R).Perm
      (L.flatMap (fun a => (R.filter (fun b => b.key == a.key)).map
          (fun b => .pair a.key (.pair (.some a.value) b.value)))
        ++ (R.filter (fun b => !L.any (fun a => a.key == b.key))).map
          (fun b => .pair b.key (.pair .none b.value))) :=
  joinRight_perm L R

/-- full outer join = nested loop (both values `some`) + unmatched left rows + unmatched right rows -/
theorem joinFull_perm_nestedLoop (L R : List Val) :
    (joinFull L R).Perm
      (L.flatMap (fun a => (R.filter (fun b => b.key == a.key)).map
          (fun b => .pair a.key (.pair (.some a.value) (.some b.value))))
        ++ (L.filter (fun a => !R.any (fun b => b.key == a.key))).map
          (fun a => .pair a.key (.pair (.some a.value) .none))
        ++ (R.filter (fun b => !L.any (fun a => a.key == b.key))).map
          (fun b => .pair b.key (.pair .none (.some b.value)))) :=
  joinFull_perm L R

/-- all four kinds at once: the closure the engine calls is a permutation of `joinSpec`
    (`Proofs/JoinSpec.lean`: `matched`/`unmatchedL`/`unmatchedR`, the expressions spelled out above) -/
theorem joinExec_perm_joinSpec (kind : JoinKind) (L R : List Val) :
    (joinExec kind L R).Perm (joinSpec kind L R) :=
  joinExec_perm_spec kind L R

/-! ## §2 multiplicities (`normRows L` = `L` with every row rewritten to `pair key value`;
       it is `L` itself when all rows are pairs, see `inner_count_typed`) -/

/-- inner: `(k,(v,w))` occurs (#`(k,v)` in L) × (#`(k,w)` in R) times — many-to-many included -/
theorem inner_count (L R : List Val) (k v w : Val) :
    List.count (.pair k (.pair v w)) (joinInner L R)
      = List.count (.pair k v) (normRows L) * List.count (.pair k w) (normRows R) := by
  rw [(joinInner_perm L R).count_eq]
  exact count_matched id id id_inj id_inj L R k v w

/-- the same for inputs whose rows are all pairs (what a type-checked pipeline holds) -/
theorem inner_count_typed (L R : List Val) (hL : ∀ r ∈ L, ∃ k v, r = Val.pair k v)
    (hR : ∀ r ∈ R, ∃ k v, r = Val.pair k v) (k v w : Val) :
    List.count (.pair k (.pair v w)) (joinInner L R)
      = List.count (.pair k v) L * List.count (.pair k w) R := by
  rw [inner_count, normRows_eq_self L hL, normRows_eq_self R hR]

/-- inner: nothing else occurs — every output row comes from a left and a right row with equal keys -/
theorem inner_only (L R : List Val) (x : Val) (hx : x ∈ joinInner L R) :
    ∃ a ∈ L, ∃ b ∈ R, b.key = a.key ∧ x = .pair a.key (.pair a.value b.value) :=
  (mem_matched id id L R x).mp ((joinInner_perm L R).mem_iff.mp hx)

/-- left: matched rows `(k,(v,some w))` by the product rule -/
theorem left_count_matched (L R : List Val) (k v w : Val) :
    List.count (.pair k (.pair v (.some w))) (joinLeft L R)
      = List.count (.pair k v) (normRows L) * List.count (.pair k w) (normRows R) := by
  rw [(joinLeft_perm L R).count_eq, List.count_append]
  have h0 : List.count (Val.pair k (.pair v (.some w))) (unmatchedL id L R) = 0 :=
    List.count_eq_zero_of_not_mem (by simp [mem_unmatchedL])
  rw [h0, Nat.add_zero]
  exact count_matched id Val.some id_inj some_inj L R k v w

/-- left: an unmatched left row `(k,v)` occurs exactly as often as in L, with the right side absent;
    a matched one never occurs with the right side absent -/
theorem left_count_unmatched (L R : List Val) (k v : Val) :
    List.count (.pair k (.pair v .none)) (joinLeft L R)
      = if R.any (fun b => b.key == k) then 0 else List.count (.pair k v) (normRows L) := by
  rw [(joinLeft_perm L R).count_eq, List.count_append]
  have h0 : List.count (Val.pair k (.pair v .none)) (matched id Val.some L R) = 0 :=
    List.count_eq_zero_of_not_mem (by simp [mem_matched])
  rw [h0, Nat.zero_add]
  exact count_unmatchedL id id_inj L R k v

/-- left: nothing else occurs -/
theorem left_only (L R : List Val) (x : Val) (hx : x ∈ joinLeft L R) :
    (∃ a ∈ L, ∃ b ∈ R, b.key = a.key ∧ x = .pair a.key (.pair a.value (.some b.value))) ∨
    (∃ a ∈ L, (∀ b ∈ R, b.key ≠ a.key) ∧ x = .pair a.key (.pair a.value .none)) := by
  rcases List.mem_append.mp ((joinLeft_perm L R).mem_iff.mp hx) with h | h
  · exact Or.inl ((mem_matched id Val.some L R x).mp h)
  · exact Or.inr ((mem_unmatchedL id L R x).mp h)

/-- right: matched rows `(k,(some v,w))` by the product rule -/
theorem right_count_matched (L R : List Val) (k v w : Val) :
    List.count (.pair k (.pair (.some v) w)) (joinRight L R)
      = List.count (.pair k v) (normRows L) * List.count (.pair k w) (normRows R) := by
  rw [(joinRight_perm L R).count_eq, List.count_append]
  have h0 : List.count (Val.pair k (.pair (.some v) w)) (unmatchedR id L R) = 0 :=
    List.count_eq_zero_of_not_mem (by simp [mem_unmatchedR])
  rw [h0, Nat.add_zero]
  exact count_matched Val.some id some_inj id_inj L R k v w

/-- right: an unmatched right row exactly as often as in R, with the left side absent -/
theorem right_count_unmatched (L R : List Val) (k w : Val) :
    List.count (.pair k (.pair .none w)) (joinRight L R)
      = if L.any (fun a => a.key == k) then 0 else List.count (.pair k w) (normRows R) := by
  rw [(joinRight_perm L R).count_eq, List.count_append]
  have h0 : List.count (Val.pair k (.pair .none w)) (matched Val.some id L R) = 0 :=
    List.count_eq_zero_of_not_mem (by simp [mem_matched])
  rw [h0, Nat.zero_add]
  exact count_unmatchedR id id_inj L R k w

/-- right: nothing else occurs -/
theorem right_only (L R : List Val) (x : Val) (hx : x ∈ joinRight L R) :
    (∃ a ∈ L, ∃ b ∈ R, b.key = a.key ∧ x = .pair a.key (.pair (.some a.value) b.value)) ∨
    (∃ b ∈ R, (∀ a ∈ L, a.key ≠ b.key) ∧ x = .pair b.key (.pair .none b.value)) := by
  rcases List.mem_append.mp ((joinRight_perm L R).mem_iff.mp hx) with h | h
  · exact Or.inl ((mem_matched Val.some id L R x).mp h)
  · exact Or.inr ((mem_unmatchedR id L R x).mp h)

/-- full: matched rows `(k,(some v,some w))` by the product rule -/
theorem full_count_matched (L R : List Val) (k v w : Val) :
    List.count (.pair k (.pair (.some v) (.some w))) (joinFull L R)
      = List.count (.pair k v) (normRows L) * List.count (.pair k w) (normRows R) := by
  rw [(joinFull_perm L R).count_eq, List.count_append, List.count_append]
  have h1 : List.count (Val.pair k (.pair (.some v) (.some w))) (unmatchedL Val.some L R) = 0 :=
    List.count_eq_zero_of_not_mem (by simp [mem_unmatchedL])
  have h2 : List.count (Val.pair k (.pair (.some v) (.some w))) (unmatchedR Val.some L R) = 0 :=
    List.count_eq_zero_of_not_mem (by simp [mem_unmatchedR])
  simp only [h1, h2, Nat.add_zero]
  exact count_matched Val.some Val.some some_inj some_inj L R k v w

/-- full: unmatched left rows exactly once each, right side absent -/
theorem full_count_left_unmatched (L R : List Val) (k v : Val) :
    List.count (.pair k (.pair (.some v) .none)) (joinFull L R)
      = if R.any (fun b => b.key == k) then 0 else List.count (.pair k v) (normRows L) := by
  rw [(joinFull_perm L R).count_eq, List.count_append, List.count_append]
  have h1 : List.count (Val.pair k (.pair (.some v) .none)) (matched Val.some Val.some L R) = 0 :=
    List.count_eq_zero_of_not_mem (by simp [mem_matched])
  have h2 : List.count (Val.pair k (.pair (.some v) .none)) (unmatchedR Val.some L R) = 0 :=
    List.count_eq_zero_of_not_mem (by simp [mem_unmatchedR])
  simp only [h1, h2, Nat.add_zero, Nat.zero_add]
  exact count_unmatchedL Val.some some_inj L R k v

/-- full: unmatched right rows exactly once each, left side absent -/
theorem full_count_right_unmatched (L R : List Val) (k w : Val) :
    List.count (.pair k (.pair .none (.some w))) (joinFull L R)
      = if L.any (fun a => a.key == k) then 0 else List.count (.pair k w) (normRows R) := by
  rw [(joinFull_perm L R).count_eq, List.count_append, List.count_append]
  have h1 : List.count (Val.pair k (.pair .none (.some w))) (matched Val.some Val.some L R) = 0 :=
    List.count_eq_zero_of_not_mem (by simp [mem_matched])
  have h2 : List.count (Val.pair k (.pair .none (.some w))) (unmatchedL Val.some L R) = 0 :=
    List.count_eq_zero_of_not_mem (by simp [mem_unmatchedL])
  simp only [h1, h2, Nat.zero_add]
  exact count_unmatchedR Val.some some_inj L R k w

/-- full: nothing else occurs (in particular never `(k,(none,none))`) -/
theorem full_only (L R : List Val) (x : Val) (hx : x ∈ joinFull L R) :
    (∃ a ∈ L, ∃ b ∈ R, b.key = a.key ∧ x = .pair a.key (.pair (.some a.value) (.some b.value))) ∨
    (∃ a ∈ L, (∀ b ∈ R, b.key ≠ a.key) ∧ x = .pair a.key (.pair (.some a.value) .none)) ∨
    (∃ b ∈ R, (∀ a ∈ L, a.key ≠ b.key) ∧ x = .pair b.key (.pair .none (.some b.value))) := by
  rcases List.mem_append.mp ((joinFull_perm L R).mem_iff.mp hx) with h | h
  · rcases List.mem_append.mp h with h | h
    · exact Or.inl ((mem_matched Val.some Val.some L R x).mp h)
    · exact Or.inr (Or.inl ((mem_unmatchedL Val.some L R x).mp h))
  · exact Or.inr (Or.inr ((mem_unmatchedR Val.some L R x).mp h))

/-! ## §2b row counts (consequences of §1; helper arithmetic in `Proofs/JoinLen.lean`)

How many rows a join returns, for every pair of inputs: the inner join has one row per matching pair — the same number
counted from either side; an outer join returns at least every row of its preserved side(s) (none is dropped, whether or
not it has a partner) and exactly the inner join's rows more than its unmatched ones. -/

/-- inner: the number of rows is the number of (left row, right row) pairs with equal keys -/
theorem inner_length (L R : List Val) :
    (joinInner L R).length = (L.map (fun a => R.countP (fun b => b.key == a.key))).sum := by
  rw [(joinInner_perm_nestedLoop L R).length_eq]
  exact JoinLen.length_nested L R (fun a b => b.key == a.key) _

/-- … counted from the right side it is the same number -/
theorem inner_length_right (L R : List Val) :
    (joinInner L R).length = (R.map (fun b => L.countP (fun a => b.key == a.key))).sum := by
  rw [inner_length]
  exact JoinLen.nested_count_swap L R (fun a b => b.key == a.key)

/-- left: inner rows + one row per partner-less left row -/
theorem left_length (L R : List Val) :
    (joinLeft L R).length = (joinInner L R).length + L.countP (fun a => !R.any (fun b => b.key == a.key)) := by
  rw [(joinLeft_perm_nestedLoop L R).length_eq, inner_length, List.length_append, List.length_map,
    List.countP_eq_length_filter]
  congr 1
  exact JoinLen.length_nested L R (fun a b => b.key == a.key) _

/-- left: no left row is dropped -/
theorem left_length_ge (L R : List Val) : L.length ≤ (joinLeft L R).length := by
  rw [left_length, inner_length, List.countP_eq_length_filter]
  exact JoinLen.preserved_le L R (fun a b => b.key == a.key)

/-- right: inner rows + one row per partner-less right row -/
theorem right_length (L R : List Val) :
    (joinRight L R).length = (joinInner L R).length + R.countP (fun b => !L.any (fun a => a.key == b.key)) := by
  rw [(joinRight_perm_nestedLoop L R).length_eq, inner_length, List.length_append, List.length_map,
    List.countP_eq_length_filter]
  congr 1
  exact JoinLen.length_nested L R (fun a b => b.key == a.key) _

/-- right: no right row is dropped -/
theorem right_length_ge (L R : List Val) : R.length ≤ (joinRight L R).length := by
  rw [right_length, inner_length, List.countP_eq_length_filter,
    JoinLen.nested_count_swap L R (fun a b => b.key == a.key)]
  have h := JoinLen.preserved_le R L (fun b a => b.key == a.key)
  have e : (fun b : Val => !L.any (fun a : Val => a.key == b.key))
      = (fun b : Val => !L.any (fun a : Val => b.key == a.key)) := by
    funext b; congr 2; funext a; exact BEq.comm
  rw [e]; exact h

/-- full: inner rows + partner-less left rows + partner-less right rows -/
theorem full_length (L R : List Val) :
    (joinFull L R).length = (joinInner L R).length
      + L.countP (fun a => !R.any (fun b => b.key == a.key))
      + R.countP (fun b => !L.any (fun a => a.key == b.key)) := by
  rw [(joinFull_perm_nestedLoop L R).length_eq, inner_length, List.length_append, List.length_append,
    List.length_map, List.length_map, List.countP_eq_length_filter, List.countP_eq_length_filter]
  congr 2
  exact JoinLen.length_nested L R (fun a b => b.key == a.key) _

/-- full: it contains the left join's and the right join's row counts -/
theorem full_length_ge (L R : List Val) :
    L.length ≤ (joinFull L R).length ∧ R.length ≤ (joinFull L R).length := by
  have hl := left_length_ge L R
  have hr := right_length_ge L R
  rw [left_length] at hl
  rw [right_length] at hr
  rw [full_length]
  omega

/-- an empty side: the inner join is empty, an outer join returns exactly the preserved side, un-partnered -/
theorem inner_empty_right (L : List Val) : joinInner L [] = [] := by
  apply List.eq_nil_of_length_eq_zero
  rw [inner_length]
  induction L with
  | nil => rfl
  | cons a L ih => simpa using ih

theorem inner_empty_left (R : List Val) : joinInner [] R = [] := by
  apply List.eq_nil_of_length_eq_zero
  rw [inner_length]; rfl

theorem left_empty_right (L : List Val) :
    (joinLeft L []).Perm (L.map (fun a => .pair a.key (.pair a.value .none))) := by
  have h := joinLeft_perm_nestedLoop L []
  have e : L.flatMap (fun a => (([] : List Val).filter (fun b => b.key == a.key)).map
      (fun b => Val.pair a.key (.pair a.value (.some b.value)))) = [] := by
    induction L with
    | nil => rfl
    | cons a L ih => simp
  rw [e] at h
  simpa [JoinLen.filter_const_true] using h

theorem right_empty_left (R : List Val) :
    (joinRight [] R).Perm (R.map (fun b => .pair b.key (.pair .none b.value))) := by
  have h := joinRight_perm_nestedLoop [] R
  simpa [JoinLen.filter_const_true] using h

/-! ## §3 hash order upstream is harmless -/

theorem join_perm_congr (kind : JoinKind) {L L' R R' : List Val} (hL : L.Perm L') (hR : R.Perm R') :
    (joinExec kind L R).Perm (joinExec kind L' R') :=
  ((joinExec_perm_spec kind L R).trans (joinSpec_perm_congr kind hL hR)).trans
    (joinExec_perm_spec kind L' R').symm

/-! ## §4 a join fed by another join is rejected with an error, never answered

What the model (= `runner.rs`) does, exactly: the `coGroup` arm replays the LEFT sub-chain first, then the
RIGHT one; inside a sub-chain a `coGroup` node throws `nestedCoGroup`. So
* left side nested (source, plain transforms, then a `coGroup`) ⇒ `nestedCoGroup`, whatever the right side is;
* right side nested ⇒ `nestedCoGroup` PROVIDED the left side runs (if the left side fails for another
  reason, that earlier error is returned instead — still an error: `nested_join_never_rows`).
`NestedAfterSource` asks the nodes between the source and the first `coGroup` to be plain transforms
because in parallel mode a stray second `source`/`materialized` node there would be reported first
(`unexpectedSource`); `chain_from` never builds such chains. -/

theorem nested_join_rejected_left (k : JoinKind) (left right rest : List (Node Part))
    (h : NestedAfterSource left) :
    execSeq ([dummySource, joinNode k left right] ++ rest) = .error .nestedCoGroup ∧
    ∀ n, execPar List.flatten ([dummySource, joinNode k left right] ++ rest) n = .error .nestedCoGroup := by
  constructor
  · exact execSeq_source_step_err _ _ _ _ rest _
      (stepSeq_coGroup_left_err _ left right _ _ _ _ (runSubSeq_nested' left h))
  · intro n
    exact execPar_source_step_err _ _ _ _ _ rest n _
      (stepPar_coGroup_left_err n _ left right _ _ _ _ (runSubPar_nested left h n))

theorem nested_join_rejected_right (k : JoinKind) (left right rest : List (Node Part))
    (hl : SubChainOK List.flatten left) (h : NestedAfterSource right) :
    execSeq ([dummySource, joinNode k left right] ++ rest) = .error .nestedCoGroup ∧
    ∀ n, execPar List.flatten ([dummySource, joinNode k left right] ++ rest) n = .error .nestedCoGroup := by
  constructor
  · obtain ⟨lps, _, hls⟩ := runSub_sim List.flatten (by simp) left hl 0
    exact execSeq_source_step_err _ _ _ _ rest _
      (stepSeq_coGroup_right_err _ left right _ _ _ _ _ hls (runSubSeq_nested' right h))
  · intro n
    obtain ⟨lps, hlp, _⟩ := runSub_sim List.flatten (by simp) left hl n
    exact execPar_source_step_err _ _ _ _ _ rest n _
      (stepPar_coGroup_right_err n _ left right _ _ _ _ _ hlp (runSubPar_nested right h n))

/-- the form asked for: left nested, or left fine and right nested ⇒ `nestedCoGroup` in both modes,
    for every partition count and whatever follows downstream -/
theorem nested_join_rejected (k : JoinKind) (left right rest : List (Node Part))
    (h : NestedAfterSource left ∨ (SubChainOK List.flatten left ∧ NestedAfterSource right)) :
    execSeq ([dummySource, joinNode k left right] ++ rest) = .error .nestedCoGroup ∧
    ∀ n, execPar List.flatten ([dummySource, joinNode k left right] ++ rest) n = .error .nestedCoGroup := by
  rcases h with h | ⟨hl, h⟩
  · exact nested_join_rejected_left k left right rest h
  · exact nested_join_rejected_right k left right rest hl h

/-- no side conditions at all: a `coGroup` node ANYWHERE in either side ⇒ some error, never rows,
    in both modes (the error is `nestedCoGroup` unless an earlier node of that side / the left side
    already failed) -/
theorem nested_join_never_rows (k : JoinKind) (left right rest : List (Node Part))
    (h : HasCoGroup left ∨ HasCoGroup right) :
    (∃ e, execSeq ([dummySource, joinNode k left right] ++ rest) = .error e) ∧
    ∀ n, ∃ e, execPar List.flatten ([dummySource, joinNode k left right] ++ rest) n = .error e := by
  constructor
  · cases hL : runSubSeq left with
    | error e =>
      exact ⟨e, execSeq_source_step_err _ _ _ _ rest _ (stepSeq_coGroup_left_err _ left right _ _ _ _ hL)⟩
    | ok lp =>
      rcases h with h | h
      · obtain ⟨e, he⟩ := runSubSeq_hasCoGroup left h
        rw [he] at hL; cases hL
      · obtain ⟨e, he⟩ := runSubSeq_hasCoGroup right h
        exact ⟨e, execSeq_source_step_err _ _ _ _ rest _
          (stepSeq_coGroup_right_err _ left right _ _ _ _ _ hL he)⟩
  · intro n
    cases hL : runSubPar left n with
    | error e =>
      exact ⟨e, execPar_source_step_err _ _ _ _ _ rest n _
        (stepPar_coGroup_left_err n _ left right _ _ _ _ hL)⟩
    | ok lps =>
      rcases h with h | h
      · obtain ⟨e, he⟩ := runSubPar_hasCoGroup left h n
        rw [he] at hL; cases hL
      · obtain ⟨e, he⟩ := runSubPar_hasCoGroup right h n
        exact ⟨e, execPar_source_step_err _ _ _ _ _ rest n _
          (stepPar_coGroup_right_err n _ left right _ _ _ _ _ hL he)⟩

/-! ## §5 both modes, any transforms upstream of either side and downstream of the join -/

/-- parallel = sequential for every partition count, for sides that are any contract-meeting
    sub-chains (sources followed by stateless ops, group-by-key, per-key and global combines —
    `SubChainOK`, `Proofs/ParSeq.lean`) and any contract-meeting downstream chain -/
theorem join_mode_independent (k : JoinKind) (left right rest : List (Node Part))
    (hl : SubChainOK List.flatten left) (hr : SubChainOK List.flatten right)
    (hrest : ∀ nd ∈ rest, NodeOK List.flatten nd) (n : Nat) :
    execPar List.flatten (dummySource :: joinNode k left right :: rest) n
      = execSeq (dummySource :: joinNode k left right :: rest) := by
  apply execPar_eq_execSeq List.flatten (by simp) _ _ _ dummySource_flatten
  intro nd hnd
  rcases List.mem_cons.mp hnd with rfl | hnd
  · exact ⟨hl, hr, rfl, rfl⟩
  · exact hrest nd hnd

/-- compositionality: downstream transforms see exactly `joinExec k lp rp`, where `lp`/`rp` are what the
    two sides return on their own; the dummy source does not leak -/
theorem join_downstream (k : JoinKind) (left right rest : List (Node Part)) (lp rp : Part)
    (hl : runSubSeq left = .ok lp) (hr : runSubSeq right = .ok rp) :
    execSeq (dummySource :: joinNode k left right :: rest)
      = execSeq (.materialized (joinExec k lp rp) :: rest) :=
  execSeq_coGroup_downstream _ _ _ left right _ _ _ rest lp rp hl hr

/-- a side without joins returns, as a sub-plan, what collecting it sequentially returns -/
theorem side_result_is_collect (side : List (Node Part)) (h : ∀ nd ∈ side, isCoGroup nd = false) :
    runSubSeq side = execSeq side :=
  runSubSeq_eq_execSeq side h

/-- end to end: with contract-meeting sides, both sides run, and the join node returns — in sequential
    mode and in parallel mode with ANY partition count — the same rows `out`, which are a permutation of
    the relational join `joinSpec k lp rp` of the two sides' results -/
theorem join_result_exact (k : JoinKind) (left right : List (Node Part))
    (hl : SubChainOK List.flatten left) (hr : SubChainOK List.flatten right) :
    ∃ lp rp out, runSubSeq left = .ok lp ∧ runSubSeq right = .ok rp ∧
      execSeq [dummySource, joinNode k left right] = .ok out ∧
      (∀ n, execPar List.flatten [dummySource, joinNode k left right] n = .ok out) ∧
      out.Perm (joinSpec k lp rp) := by
  obtain ⟨lps, _, hls⟩ := runSub_sim List.flatten (by simp) left hl 0
  obtain ⟨rps, _, hrs⟩ := runSub_sim List.flatten (by simp) right hr 0
  have hseq : execSeq [dummySource, joinNode k left right] = .ok (joinExec k lps.flatten rps.flatten) := by
    rw [join_downstream k left right [] _ _ hls hrs]; rfl
  refine ⟨_, _, _, hls, hrs, hseq, ?_, joinExec_perm_spec k _ _⟩
  intro n
  rw [join_mode_independent k left right [] hl hr (by simp) n, hseq]

/-! ## §6 non-vacuity: concrete inputs (witnesses, not the theorems) -/

section Examples
private def i (n : Int) : Val := .int n
private def row (k v : Int) : Val := .pair (.int k) (.int v)

/-- many-to-many: key 1 twice on the left, twice on the right → 4 rows; keys 2 and 3 unmatched -/
private def Lmm : List Val := [row 1 10, row 2 20, row 1 11]
private def Rmm : List Val := [row 1 100, row 3 300, row 1 101]

example : joinInner Lmm Rmm =
    [.pair (i 1) (.pair (i 10) (i 100)), .pair (i 1) (.pair (i 10) (i 101)),
     .pair (i 1) (.pair (i 11) (i 100)), .pair (i 1) (.pair (i 11) (i 101))] := by decide
example : List.count (.pair (i 1) (.pair (i 10) (i 101))) (joinInner Lmm Rmm) = 1 := by decide
/-- the row counts of §2b on the same input: 4 pairs; left = 4 + 1 unmatched, right = 4 + 1, full = 4 + 1 + 1 -/
example : (joinInner Lmm Rmm).length = 4 ∧ (joinLeft Lmm Rmm).length = 5 ∧ (joinRight Lmm Rmm).length = 5
    ∧ (joinFull Lmm Rmm).length = 6 := by decide
example : joinLeft Lmm Rmm =
    [.pair (i 1) (.pair (i 10) (.some (i 100))), .pair (i 1) (.pair (i 10) (.some (i 101))),
     .pair (i 1) (.pair (i 11) (.some (i 100))), .pair (i 1) (.pair (i 11) (.some (i 101))),
     .pair (i 2) (.pair (i 20) .none)] := by decide
example : joinRight Lmm Rmm =
    [.pair (i 1) (.pair (.some (i 10)) (i 100)), .pair (i 1) (.pair (.some (i 11)) (i 100)),
     .pair (i 1) (.pair (.some (i 10)) (i 101)), .pair (i 1) (.pair (.some (i 11)) (i 101)),
     .pair (i 3) (.pair .none (i 300))] := by decide
example : joinFull Lmm Rmm =
    [.pair (i 1) (.pair (.some (i 10)) (.some (i 100))), .pair (i 1) (.pair (.some (i 10)) (.some (i 101))),
     .pair (i 1) (.pair (.some (i 11)) (.some (i 100))), .pair (i 1) (.pair (.some (i 11)) (.some (i 101))),
     .pair (i 2) (.pair (.some (i 20)) .none), .pair (i 3) (.pair .none (.some (i 300)))] := by decide

/-- duplicate ROWS (not only duplicate keys): 2 × 3 = 6 copies -/
example : List.count (.pair (i 7) (.pair (i 1) (i 2)))
    (joinInner [row 7 1, row 7 1] [row 7 2, row 7 2, row 7 2]) = 6 := by decide

/-- empty sides -/
example : joinInner [] Rmm = [] ∧ joinInner Lmm [] = [] ∧ joinLeft [] Rmm = [] ∧ joinRight Lmm [] = [] ∧
    joinFull [] [] = [] := by decide
example : joinLeft Lmm [] =
    [.pair (i 1) (.pair (i 10) .none), .pair (i 1) (.pair (i 11) .none), .pair (i 2) (.pair (i 20) .none)] := by
  decide
example : joinRight [] Rmm =
    [.pair (i 1) (.pair .none (i 100)), .pair (i 1) (.pair .none (i 101)), .pair (i 3) (.pair .none (i 300))] := by
  decide
example : joinFull Lmm [] = [.pair (i 1) (.pair (.some (i 10)) .none), .pair (i 1) (.pair (.some (i 11)) .none),
    .pair (i 2) (.pair (.some (i 20)) .none)] := by decide

/-- disjoint key sets -/
example : joinInner [row 1 10, row 2 20] [row 3 30, row 4 40] = [] := by decide
example : joinFull [row 1 10, row 2 20] [row 3 30] =
    [.pair (i 1) (.pair (.some (i 10)) .none), .pair (i 2) (.pair (.some (i 20)) .none),
     .pair (i 3) (.pair .none (.some (i 30)))] := by decide

/-- `join_perm_congr` has non-trivial instances: a genuinely permuted left input -/
example : (joinExec .full [row 1 11, row 2 20, row 1 10] Rmm).Perm (joinExec .full Lmm Rmm) :=
  join_perm_congr .full (L := [row 1 11, row 2 20, row 1 10]) (L' := Lmm)
    (by decide : List.Perm [row 1 11, row 2 20, row 1 10] Lmm) (List.Perm.refl _)

/-- hypotheses of `join_mode_independent` / `join_result_exact` are met by real chains:
    `from_vec(xs).map_values(f)` joined with `from_vec(ys).filter(p)`, then `.map(g)` downstream -/
example (xs ys : List Val) (f g : Val → Val) (p : Val → Bool) (k : JoinKind) (n : Nat) :
    execPar List.flatten
        (dummySource :: joinNode k [vecSource xs, st (mapValuesOp f)] [vecSource ys, st (filterOp p)]
          :: [st (mapOp g)]) n
      = execSeq (dummySource :: joinNode k [vecSource xs, st (mapValuesOp f)] [vecSource ys, st (filterOp p)]
          :: [st (mapOp g)]) :=
  join_mode_independent k _ _ _
    (subChainOK_vecSource xs _ (by
      intro nd h; simp only [List.mem_singleton] at h; subst h; exact subNodeOK_mapValues f))
    (subChainOK_vecSource ys _ (by
      intro nd h; simp only [List.mem_singleton] at h; subst h; exact subNodeOK_filter p))
    (by intro nd h; simp only [List.mem_singleton] at h; subst h; exact subNodeOK_map g) n

/-- … and the concrete run: 3 partitions, many-to-many input, rows as computed by the closure -/
example : execPar List.flatten [dummySource, joinNode .left [vecSource Lmm] [vecSource Rmm]] 3
    = .ok (joinLeft Lmm Rmm) := by rfl

/-- `a.join(b).join(c)`: the chain the builders produce for the first join is
    `[dummySource, joinNode …, map id]`; used as the left side of a second join it is `NestedAfterSource` -/
example : NestedAfterSource [dummySource, joinNode .inner [vecSource Lmm] [vecSource Rmm], st (mapOp id)] :=
  ⟨_, _, _, [], _, [st (mapOp id)], rfl, by simp, rfl⟩
example : NestedAfterSource
    [vecSource Lmm, st (mapOp id), gbkNode, joinNode .inner [vecSource Lmm] [vecSource Rmm]] :=
  ⟨_, _, _, [st (mapOp id), gbkNode], _, [], rfl, by
    intro nd h
    simp only [List.mem_cons, List.not_mem_nil, or_false] at h
    rcases h with rfl | rfl <;> rfl, rfl⟩

/-- witness: the nested shape is an error in both modes (an instance of `nested_join_rejected`) -/
example (n : Nat) :
    execPar List.flatten ([dummySource, joinNode .full
      [dummySource, joinNode .inner [vecSource Lmm] [vecSource Rmm], st (mapOp id)] [vecSource Rmm]]
      ++ [st (mapOp id)]) n = .error .nestedCoGroup :=
  (nested_join_rejected .full _ _ _ (Or.inl ⟨_, _, _, [], _, [st (mapOp id)], rfl, by simp, rfl⟩)).2 n

/-- witness for the right side: left is a plain source, right is a join result -/
example : execSeq ([dummySource, joinNode .left [vecSource Lmm]
      [dummySource, joinNode .inner [vecSource Lmm] [vecSource Rmm], st (mapOp id)]] ++ [])
    = .error .nestedCoGroup :=
  (nested_join_rejected .left _ _ _ (Or.inr ⟨subChainOK_vecSource Lmm [] (by simp),
    ⟨_, _, _, [], _, [st (mapOp id)], rfl, by simp, rfl⟩⟩)).1

/-- why `nested_join_rejected_right` needs the left side to run: with an empty (source-less) left
    chain the error reported is the left side's, not `nestedCoGroup` — still an error
    (`nested_join_never_rows`) -/
example : execSeq [dummySource, joinNode .inner []
      [dummySource, joinNode .inner [vecSource Lmm] [vecSource Rmm]]] = .error .emptyBuf := by rfl

end Examples

/-! ## §7 the right side need not be a fresh collection: another `Pipeline`, a self-join, shared-prefix sides, sibling joins

`join_*` stores two SNAPSHOTS (`chain_from(&self.pipeline, self.id)`, `chain_from(&right.pipeline, right.id)`) in
the `CoGroup` node, so where the right collection lives and what it shares with the left one is invisible to the
engines. `Model/ProgramJoinX.lean` adds those origins to the program language (`XStep`; harness `Step::JoinX`,
request kind `PIPEJ`); `desugar` rewrites such a program into the one with FRESH right sides. -/

/-- the join node only ever sees what its two side chains return: two pairs of sides with the same sub-plan results
    are indistinguishable downstream (in particular `right = left`, or `right` an extension of a prefix of `left`) -/
theorem joinNode_sides_only (k : JoinKind) (left right left' right' rest : List (Node Part)) (lp rp : Part)
    (hl : runSubSeq left = .ok lp) (hr : runSubSeq right = .ok rp)
    (hl' : runSubSeq left' = .ok lp) (hr' : runSubSeq right' = .ok rp) :
    execSeq (dummySource :: joinNode k left right :: rest)
      = execSeq (dummySource :: joinNode k left' right' :: rest) := by
  rw [join_downstream k left right rest lp rp hl hr, join_downstream k left' right' rest lp rp hl' hr']

/-- SELF-join: both sides are the same chain; the result is the join of that collection's rows with themselves -/
theorem self_join_result (k : JoinKind) (side rest : List (Node Part)) (p : Part) (h : runSubSeq side = .ok p) :
    execSeq (dummySource :: joinNode k side side :: rest) = execSeq (.materialized (joinExec k p p) :: rest) :=
  join_downstream k side side rest p p h h

/-- the lineage of a program with cross-pipeline / self / shared-prefix / sibling joins IS the lineage of the program
    with fresh right sides (`desugar`): a branched right side `done ++ rs` over a fresh copy of the source is the
    same chain value as the shared one -/
theorem joinx_chain_eq_fresh (src : List Val) (xs : List XStep) :
    litChainX src xs = litChain src (desugar src xs) := by
  have h := applyXSteps_eq_fresh src xs []
  simpa [litChainX, desugar, litChain, applySteps_nil] using h

/-- … hence both engines return on it exactly what they return on the fresh-right-side program, for every
    partition count — every theorem about `runSeq` / `runPar` (relational exactness §1–§2, mode independence §5 and
    C01, nested-join rejection §4) transfers as is -/
theorem joinx_eq_fresh (src : List Val) (xs : List XStep) :
    runSeqX src xs = runSeq src (desugar src xs) ∧ ∀ n, runParX src xs n = runPar src (desugar src xs) n := by
  unfold runSeqX runParX runSeq runPar
  rw [joinx_chain_eq_fresh]
  exact ⟨rfl, fun _ => rfl⟩

/-- witnesses: a self-join and a shared-prefix join desugar to joins with a fresh copy of the source -/
example : desugar [.int 1] [.plain (.mapValues .neg), .joinShared .inner [] []]
    = [.mapValues .neg, .join .inner [.int 1] [.mapValues .neg]] := rfl
example : desugar [.int 1] [.plain .gbk, .joinShared .left [.glen] [.gsum], .plain .unkey]
    = [.gbk, .glen, .join .left [.int 1] [.gbk, .gsum], .unkey] := rfl
example : runSeqX [.pair (.int 1) (.int 10), .pair (.int 2) (.int 20), .pair (.int 1) (.int 11)]
      [.joinShared .inner [] [], .plain (.combineValues .count)]
    = .ok [.pair (.int 1) (.int 4), .pair (.int 2) (.int 1)] := by rfl

end IB.Join
