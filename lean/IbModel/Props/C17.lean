import IbModel.Proofs.Validation
import IbModel.Proofs.ValidationEngine
import IbModel.Props.C11
import IbModel.Generated.Tables
/-!
# C17 — validation passes exactly the valid records and accounts for every invalid one

Property theorems about `Model/Validation.lean` (the transliteration of `src/helpers/validation.rs`,
`src/validation.rs`, `VecOpsImpl::split`, and the reorder guard of `planner.rs`). Helper lemmas are in
`Proofs/Validation.lean`.

Reading guide. `validate : α → VResult ε` is the user's `Validate::validate` (`none` = `Ok(())`, `some es` =
`Err(es)`); `isValid validate x` says it returned `Ok`. `Outcome.valid / pushes / panic` = what one call of the
operator's `apply` produced on one partition. `ValidatorSpec validate mode c op` is the per-partition contract;
§1 proves it for both operators, §2 derives everything about whole runs from it, for **every** list of
partitions `ps` (not only the contiguous chunks `split` produces) and **every** interleaving of the
mutex-protected pushes of concurrently running partitions. §2d ties `runSeq` / `runPar` / `runStages` to the shared
engine model (`Model/Engine.lean`: they ARE `execSeq` / `execPar` on C17's chains) and, through C11's transparency
theorems, to the two checkpointing engines; §2e is a validator behind a barrier (one partition, rows in hasher
order); §2f a join whose two sides validate.

Scope. Modelled and run: `validate_with_mode`, `validate_skip_invalid`, `validate_fail_fast`,
`validate_values_with_mode`, `validate_values_skip_invalid` (every public builder), `ErrorCollector::{new, add_error,
error_count, errors}`, `combine_validations`, on `from_vec` sources, through `collect_seq`, `collect_par` and
`Runner::run_collect` with and without a checkpoint configuration. Outside: `ErrorCollector::{clear, print_errors,
to_json, write_to_file}` and `validators::*` (not part of the statement), sources other than `from_vec`.
-/
namespace IB.Validation

variable {α κ ε : Type}

/-! ## 1. One partition: the two operators -/

/-- `ValidateOp::apply` meets the per-partition contract: it panics exactly in fail-fast mode on a partition
    holding an invalid record; otherwise its output is the valid records in order; the error lists it pushes are
    those of the invalid records (in order) when logging into a collector, and nothing otherwise. -/
theorem validateOp_spec (validate : α → VResult ε) (mode : Mode) (c : Bool) :
    ValidatorSpec validate mode c (validateOp validate mode c) := by
  have h : validateOp validate mode c = fun xs => loopG "record_" validate mode c xs 0 [] [] := by
    funext xs; exact validateLoop_eq_loopG validate mode c xs 0 [] []
  rw [h]; exact loopG_spec _ validate mode c

/-- the keyed operator `ValidateValuesOp::apply` meets the same contract w.r.t. the *value's* verdict;
    keys ride along untouched (the output rows are the input pairs themselves) -/
theorem validateValuesOp_spec (validate : α → VResult ε) (mode : Mode) (c : Bool) :
    ValidatorSpec (fun kv : κ × α => validate kv.2) mode c (validateValuesOp (κ := κ) validate mode c) := by
  have h : validateValuesOp (κ := κ) validate mode c
      = fun xs => loopG "pair_" (fun kv : κ × α => validate kv.2) mode c xs 0 [] [] := by
    funext xs; exact validateValuesLoop_eq_loopG validate mode c xs 0 [] []
  rw [h]; exact loopG_spec _ _ mode c

section one_partition
variable {validate : α → VResult ε} {mode : Mode} {c : Bool} {op : List α → Outcome α ε}

/-- skip and log modes never leave the loop through `panic!` -/
theorem skip_log_never_fail (S : ValidatorSpec validate mode c op) (h : mode ≠ .failFast) (xs : List α) :
    (op xs).panic = none := by
  cases hp : (op xs).panic with
  | none => rfl
  | some v => exact absurd ((S.panic_iff xs).mp (by simp [hp])).1 h

/-- whenever the operator returns, it returns exactly the records that validate, in their original order
    (all three modes) -/
theorem validate_keeps_valid (S : ValidatorSpec validate mode c op) (xs : List α)
    (h : (op xs).panic = none) : (op xs).valid = xs.filter (isValid validate) := S.valid_eq xs h

/-- … which in skip and log modes is unconditional -/
theorem validate_keeps_valid_skip_log (S : ValidatorSpec validate mode c op) (h : mode ≠ .failFast)
    (xs : List α) : (op xs).valid = xs.filter (isValid validate) :=
  S.valid_eq xs (skip_log_never_fail S h xs)

/-- fail-fast panics iff the partition holds at least one invalid record -/
theorem failfast_iff (S : ValidatorSpec validate .failFast c op) (xs : List α) :
    (op xs).panic ≠ none ↔ ∃ x ∈ xs, validate x ≠ none := by
  simpa using S.panic_iff xs

/-- fail-fast that does not panic passes every record through -/
theorem failfast_passes_all (S : ValidatorSpec validate .failFast c op) (xs : List α)
    (h : (op xs).panic = none) : (op xs).valid = xs := by
  rw [S.valid_eq xs h]
  apply List.filter_eq_self.mpr
  intro a ha
  have := (not_congr (failfast_iff S xs)).mp (by simp [h])
  simp only [not_exists, not_and, Decidable.not_not] at this
  simp [isValid, this a ha]

end one_partition

/-- the fail-fast panic names the FIRST invalid record of the partition: its partition-local index and its errors -/
theorem failfast_first_invalid (validate : α → VResult ε) (c : Bool) (pre : List α) (x : α) (post : List α)
    (es : List ε) (hpre : ∀ y ∈ pre, validate y = none) (hx : validate x = some es) :
    (validateOp validate .failFast c (pre ++ x :: post)).panic = some (pre.length, es) := by
  unfold validateOp
  rw [validateLoop_eq_loopG, loopG_failFast_first "record_" validate c pre x post es hpre hx]
  simp

theorem failfast_first_invalid_values (validate : α → VResult ε) (c : Bool) (pre : List (κ × α)) (x : κ × α)
    (post : List (κ × α)) (es : List ε) (hpre : ∀ y ∈ pre, validate y.2 = none) (hx : validate x.2 = some es) :
    (validateValuesOp validate .failFast c (pre ++ x :: post)).panic = some (pre.length, es) := by
  unfold validateValuesOp
  rw [validateValuesLoop_eq_loopG,
    loopG_failFast_first "pair_" (fun kv : κ × α => validate kv.2) c pre x post es hpre hx]
  simp

/-- the entries logged for a partition, exactly: one per invalid record, in order, with id `record_<i>` where
    `i` is the index *inside the partition* and with that record's error list -/
theorem log_entries_exact (validate : α → VResult ε) (xs : List α) :
    (validateOp validate .logAndContinue true xs).pushes
      = xs.zipIdx.filterMap (fun p => (validate p.1).map (fun es => ⟨some ("record_" ++ toString p.2), es⟩)) := by
  unfold validateOp
  rw [validateLoop_eq_loopG, loopG_pushes_log_ids]
  simp

theorem log_entries_exact_values (validate : α → VResult ε) (xs : List (κ × α)) :
    (validateValuesOp validate .logAndContinue true xs).pushes
      = xs.zipIdx.filterMap (fun p => (validate p.1.2).map (fun es => ⟨some ("pair_" ++ toString p.2), es⟩)) := by
  unfold validateValuesOp
  rw [validateValuesLoop_eq_loopG, loopG_pushes_log_ids]
  simp

/-! ## 2. Whole runs: every partitioning, every interleaving -/

section runs
variable {validate : α → VResult ε} {mode : Mode} {c : Bool} {op : List α → Outcome α ε}

/-- some partition panics iff the operator would panic on the concatenation -/
theorem panic_any_partition_iff (S : ValidatorSpec validate mode c op) (ps : List (List α)) :
    (∃ p ∈ ps, (op p).panic ≠ none) ↔ (op ps.flatten).panic ≠ none := by
  rw [S.panic_iff]
  constructor
  · rintro ⟨p, hp, h⟩
    obtain ⟨hm, x, hx, hv⟩ := (S.panic_iff p).mp h
    exact ⟨hm, x, List.mem_flatten.mpr ⟨p, hp, hx⟩, hv⟩
  · rintro ⟨hm, x, hx, hv⟩
    obtain ⟨p, hp, hxp⟩ := List.mem_flatten.mp hx
    exact ⟨p, hp, (S.panic_iff p).mpr ⟨hm, x, hxp, hv⟩⟩

/-- element-wise homomorphism (outputs): if no partition panics, concatenating the per-partition outputs gives
    the output on the concatenated input -/
theorem partition_hom_valid (S : ValidatorSpec validate mode c op) (ps : List (List α))
    (h : ∀ p ∈ ps, (op p).panic = none) :
    (ps.map op).flatMap (·.valid) = (op ps.flatten).valid := by
  have hflat : (op ps.flatten).panic = none := by
    have := (not_congr (panic_any_partition_iff S ps)).mp (by
      rintro ⟨p, hp, hne⟩; exact hne (h p hp))
    simpa using this
  rw [S.valid_eq _ hflat]
  clear hflat
  induction ps with
  | nil => simp
  | cons p ps ih =>
    have hp := S.valid_eq p (h p (by simp))
    have ht := ih (fun q hq => h q (by simp [hq]))
    simp only [List.map_cons, List.flatMap_cons, List.flatten_cons, List.filter_append, hp, ht]

/-- element-wise homomorphism (collector payloads): the error lists pushed partition by partition are the error
    lists pushed on the concatenated input (the record *ids* differ: they are partition-local indexes) -/
theorem partition_hom_errors (S : ValidatorSpec validate mode c op) (ps : List (List α)) :
    ((ps.map op).flatMap (·.pushes)).map (·.errors) = (op ps.flatten).pushes.map (·.errors) := by
  rw [S.pushes_errors]
  induction ps with
  | nil => simp
  | cons p ps ih =>
    simp only [List.map_cons, List.flatMap_cons, List.map_append, ih, S.pushes_errors p, List.flatten_cons]
    split <;> simp

/-- what the caller of a run over ANY partitioning `ps` observes: a failure exactly in fail-fast mode with some
    invalid record anywhere, otherwise the valid records of the whole input in their original order -/
theorem run_output (S : ValidatorSpec validate mode c op) (ps : List (List α)) :
    (runParts op ps).output
      = if mode = .failFast ∧ ∃ x ∈ ps.flatten, validate x ≠ none then none
        else some (ps.flatten.filter (isValid validate)) := by
  have key := panic_any_partition_iff S ps
  rw [S.panic_iff] at key
  unfold runParts
  by_cases hc : mode = .failFast ∧ ∃ x ∈ ps.flatten, validate x ≠ none
  · obtain ⟨p, hp, hne⟩ := key.mpr hc
    have : ((ps.map op).all fun o => o.panic.isNone) = false := by
      rw [List.all_eq_false]
      refine ⟨op p, List.mem_map.mpr ⟨p, hp, rfl⟩, ?_⟩
      cases hpp : (op p).panic with
      | none => exact absurd hpp hne
      | some _ => simp
    simp only [this, Bool.false_eq_true, ↓reduceIte, hc, and_self]
  · have hall : ∀ p ∈ ps, (op p).panic = none := by
      intro p hp
      have := (not_congr key).mpr hc
      simp only [not_exists, not_and, Decidable.not_not] at this
      exact this p hp
    have : ((ps.map op).all fun o => o.panic.isNone) = true := by
      rw [List.all_eq_true]
      intro o ho
      obtain ⟨p, hp, rfl⟩ := List.mem_map.mp ho
      simp [hall p hp]
    have hflat : (op ps.flatten).panic = none := by
      have := (not_congr (S.panic_iff ps.flatten)).mpr hc
      simpa using this
    simp only [this, ↓reduceIte, hc, partition_hom_valid S ps hall, S.valid_eq _ hflat]

/-- **any partitioning gives the sequential answer** (`collect_seq` runs the operator on the whole vector) -/
theorem run_any_partitioning (S : ValidatorSpec validate mode c op) (ps : List (List α)) :
    (runParts op ps).output = (runSeq op ps.flatten).output := by
  unfold runSeq
  rw [run_output S ps, run_output S [ps.flatten]]
  simp only [List.flatten_cons, List.flatten_nil, List.append_nil]

/-- in particular `collect_par(_, Some(n))` = `collect_seq` for every partition count `n` (including 0 and
    counts larger than the input) -/
theorem runPar_eq_runSeq (S : ValidatorSpec validate mode c op) (n : Nat) (rows : List α) :
    (runPar op n rows).output = (runSeq op rows).output := by
  unfold runPar
  rw [run_any_partitioning S, sourcePartitions_flatten]

/-- skip and log modes: the run always completes, with exactly the valid records in order -/
theorem skip_log_run_completes (S : ValidatorSpec validate mode c op) (h : mode ≠ .failFast)
    (ps : List (List α)) :
    (runParts op ps).output = some (ps.flatten.filter (isValid validate)) := by
  rw [run_output S ps]; simp [h]

/-- fail-fast mode: the run fails if and only if at least one record of the input is invalid … -/
theorem failfast_run_iff (S : ValidatorSpec validate .failFast c op) (ps : List (List α)) :
    (runParts op ps).output = none ↔ ∃ x ∈ ps.flatten, validate x ≠ none := by
  rw [run_output S ps]
  by_cases h : ∃ x ∈ ps.flatten, validate x ≠ none
  · rw [if_pos ⟨rfl, h⟩]; exact ⟨fun _ => h, fun _ => rfl⟩
  · rw [if_neg (fun hh => h hh.2)]; exact ⟨fun hh => by simp at hh, fun hh => absurd hh h⟩

/-- … and when it does not fail it returns the whole input -/
theorem failfast_run_ok (S : ValidatorSpec validate .failFast c op) (ps : List (List α))
    (h : ∀ x ∈ ps.flatten, validate x = none) : (runParts op ps).output = some ps.flatten := by
  rw [run_output S ps]
  have : ¬ ∃ x ∈ ps.flatten, validate x ≠ none := by
    rintro ⟨x, hx, hv⟩; exact hv (h x hx)
  simp only [this, and_false, ↓reduceIte, Option.some.injEq]
  exact List.filter_eq_self.mpr (fun a ha => by simp [isValid, h a ha])

/-- **log mode accounts for every invalid record.** For every partitioning `ps` and every order `coll` in which
    the mutex-protected pushes of the partitions can interleave: the collector holds, as a multiset, exactly the
    error lists of the invalid records — one entry per invalid record, carrying that record's errors — and
    `|output| + |entries| = |input|`. -/
theorem log_accounts (S : ValidatorSpec validate .logAndContinue true op) (ps : List (List α))
    (coll : List (RecordError ε)) (h : Interleave ((ps.map op).map (·.pushes)) coll) :
    (coll.map (·.errors)).Perm
        ((ps.flatten.filter (fun x => !isValid validate x)).map (fun x => (validate x).getD []))
    ∧ coll.length = (ps.flatten.filter (fun x => !isValid validate x)).length
    ∧ ∃ kept, (runParts op ps).output = some kept ∧ kept.length + coll.length = ps.flatten.length := by
  have hperm : (coll.map (·.errors)).Perm
      ((ps.flatten.filter (fun x => !isValid validate x)).map (fun x => (validate x).getD [])) := by
    have h1 := (Interleave.perm h).map (·.errors)
    have h2 := partition_hom_errors S ps
    rw [S.pushes_errors] at h2
    simp only [and_self, ↓reduceIte] at h2
    rw [← filterMap_validate_eq, ← h2]
    simpa [List.flatMap_def] using h1
  have hlen : coll.length = (ps.flatten.filter (fun x => !isValid validate x)).length := by
    have := hperm.length_eq
    rw [List.length_map, List.length_map] at this
    exact this
  refine ⟨hperm, hlen, _, skip_log_run_completes S (by simp) ps, ?_⟩
  rw [hlen]
  generalize ps.flatten = xs
  induction xs with
  | nil => rfl
  | cons x xs ih => cases hx : isValid validate x <;> simp [hx] <;> omega

/-- nothing is ever logged in skip mode, in fail-fast mode, or without a collector -/
theorem nothing_logged_otherwise (S : ValidatorSpec validate mode c op)
    (hm : ¬ (mode = .logAndContinue ∧ c = true)) (ps : List (List α))
    (coll : List (RecordError ε)) (h : Interleave ((ps.map op).map (·.pushes)) coll) : coll = [] := by
  have h1 := (Interleave.perm h).map (·.errors)
  have h2 := partition_hom_errors S ps
  rw [S.pushes_errors] at h2
  simp only [hm, ↓reduceIte] at h2
  have : (coll.map (·.errors)) = [] := by
    apply List.Perm.eq_nil
    rw [← h2]
    simpa [List.flatMap_def] using h1
  simpa using this

/-- the error lists found in the collector when the partitions are taken in order are, for ANY partitioning,
    exactly those of a sequential run, in the same order -/
theorem run_collector_errors (S : ValidatorSpec validate mode c op) (ps : List (List α)) :
    (runParts op ps).collector.map (·.errors) = (runSeq op ps.flatten).collector.map (·.errors) := by
  simpa [runSeq, runParts] using partition_hom_errors S ps

/-- a sequential run logs in record order: the collector's error lists are exactly those of the invalid
    records, in input order (not merely as a multiset) -/
theorem log_seq_in_order (S : ValidatorSpec validate .logAndContinue true op) (rows : List α) :
    (runSeq op rows).collector.map (·.errors) = rows.filterMap validate := by
  have := S.pushes_errors rows
  simpa [runSeq, runParts] using this

end runs

/-! ## 2b. The collector object: entry ids at run level, a pre-populated / reused / poisoned collector

`c0` is the caller's collector as the run finds it — ANY earlier content (the user put entries there, an earlier
run with the same `Arc` did, an earlier validator of the same block did) and ANY poison flag. `coll` is any order
in which the mutex-protected pushes of the partitions land. -/

/-- **the collector after a log-mode run, with the entry ids** (unkeyed operator). For every earlier state `c0`,
    every partitioning `ps` and every interleaving `coll`: the collector holds what it held before, unchanged and
    in front, followed by `coll`; `coll` interleaves the per-partition entry lists `logEntries "record_" validate p`
    — one entry per invalid record of `p`, in order, with id `record_<index inside p>` and that record's errors —
    so as a multiset it is exactly their union (ids are partition-local, hence not unique: nothing may merge,
    replace or drop entries by id); the poison flag plays no role and is left as it was. -/
theorem log_run_entries_exact (validate : α → VResult ε) (c0 : Collector ε) (ps : List (List α))
    (coll : List (RecordError ε))
    (h : Interleave ((ps.map (validateOp validate .logAndContinue true)).map (·.pushes)) coll) :
    (c0.absorb coll).entries = c0.entries ++ coll
    ∧ (c0.absorb coll).poisoned = c0.poisoned
    ∧ Interleave (ps.map (logEntries "record_" validate)) coll
    ∧ coll.Perm (ps.flatMap (logEntries "record_" validate)) := by
  have hI : Interleave (ps.map (logEntries "record_" validate)) coll := by
    have e : (ps.map (validateOp validate .logAndContinue true)).map (·.pushes)
        = ps.map (logEntries "record_" validate) := by
      rw [List.map_map]
      apply List.map_congr_left
      intro p _
      simp only [Function.comp_apply, log_entries_exact, logEntries]
    rwa [e] at h
  refine ⟨c0.absorb_entries coll, c0.absorb_poisoned coll, hI, ?_⟩
  simpa [List.flatMap_def] using Interleave.perm hI

/-- the same for the keyed operator: ids are `pair_<index inside the partition>`, the verdict is the value's -/
theorem log_run_entries_exact_values (validate : α → VResult ε) (c0 : Collector ε) (ps : List (List (κ × α)))
    (coll : List (RecordError ε))
    (h : Interleave ((ps.map (validateValuesOp validate .logAndContinue true)).map (·.pushes)) coll) :
    (c0.absorb coll).entries = c0.entries ++ coll
    ∧ (c0.absorb coll).poisoned = c0.poisoned
    ∧ Interleave (ps.map (logEntries "pair_" (fun kv : κ × α => validate kv.2))) coll
    ∧ coll.Perm (ps.flatMap (logEntries "pair_" (fun kv : κ × α => validate kv.2))) := by
  have hI : Interleave (ps.map (logEntries "pair_" (fun kv : κ × α => validate kv.2))) coll := by
    have e : (ps.map (validateValuesOp validate .logAndContinue true)).map (·.pushes)
        = ps.map (logEntries "pair_" (fun kv : κ × α => validate kv.2)) := by
      rw [List.map_map]
      apply List.map_congr_left
      intro p _
      simp only [Function.comp_apply, log_entries_exact_values, logEntries]
    rwa [e] at h
  refine ⟨c0.absorb_entries coll, c0.absorb_poisoned coll, hI, ?_⟩
  simpa [List.flatMap_def] using Interleave.perm hI

/-- sequentially there is one partition and one order: the collector ends as `earlier content ++ one entry per
    invalid record in input order`, the ids being `record_<index in the whole input>` -/
theorem log_seq_entries_exact (validate : α → VResult ε) (c0 : Collector ε) (rows : List α)
    (coll : List (RecordError ε))
    (h : Interleave (([rows].map (validateOp validate .logAndContinue true)).map (·.pushes)) coll) :
    (c0.absorb coll).entries = c0.entries ++ logEntries "record_" validate rows
    ∧ (runSeq (validateOp validate .logAndContinue true) rows).collector = logEntries "record_" validate rows := by
  have h1 := (log_run_entries_exact validate c0 [rows] coll h).2.2.1
  have h2 : coll = logEntries "record_" validate rows := Interleave.singleton (by simpa using h1)
  refine ⟨by rw [Collector.absorb_entries, h2], ?_⟩
  simp [runSeq, runParts, log_entries_exact, logEntries]

theorem log_seq_entries_exact_values (validate : α → VResult ε) (c0 : Collector ε) (rows : List (κ × α))
    (coll : List (RecordError ε))
    (h : Interleave (([rows].map (validateValuesOp validate .logAndContinue true)).map (·.pushes)) coll) :
    (c0.absorb coll).entries = c0.entries ++ logEntries "pair_" (fun kv : κ × α => validate kv.2) rows := by
  have h1 := (log_run_entries_exact_values validate c0 [rows] coll h).2.2.1
  have h2 : coll = logEntries "pair_" (fun kv : κ × α => validate kv.2) rows :=
    Interleave.singleton (by simpa using h1)
  rw [Collector.absorb_entries, h2]

/-- the per-partition entry lists carry exactly the invalid records' error lists (ties the id-bearing statement
    to `log_accounts`) -/
theorem logEntries_payload (pfx : String) (validate : α → VResult ε) (xs : List α) :
    (logEntries pfx validate xs).map (·.errors)
      = (xs.filter (fun x => !isValid validate x)).map (fun x => (validate x).getD []) := by
  rw [logEntries_errors, filterMap_validate_eq]

/-- skip mode, fail-fast mode, or no collector handed to the builder: the run leaves the caller's collector
    exactly as it was (for any operator meeting the contract, any partitioning, any interleaving) -/
theorem collector_untouched_otherwise {validate : α → VResult ε} {mode : Mode} {c : Bool}
    {op : List α → Outcome α ε} (S : ValidatorSpec validate mode c op)
    (hm : ¬ (mode = .logAndContinue ∧ c = true)) (c0 : Collector ε) (ps : List (List α))
    (coll : List (RecordError ε)) (h : Interleave ((ps.map op).map (·.pushes)) coll) :
    c0.absorb coll = c0 := by
  rw [nothing_logged_otherwise S hm ps coll h]; rfl

/-- **one collector used by two runs** (or pre-populated by the first and used by the second): after the second
    run it holds the earlier content, then the first run's entries, then the second run's — nothing of the first
    run is lost, merged or reordered, although both runs push the same ids `record_0, record_1, …` -/
theorem collector_reused (c0 : Collector ε) (coll1 coll2 : List (RecordError ε)) :
    ((c0.absorb coll1).absorb coll2).entries = c0.entries ++ coll1 ++ coll2
    ∧ ((c0.absorb coll1).absorb coll2).poisoned = c0.poisoned := by
  simp [Collector.absorb_entries, Collector.absorb_poisoned]

/-! ### poisoned collector: the code before the `fix:` commit -/

/-- before the fix a **log-mode run on a poisoned collector panicked** as soon as it met an invalid record —
    the negation of "in log mode the run always completes" (`skip_log_never_fail`), on every such input -/
theorem legacy_poisoned_log_fails (validate : α → VResult ε) (pre : List α) (x : α) (post : List α)
    (es : List ε) (hpre : ∀ y ∈ pre, validate y = none) (hx : validate x = some es) :
    (Legacy.validateOp validate .logAndContinue true true (pre ++ x :: post)).panic = some (pre.length, es) := by
  unfold Legacy.validateOp
  rw [legacy_validateLoop_poisoned_first validate pre x post es hpre hx]
  simp

/-- what the old code did satisfy: with a healthy mutex, and whenever it does not log (skip, fail-fast, no
    collector), it is the current operator -/
theorem legacy_poison_partial (validate : α → VResult ε) (mode : Mode) (c p : Bool)
    (h : p = false ∨ ¬ (mode = .logAndContinue ∧ c = true)) :
    Legacy.validateOp validate mode c p = validateOp validate mode c := by
  funext xs
  unfold Legacy.validateOp validateOp
  rcases h with rfl | h
  · exact legacy_validateLoop_healthy validate mode c xs 0 [] []
  · exact legacy_validateLoop_not_logging validate h p xs 0 [] []

/-! ## 2c. A validator inside a fused block -/

/-- a block is executed step by step: the steps after a point see exactly what the steps before it produced -/
theorem block_append (a b : List (BlockOp α ε)) (st : Outcome α ε) :
    applyBlock (a ++ b) st = applyBlock b (applyBlock a st) := applyBlock_append a b st

/-- a validator in the middle of a block receives the partition as the earlier steps left it (`mid`), and — if
    it returns — hands exactly the records of `mid` that validate, in order, to the later steps; what it pushes is
    appended to what earlier validators of the block pushed (they share the collector) -/
theorem block_validator_in_place {validate : α → VResult ε} {mode : Mode} {c : Bool}
    {op : List α → Outcome α ε} (S : ValidatorSpec validate mode c op)
    (before after : List (BlockOp α ε)) (part mid : List α) (pushed : List (RecordError ε))
    (hb : applyBlock before ⟨part, [], none⟩ = ⟨mid, pushed, none⟩) (hok : (op mid).panic = none) :
    blockOp (before ++ .validator op :: after) part
      = applyBlock after ⟨mid.filter (isValid validate), pushed ++ (op mid).pushes, none⟩ := by
  unfold blockOp
  rw [applyBlock_append, hb]
  simp [applyBlock, hok, S.valid_eq mid hok]

/-- … and if it panics (fail-fast on an invalid record of `mid`) the partition ends there -/
theorem block_validator_panics (op : List α → Outcome α ε)
    (before after : List (BlockOp α ε)) (part mid : List α) (pushed : List (RecordError ε))
    (hb : applyBlock before ⟨part, [], none⟩ = ⟨mid, pushed, none⟩) (hp : (op mid).panic ≠ none) :
    (blockOp (before ++ .validator op :: after) part).panic = (op mid).panic := by
  unfold blockOp
  rw [applyBlock_append, hb]
  have : (op mid).panic.isSome = true := by
    cases h : (op mid).panic with
    | none => exact absurd h hp
    | some _ => rfl
  simp only [applyBlock, Option.isSome_none, Bool.false_eq_true, ↓reduceIte]
  rw [applyBlock_of_panicked _ _ (by exact this)]

/-- a block whose validators never panic (skip / log mode) never panics -/
theorem block_skip_log_completes (ops : List (BlockOp α ε))
    (h : ∀ o ∈ ops, ∀ op, o = BlockOp.validator op → ∀ xs, (op xs).panic = none) (part : List α) :
    (blockOp ops part).panic = none := by
  unfold blockOp
  generalize hst : (⟨part, [], none⟩ : Outcome α ε) = st
  have hp : st.panic = none := by rw [← hst]
  clear hst
  induction ops generalizing st with
  | nil => exact hp
  | cons o ops ih =>
    have ht : ∀ o' ∈ ops, ∀ op, o' = BlockOp.validator op → ∀ xs, (op xs).panic = none :=
      fun o' ho' => h o' (by simp [ho'])
    simp only [applyBlock, hp, Option.isSome_none, Bool.false_eq_true, ↓reduceIte]
    cases o with
    | map f => exact ih ht _ rfl
    | filter p => exact ih ht _ rfl
    | validator op => exact ih ht _ (h _ (by simp) op rfl _)

/-- the collector content `runParts` reports (partition by partition, which is what a sequential run produces
    and what the driver prints after sorting) is one of the interleavings the theorems above quantify over -/
theorem runParts_collector_is_interleaving (op : List α → Outcome α ε) (ps : List (List α)) :
    Interleave ((ps.map op).map (·.pushes)) (runParts op ps).collector := by
  have := Interleave.flatten ((ps.map op).map (·.pushes))
  simpa [runParts, List.flatMap_def] using this

/-- the partitions the parallel engine really uses are a partitioning of the input (so §2 applies to them) -/
theorem sourcePartitions_is_partitioning (n : Nat) (rows : List α) :
    (sourcePartitions n rows).flatten = rows := sourcePartitions_flatten n rows

/-! ## 2d. C17's runs ARE the shared engine model, and the checkpointing engines change nothing

`runSeq` / `runPar` / `runStages` above are definitions of this file's model. The engine every pipeline property uses
is `Model/Engine.lean` (`IB.execSeq`, `IB.execPar`: the transliteration of `runner.rs`), generic in the partition
type. Instantiated with effect-carrying partitions (`Proofs/ValidationEngine.lean`: a partition = its rows, or
`none` once a `panic!` unwound it, + the pushes made on its behalf + the panics raised; a block step = `dynOfStep`;
terminal concatenation / barrier input = `concatRuns`) the engine model run on the chain `Source → Stateless(block)`
returns exactly C17's run — so "both execution modes" in every theorem of §2 is about the shared engine model, not
about a private abstraction. NB the engine model applies the remaining operators to a partition that has panicked
as the identity and still visits the other partitions; real rayon may not start them. That is invisible in what the
theorems state about a failed run (`output = none`; the collector after a FAILED run is not specified by the
property and not compared by the harness). -/

/-- a block that consists of one validator is that validator -/
theorem blockOp_validator (op : List α → Outcome α ε) : blockOp [BlockOp.validator op] = op := by
  funext rows
  simp [blockOp, applyBlock]

/-- **sequential**: `exec_seq` (engine model) on `Source(rows) → Stateless(block)` returns `runSeq` of the block -/
theorem runSeq_is_engine_execSeq (ops : List (BlockOp α ε)) (rows : List α) :
    IB.execSeq (chainOf ops rows) = .ok (runSeq (blockOp ops) rows) := execSeq_chainOf ops rows

/-- **parallel**: `exec_par` (engine model) with `n` requested partitions returns `runPar` of the block: same clamp
    `n.max(1).min(len.max(1))`, same split, every step on every partition in order, partitions concatenated in order -/
theorem runPar_is_engine_execPar (ops : List (BlockOp α ε)) (n : Nat) (rows : List α) :
    IB.execPar concatRuns (chainOf ops rows) n = .ok (runPar (blockOp ops) n rows) := execPar_chainOf ops n rows

/-- the plain `VALIDATE` requests: one validator as the whole block -/
theorem validator_run_is_engine (op : List α → Outcome α ε) (n : Nat) (rows : List α) :
    IB.execSeq (chainOf [BlockOp.validator op] rows) = .ok (runSeq op rows)
    ∧ IB.execPar concatRuns (chainOf [BlockOp.validator op] rows) n = .ok (runPar op n rows) := by
  have := runSeq_is_engine_execSeq [BlockOp.validator op] rows
  have := runPar_is_engine_execPar [BlockOp.validator op] n rows
  simp_all [blockOp_validator]

/-- chains with barriers: `Source → Stateless(first) → (GroupByKey → Stateless(b))*` in the engine model is
    `runStages` — the first block on the source partitions, every later block on the ONE partition its barrier
    produced (`regroup` = what the barrier does to the order of the rows) -/
theorem runStages_is_engine (regroup : List α → List α) (first : List (BlockOp α ε))
    (later : List (List (BlockOp α ε))) (n : Nat) (rows : List α) :
    IB.execSeq (chainStages regroup first later rows)
      = .ok (runStages regroup (blockOp first) (later.map blockOp) [rows])
    ∧ IB.execPar concatRuns (chainStages regroup first later rows) n
      = .ok (runStages regroup (blockOp first) (later.map blockOp) (sourcePartitions n rows)) :=
  ⟨execSeq_chainStages regroup first later rows, execPar_chainStages regroup first later n rows⟩

/-- **`Runner { checkpoint_config: Some(enabled) }`**: the two checkpointing engines (`exec_seq_with_checkpointing`
    has its own copy of the node loop; `exec_par_with_checkpointing` wraps `exec_par`) return, on every chain with
    validators in it — barriers included —, for every policy, retention, `auto_recover`, clock and content of a
    usable checkpoint directory, the very `Run` of the plain engines: same output, same failure, and **the same
    pushes into the collector** (a validator applied twice would show as a longer `collector`). C11's transparency
    theorems applied to C17's chains. -/
theorem validate_checkpointed_is_plain (env : IB.CheckpointRun.Env) (hsafe : IB.CheckpointRun.SafeDecoder env)
    (cfg : IB.CheckpointRun.Config) (hdir : IB.CheckpointRun.DirUsable env cfg) (fs : IB.Checkpoint.FS)
    (regroup : List α → List α) (first : List (BlockOp α ε)) (later : List (List (BlockOp α ε))) (n : Nat)
    (rows : List α) :
    (IB.CheckpointRun.execSeqCkpt env cfg fs (chainStages regroup first later rows)).outcome
      = .finished (.ok (runStages regroup (blockOp first) (later.map blockOp) [rows]))
    ∧ (IB.CheckpointRun.execParCkpt concatRuns env cfg fs (chainStages regroup first later rows) n).outcome
      = .finished (.ok (runStages regroup (blockOp first) (later.map blockOp) (sourcePartitions n rows))) := by
  rw [IB.CheckpointRun.ckpt_transparent env hsafe cfg hdir fs,
    IB.CheckpointRun.ckpt_transparent_par concatRuns env hsafe cfg hdir fs]
  rw [(runStages_is_engine regroup first later n rows).1, (runStages_is_engine regroup first later n rows).2]
  exact ⟨rfl, rfl⟩

/-- without a barrier (`later = []`) `runStages` is the plain run, so the statement above covers `VALIDATE` / `VPIPE` -/
theorem runStages_nil (regroup : List α → List α) (first : List α → Outcome α ε) (parts : List (List α)) :
    runStages regroup first [] parts = runParts first parts := rfl

/-! ## 2e. A validator behind a barrier

After `group_by_key` + ungroup the rows arrive in ONE partition, grouped by key, the keys in `HashMap` order: some
permutation `regroup mid` of the rows `mid` that reached the barrier. Record ids (`pair_<idx>`) therefore depend on
the hasher; everything the property states does not: -/

/-- the kept records and the logged error lists add up to the input, for any validation function -/
theorem filter_filterMap_length (validate : α → VResult ε) (xs : List α) :
    (xs.filter (isValid validate)).length + (xs.filterMap validate).length = xs.length := by
  induction xs with
  | nil => rfl
  | cons x xs ih => cases hx : validate x <;> simp [isValid, hx] <;> omega

/-- **a validator after a barrier accounts exactly for the rows that reached it, whatever order the barrier gave
    them**: it fails iff fail-fast and one of them is invalid; otherwise it passes a permutation of the valid ones
    (their order inside the regrouped partition); its entries are appended to what the earlier stages logged, and
    their error lists are, as a multiset, those of the invalid rows (log mode with collector; nothing otherwise);
    `|kept| + |new entries| = |rows that reached the validator|` when logging. -/
theorem after_barrier_accounts {validate : α → VResult ε} {mode : Mode} {c : Bool} {b : List α → Outcome α ε}
    (S : ValidatorSpec validate mode c b) (regroup : List α → List α) (hperm : ∀ xs, (regroup xs).Perm xs)
    (r : Run α ε) (mid : List α) (hmid : r.output = some mid) :
    ((afterBarrier regroup r b).output = none ↔ (mode = .failFast ∧ ∃ x ∈ mid, validate x ≠ none))
    ∧ (∀ kept, (afterBarrier regroup r b).output = some kept → kept.Perm (mid.filter (isValid validate)))
    ∧ ∃ new, (afterBarrier regroup r b).collector = r.collector ++ new
        ∧ (new.map (·.errors)).Perm (if mode = .logAndContinue ∧ c = true then mid.filterMap validate else [])
        ∧ (mode = .logAndContinue → c = true → ∀ kept, (afterBarrier regroup r b).output = some kept →
            kept.length + new.length = mid.length) := by
  have hmem : (∃ x ∈ regroup mid, validate x ≠ none) ↔ ∃ x ∈ mid, validate x ≠ none := by
    constructor <;> rintro ⟨x, hx, hv⟩
    · exact ⟨x, (hperm mid).mem_iff.mp hx, hv⟩
    · exact ⟨x, (hperm mid).mem_iff.mpr hx, hv⟩
  have hpan := S.panic_iff (regroup mid)
  rw [hmem] at hpan
  have hout : (afterBarrier regroup r b).output
      = if (b (regroup mid)).panic.isNone then some (b (regroup mid)).valid else none := by
    simp [afterBarrier, hmid]
  have hcol : (afterBarrier regroup r b).collector = r.collector ++ (b (regroup mid)).pushes := by
    simp [afterBarrier, hmid]
  have hkept : ∀ kept, (afterBarrier regroup r b).output = some kept →
      kept = (regroup mid).filter (isValid validate) := by
    intro kept hk
    rw [hout] at hk
    cases hp : (b (regroup mid)).panic with
    | some e => simp [hp] at hk
    | none =>
      simp only [hp, Option.isNone_none, ↓reduceIte, Option.some.injEq] at hk
      rw [← hk, S.valid_eq _ hp]
  refine ⟨?_, ?_, (b (regroup mid)).pushes, hcol, ?_, ?_⟩
  · rw [hout, ← hpan]
    cases hp : (b (regroup mid)).panic <;> simp
  · intro kept hk
    rw [hkept kept hk]
    exact (hperm mid).filter _
  · rw [S.pushes_errors]
    split
    · exact (hperm mid).filterMap _
    · exact List.Perm.refl _
  · intro hm hc kept hk
    rw [hkept kept hk]
    have h1 : ((b (regroup mid)).pushes.map (·.errors)).length = ((regroup mid).filterMap validate).length := by
      rw [S.pushes_errors]; simp [hm, hc]
    rw [List.length_map] at h1
    rw [h1, filter_filterMap_length, (hperm mid).length_eq]

/-- the regrouping the driver evaluates is a permutation, so `after_barrier_accounts` applies to it -/
theorem regroupBy_perm (key : α → Int) (xs : List α) : (regroupBy key xs).Perm xs := regroupBy_perm' key xs

/-- hence for a whole chain `Source → first → barrier → validator`: the validator after the barrier sees exactly
    what the first block let through (any partitioning of the source), and the statement above applies to it -/
theorem stages_one_barrier (regroup : List α → List α) (first b : List α → Outcome α ε) (parts : List (List α)) :
    runStages regroup first [b] parts = afterBarrier regroup (runParts first parts) b := rfl

/-! ## 2f. Validators inside the sides of a join -/

section join
variable {β₁ β₂ γ : Type} {vL : β₁ → VResult ε} {vR : β₂ → VResult ε} {mode : Mode} {c : Bool}
  {opL : List β₁ → Outcome β₁ ε} {opR : List β₂ → Outcome β₂ ε}

/-- **a join whose two sides validate** (any partitioning of either source, both sides sharing mode and collector):
    the run fails iff fail-fast and some record of EITHER side is invalid; otherwise the join sees exactly the valid
    records of each side, in order; in skip / log mode the collector receives the error lists of the left side's
    invalid records followed by the right side's (log mode with collector), and nothing otherwise. -/
theorem join_sides_validate (SL : ValidatorSpec vL mode c opL) (SR : ValidatorSpec vR mode c opR)
    (join : List β₁ → List β₂ → List γ) (lp : List (List β₁)) (rp : List (List β₂)) :
    (runJoin opL opR join lp rp).output
      = (if mode = .failFast ∧ ((∃ x ∈ lp.flatten, vL x ≠ none) ∨ (∃ y ∈ rp.flatten, vR y ≠ none)) then none
         else some (join (lp.flatten.filter (isValid vL)) (rp.flatten.filter (isValid vR))))
    ∧ (mode ≠ .failFast → (runJoin opL opR join lp rp).collector.map (·.errors)
        = if mode = .logAndContinue ∧ c = true then lp.flatten.filterMap vL ++ rp.flatten.filterMap vR else []) := by
  have hl := run_output SL lp
  have hr := run_output SR rp
  have hcl : (runParts opL lp).collector.map (·.errors)
      = if mode = .logAndContinue ∧ c = true then lp.flatten.filterMap vL else [] := by
    rw [run_collector_errors SL lp, ← SL.pushes_errors]; simp [runSeq, runParts]
  have hcr : (runParts opR rp).collector.map (·.errors)
      = if mode = .logAndContinue ∧ c = true then rp.flatten.filterMap vR else [] := by
    rw [run_collector_errors SR rp, ← SR.pushes_errors]; simp [runSeq, runParts]
  constructor
  · unfold runJoin
    by_cases hm : mode = .failFast
    · by_cases h1 : ∃ x ∈ lp.flatten, vL x ≠ none
      · simp only [hl, hm, h1, and_self, ↓reduceIte, true_or]
      · by_cases h2 : ∃ y ∈ rp.flatten, vR y ≠ none
        · simp only [hl, hr, hm, h1, h2, and_false, and_self, ↓reduceIte, or_true]
        · simp only [hl, hr, hm, h1, h2, and_false, ↓reduceIte, or_self]
    · simp only [hl, hr, hm, false_and, ↓reduceIte]
  · intro hm
    unfold runJoin
    simp only [hl, hr, hm, false_and, ↓reduceIte, List.map_append, hcl, hcr]
    split <;> simp

end join

/-! ## 3. `combine_validations` -/

/-- combining succeeds iff every part succeeded -/
theorem combine_ok_iff_all_ok (rs : List (VResult ε)) :
    combineValidations rs = none ↔ ∀ r ∈ rs, r = none := by
  unfold combineValidations
  rw [combine_fold]
  simp only [Bool.false_or, List.nil_append]
  constructor
  · intro h r hr
    cases r with
    | none => rfl
    | some es =>
      have : rs.any (·.isSome) = true := List.any_eq_true.mpr ⟨some es, hr, rfl⟩
      simp [this] at h
  · intro h
    have : rs.any (·.isSome) = false := by
      rw [List.any_eq_false]; intro r hr; simp [h r hr]
    simp [this]

/-- otherwise it reports all errors of all failed parts, in order -/
theorem combine_errors_in_order (rs : List (VResult ε)) (h : ∃ r ∈ rs, r ≠ none) :
    combineValidations rs = some ((rs.filterMap id).flatten) := by
  unfold combineValidations
  rw [combine_fold]
  obtain ⟨r, hr, hne⟩ := h
  have : rs.any (·.isSome) = true := by
    apply List.any_eq_true.mpr
    refine ⟨r, hr, ?_⟩
    cases r with
    | none => exact absurd rfl hne
    | some _ => rfl
  simp [this]

/-- the pinned-commit `combine_validations` was **wrong** on a failed part with an empty error list:
    `combine_validations(vec![Err(vec![])]) == Ok(())` (negation witness; repaired by the `fix:` commit) -/
theorem legacy_combine_accepts_failed_part :
    Legacy.combineValidations ([some []] : List (VResult Nat)) = none
    ∧ ¬ (∀ r ∈ ([some []] : List (VResult Nat)), r = none) := by
  constructor
  · rfl
  · intro h; exact absurd (h (some []) (by simp)) (by simp)

/-- what the pinned-commit version did satisfy: the iff, provided no failed part carries an empty list -/
theorem legacy_combine_partial (rs : List (VResult ε)) (hne : ∀ r ∈ rs, r ≠ some []) :
    Legacy.combineValidations rs = none ↔ ∀ r ∈ rs, r = none := by
  unfold Legacy.combineValidations
  rw [legacy_combine_fold]
  simp only [List.nil_append, List.isEmpty_iff]
  constructor
  · intro h r hr
    split at h
    · rename_i hempty
      cases r with
      | none => rfl
      | some es =>
        have hmem : es ∈ rs.filterMap id := List.mem_filterMap.mpr ⟨some es, hr, rfl⟩
        have := List.flatten_eq_nil_iff.mp hempty es hmem
        subst this
        exact absurd rfl (hne _ hr)
    · simp at h
  · intro h
    have : rs.filterMap id = [] := by
      apply List.filterMap_eq_nil_iff.mpr
      intro r hr; simp [h r hr]
    simp [this]

/-! ## 4. Validators are pinned in the plan (table obligation, re-read from the running code on every run) -/

/-- no validation builder installs an operator that satisfies the planner's reorder contract -/
theorem validators_not_movable :
    ∀ r ∈ IB.Generated.validateOpFlags, movable (flagsOfRow r) = false := by decide

/-- hence a fused stateless block that contains a validator — whatever else it contains — comes out of
    `reorder_value_only_runs_tracked` exactly as it was written -/
theorem validate_pinned {σ : Type} (flagsOf : σ → Flags) (ops : List σ)
    (h : ∃ op ∈ ops, ∃ r ∈ IB.Generated.validateOpFlags, flagsOf op = flagsOfRow r) :
    reorderBlock flagsOf ops = ops := by
  obtain ⟨op, hop, r, hr, hf⟩ := h
  unfold reorderBlock
  have : ops.all (fun op => movable (flagsOf op)) = false := by
    rw [List.all_eq_false]
    exact ⟨op, hop, by simp [hf, validators_not_movable r hr]⟩
  simp [this]

/-! ## Non-vacuity and witnesses (tests, not theorems) -/

/-- the table is not empty and covers the keyed builders, which *are* value-only and key-preserving -/
example : IB.Generated.validateOpFlags.length ≥ 8 ∧
    (IB.Generated.validateOpFlags.any fun r => (flagsOfRow r).valueOnly && (flagsOfRow r).keyPreserving) = true := by
  decide

/-- pinning is not vacuous: a block of plain value steps IS reordered (filter before map) … -/
example : reorderBlock flagsOfRow IB.Generated.valueStepFlags
    = [("filter_values", true, true, true, 1), ("map_values", true, true, true, 3)] := by decide

/-- … and the same block with a keyed validator in it is not -/
example : reorderBlock flagsOfRow
      (IB.Generated.valueStepFlags ++ [("validate_values_skip_invalid", true, true, false, 10)])
    = IB.Generated.valueStepFlags ++ [("validate_values_skip_invalid", true, true, false, 10)] := by decide

/-- a concrete record type: `(id, verdict)` -/
def demoValidate (r : Nat × VResult Nat) : VResult Nat := r.2

/-- log mode on 2 partitions: valid records kept in order; entries carry partition-local ids -/
example :
    let rows : List (Nat × VResult Nat) := [(0, none), (1, some [1]), (2, none), (3, some [2, 3])]
    let r := runPar (validateOp demoValidate .logAndContinue true) 2 rows
    r.output = some [(0, none), (2, none)] ∧
    r.collector = [⟨some "record_1", [1]⟩, ⟨some "record_1", [2, 3]⟩] := by decide

/-- the hypotheses of `log_accounts` are satisfiable on a non-trivial input -/
example : Interleave
    (([[(0, none), (1, some [1])], [(2, none), (3, some [2, 3])]].map
        (validateOp demoValidate .logAndContinue true)).map (·.pushes))
    [⟨some "record_1", [2, 3]⟩, ⟨some "record_1", [1]⟩] := by
  show Interleave ([[(⟨some "record_1", [1]⟩ : RecordError Nat)]] ++ [⟨some "record_1", [2, 3]⟩] :: []) _
  exact Interleave.take (a := [[_]]) (b := [])
    (Interleave.take (a := []) (b := [[]]) (.done (by simp)))

/-- a pre-populated collector that already holds `record_1`: the run's own `record_1` entries come after it, all
    three entries with that id are kept -/
example :
    let rows : List (Nat × VResult Nat) := [(0, none), (1, some [1]), (2, none), (3, some [2, 3])]
    let c0 : Collector Nat := ⟨[⟨some "record_1", [9]⟩], true⟩
    let r := runPar (validateOp demoValidate .logAndContinue true) 2 rows
    (c0.absorb r.collector).entries
      = [⟨some "record_1", [9]⟩, ⟨some "record_1", [1]⟩, ⟨some "record_1", [2, 3]⟩] := by decide

/-- the old code on a poisoned collector: log mode panics (negation witness of "log mode always completes") -/
example : (Legacy.validateOp demoValidate .logAndContinue true true [(0, none), (1, some [1])]).panic
    = some (1, [1]) := by decide
/-- … the current code logs -/
example : (validateOp demoValidate .logAndContinue true [(0, none), (1, some [1])]).panic = none
    ∧ (validateOp demoValidate .logAndContinue true [(0, none), (1, some [1])]).pushes = [⟨some "record_1", [1]⟩] := by
  decide

/-- two validators of one block share the collector; a step between them invalidates record 0: the second
    validator starts counting at 0 again, so `record_0` is pushed by it while `record_1` came from the first -/
example :
    let v := validateOp demoValidate .logAndContinue true
    let brk : Nat × VResult Nat → Nat × VResult Nat := fun r => if r.1 = 0 then (0, some [7]) else r
    (blockOp [.validator v, .map brk, .validator v] [(0, none), (1, some [1]), (2, none)]).pushes
      = [⟨some "record_1", [1]⟩, ⟨some "record_0", [7]⟩] := by decide

/-- the hypotheses of `block_validator_in_place` are satisfiable -/
example : applyBlock [BlockOp.map (fun r : Nat × VResult Nat => (r.1 + 1, r.2))] ⟨[(0, none)], [], none⟩
    = (⟨[(1, none)], [], none⟩ : Outcome (Nat × VResult Nat) Nat) := by rfl

/-- fail-fast: first invalid record wins, sequentially -/
example : (validateOp demoValidate .failFast false [(0, none), (1, some []), (2, some [7])]).panic
    = some (1, []) := by decide

/-- an invalid record with an EMPTY error list is still invalid: dropped, logged, and fails the run -/
example : (validateOp demoValidate .skipInvalid false [(0, none), (1, some [])]).valid = [(0, none)]
    ∧ (validateOp demoValidate .logAndContinue true [(0, none), (1, some [])]).pushes
        = [⟨some "record_1", []⟩] := by decide

example : combineValidations ([some [], none] : List (VResult Nat)) = some [] := by decide
example : combineValidations ([some [1], none, some [2, 3]] : List (VResult Nat)) = some [1, 2, 3] := by decide

/-- `split` really cuts: 5 rows on 2 partitions are chunks of 3 and 2 -/
example : sourcePartitions 2 [1, 2, 3, 4, 5] = [[1, 2, 3], [4, 5]] := by decide
example : sourcePartitions 64 [1, 2, 3] = [[1], [2], [3]] := by decide
example : sourcePartitions 0 [1, 2, 3] = [[1, 2, 3]] := by decide

/-- the engine tie is about non-trivial chains: two partitions, a logging validator, a step that invalidates,
    a second validator — evaluated through the engine model -/
example :
    ∃ r, IB.execPar concatRuns
        (chainOf [.validator (validateOp demoValidate .logAndContinue true),
                  .map (fun r : Nat × VResult Nat => if r.1 = 0 then (0, some [7]) else r),
                  .validator (validateOp demoValidate .logAndContinue true)]
          [(0, none), (1, some [1]), (2, none), (3, some [4])]) 2 = .ok r
      ∧ r.output = some [(2, none)]
      ∧ r.collector = [⟨some "record_1", [1]⟩, ⟨some "record_0", [7]⟩, ⟨some "record_1", [4]⟩] := by
  refine ⟨_, runPar_is_engine_execPar _ _ _, ?_⟩
  decide

/-- `regroupBy`: grouped by key, arrival order inside a group -/
example : regroupBy (fun kv : Int × Nat => kv.1) [(2, 0), (1, 1), (2, 2), (1, 3)] = [(1, 1), (1, 3), (2, 0), (2, 2)] := by
  decide

/-- a validator behind a barrier: one partition, so the ids count through the regrouped rows; the first stage's
    entries come first -/
example :
    let v := validateValuesOp (κ := Int) (fun r : VResult Nat => r) .logAndContinue true
    let rows : List (Int × VResult Nat) := [(2, some [1]), (1, none), (2, none), (1, some [5])]
    let brk : Int × VResult Nat → Int × VResult Nat := fun r => if r.2 = none then (r.1, some [9]) else r
    (runStages (regroupBy (·.1)) v [blockOp [.map brk, .validator v]] (sourcePartitions 2 rows)).collector
      = [⟨some "pair_0", [1]⟩, ⟨some "pair_1", [5]⟩, ⟨some "pair_0", [9]⟩, ⟨some "pair_1", [9]⟩]
    ∧ (runStages (regroupBy (·.1)) v [blockOp [.map brk, .validator v]] (sourcePartitions 2 rows)).output = some [] := by
  decide

/-- the hypotheses of `after_barrier_accounts` are satisfiable: `regroupBy` is a permutation (`regroupBy_perm`), the
    operators meet `ValidatorSpec` (`validateValuesOp_spec`), and a first stage that completes has `output = some _` -/
example : (runParts (validateValuesOp (κ := Int) (fun r : VResult Nat => r) .logAndContinue true)
    [[(2, some [1]), (1, none)], [(2, none)]]).output = some [(1, none), (2, none)] := by decide

/-- a join whose sides validate: left keeps keys 1, 2; right keeps 1; the collector holds left entries, then right -/
example :
    let vL := validateValuesOp (κ := Int) (fun r : VResult Nat => r) .logAndContinue true
    let r := runJoin vL vL innerJoin [[(1, none), (3, some [1])], [(2, none)]] [[(1, none), (2, some [])]]
    r.output = some [(1, ((none : VResult Nat), (none : VResult Nat)))]
    ∧ r.collector = [⟨some "pair_1", [1]⟩, ⟨some "pair_1", []⟩] := by decide

/-- the hypotheses of `validate_checkpointed_is_plain` hold for the running code's decoder (limit re-read from the
    code) and a checkpoint directory that can be created and listed (C11's `current_decoder_safe`, `dirUsable_of`) -/
example (cfg : IB.CheckpointRun.Config) :
    let env : IB.CheckpointRun.Env :=
      { H := id, dec := IB.Checkpoint.currentCfg IB.Generated.ckptDecodeLimit, clock := id,
        progress := fun _ _ => 0, isDir := fun _ => false }
    IB.CheckpointRun.SafeDecoder env ∧ IB.CheckpointRun.DirUsable env cfg :=
  ⟨IB.CheckpointRun.current_decoder_safe _ _ (Nat.le_refl _) rfl, IB.CheckpointRun.dirUsable_of _ _ rfl rfl⟩

end IB.Validation
