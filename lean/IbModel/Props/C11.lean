import IbModel.Proofs.CheckpointRun
import IbModel.Props.C12
import IbModel.Model.Program
import IbModel.Generated.Tables
/-!
# C11 — checkpointing is transparent, cleans up after success and survives crashes

Property theorems about `IB.CheckpointRun` (model of `exec_seq_with_checkpointing` / `exec_par_with_checkpointing`
in `src/runner.rs`, see `Model/CheckpointRun.lean`), on top of the engine model (`Model/Engine.lean`) and the
checkpoint store (`Model/Checkpoint.lean`, C12). Helper lemmas: `Proofs/CheckpointRun.lean`.

Everything is quantified over: every partition type `P` and every chain (all seven node kinds, joins included, any
closures), every policy (`AfterEveryBarrier`, `EveryNNodes n` incl. `0`, `TimeInterval s`, `Hybrid b s`), every
retention (`None`, `Some m` incl. `0`), `auto_recover` on or off, every initial directory (any names, any bytes, any
of them sub-directories), every hash function, every clock script (not even monotone), every partition count.

TWO things are hypotheses, and `ckpt_outcome_cases` shows they are exactly what is needed (every other outcome is one
of three named exits, each witnessed):

* `SafeDecoder`: `load_checkpoint` returns on every input; for the running code that is C12's `load_never_crashes`
  (its decode limit is re-read from the code on every run). Otherwise the process can die inside `load_checkpoint`
  — witnessed for the pinned commit's unlimited decoder (`legacy_decoder_recovery_dies`).
* `DirUsable`: the configured checkpoint directory can be created (`CheckpointManager::new(config)?`) and, when
  `auto_recover` is on and the path `exists()`, listed (`find_latest_checkpoint(..)?`). These two `?` exist only in the checkpointing
  engines: with a directory path that is a regular file the checkpointing run returns `Err("Failed to create
  checkpoint directory")` where the plain run returns the rows — `unusable_directory_not_transparent` (reproduced on
  the real code by the harness, jobs `dir=file`). Read as a PRECONDITION of the property (a run that was asked to
  checkpoint into an impossible place refuses to start, before any node runs and without touching anything), not
  as a defect; see the MANIFEST note.

Also part of "every environment" (no hypothesis): a checkpoint directory that stops being usable at any node of the run
(`Env.failFrom` — every later save and the final clear fail; §3b), leftover files too large to be read into memory
(`Env.tooBig`), a path for which `exists()` is false (`Env.dirExists`; the empty path before the fix, §3b). The
requested element type `T` of `run_collect::<T>` and `partitions: None` are covered by the typed layer (§3c).
"Clean after success" needs a store that works to the end (`dirListable`, `storeFailsAtEnd = false`); without it the
files saved so far stay (`unlistable_success_clears_nothing`).

Sub-directories inside the checkpoint directory (`Env.isDir`) — in particular one with a well-formed checkpoint name —
are part of "every initial directory": they never change the result; they are skipped by all three scans (regular files only), hence NOT
removed by the final clear, so "clean after success" is about own-named regular FILES
(`ckpt_clean_after_success`, `own_named_directory_survives`).
-/
namespace IB.CheckpointRun
open IB IB.Checkpoint

variable {P : Type}

/-- `load_checkpoint` of this environment returns (`Ok` or `Err`) on every file content: no panic, no abort -/
def SafeDecoder (env : Env) : Prop := ∀ bytes, NoCrash (load env.H env.dec bytes)

/-- the running code's decoder (limit printed from the code into `Generated/Tables.lean`), with an allocator that
    can satisfy a request of that size, is safe — C12's `load_never_crashes` -/
theorem current_decoder_safe (env : Env) (mem : Nat) (hmem : IB.Generated.ckptDecodeLimit ≤ mem)
    (hdec : env.dec = currentCfg mem) : SafeDecoder env := by
  intro bytes
  rw [hdec]
  exact load_never_crashes env.H mem hmem bytes

/-- a directory that can be created and listed is usable under every configuration -/
theorem dirUsable_of (env : Env) (cfg : Config) (hc : env.dirCreatable = true) (hl : env.dirListable = true) :
    DirUsable env cfg := ⟨hc, fun _ _ => hl⟩

/-! ## 1. Transparency -/

/-- **The second copy of the node match is the first**: the checkpointing engine's per-node code computes, for
    every node kind (Source, Stateless, GroupByKey, CombineValues, CoGroup, Materialized, CombineGlobal) and every
    buffer, exactly what `exec_seq`'s does. -/
theorem ckpt_engine_mirrors_plain (cur : Option P) (n : Node P) : stepSeqCk cur n = stepSeq cur n :=
  stepSeqCk_eq_stepSeq cur n

/-- once the set-up and the recovery block are passed, the sequential checkpointing engine returns what `exec_seq`
    returns -/
theorem seq_after_recovery (env : Env) (cfg : Config) (fs : FS) (chain : List (Node P)) (lg : RecLog)
    (hc : env.dirCreatable = true) (hlg : recover env cfg (seqPid env chain.length) fs = .ok lg) :
    (execSeqCkpt env cfg fs chain).outcome = .finished (execSeq chain) := by
  unfold execSeqCkpt
  simp only [hc, hlg, Bool.not_true, Bool.false_eq_true, if_false]
  rw [runNodes_result, execSeq_eq_seqFold]
  cases h : seqFold chain none with
  | error e => rfl
  | ok r =>
    cases r with
    | none => rfl
    | some b => rfl

theorem par_after_recovery (concat : List P → P) (env : Env) (cfg : Config) (fs : FS) (chain : List (Node P))
    (n : Nat) (lg : RecLog) (hc : env.dirCreatable = true)
    (hlg : recover env cfg (parPid env chain.length n) fs = .ok lg) :
    (execParCkpt concat env cfg fs chain n).outcome = .finished (execPar concat chain n) := by
  unfold execParCkpt
  simp only [hc, hlg, Bool.not_true, Bool.false_eq_true, if_false]
  cases h : execPar concat chain n with
  | ok v => rfl
  | error e =>
    simp only []
    split <;> rfl

/-- **Transparency, sequential**: with checkpointing enabled (into a usable directory) the run returns exactly what
    `exec_seq` returns — every chain, policy, retention, `auto_recover`, initial directory content, hash, clock. -/
theorem ckpt_transparent (env : Env) (hsafe : SafeDecoder env) (cfg : Config) (hdir : DirUsable env cfg) (fs : FS)
    (chain : List (Node P)) :
    (execSeqCkpt env cfg fs chain).outcome = .finished (execSeq chain) := by
  obtain ⟨lg, hlg⟩ := recover_ok_of_noCrash env cfg (seqPid env chain.length) fs hdir.2 hsafe
  exact seq_after_recovery env cfg fs chain lg hdir.1 hlg

/-- **Transparency, parallel**: likewise `exec_par`, for every partition count. -/
theorem ckpt_transparent_par (concat : List P → P) (env : Env) (hsafe : SafeDecoder env) (cfg : Config)
    (hdir : DirUsable env cfg) (fs : FS) (chain : List (Node P)) (n : Nat) :
    (execParCkpt concat env cfg fs chain n).outcome = .finished (execPar concat chain n) := by
  obtain ⟨lg, hlg⟩ := recover_ok_of_noCrash env cfg (parPid env chain.length n) fs hdir.2 hsafe
  exact par_after_recovery concat env cfg fs chain n lg hdir.1 hlg

/-- **Transparency for the code as configured today** (both modes): whatever the hash, clock and `f64` progress
    function are and whichever entries of the (creatable, listable) directory are sub-directories, with the decode
    limit the running code has. -/
theorem ckpt_transparent_current (H : Bytes → Bytes) (clock : Nat → Nat) (progress : Nat → Nat → UInt8) (mem : Nat)
    (isDir tooBig : Name → Bool) (failFrom : Option Nat)
    (hmem : IB.Generated.ckptDecodeLimit ≤ mem) (concat : List P → P) (cfg : Config) (fs : FS)
    (chain : List (Node P)) (n : Nat) :
    let env : Env := { H := H, dec := currentCfg mem, clock := clock, progress := progress, isDir := isDir,
                       tooBig := tooBig, failFrom := failFrom }
    (execSeqCkpt env cfg fs chain).outcome = .finished (execSeq chain) ∧
    (execParCkpt concat env cfg fs chain n).outcome = .finished (execPar concat chain n) := by
  intro env
  have hs : SafeDecoder env := current_decoder_safe env mem hmem rfl
  have hd : DirUsable env cfg := dirUsable_of env cfg rfl rfl
  exact ⟨ckpt_transparent env hs cfg hd fs chain, ckpt_transparent_par concat env hs cfg hd fs chain n⟩

/-- **`Runner::run_collect`**: for every runner (either mode, any partition count) the outcome with ANY checkpoint
    configuration — enabled or not, any policy, retention, `auto_recover` — on ANY content of a usable directory equals
    the outcome of the same runner without a checkpoint configuration. -/
theorem run_collect_transparent (concat : List P → P) (env : Env) (hsafe : SafeDecoder env) (mode : ExecMode)
    (ck : Option (Bool × Config)) (hdir : ∀ cfg, ck = some (true, cfg) → DirUsable env cfg)
    (fs fs' : FS) (chain : List (Node P)) :
    (runCollect concat env { mode := mode, checkpoint := ck } fs chain).outcome =
      (runCollect concat env { mode := mode, checkpoint := none } fs' chain).outcome := by
  unfold runCollect
  cases ck with
  | none => cases mode <;> rfl
  | some c =>
    obtain ⟨en, cfg⟩ := c
    cases en with
    | false => cases mode <;> rfl
    | true =>
      cases mode with
      | sequential => exact ckpt_transparent env hsafe cfg (hdir cfg rfl) fs chain
      | parallel n => exact ckpt_transparent_par concat env hsafe cfg (hdir cfg rfl) fs chain n

/-- without an enabled checkpoint configuration the directory is not touched (nor looked at: no hypothesis on it) -/
theorem run_collect_disabled_touches_nothing (concat : List P → P) (env : Env) (mode : ExecMode) (cfg : Config)
    (fs : FS) (chain : List (Node P)) :
    (runCollect concat env { mode := mode, checkpoint := none } fs chain).fs = fs ∧
    (runCollect concat env { mode := mode, checkpoint := some (false, cfg) } fs chain).fs = fs ∧
    (runCollect concat env { mode := mode, checkpoint := some (false, cfg) } fs chain).outcome =
      (runCollect concat env { mode := mode, checkpoint := none } fs chain).outcome := by
  unfold runCollect
  cases mode <;> exact ⟨rfl, rfl, rfl⟩

/-- **Transparency for the pipelines the builders produce** (the programs of the correspondence check: any source
    rows, any sequence of builder calls — element-wise steps, barriers, global combines, joins): `run_collect` with
    checkpointing returns what the plain sequential / parallel run of the planned chain returns
    (`runSeq` / `runPar` of `Model/Program.lean`, the model C01–C07 are about). -/
theorem ckpt_transparent_program (env : Env) (hsafe : SafeDecoder env) (cfg : Config) (hdir : DirUsable env cfg)
    (fs : FS) (src : List Val) (steps : List Step) (n : Nat) :
    (execSeqCkpt env cfg fs (optimise (litChain src steps))).outcome = .finished (runSeq src steps) ∧
    (execParCkpt List.flatten env cfg fs (optimise (litChain src steps)) n).outcome = .finished (runPar src steps n) :=
  ⟨ckpt_transparent env hsafe cfg hdir fs _, ckpt_transparent_par List.flatten env hsafe cfg hdir fs _ n⟩

/-! ### the hypotheses are exactly what is needed -/

/-- **Every way a sequential checkpointing run can end** — for ANY decoder and ANY state of the directory path:
    either it returns exactly the plain result, or it is one of the three exits the checkpointing engines add:
    (a) the directory cannot be created ⇒ `Err` from `CheckpointManager::new`;
    (b) `auto_recover` is on and the directory cannot be listed ⇒ `Err` from `find_latest_checkpoint`;
    (c) `auto_recover` is on and the process died inside `load_checkpoint` on the content of the newest well-formed
        checkpoint file of this id. -/
theorem ckpt_outcome_cases (env : Env) (cfg : Config) (fs : FS) (chain : List (Node P)) :
    (execSeqCkpt env cfg fs chain).outcome = .finished (execSeq chain) ∨
    (env.dirCreatable = false ∧ (execSeqCkpt env cfg fs chain).outcome = .setupFailed .createDir) ∨
    (env.dirCreatable = true ∧ cfg.autoRecover = true ∧ env.dirExists = true ∧ env.dirListable = false ∧
      (execSeqCkpt env cfg fs chain).outcome = .setupFailed .readDir) ∨
    ∃ name bytes e, cfg.autoRecover = true ∧ latestD env.isDir (seqPid env chain.length) fs = some name ∧
      env.isDir name = false ∧ env.tooBig name = false ∧ read fs name = some bytes ∧
      load env.H env.dec bytes = .error e ∧ kills e = true ∧
      (execSeqCkpt env cfg fs chain).outcome = .died e := by
  cases hc : env.dirCreatable with
  | false =>
    right; left
    refine ⟨rfl, ?_⟩
    unfold execSeqCkpt
    simp [hc]
  | true =>
    rcases recover_cases env cfg (seqPid env chain.length) fs with
      ⟨lg, hlg⟩ | ⟨h1, hex, h2, h3⟩ | ⟨name, bytes, e, h1, _, h2, hd, hb, h3, h4, h5, h6⟩
    · left; exact seq_after_recovery env cfg fs chain lg hc hlg
    · right; right; left
      refine ⟨rfl, h1, hex, h2, ?_⟩
      unfold execSeqCkpt
      simp only [hc, h3, Bool.not_true, Bool.false_eq_true, if_false]
    · right; right; right
      refine ⟨name, bytes, e, h1, h2, hd, hb, h3, h4, h5, ?_⟩
      unfold execSeqCkpt
      simp only [hc, h6, Bool.not_true, Bool.false_eq_true, if_false]

theorem ckpt_outcome_cases_par (concat : List P → P) (env : Env) (cfg : Config) (fs : FS) (chain : List (Node P))
    (n : Nat) :
    (execParCkpt concat env cfg fs chain n).outcome = .finished (execPar concat chain n) ∨
    (env.dirCreatable = false ∧ (execParCkpt concat env cfg fs chain n).outcome = .setupFailed .createDir) ∨
    (env.dirCreatable = true ∧ cfg.autoRecover = true ∧ env.dirExists = true ∧ env.dirListable = false ∧
      (execParCkpt concat env cfg fs chain n).outcome = .setupFailed .readDir) ∨
    ∃ name bytes e, cfg.autoRecover = true ∧ latestD env.isDir (parPid env chain.length n) fs = some name ∧
      env.isDir name = false ∧ env.tooBig name = false ∧ read fs name = some bytes ∧
      load env.H env.dec bytes = .error e ∧ kills e = true ∧
      (execParCkpt concat env cfg fs chain n).outcome = .died e := by
  cases hc : env.dirCreatable with
  | false =>
    right; left
    refine ⟨rfl, ?_⟩
    unfold execParCkpt
    simp [hc]
  | true =>
    rcases recover_cases env cfg (parPid env chain.length n) fs with
      ⟨lg, hlg⟩ | ⟨h1, hex, h2, h3⟩ | ⟨name, bytes, e, h1, _, h2, hd, hb, h3, h4, h5, h6⟩
    · left; exact par_after_recovery concat env cfg fs chain n lg hc hlg
    · right; right; left
      refine ⟨rfl, h1, hex, h2, ?_⟩
      unfold execParCkpt
      simp only [hc, h3, Bool.not_true, Bool.false_eq_true, if_false]
    · right; right; right
      refine ⟨name, bytes, e, h1, h2, hd, hb, h3, h4, h5, ?_⟩
      unfold execParCkpt
      simp only [hc, h6, Bool.not_true, Bool.false_eq_true, if_false]

/-- **The only way leftover files can hurt** (usable directory, ANY decoder): either the run returns exactly the
    plain result, or `auto_recover` is on and the process died inside `load_checkpoint` on the content of the newest
    well-formed checkpoint file of this id. -/
theorem recovery_only_hurts_through_load (env : Env) (cfg : Config) (hdir : DirUsable env cfg) (fs : FS)
    (chain : List (Node P)) :
    (execSeqCkpt env cfg fs chain).outcome = .finished (execSeq chain) ∨
    ∃ name bytes e, cfg.autoRecover = true ∧ latestD env.isDir (seqPid env chain.length) fs = some name ∧
      read fs name = some bytes ∧ load env.H env.dec bytes = .error e ∧ kills e = true ∧
      (execSeqCkpt env cfg fs chain).outcome = .died e := by
  rcases ckpt_outcome_cases env cfg fs chain with
    h | ⟨h, _⟩ | ⟨_, h1, hex, h2, _⟩ | ⟨name, bytes, e, h1, h2, _, _, h3, h4, h5, h6⟩
  · left; exact h
  · rw [hdir.1] at h; cases h
  · rw [hdir.2 h1 hex] at h2; cases h2
  · right; exact ⟨name, bytes, e, h1, h2, h3, h4, h5, h6⟩

/-- **NEGATION without `DirUsable` (1)**: when the configured directory cannot be created (e.g. the path is a regular
    file), BOTH checkpointing engines return the `Err` of `CheckpointManager::new` — for every chain, in particular
    for those whose plain run returns rows — before any node runs and without touching the directory. -/
theorem unusable_directory_not_transparent (concat : List P → P) (env : Env) (hc : env.dirCreatable = false)
    (cfg : Config) (fs : FS) (chain : List (Node P)) (n : Nat) :
    (execSeqCkpt env cfg fs chain).outcome = .setupFailed .createDir ∧
    (execSeqCkpt env cfg fs chain).outcome ≠ .finished (execSeq chain) ∧
    (execSeqCkpt env cfg fs chain).fs = fs ∧
    (execParCkpt concat env cfg fs chain n).outcome = .setupFailed .createDir ∧
    (execParCkpt concat env cfg fs chain n).outcome ≠ .finished (execPar concat chain n) ∧
    (execParCkpt concat env cfg fs chain n).fs = fs := by
  have h1 : execSeqCkpt env cfg fs chain = { outcome := .setupFailed .createDir, fs := fs, log := none } := by
    unfold execSeqCkpt; simp [hc]
  have h2 : execParCkpt concat env cfg fs chain n = { outcome := .setupFailed .createDir, fs := fs, log := none } := by
    unfold execParCkpt; simp [hc]
  rw [h1, h2]
  refine ⟨rfl, ?_, rfl, rfl, ?_, rfl⟩ <;> (intro h; cases h)

/-- **NEGATION without `DirUsable` (2)**: the directory exists but cannot be listed (e.g. mode 0300) and `auto_recover`
    is on: `find_latest_checkpoint(..)?` returns its `Err`. (With `auto_recover` off, or with a path for which
    `exists()` is false, the run goes through.) -/
theorem unlistable_directory_not_transparent (concat : List P → P) (env : Env) (hc : env.dirCreatable = true)
    (he : env.dirExists = true)
    (hl : env.dirListable = false) (cfg : Config) (hrec : cfg.autoRecover = true) (fs : FS) (chain : List (Node P))
    (n : Nat) :
    (execSeqCkpt env cfg fs chain).outcome = .setupFailed .readDir ∧
    (execSeqCkpt env cfg fs chain).fs = fs ∧
    (execParCkpt concat env cfg fs chain n).outcome = .setupFailed .readDir ∧
    (execParCkpt concat env cfg fs chain n).fs = fs := by
  have hr : ∀ pid, recover env cfg pid fs = .error .readDir := by
    intro pid; unfold recover; simp [hrec, he, hl]
  have h1 : execSeqCkpt env cfg fs chain = { outcome := .setupFailed .readDir, fs := fs, log := none } := by
    unfold execSeqCkpt; simp only [hc, hr, Bool.not_true, Bool.false_eq_true, if_false]
  have h2 : execParCkpt concat env cfg fs chain n = { outcome := .setupFailed .readDir, fs := fs, log := none } := by
    unfold execParCkpt; simp only [hc, hr, Bool.not_true, Bool.false_eq_true, if_false]
  rw [h1, h2]
  exact ⟨rfl, rfl, rfl, rfl⟩

/-! ## 2. Clean after success; nothing else is ever touched -/

/-- **Effect of a successful sequential run on the directory, exactly**: it is the initial directory with the
    well-formed checkpoint FILES of this pipeline id removed — whatever was saved on the way (every policy, every
    retention) is gone again, nothing else was created, deleted, renamed or rewritten; sub-directories (own-named ones
    included) stay. -/
theorem ckpt_success_fs (env : Env) (hl : env.dirListable = true) (cfg : Config) (fs : FS) (chain : List (Node P))
    (hf : storeFailsAtEnd env chain.length = false) (v : P) (hok : (execSeqCkpt env cfg fs chain).outcome = .finished (.ok v)) :
    (execSeqCkpt env cfg fs chain).fs = clearD env.isDir (seqPid env chain.length) fs := by
  unfold execSeqCkpt at hok ⊢
  cases hc : env.dirCreatable with
  | false => simp [hc] at hok
  | true =>
  simp only [hc, Bool.not_true, Bool.false_eq_true, if_false] at hok ⊢
  cases hr : recover env cfg (seqPid env chain.length) fs with
  | error e => cases e <;> simp [hr] at hok
  | ok lg =>
    simp only [hr] at hok ⊢
    cases h1 : (runNodes stepSeqCk env cfg (seqPid env chain.length) chain.length 0 chain none (initSt fs)).1 with
    | error e => simp [h1] at hok
    | ok r =>
      cases r with
      | none => simp [h1] at hok
      | some b =>
        simp only [clearRun, hl, hf, Bool.not_false, Bool.and_self, if_true]
        exact clearD_runNodes stepSeqCk env cfg _ _ chain 0 none (initSt fs)

theorem ckpt_success_fs_par (concat : List P → P) (env : Env) (hl : env.dirListable = true) (cfg : Config) (fs : FS)
    (chain : List (Node P)) (hf : storeFailsAtEnd env chain.length = false) (n : Nat) (v : P)
    (hok : (execParCkpt concat env cfg fs chain n).outcome = .finished (.ok v)) :
    (execParCkpt concat env cfg fs chain n).fs = clearD env.isDir (parPid env chain.length n) fs := by
  unfold execParCkpt at hok ⊢
  cases hc : env.dirCreatable with
  | false => simp [hc] at hok
  | true =>
  simp only [hc, Bool.not_true, Bool.false_eq_true, if_false] at hok ⊢
  cases hr : recover env cfg (parPid env chain.length n) fs with
  | error e => cases e <;> simp [hr] at hok
  | ok lg =>
    simp only [hr] at hok ⊢
    cases h1 : execPar concat chain n with
    | ok w => simp only [clearRun, hl, hf, Bool.not_false, Bool.and_self, if_true]
    | error e =>
      simp only [h1] at hok
      split at hok <;> simp at hok

/-- **Clean after success** (sequential): a successful run leaves no well-formed checkpoint FILE of its pipeline id
    behind — neither one it wrote nor one it found. -/
theorem ckpt_clean_after_success (env : Env) (hl : env.dirListable = true) (cfg : Config) (fs : FS)
    (chain : List (Node P)) (hs : storeFailsAtEnd env chain.length = false) (v : P) (hok : (execSeqCkpt env cfg fs chain).outcome = .finished (.ok v)) :
    ∀ f ∈ (execSeqCkpt env cfg fs chain).fs, ownFile env.isDir (seqPid env chain.length) f.1 = false := by
  intro f hf
  rw [ckpt_success_fs env hl cfg fs chain hs v hok] at hf
  exact ((mem_clearD _ _ fs f).mp hf).2

/-- **Clean after success** (parallel). -/
theorem ckpt_clean_after_success_par (concat : List P → P) (env : Env) (hl : env.dirListable = true) (cfg : Config)
    (fs : FS) (chain : List (Node P)) (hs : storeFailsAtEnd env chain.length = false) (n : Nat) (v : P)
    (hok : (execParCkpt concat env cfg fs chain n).outcome = .finished (.ok v)) :
    ∀ f ∈ (execParCkpt concat env cfg fs chain n).fs, ownFile env.isDir (parPid env chain.length n) f.1 = false := by
  intro f hf
  rw [ckpt_success_fs_par concat env hl cfg fs chain hs n v hok] at hf
  exact ((mem_clearD _ _ fs f).mp hf).2

/-- … so when the directory held no own-named SUB-DIRECTORY to begin with, no entry with a well-formed checkpoint name
    of this id is left at all (the statement for a plain directory of files; `Env.isDir = fun _ => false` is the
    special case) -/
theorem ckpt_clean_after_success_no_dirs (env : Env) (hl : env.dirListable = true) (cfg : Config) (fs : FS)
    (chain : List (Node P)) (hs : storeFailsAtEnd env chain.length = false) (v : P) (hok : (execSeqCkpt env cfg fs chain).outcome = .finished (.ok v))
    (hnd : ∀ f ∈ fs, isOwn (seqPid env chain.length) f.1 = true → env.isDir f.1 = false) :
    ∀ f ∈ (execSeqCkpt env cfg fs chain).fs, isOwn (seqPid env chain.length) f.1 = false := by
  intro f hf
  rw [ckpt_success_fs env hl cfg fs chain hs v hok] at hf
  obtain ⟨hin, hof⟩ := (mem_clearD _ _ fs f).mp hf
  cases ho : isOwn (seqPid env chain.length) f.1 with
  | false => rfl
  | true =>
    have := hnd f hin ho
    unfold ownFile at hof
    rw [ho, this] at hof
    cases hof

/-- `clean after success` DOES need a store that works to the end: when the directory cannot be listed (with
    `auto_recover` off, or a path whose `exists()` is false, such a run goes through), or stops being usable while some
    node of the chain runs (`Env.failFrom`), the final `clear_checkpoints(..).ok()` does nothing — the directory is
    exactly what a run killed after its last node leaves (every file that was saved and not removed by retention). -/
theorem unlistable_success_clears_nothing (env : Env) (cfg : Config) (fs : FS) (chain : List (Node P))
    (hl : env.dirListable = false ∨ storeFailsAtEnd env chain.length = true) (v : P) (hok : (execSeqCkpt env cfg fs chain).outcome = .finished (.ok v)) :
    (execSeqCkpt env cfg fs chain).fs = crashFs env cfg fs chain chain.length := by
  unfold execSeqCkpt at hok ⊢
  unfold crashFs
  rw [List.take_length]
  cases hc : env.dirCreatable with
  | false => simp [hc] at hok
  | true =>
  simp only [hc, Bool.not_true, Bool.false_eq_true, if_false] at hok ⊢
  cases hr : recover env cfg (seqPid env chain.length) fs with
  | error e => cases e <;> simp [hr] at hok
  | ok lg =>
    simp only [hr] at hok ⊢
    cases h1 : (runNodes stepSeqCk env cfg (seqPid env chain.length) chain.length 0 chain none (initSt fs)).1 with
    | error e => simp [h1] at hok
    | ok r =>
      cases r with
      | none => simp [h1] at hok
      | some b => rcases hl with hl | hl <;> simp [clearRun, hl]

/-- every name a run can write is a well-formed checkpoint name of its own pipeline id (so "its files" are covered
    by the theorems above) -/
theorem written_name_is_own (pid : Bytes) (ns : Nat) : isOwn pid (fileNameOf pid (stampOf ns)) = true := by
  unfold isOwn
  rw [fileStamp_fileNameOf pid _ (stampOf_le ns)]; rfl

/-- **However a sequential run ends** (result, error half-way, engine panic, death in recovery, set-up `Err`), with
    ANY state of the directory path: every entry that is not a well-formed checkpoint FILE of this pipeline id — foreign
    files, other pipelines' files, every sub-directory — is still there, in place, with its content. -/
theorem other_entries_untouched (env : Env) (cfg : Config) (fs : FS) (chain : List (Node P)) :
    clearD env.isDir (seqPid env chain.length) (execSeqCkpt env cfg fs chain).fs =
      clearD env.isDir (seqPid env chain.length) fs := by
  unfold execSeqCkpt
  split
  · rfl
  · cases hr : recover env cfg (seqPid env chain.length) fs with
    | error e => cases e <;> simp only [hr]
    | ok lg =>
      simp only [hr]
      have hk := clearD_runNodes stepSeqCk env cfg (seqPid env chain.length) chain.length chain 0 none (initSt fs)
      cases h1 : (runNodes stepSeqCk env cfg (seqPid env chain.length) chain.length 0 chain none (initSt fs)).1 with
      | error e => simp only []; exact hk
      | ok r =>
        cases r with
        | none => simp only []; exact hk
        | some b =>
          simp only []
          rw [clearD_clearRun]; exact hk

theorem other_entries_untouched_par (concat : List P → P) (env : Env) (cfg : Config) (fs : FS)
    (chain : List (Node P)) (n : Nat) :
    clearD env.isDir (parPid env chain.length n) (execParCkpt concat env cfg fs chain n).fs =
      clearD env.isDir (parPid env chain.length n) fs := by
  unfold execParCkpt
  split
  · rfl
  · cases hr : recover env cfg (parPid env chain.length n) fs with
    | error e => cases e <;> simp only [hr]
    | ok lg =>
      simp only [hr]
      cases h1 : execPar concat chain n with
      | ok w => simp only []; exact clearD_clearRun _ _ _ _
      | error e =>
        simp only []
        split
        · have := clearD_saveD env.isDir env.dirListable cfg.max fs
            (failedState env (parPid env chain.length n) chain.length n (stampOf (env.clock 0)))
            (by unfold failedState; rw [mkState_ts]; exact stampOf_le _)
          unfold failedState at this ⊢
          rw [mkState_pid] at this
          exact this
        · rfl

/-- the same in terms of names only: everything whose NAME is not a well-formed checkpoint name of this id -/
theorem other_files_untouched (env : Env) (cfg : Config) (fs : FS) (chain : List (Node P)) :
    clear (seqPid env chain.length) (execSeqCkpt env cfg fs chain).fs = clear (seqPid env chain.length) fs := by
  rw [← clear_clearD env.isDir, other_entries_untouched, clear_clearD]

theorem other_files_untouched_par (concat : List P → P) (env : Env) (cfg : Config) (fs : FS) (chain : List (Node P))
    (n : Nat) :
    clear (parPid env chain.length n) (execParCkpt concat env cfg fs chain n).fs =
      clear (parPid env chain.length n) fs := by
  rw [← clear_clearD env.isDir, other_entries_untouched_par, clear_clearD]

/-- in particular: a file of the initial directory that is not a well-formed checkpoint of this id survives -/
theorem foreign_file_survives (env : Env) (cfg : Config) (fs : FS) (chain : List (Node P)) (f : Name × Bytes)
    (hf : f ∈ fs) (hforeign : isOwn (seqPid env chain.length) f.1 = false) :
    f ∈ (execSeqCkpt env cfg fs chain).fs := by
  have h1 : f ∈ clear (seqPid env chain.length) fs := (clear_spec _ fs f).mpr ⟨hf, hforeign⟩
  rw [← other_files_untouched env cfg fs chain] at h1
  exact ((clear_spec _ _ f).mp h1).1

/-- … and so does every sub-directory, even one named like a checkpoint of this id (`checkpoint_<pid>_5.bin/`): the
    final clear cannot remove it (`remove_file(..).ok()`), also after a successful run -/
theorem own_named_directory_survives (env : Env) (cfg : Config) (fs : FS) (chain : List (Node P)) (f : Name × Bytes)
    (hf : f ∈ fs) (hd : env.isDir f.1 = true) : f ∈ (execSeqCkpt env cfg fs chain).fs := by
  have h1 : f ∈ clearD env.isDir (seqPid env chain.length) fs :=
    (mem_clearD _ _ fs f).mpr ⟨hf, by unfold ownFile; rw [hd]; simp⟩
  rw [← other_entries_untouched env cfg fs chain] at h1
  exact ((mem_clearD _ _ _ f).mp h1).1

/-- recovery never looks at a sub-directory: the scan of `find_latest_checkpoint` takes regular files only, so "the
    latest" is never a directory (before the C12 fix "scans take regular files only" it could be, and
    `load_checkpoint` then failed in `read_to_end` — `Checkpoint.Legacy.latestWithDirs`) -/
theorem recovery_never_picks_a_directory (env : Env) (pid : Bytes) (fs : FS) (name : Name)
    (hlatest : latestD env.isDir pid fs = some name) :
    env.isDir name = false ∧ isOwn pid name = true ∧ name ∈ names fs := by
  exact latestD_some env.isDir pid fs name hlatest

/-- an own-named sub-directory with the greatest stamp does not hide the regular files from recovery: the latest is
    computed as if the sub-directories were not there -/
theorem recovery_skips_directories (env : Env) (pid : Bytes) (fs : FS) :
    latestD env.isDir pid fs = latest true pid (fs.filter (fun f => !env.isDir f.1)) := by
  unfold latestD latest latestWith names ownFile
  simp only [Bool.not_true, Bool.false_eq_true, if_false]
  congr 2
  induction fs with
  | nil => rfl
  | cons f fs ih =>
    cases hd : env.isDir f.1 <;> cases ho : isOwn pid f.1 <;> simp [hd, ho, ih]

/-! ### the side effect that is NOT confined to "its own" run: equal-length pipelines share an id

The pipeline id is a hash of the chain LENGTH only (plus the partition count in parallel mode). So two different
pipelines with chains of equal length use the same file names, and a successful run of one clears what a crashed
run of the other left. This does not contradict the property ("leaves none of ITS checkpoint files behind" holds;
results are unaffected because recovered state is never used) — it is recorded here as a fact about the code. The
harness' leftover oracle is stated per pipeline ID for this reason. -/

theorem same_length_same_id (env : Env) (a b : List (Node P)) (h : a.length = b.length) :
    seqPid env a.length = seqPid env b.length := by rw [h]

theorem success_clears_equal_length_pipelines_files (env env' : Env) (hH : env'.H = env.H)
    (hl : env.dirListable = true) (cfg cfg' : Config)
    (fs : FS) (a b : List (Node P)) (hs : storeFailsAtEnd env a.length = false) (hlen : a.length = b.length) (k : Nat)
    (v : P)
    (hok : (execSeqCkpt env cfg (crashFs env' cfg' fs b k) a).outcome = .finished (.ok v)) :
    ∀ f ∈ (execSeqCkpt env cfg (crashFs env' cfg' fs b k) a).fs,
      ownFile env.isDir (seqPid env' b.length) f.1 = false := by
  have hp : seqPid env' b.length = seqPid env a.length := by
    unfold seqPid pipelineId; rw [hH, hlen]
  rw [hp]
  exact ckpt_clean_after_success env hl cfg _ a hs v hok

/-! ## 3. Recovery ignores whatever is in the directory; crashes and torn / garbage files

All theorems of this section are INSTANCES of transparency on an arbitrary directory content (that is their whole
proof): the model's recovery block cannot pass anything on to the node loop, so "what a crashed run left, damaged in
any way" is just one more initial directory. `crashFs` carries content only in `crash_leaves_only_own_files` and in
the correspondence check (the driver computes what a killed run leaves and the harness compares the real directory). -/

/-- **The result does not depend on the initial directory content at all** (complete, torn, garbage, foreign files,
    other pipelines' files, sub-directories — any two contents give the same outcome). -/
theorem recovery_ignores_state (env : Env) (hsafe : SafeDecoder env) (cfg : Config) (hdir : DirUsable env cfg)
    (fs₁ fs₂ : FS) (chain : List (Node P)) :
    (execSeqCkpt env cfg fs₁ chain).outcome = (execSeqCkpt env cfg fs₂ chain).outcome := by
  rw [ckpt_transparent env hsafe cfg hdir fs₁ chain, ckpt_transparent env hsafe cfg hdir fs₂ chain]

theorem recovery_ignores_state_par (concat : List P → P) (env : Env) (hsafe : SafeDecoder env) (cfg : Config)
    (hdir : DirUsable env cfg) (fs₁ fs₂ : FS) (chain : List (Node P)) (n : Nat) :
    (execParCkpt concat env cfg fs₁ chain n).outcome = (execParCkpt concat env cfg fs₂ chain n).outcome := by
  rw [ckpt_transparent_par concat env hsafe cfg hdir fs₁ chain n,
      ckpt_transparent_par concat env hsafe cfg hdir fs₂ chain n]

/-- whatever a killed run leaves behind differs from the directory it started in only in well-formed checkpoint
    FILES of its own pipeline id ("the checkpoint files it left") -/
theorem crash_leaves_only_own_files (env : Env) (cfg : Config) (fs : FS) (chain : List (Node P)) (k : Nat) :
    clearD env.isDir (seqPid env chain.length) (crashFs env cfg fs chain k) =
      clearD env.isDir (seqPid env chain.length) fs :=
  clearD_runNodes stepSeqCk env cfg _ _ (chain.take k) 0 none (initSt fs)

/-- **A run dies at any point, the files are damaged in any way, a later run still completes correctly.**
    First run: any environment (its own clock), any configuration, killed after `k` nodes (`k` arbitrary; nothing is
    cleared). Then ANY transformation of the directory (`tamper`: truncate the newest file at any byte, overwrite
    with garbage, add foreign or look-alike files or sub-directories, delete files — any function). The second run,
    with or without `auto_recover`, returns exactly the checkpoint-free result. -/
theorem crash_then_recover (env₁ env₂ : Env) (hsafe : SafeDecoder env₂) (cfg₁ cfg₂ : Config)
    (hdir : DirUsable env₂ cfg₂) (fs : FS) (chain : List (Node P)) (k : Nat) (tamper : FS → FS) :
    (execSeqCkpt env₂ cfg₂ (tamper (crashFs env₁ cfg₁ fs chain k)) chain).outcome = .finished (execSeq chain) :=
  ckpt_transparent env₂ hsafe cfg₂ hdir _ chain

/-- the same in PARALLEL mode. The parallel engine writes nothing before `exec_par` has returned, so a KILLED parallel
    run leaves the directory as it found it (`tamper` applied to `fs`: take `first := fun d => d`); a FAILED one
    (`Err`) leaves at most the `"Failed"` marker (`first := fun d => (execParCkpt … d …).fs`). -/
theorem crash_then_recover_par (concat : List P → P) (env₂ : Env) (hsafe : SafeDecoder env₂) (cfg₂ : Config)
    (hdir : DirUsable env₂ cfg₂) (fs : FS) (chain : List (Node P)) (n : Nat) (first tamper : FS → FS) :
    (execParCkpt concat env₂ cfg₂ (tamper (first fs)) chain n).outcome = .finished (execPar concat chain n) :=
  ckpt_transparent_par concat env₂ hsafe cfg₂ hdir _ chain n

/-- … and if that second run succeeds, the directory is clean again (the crashed run's files included). -/
theorem crash_then_recover_clean (env₁ env₂ : Env) (hl : env₂.dirListable = true) (cfg₁ cfg₂ : Config) (fs : FS)
    (chain : List (Node P)) (hs : storeFailsAtEnd env₂ chain.length = false) (k : Nat)
    (tamper : FS → FS) (v : P)
    (hok : (execSeqCkpt env₂ cfg₂ (tamper (crashFs env₁ cfg₁ fs chain k)) chain).outcome = .finished (.ok v)) :
    ∀ f ∈ (execSeqCkpt env₂ cfg₂ (tamper (crashFs env₁ cfg₁ fs chain k)) chain).fs,
      ownFile env₂.isDir (seqPid env₂ chain.length) f.1 = false :=
  ckpt_clean_after_success env₂ hl cfg₂ _ chain hs v hok

/-- a file torn at byte `o`: any prefix of its content -/
def tear (name : Name) (o : Nat) (fs : FS) : FS := fs.map (fun f => if f.1 == name then (f.1, f.2.take o) else f)

/-- a file overwritten with arbitrary bytes -/
def overwrite (name : Name) (garbage : Bytes) (fs : FS) : FS :=
  fs.map (fun f => if f.1 == name then (f.1, garbage) else f)

/-- instance of `crash_then_recover` in the property's own words: the newest file torn at ANY byte offset, or
    overwritten with ANY bytes, plus ANY additional files -/
theorem torn_or_garbage_then_recover (env₁ env₂ : Env) (hsafe : SafeDecoder env₂) (cfg₁ cfg₂ : Config)
    (hdir : DirUsable env₂ cfg₂) (fs : FS)
    (chain : List (Node P)) (k : Nat) (name : Name) (o : Nat) (garbage : Bytes) (extra : FS) :
    (execSeqCkpt env₂ cfg₂ (tear name o (crashFs env₁ cfg₁ fs chain k) ++ extra) chain).outcome =
        .finished (execSeq chain) ∧
    (execSeqCkpt env₂ cfg₂ (overwrite name garbage (crashFs env₁ cfg₁ fs chain k) ++ extra) chain).outcome =
        .finished (execSeq chain) :=
  ⟨crash_then_recover env₁ env₂ hsafe cfg₁ cfg₂ hdir fs chain k (fun d => tear name o d ++ extra),
   crash_then_recover env₁ env₂ hsafe cfg₁ cfg₂ hdir fs chain k (fun d => overwrite name garbage d ++ extra)⟩

/-- the same in parallel mode, after a FAILED parallel run (which left its `"Failed"` marker) -/
theorem torn_or_garbage_then_recover_par (concat : List P → P) (env₁ env₂ : Env) (hsafe : SafeDecoder env₂)
    (cfg₁ cfg₂ : Config) (hdir : DirUsable env₂ cfg₂) (fs : FS) (chain : List (Node P)) (n : Nat) (name : Name)
    (o : Nat) (garbage : Bytes) (extra : FS) :
    (execParCkpt concat env₂ cfg₂ (tear name o (execParCkpt concat env₁ cfg₁ fs chain n).fs ++ extra) chain n).outcome =
        .finished (execPar concat chain n) ∧
    (execParCkpt concat env₂ cfg₂ (overwrite name garbage (execParCkpt concat env₁ cfg₁ fs chain n).fs ++ extra)
        chain n).outcome = .finished (execPar concat chain n) :=
  ⟨crash_then_recover_par concat env₂ hsafe cfg₂ hdir fs chain n (fun d => (execParCkpt concat env₁ cfg₁ d chain n).fs)
      (fun d => tear name o d ++ extra),
   crash_then_recover_par concat env₂ hsafe cfg₂ hdir fs chain n (fun d => (execParCkpt concat env₁ cfg₁ d chain n).fs)
      (fun d => overwrite name garbage d ++ extra)⟩

/-! ### `SafeDecoder` is needed: the pinned commit's decoder (DESIGN §8 #8) -/

/-- NEGATION for the pinned commit's unlimited decoder: one nine-byte file (a string length prefix of `2^63`) under
    a well-formed checkpoint name of this pipeline id, `auto_recover` on, a perfectly usable directory — the run does
    not return the plain result: the process panics ("capacity overflow") inside `load_checkpoint`. Every chain, hash,
    policy, clock. -/
theorem legacy_decoder_recovery_dies (H : Bytes → Bytes) (clock : Nat → Nat) (progress : Nat → Nat → UInt8)
    (mem : Nat) (policy : Policy) (max : Option Nat) (chain : List (Node P)) :
    let env : Env := { H := H, dec := Checkpoint.Legacy.cfg mem, clock := clock, progress := progress }
    (execSeqCkpt env { policy := policy, autoRecover := true, max := max }
      [(fileNameOf (seqPid env chain.length) 5, [253, 0, 0, 0, 0, 0, 0, 0, 128])] chain).outcome =
      .died .capacityOverflow := by
  intro env
  have hl := legacy_load_panics H mem
  unfold Checkpoint.Legacy.load at hl
  have hrec : recover env { policy := policy, autoRecover := true, max := max } (seqPid env chain.length)
      [(fileNameOf (seqPid env chain.length) 5, [253, 0, 0, 0, 0, 0, 0, 0, 128])] = .error (.died .capacityOverflow) := by
    unfold recover
    have hli : env.dirListable = true := rfl
    have hex : env.dirExists = true := rfl
    have hnd : ∀ n, env.isDir n = false := fun _ => rfl
    have hnb : ∀ n, env.tooBig n = false := fun _ => rfl
    simp only [Bool.not_true, Bool.false_eq_true, if_false, hli, hex]
    rw [latestD_noDirs _ hnd, latest_single_own _ 5 (by decide)]
    simp only [readD, hnd, hnb, Bool.or_self, Bool.false_eq_true, if_false, read_single]
    show (match load H (Checkpoint.Legacy.cfg mem) [253, 0, 0, 0, 0, 0, 0, 0, 128] with
      | .ok s => Except.ok (RecLog.loaded s)
      | .error e => if kills e then .error (RecFail.died e) else .ok (.rejected e)) = _
    rw [hl]; rfl
  have hc : env.dirCreatable = true := rfl
  unfold execSeqCkpt
  simp only [hc, hrec, Bool.not_true, Bool.false_eq_true, if_false]

/-! ## 3b. Store operations that fail, a path that does not exist, leftovers too large to read

`save_checkpoint` / `clear_checkpoints` results are only logged (`match … { Err(e) => eprintln!(..) }`, `.ok()`): a
store that stops working while the run is in progress (`Env.failFrom`: the directory is renamed / removed / replaced by
a user closure or another process) must not fail the run. `ckpt_transparent` already quantifies over it; the theorems
below say so explicitly, and say what is then left behind. -/

/-- **A store that stops working mid-run never changes the result**: whatever node the directory disappears at (or
    never), the outcome is the same — every later save and the final clear fail silently. -/
theorem store_failure_never_changes_the_result (env : Env) (hsafe : SafeDecoder env) (cfg : Config)
    (hdir : DirUsable env cfg) (fs : FS) (chain : List (Node P)) (k : Option Nat) :
    (execSeqCkpt { env with failFrom := k } cfg fs chain).outcome = .finished (execSeq chain) :=
  ckpt_transparent { env with failFrom := k } hsafe cfg hdir fs chain

theorem store_failure_never_changes_the_result_par (concat : List P → P) (env : Env) (hsafe : SafeDecoder env)
    (cfg : Config) (hdir : DirUsable env cfg) (fs : FS) (chain : List (Node P)) (n : Nat) (k : Option Nat) :
    (execParCkpt concat { env with failFrom := k } cfg fs chain n).outcome = .finished (execPar concat chain n) :=
  ckpt_transparent_par concat { env with failFrom := k } hsafe cfg hdir fs chain n

/-- once the store has failed, no save changes the directory any more -/
theorem failed_save_changes_nothing (env : Env) (cfg : Config) (st : St) (s : State) :
    doSave env cfg true st s = st := rfl

/-- a configured path for which `exists()` is false (the empty path, before the fix): recovery sees nothing and does
    NOT fail, whether or not `read_dir` would -/
theorem recovery_on_nonexistent_path_sees_nothing (env : Env) (he : env.dirExists = false) (cfg : Config)
    (hrec : cfg.autoRecover = true) (pid : Bytes) (fs : FS) : recover env cfg pid fs = .ok .nothing := by
  unfold recover; simp [hrec, he]

/-- a newest own-named file that is too large to be read into memory is logged and ignored -/
theorem too_big_leftover_is_skipped (env : Env) (he : env.dirExists = true) (hl : env.dirListable = true)
    (cfg : Config) (hrec : cfg.autoRecover = true) (pid : Bytes) (fs : FS) (name : Name)
    (hlatest : latestD env.isDir pid fs = some name) (hbig : env.tooBig name = true) :
    recover env cfg pid fs = .ok .unreadable := by
  unfold recover; simp [hrec, he, hl, hlatest, readD, hbig]

/-! ### the code before the fix "an empty checkpoint directory path is the current directory"

`CheckpointConfig { directory: PathBuf::new(), .. }`: `create_dir_all("")` is `Ok(())`, `Path::new("").exists()` is
false, `read_dir("")` fails, `Path::new("").join(name)` is a file in the current directory. In the model that is an
environment with `dirCreatable`, `¬ dirExists`, `¬ dirListable`: the run is transparent, every save writes its file
(retention fails after the write), and the final clear does nothing — REPRODUCED on the real code: a successful run
left all its checkpoint files in the current directory. The fix makes `CheckpointManager::new` replace the empty path
by `"."`, for which all three hold. -/

/-- the directory state the pinned code had for the empty path -/
def Legacy.emptyPathEnv (env : Env) : Env := { env with dirCreatable := true, dirExists := false, dirListable := false }

/-- (pinned code, empty path) the run goes through and returns the plain result … -/
theorem legacy_empty_path_transparent (env : Env) (hsafe : SafeDecoder env) (cfg : Config) (fs : FS)
    (chain : List (Node P)) :
    (execSeqCkpt (Legacy.emptyPathEnv env) cfg fs chain).outcome = .finished (execSeq chain) :=
  ckpt_transparent (Legacy.emptyPathEnv env) hsafe cfg ⟨rfl, fun _ h => by cases h⟩ fs chain

/-- … but **NEGATION of "clean after success" (pinned code, empty path)**: after a successful run the directory is
    what a run killed after its last node leaves — nothing is cleared, and retention never ran. -/
theorem legacy_empty_path_clears_nothing (env : Env) (cfg : Config) (fs : FS) (chain : List (Node P)) (v : P)
    (hok : (execSeqCkpt (Legacy.emptyPathEnv env) cfg fs chain).outcome = .finished (.ok v)) :
    (execSeqCkpt (Legacy.emptyPathEnv env) cfg fs chain).fs = crashFs (Legacy.emptyPathEnv env) cfg fs chain chain.length :=
  unlistable_success_clears_nothing (Legacy.emptyPathEnv env) cfg fs chain (Or.inl rfl) v hok

/-! ## 3c. The terminal downcast (`run_collect::<T>`) and the partition count as the caller writes it -/

section Typed
variable {R : Type}

/-- the two textual copies of `partitions.or(suggested_parts).unwrap_or(self.default_partitions)` in `run_collect`
    (checkpointing branch, plain branch) compute the same partition count -/
theorem partition_resolution_copies_agree (p s : Option Nat) (d : Nat) :
    resolvePartsCk p s d = resolvePartsPlain p s d := rfl

/-- **Transparency of `run_collect::<T>`, sequential**: also for a `T` the terminal partition does not have — then
    both engines return `Err("terminal type mismatch")`. -/
theorem typed_transparent (cast : P → Option R) (env : Env) (hsafe : SafeDecoder env) (cfg : Config)
    (hdir : DirUsable env cfg) (fs : FS) (chain : List (Node P)) :
    (execSeqCkptT cast env cfg fs chain).outcome = .finished (castRes cast (execSeq chain)) := by
  have h := ckpt_transparent env hsafe cfg hdir fs chain
  unfold execSeqCkptT
  simp only [h]
  cases h2 : execSeq chain with
  | error e => rfl
  | ok b =>
    simp only [castRes]
    cases cast b <;> rfl

theorem typed_transparent_par (cast : P → Option R) (concat : List P → P) (env : Env) (hsafe : SafeDecoder env)
    (cfg : Config) (hdir : DirUsable env cfg) (fs : FS) (chain : List (Node P)) (n : Nat) :
    (execParCkptT cast concat env cfg fs chain n).outcome = .finished (castRes cast (execPar concat chain n)) := by
  have h := ckpt_transparent_par concat env hsafe cfg hdir fs chain n
  unfold execParCkptT
  simp only [h]
  cases h2 : execPar concat chain n with
  | error e => rfl
  | ok b =>
    simp only [castRes]
    cases cast b <;> rfl

/-- **`Runner::run_collect::<T>` as the caller writes it** — either mode, `partitions` given or `None` (then the
    planner's suggestion, then `default_partitions`), any `threads`, any requested `T`: the outcome with ANY checkpoint
    configuration (when it is enabled: into a usable directory) on ANY directory content equals the outcome without a
    checkpoint configuration. -/
theorem run_collect_typed_transparent (cast : P → Option R) (concat : List P → P) (env : Env)
    (hsafe : SafeDecoder env) (mode : ModeSpec)
    (dflt : Nat) (suggested : Option Nat) (ck : Option (Bool × Config))
    (hdir : ∀ cfg, ck = some (true, cfg) → DirUsable env cfg) (fs fs' : FS) (chain : List (Node P)) :
    (runCollectT cast concat env { mode := mode, defaultPartitions := dflt, checkpoint := ck } suggested fs chain).outcome =
      (runCollectT cast concat env { mode := mode, defaultPartitions := dflt, checkpoint := none } suggested fs' chain).outcome := by
  unfold runCollectT
  cases ck with
  | none => cases mode <;> rfl
  | some c =>
    obtain ⟨en, cfg⟩ := c
    cases en with
    | false => cases mode <;> rfl
    | true =>
      cases mode with
      | sequential => exact typed_transparent cast env hsafe cfg (hdir cfg rfl) fs chain
      | parallel t p => exact typed_transparent_par cast concat env hsafe cfg (hdir cfg rfl) fs chain _

/-- **A wrong `T`, sequential**: the `Err` comes after the node loop and BEFORE `clear_checkpoints` — every
    checkpoint file the loop saved stays (the directory is what a run killed after its last node leaves). -/
theorem type_mismatch_leaves_what_was_saved (cast : P → Option R) (env : Env) (cfg : Config) (fs : FS)
    (chain : List (Node P)) (b : P) (hb : (execSeqCkpt env cfg fs chain).outcome = .finished (.ok b))
    (hcast : cast b = none) :
    (execSeqCkptT cast env cfg fs chain).outcome = .finished (.error .typeMismatch) ∧
    (execSeqCkptT cast env cfg fs chain).fs = crashFs env cfg fs chain chain.length := by
  unfold execSeqCkptT
  simp only [hb, hcast]
  exact ⟨trivial, trivial⟩

/-- **A wrong `T`, parallel**: `exec_par` itself returns the `Err`, so the `"Failed"` marker is saved. -/
theorem type_mismatch_par_saves_marker (cast : P → Option R) (concat : List P → P) (env : Env) (cfg : Config)
    (fs : FS) (chain : List (Node P)) (n : Nat) (b : P)
    (hb : (execParCkpt concat env cfg fs chain n).outcome = .finished (.ok b)) (hcast : cast b = none)
    (hs : storeFailsAtEnd env chain.length = false) :
    (execParCkptT cast concat env cfg fs chain n).outcome = .finished (.error .typeMismatch) ∧
    (execParCkptT cast concat env cfg fs chain n).fs =
      (saveD env.isDir env.dirListable cfg.max fs
        (failedState env (parPid env chain.length n) chain.length n (stampOf (env.clock 0)))).getD fs := by
  unfold execParCkptT
  simp only [hb, hcast, hs]
  exact ⟨trivial, rfl⟩

/-- **Clean after success, typed**: a `run_collect::<T>` that returns `Ok` leaves no checkpoint file of its id. -/
theorem typed_clean_after_success (cast : P → Option R) (env : Env) (hl : env.dirListable = true) (cfg : Config)
    (fs : FS) (chain : List (Node P)) (hs : storeFailsAtEnd env chain.length = false) (v : R)
    (hok : (execSeqCkptT cast env cfg fs chain).outcome = .finished (.ok v)) :
    ∀ f ∈ (execSeqCkptT cast env cfg fs chain).fs, ownFile env.isDir (seqPid env chain.length) f.1 = false := by
  unfold execSeqCkptT at hok ⊢
  cases ho : (execSeqCkpt env cfg fs chain).outcome with
  | finished r =>
    cases r with
    | error e => simp [ho] at hok
    | ok b =>
      cases hcb : cast b with
      | none => simp [ho, hcb] at hok
      | some w =>
        simp only [ho, hcb]
        exact ckpt_clean_after_success env hl cfg fs chain hs b ho
  | died e => simp [ho] at hok
  | setupFailed e => simp [ho] at hok

theorem typed_clean_after_success_par (cast : P → Option R) (concat : List P → P) (env : Env)
    (hl : env.dirListable = true) (cfg : Config) (fs : FS) (chain : List (Node P))
    (hs : storeFailsAtEnd env chain.length = false) (n : Nat) (v : R)
    (hok : (execParCkptT cast concat env cfg fs chain n).outcome = .finished (.ok v)) :
    ∀ f ∈ (execParCkptT cast concat env cfg fs chain n).fs,
      ownFile env.isDir (parPid env chain.length n) f.1 = false := by
  unfold execParCkptT at hok ⊢
  cases ho : (execParCkpt concat env cfg fs chain n).outcome with
  | finished r =>
    cases r with
    | error e => simp [ho] at hok
    | ok b =>
      cases hcb : cast b with
      | none => simp [ho, hcb] at hok
      | some w =>
        simp only [ho, hcb]
        exact ckpt_clean_after_success_par concat env hl cfg fs chain hs n b ho
  | died e => simp [ho] at hok
  | setupFailed e => simp [ho] at hok

/-- **Clean after success at the level of `Runner::run_collect::<T>`** (either mode, `partitions` given or `None`):
    whenever a run with an ENABLED checkpoint configuration returns `Ok` — and the store worked to the end — the
    directory holds no checkpoint file of the pipeline id the run used. -/
theorem run_collect_clean_after_success (cast : P → Option R) (concat : List P → P) (env : Env)
    (hl : env.dirListable = true) (mode : ModeSpec) (dflt : Nat) (suggested : Option Nat) (cfg : Config) (fs : FS)
    (chain : List (Node P)) (hs : storeFailsAtEnd env chain.length = false) (v : R)
    (hok : (runCollectT cast concat env { mode := mode, defaultPartitions := dflt, checkpoint := some (true, cfg) }
              suggested fs chain).outcome = .finished (.ok v)) :
    ∀ f ∈ (runCollectT cast concat env { mode := mode, defaultPartitions := dflt, checkpoint := some (true, cfg) }
              suggested fs chain).fs,
      ownFile env.isDir
        (match mode with
         | .sequential => seqPid env chain.length
         | .parallel _ p => parPid env chain.length (resolvePartsCk p suggested dflt)) f.1 = false := by
  cases mode with
  | sequential => exact typed_clean_after_success cast env hl cfg fs chain hs v hok
  | parallel t p => exact typed_clean_after_success_par cast concat env hl cfg fs chain hs _ v hok

/-- however a typed sequential run ends (the type mismatch included), nothing but checkpoint files of its own id is
    touched -/
theorem typed_other_entries_untouched (cast : P → Option R) (env : Env) (cfg : Config) (fs : FS)
    (chain : List (Node P)) :
    clearD env.isDir (seqPid env chain.length) (execSeqCkptT cast env cfg fs chain).fs =
      clearD env.isDir (seqPid env chain.length) fs := by
  have h := other_entries_untouched env cfg fs chain
  unfold execSeqCkptT
  cases ho : (execSeqCkpt env cfg fs chain).outcome with
  | finished r =>
    cases r with
    | error e => simpa [ho] using h
    | ok b =>
      cases hcb : cast b with
      | none =>
        simp only [ho, hcb]
        exact crash_leaves_only_own_files env cfg fs chain chain.length
      | some w => simpa [ho, hcb] using h
  | died e => simpa [ho] using h
  | setupFailed e => simpa [ho] using h

end Typed

/-! ## 4. The pinned commit: no `CoGroup` arm (DESIGN §8 #7) -/

/-- **PARTIAL (pinned commit)**: on join-free chains the old engine was transparent too. -/
theorem legacy_ckpt_transparent_partial (env : Env) (hsafe : SafeDecoder env) (cfg : Config)
    (hdir : DirUsable env cfg) (fs : FS)
    (chain : List (Node P)) (hno : hasCoGroup chain = false) :
    (Legacy.execSeqCkpt env cfg fs chain).outcome = .finished (Legacy.lift (execSeq chain)) := by
  obtain ⟨lg, hlg⟩ := recover_ok_of_noCrash env cfg (seqPid env chain.length) fs hdir.2 hsafe
  unfold Legacy.execSeqCkpt
  simp only [hdir.1, hlg, Bool.not_true, Bool.false_eq_true, if_false]
  rw [legacy_runNodes_result env cfg _ _ chain hno, execSeq_eq_seqFold]
  cases h : seqFold chain none with
  | error e => rfl
  | ok r =>
    cases r with
    | none => rfl
    | some b => rfl

/-- **NEGATION (pinned commit), every join**: if the nodes before the first `CoGroup` run through (they always do
    for a chain the builders produce: a join restarts the chain at a dummy source), the old sequential checkpointing
    engine returns `Err("CoGroup requires subplan execution")` — whatever the join would have produced. -/
theorem legacy_ckpt_fails_on_join (env : Env) (hsafe : SafeDecoder env) (cfg : Config)
    (hdir : DirUsable env cfg) (fs : FS)
    (pre post : List (Node P)) (l r : List (Node P)) (coL coR : List P → P) (ex : P → P → P)
    (hno : hasCoGroup pre = false) (cur : Option P) (hpre : seqFold pre none = .ok cur) :
    (Legacy.execSeqCkpt env cfg fs (pre ++ .coGroup l r coL coR ex :: post)).outcome =
      .finished (.error .coGroupRequiresSubplan) := by
  obtain ⟨lg, hlg⟩ :=
    recover_ok_of_noCrash env cfg (seqPid env (pre ++ .coGroup l r coL coR ex :: post).length) fs hdir.2 hsafe
  unfold Legacy.execSeqCkpt
  simp only [hdir.1, hlg, Bool.not_true, Bool.false_eq_true, if_false]
  have key : ∀ (pre : List (Node P)) (hno : hasCoGroup pre = false) (idx : Nat) (c0 : Option P) (st : St)
      (total : Nat) (pid : Bytes), seqFold pre c0 = .ok cur →
      (runNodes Legacy.stepSeqCk env cfg pid total idx (pre ++ .coGroup l r coL coR ex :: post) c0 st).1 =
        .error .coGroupRequiresSubplan := by
    intro pre
    induction pre with
    | nil => intro _ idx c0 st total pid _; rfl
    | cons n rest ih =>
      intro hno idx c0 st total pid hfold
      have hn : hasCoGroup [n] = false := by cases n <;> first | rfl | (simp [hasCoGroup] at hno)
      have hrest : hasCoGroup rest = false := by cases n <;> first | exact hno | (simp [hasCoGroup] at hno)
      rw [List.cons_append]
      unfold runNodes
      rw [legacy_step_of_not_coGroup c0 n hn]
      unfold seqFold at hfold
      rw [List.foldlM_cons] at hfold
      cases h : stepSeq c0 n with
      | error e => rw [h] at hfold; cases hfold
      | ok b =>
        rw [h] at hfold
        simp only [Legacy.lift]
        exact ih hrest (idx + 1) (some b) _ total pid hfold
  rw [key pre hno 0 none (initSt fs) _ _ hpre]

/-- **NEGATION (pinned commit) on the chains the BUILDERS produce**: for every left input, every right input and
    right-side steps, every join kind, every policy / retention / directory — sequential mode with checkpointing
    returned `Err("CoGroup requires subplan execution")` for `left.join_*(right)`. -/
theorem legacy_ckpt_fails_on_builder_join (env : Env) (hsafe : SafeDecoder env) (cfg : Config)
    (hdir : DirUsable env cfg) (fs : FS)
    (src rsrc : List Val) (k : JoinKind) (rsteps : List Step) :
    (Legacy.execSeqCkpt env cfg fs (optimise (litChain src [.join k rsrc rsteps]))).outcome =
      .finished (.error .coGroupRequiresSubplan) := by
  obtain ⟨l, r, coL, coR, ex, post, h⟩ : ∃ l r coL coR ex post,
      optimise (litChain src [.join k rsrc rsteps]) = [dummySource] ++ .coGroup l r coL coR ex :: post :=
    ⟨_, _, _, _, _, _, rfl⟩
  rw [h]
  exact legacy_ckpt_fails_on_join env hsafe cfg hdir fs [dummySource] post l r coL coR ex rfl (some [.int 0]) rfl

section Witness

/-- a one-join chain over `P := Nat`, shaped as the builders shape it: dummy source, `CoGroup` holding both sides'
    chains, a trailing stateless node -/
def wChain : List (Node Nat) :=
  [ .source 0 1 (fun _ => [0]),
    .coGroup [.source 20 1 (fun _ => [20])] [.source 22 1 (fun _ => [22])] List.sum List.sum (fun a b => a + b),
    .stateless [{ apply := fun x => x + 1 }] ]

/-- the plain engines return a result on it … -/
theorem witness_plain_result : execSeq wChain = .ok 43 ∧ execPar List.sum wChain 4 = .ok 43 := by
  constructor <;> rfl

/-- … the CURRENT checkpointing engine returns the same (instance of `ckpt_transparent`) … -/
theorem witness_current_result (env : Env) (hsafe : SafeDecoder env) (cfg : Config) (hdir : DirUsable env cfg)
    (fs : FS) : (execSeqCkpt env cfg fs wChain).outcome = .finished (.ok 43) := by
  rw [ckpt_transparent env hsafe cfg hdir fs wChain]; rfl

/-- … the pinned commit's engine fails (NEGATION of transparency for the old code). -/
theorem witness_legacy_fails (env : Env) (hsafe : SafeDecoder env) (cfg : Config) (hdir : DirUsable env cfg)
    (fs : FS) : (Legacy.execSeqCkpt env cfg fs wChain).outcome = .finished (.error .coGroupRequiresSubplan) :=
  legacy_ckpt_fails_on_join env hsafe cfg hdir fs [.source 0 1 (fun _ => [0])] _ _ _ _ _ _ rfl (some 0) rfl

/-- … and the current engine with a checkpoint directory that cannot be created does not return it either (NEGATION
    of transparency without `DirUsable`, on a concrete chain whose plain result is `Ok 43`). -/
theorem witness_unusable_directory (env : Env) (hc : env.dirCreatable = false) (cfg : Config) (fs : FS) :
    execSeq wChain = .ok 43 ∧ (execSeqCkpt env cfg fs wChain).outcome = .setupFailed .createDir ∧
    (execSeqCkpt env cfg fs wChain).outcome ≠ .finished (.ok 43) := by
  obtain ⟨h1, _, _, _, _, _⟩ := unusable_directory_not_transparent List.sum env hc cfg fs wChain 1
  refine ⟨rfl, h1, ?_⟩
  rw [h1]; intro h; cases h

end Witness

/-! ## Non-vacuity -/

section NonVacuity

/-- a safe environment exists (identity "hash", the running code's decode limit, a usable directory without
    sub-directories) -/
def exEnv : Env :=
  { H := id, dec := currentCfg IB.Generated.ckptDecodeLimit, clock := fun k => 1700000000000000000 + k * 1000000,
    progress := fun i t => UInt8.ofNat (i * 100 / t) }

theorem exEnv_safe : SafeDecoder exEnv := current_decoder_safe exEnv _ (Nat.le_refl _) rfl
theorem exEnv_usable (cfg : Config) : DirUsable exEnv cfg := dirUsable_of exEnv cfg rfl rfl

/-- checkpoints really are written: under `AfterEveryBarrier`, keep-all retention, a run killed right after its
    barrier node leaves exactly the record of that node behind (so the clean-up theorems are not about an engine that
    never saves) -/
example :
    crashFs exEnv { policy := .afterEveryBarrier, autoRecover := true, max := none } [] wChain 2 =
      [(fileNameOf (seqPid exEnv 3) (stampOf (exEnv.clock 0)),
        encode (seqState exEnv (seqPid exEnv 3) 1 3 (stampOf (exEnv.clock 0)) (ascii "CoGroup")))] := rfl

/-- … and after the full run it is gone again -/
example : (execSeqCkpt exEnv { policy := .afterEveryBarrier, autoRecover := true, max := none } [] wChain).fs = [] := by
  rw [ckpt_success_fs exEnv rfl _ [] wChain rfl 43 (witness_current_result exEnv exEnv_safe _ (exEnv_usable _) [])]
  rfl

/-- the hypotheses of `crash_then_recover_clean` / `success_clears_equal_length_pipelines_files` are satisfiable:
    a run killed after its barrier, the record it left torn at byte 7, then a successful run -/
example :
    (execSeqCkpt exEnv { policy := .timeInterval 0, autoRecover := true, max := some 1 }
      (tear (fileNameOf (seqPid exEnv 3) (stampOf (exEnv.clock 0))) 7
        (crashFs exEnv { policy := .afterEveryBarrier, autoRecover := true, max := none } [] wChain 2)) wChain).outcome
      = .finished (.ok 43) :=
  witness_current_result exEnv exEnv_safe _ (exEnv_usable _) _

/-- the same environment, but the entry `checkpoint_<pid>_5.bin` of the checkpoint directory is a sub-directory -/
def exEnvDir : Env := { exEnv with isDir := fun n => n == fileNameOf (seqPid exEnv 3) 5 }

/-- an own-named sub-directory: it IS a candidate of all three scans (well-formed name) … -/
example : isOwn (seqPid exEnvDir 3) (fileNameOf (seqPid exEnv 3) 5) = true := by
  unfold isOwn
  rw [show seqPid exEnvDir 3 = seqPid exEnv 3 from rfl, fileStamp_fileNameOf _ 5 (by decide)]; rfl

/-- … the run over it still returns the plain result (instance of `ckpt_transparent`) … -/
example (cfg : Config) :
    (execSeqCkpt exEnvDir cfg [(fileNameOf (seqPid exEnv 3) 5, [])] wChain).outcome = .finished (.ok 43) :=
  witness_current_result exEnvDir (current_decoder_safe exEnvDir _ (Nat.le_refl _) rfl) cfg
    (dirUsable_of exEnvDir cfg rfl rfl) _

/-- … and it is still there after that successful run (instance of `own_named_directory_survives`): "clean after
    success" cannot be claimed for own-named sub-directories -/
example (cfg : Config) :
    (fileNameOf (seqPid exEnv 3) 5, []) ∈ (execSeqCkpt exEnvDir cfg [(fileNameOf (seqPid exEnv 3) 5, [])] wChain).fs :=
  own_named_directory_survives exEnvDir cfg _ wChain _ (List.mem_singleton.mpr rfl)
    (by show (fileNameOf (seqPid exEnv 3) 5 == fileNameOf (seqPid exEnv 3) 5) = true; simp)

/-- **NEGATION witness (pinned code, empty path)**: a successful run of `wChain` under `AfterEveryBarrier` — even with
    retention `Some(0)` — returns the plain result and leaves the record of its barrier node behind (in the current
    directory): "a successful run leaves none of its checkpoint files behind" was false there. -/
theorem legacy_empty_path_witness :
    (execSeqCkpt (Legacy.emptyPathEnv exEnv) { policy := .afterEveryBarrier, autoRecover := true, max := some 0 } []
        wChain).outcome = .finished (.ok 43) ∧
    (execSeqCkpt (Legacy.emptyPathEnv exEnv) { policy := .afterEveryBarrier, autoRecover := true, max := some 0 } []
        wChain).fs =
      [(fileNameOf (seqPid exEnv 3) (stampOf (exEnv.clock 0)),
        encode (seqState exEnv (seqPid exEnv 3) 1 3 (stampOf (exEnv.clock 0)) (ascii "CoGroup")))] := ⟨rfl, rfl⟩

/-- the hypotheses of `unlistable_success_clears_nothing` (store failing mid-run) are satisfiable, and the statement
    has content: the checkpoint directory is taken away while node 2 of `wChain` runs; under `EveryNNodes 1` the run
    still returns 43, the record saved after node 1 is what stays, the save after node 2 and the final clear failed -/
example :
    (execSeqCkpt { exEnv with failFrom := some 2 } { policy := .everyNNodes 1, autoRecover := false, max := none } []
        wChain).outcome = .finished (.ok 43) ∧
    (execSeqCkpt { exEnv with failFrom := some 2 } { policy := .everyNNodes 1, autoRecover := false, max := none } []
        wChain).fs =
      [(fileNameOf (seqPid exEnv 3) (stampOf (exEnv.clock 0)),
        encode (seqState exEnv (seqPid exEnv 3) 1 3 (stampOf (exEnv.clock 0)) (ascii "CoGroup")))] := ⟨rfl, rfl⟩

/-- a wrong `T` (`cast = fun _ => none`): the typed run returns the type mismatch and keeps the record (instance of
    `type_mismatch_leaves_what_was_saved`) -/
example :
    (execSeqCkptT (R := Nat) (fun _ => none) exEnv { policy := .afterEveryBarrier, autoRecover := false, max := none } []
        wChain).outcome = .finished (.error .typeMismatch) ∧
    (execSeqCkptT (R := Nat) (fun _ => none) exEnv { policy := .afterEveryBarrier, autoRecover := false, max := none } []
        wChain).fs =
      [(fileNameOf (seqPid exEnv 3) (stampOf (exEnv.clock 0)),
        encode (seqState exEnv (seqPid exEnv 3) 1 3 (stampOf (exEnv.clock 0)) (ascii "CoGroup")))] := ⟨rfl, rfl⟩

/-- `EveryNNodes 0` never saves (`is_multiple_of(0)` is `== 0`, and index 0 is excluded) -/
example (idx : Nat) (b : Bool) (last : Option Nat) (now : Nat) :
    shouldCheckpoint true (.everyNNodes 0) last now idx b = false := by
  unfold shouldCheckpoint
  cases idx with
  | zero => simp
  | succ k => simp

end NonVacuity

end IB.CheckpointRun
