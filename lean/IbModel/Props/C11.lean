import IbModel.Proofs.CheckpointRun
import IbModel.Props.C12
import IbModel.Model.Program
import IbModel.Generated.Tables
/-!
# C11 — checkpointing is transparent, cleans up after success and survives crashes

Property theorems about `IB.CheckpointRun` (model of `exec_seq_with_checkpointing` / `exec_par_with_checkpointing`
in `src/runner.rs`, see `Model/CheckpointRun.lean`), on top of the engine model (`Model/Engine.lean`) and the
checkpoint store (`Model/Checkpoint.lean`, C12). Helper lemmas: `Proofs/CheckpointRun.lean`.

Everything is quantified over: every partition type `P` and every chain (all seven node kinds, joins included, any
closures), every policy (`AfterEveryBarrier`, `EveryNNodes n` incl. `0`, `TimeInterval s`, `Hybrid b s`), every
retention (`None`, `Some m` incl. `0`), `auto_recover` on or off, every initial directory (any names, any bytes),
every hash function, every clock script (not even monotone), every partition count.

The ONE thing taken from elsewhere is that `load_checkpoint` returns on every input (`SafeDecoder`); for the
running code that is C12's `load_never_crashes` (its decode limit is re-read from the code on every run). The
theorem `recovery_only_hurts_through_load` shows this is exactly what is needed: without it the only other outcome
is the process dying inside `load_checkpoint` — witnessed for the pinned commit's unlimited decoder.
-/
namespace IB.CheckpointRun
open IB IB.Checkpoint

variable {P : Type}

/-- `load_checkpoint` of this environment returns (`Ok` or `Err`) on every file content: no panic, no abort -/
def SafeDecoder (env : Env) : Prop := ∀ bytes, NoCrash (load env.H env.dec bytes)

/-- the running code's decoder (limit printed from the code into `Generated/Tables.lean`), with an allocator that
    can satisfy a request of that size, is safe — C12's `load_never_crashes` -/
theorem current_decoder_safe (env : Env) (mem : Nat) (hmem : IB.Generated.ckptDecodeLimit ≤ mem)
    (hdec : env.dec = currentCfg mem) : SafeDecoder env := by
  intro bytes
  rw [hdec]
  exact load_never_crashes env.H mem hmem bytes

/-! ## 1. Transparency -/

/-- **The second copy of the node match is the first**: the checkpointing engine's per-node code computes, for
    every node kind (Source, Stateless, GroupByKey, CombineValues, CoGroup, Materialized, CombineGlobal) and every
    buffer, exactly what `exec_seq`'s does. -/
theorem ckpt_engine_mirrors_plain (cur : Option P) (n : Node P) : stepSeqCk cur n = stepSeq cur n :=
  stepSeqCk_eq_stepSeq cur n

/-- **Transparency, sequential**: with checkpointing enabled the run returns exactly what `exec_seq` returns —
    every chain, policy, retention, `auto_recover`, initial directory, hash, clock. -/
theorem ckpt_transparent (env : Env) (hsafe : SafeDecoder env) (cfg : Config) (fs : FS) (chain : List (Node P)) :
    (execSeqCkpt env cfg fs chain).outcome = .finished (execSeq chain) := by
  obtain ⟨lg, hlg⟩ := recover_ok_of_noCrash env cfg (seqPid env chain.length) fs hsafe
  unfold execSeqCkpt
  simp only [hlg]
  rw [runNodes_result, execSeq_eq_seqFold]
  cases h : seqFold chain none with
  | error e => rfl
  | ok r =>
    cases r with
    | none => rfl
    | some b => rfl

/-- **Transparency, parallel**: likewise `exec_par`, for every partition count. -/
theorem ckpt_transparent_par (concat : List P → P) (env : Env) (hsafe : SafeDecoder env) (cfg : Config) (fs : FS)
    (chain : List (Node P)) (n : Nat) :
    (execParCkpt concat env cfg fs chain n).outcome = .finished (execPar concat chain n) := by
  obtain ⟨lg, hlg⟩ := recover_ok_of_noCrash env cfg (parPid env chain.length n) fs hsafe
  unfold execParCkpt
  simp only [hlg]
  cases h : execPar concat chain n with
  | ok v => rfl
  | error e =>
    simp only []
    split <;> rfl

/-- **Transparency for the code as configured today** (both modes): whatever the hash, clock and `f64` progress
    function are, with the decode limit the running code has. -/
theorem ckpt_transparent_current (H : Bytes → Bytes) (clock : Nat → Nat) (progress : Nat → Nat → UInt8) (mem : Nat)
    (hmem : IB.Generated.ckptDecodeLimit ≤ mem) (concat : List P → P) (cfg : Config) (fs : FS)
    (chain : List (Node P)) (n : Nat) :
    let env : Env := { H := H, dec := currentCfg mem, clock := clock, progress := progress }
    (execSeqCkpt env cfg fs chain).outcome = .finished (execSeq chain) ∧
    (execParCkpt concat env cfg fs chain n).outcome = .finished (execPar concat chain n) := by
  intro env
  have hs : SafeDecoder env := current_decoder_safe env mem hmem rfl
  exact ⟨ckpt_transparent env hs cfg fs chain, ckpt_transparent_par concat env hs cfg fs chain n⟩

/-- **`Runner::run_collect`**: for every runner (either mode, any partition count) the outcome with ANY checkpoint
    configuration — enabled or not, any policy, retention, `auto_recover` — on ANY directory equals the outcome of the
    same runner without a checkpoint configuration. -/
theorem run_collect_transparent (concat : List P → P) (env : Env) (hsafe : SafeDecoder env) (mode : ExecMode)
    (ck : Option (Bool × Config)) (fs fs' : FS) (chain : List (Node P)) :
    (runCollect concat env { mode := mode, checkpoint := ck } fs chain).outcome =
      (runCollect concat env { mode := mode, checkpoint := none } fs' chain).outcome := by
  unfold runCollect
  cases ck with
  | none => cases mode <;> rfl
  | some c =>
    obtain ⟨en, cfg⟩ := c
    cases en with
    | false => cases mode <;> rfl
    | true =>
      cases mode with
      | sequential => exact ckpt_transparent env hsafe cfg fs chain
      | parallel n => exact ckpt_transparent_par concat env hsafe cfg fs chain n

/-- without an enabled checkpoint configuration the directory is not touched -/
theorem run_collect_disabled_touches_nothing (concat : List P → P) (env : Env) (mode : ExecMode) (cfg : Config)
    (fs : FS) (chain : List (Node P)) :
    (runCollect concat env { mode := mode, checkpoint := none } fs chain).fs = fs ∧
    (runCollect concat env { mode := mode, checkpoint := some (false, cfg) } fs chain).fs = fs := by
  unfold runCollect
  cases mode <;> exact ⟨rfl, rfl⟩

/-- **Transparency for the pipelines the builders produce** (the programs of the correspondence check: any source
    rows, any sequence of builder calls — element-wise steps, barriers, global combines, joins): `run_collect` with
    checkpointing returns what the plain sequential / parallel run of the planned chain returns
    (`runSeq` / `runPar` of `Model/Program.lean`, the model C01–C07 are about). -/
theorem ckpt_transparent_program (env : Env) (hsafe : SafeDecoder env) (cfg : Config) (fs : FS)
    (src : List Val) (steps : List Step) (n : Nat) :
    (execSeqCkpt env cfg fs (optimise (litChain src steps))).outcome = .finished (runSeq src steps) ∧
    (execParCkpt List.flatten env cfg fs (optimise (litChain src steps)) n).outcome = .finished (runPar src steps n) :=
  ⟨ckpt_transparent env hsafe cfg fs _, ckpt_transparent_par List.flatten env hsafe cfg fs _ n⟩

/-! ## 2. Clean after success; nothing else is ever touched -/

/-- **Effect of a successful sequential run on the directory, exactly**: it is the initial directory with the
    well-formed checkpoint files of this pipeline id removed — whatever was saved on the way (every policy, every
    retention) is gone again, nothing else was created, deleted, renamed or rewritten. -/
theorem ckpt_success_fs (env : Env) (cfg : Config) (fs : FS) (chain : List (Node P)) (v : P)
    (hok : (execSeqCkpt env cfg fs chain).outcome = .finished (.ok v)) :
    (execSeqCkpt env cfg fs chain).fs = clear (seqPid env chain.length) fs := by
  unfold execSeqCkpt at hok ⊢
  cases hr : recover env cfg (seqPid env chain.length) fs with
  | error e => simp [hr] at hok
  | ok lg =>
    simp only [hr] at hok ⊢
    cases h1 : (runNodes stepSeqCk env cfg (seqPid env chain.length) chain.length 0 chain none (initSt fs)).1 with
    | error e => simp [h1] at hok
    | ok r =>
      cases r with
      | none => simp [h1] at hok
      | some b =>
        exact clear_runNodes stepSeqCk env cfg _ _ chain 0 none (initSt fs)

theorem ckpt_success_fs_par (concat : List P → P) (env : Env) (cfg : Config) (fs : FS) (chain : List (Node P))
    (n : Nat) (v : P) (hok : (execParCkpt concat env cfg fs chain n).outcome = .finished (.ok v)) :
    (execParCkpt concat env cfg fs chain n).fs = clear (parPid env chain.length n) fs := by
  unfold execParCkpt at hok ⊢
  cases hr : recover env cfg (parPid env chain.length n) fs with
  | error e => simp [hr] at hok
  | ok lg =>
    simp only [hr] at hok ⊢
    cases h1 : execPar concat chain n with
    | ok w => rfl
    | error e =>
      simp only [h1] at hok
      split at hok <;> simp at hok

/-- **Clean after success** (sequential): a successful run leaves no well-formed checkpoint file of its pipeline id
    behind — neither one it wrote nor one it found. -/
theorem ckpt_clean_after_success (env : Env) (cfg : Config) (fs : FS) (chain : List (Node P)) (v : P)
    (hok : (execSeqCkpt env cfg fs chain).outcome = .finished (.ok v)) :
    ∀ f ∈ (execSeqCkpt env cfg fs chain).fs, isOwn (seqPid env chain.length) f.1 = false := by
  intro f hf
  rw [ckpt_success_fs env cfg fs chain v hok] at hf
  exact ((clear_spec _ fs f).mp hf).2

/-- **Clean after success** (parallel). -/
theorem ckpt_clean_after_success_par (concat : List P → P) (env : Env) (cfg : Config) (fs : FS)
    (chain : List (Node P)) (n : Nat) (v : P)
    (hok : (execParCkpt concat env cfg fs chain n).outcome = .finished (.ok v)) :
    ∀ f ∈ (execParCkpt concat env cfg fs chain n).fs, isOwn (parPid env chain.length n) f.1 = false := by
  intro f hf
  rw [ckpt_success_fs_par concat env cfg fs chain n v hok] at hf
  exact ((clear_spec _ fs f).mp hf).2

/-- every name a run can write is a well-formed checkpoint name of its own pipeline id (so "its files" are covered
    by the two theorems above) -/
theorem written_name_is_own (pid : Bytes) (ns : Nat) : isOwn pid (fileNameOf pid (stampOf ns)) = true := by
  unfold isOwn
  rw [fileStamp_fileNameOf pid _ (stampOf_le ns)]; rfl

/-- **However a sequential run ends** (result, error half-way, engine panic, death in recovery) every file that is
    not a well-formed checkpoint of this pipeline id is still there, in place, with its content. -/
theorem other_files_untouched (env : Env) (cfg : Config) (fs : FS) (chain : List (Node P)) :
    clear (seqPid env chain.length) (execSeqCkpt env cfg fs chain).fs = clear (seqPid env chain.length) fs := by
  unfold execSeqCkpt
  cases hr : recover env cfg (seqPid env chain.length) fs with
  | error e => simp only [hr]
  | ok lg =>
    simp only [hr]
    have hk : clear (seqPid env chain.length)
        (runNodes stepSeqCk env cfg (seqPid env chain.length) chain.length 0 chain none (initSt fs)).2.fs =
        clear (seqPid env chain.length) fs :=
      clear_runNodes stepSeqCk env cfg (seqPid env chain.length) chain.length chain 0 none (initSt fs)
    cases h1 : (runNodes stepSeqCk env cfg (seqPid env chain.length) chain.length 0 chain none (initSt fs)).1 with
    | error e => simp only []; exact hk
    | ok r =>
      cases r with
      | none => simp only []; exact hk
      | some b =>
        simp only []
        rw [clear_idem]; exact hk

theorem other_files_untouched_par (concat : List P → P) (env : Env) (cfg : Config) (fs : FS) (chain : List (Node P))
    (n : Nat) :
    clear (parPid env chain.length n) (execParCkpt concat env cfg fs chain n).fs =
      clear (parPid env chain.length n) fs := by
  unfold execParCkpt
  cases hr : recover env cfg (parPid env chain.length n) fs with
  | error e => simp only [hr]
  | ok lg =>
    simp only [hr]
    cases h1 : execPar concat chain n with
    | ok w => simp only []; rw [clear_idem]
    | error e =>
      simp only []
      split
      · have := clear_save cfg.max fs
          (failedState env (parPid env chain.length n) chain.length n (stampOf (env.clock 0)))
          (by unfold failedState; rw [mkState_ts]; exact stampOf_le _)
        unfold failedState at this ⊢
        rw [mkState_pid] at this
        exact this
      · rfl

/-- in particular: a file of the initial directory that is not a well-formed checkpoint of this id survives -/
theorem foreign_file_survives (env : Env) (cfg : Config) (fs : FS) (chain : List (Node P)) (f : Name × Bytes)
    (hf : f ∈ fs) (hforeign : isOwn (seqPid env chain.length) f.1 = false) :
    f ∈ (execSeqCkpt env cfg fs chain).fs := by
  have h1 : f ∈ clear (seqPid env chain.length) fs := (clear_spec _ fs f).mpr ⟨hf, hforeign⟩
  rw [← other_files_untouched env cfg fs chain] at h1
  exact ((clear_spec _ _ f).mp h1).1

/-! ### the side effect that is NOT confined to "its own" run: equal-length pipelines share an id

The pipeline id is a hash of the chain LENGTH only (plus the partition count in parallel mode). So two different
pipelines with chains of equal length use the same file names, and a successful run of one clears what a crashed
run of the other left. This does not contradict the property ("leaves none of ITS checkpoint files behind" holds;
results are unaffected because recovered state is never used) — it is recorded here as a fact about the code. -/

theorem same_length_same_id (env : Env) (a b : List (Node P)) (h : a.length = b.length) :
    seqPid env a.length = seqPid env b.length := by rw [h]

theorem success_clears_equal_length_pipelines_files (env env' : Env) (hH : env'.H = env.H) (cfg cfg' : Config)
    (fs : FS) (a b : List (Node P)) (hlen : a.length = b.length) (k : Nat) (v : P)
    (hok : (execSeqCkpt env cfg (crashFs env' cfg' fs b k) a).outcome = .finished (.ok v)) :
    ∀ f ∈ (execSeqCkpt env cfg (crashFs env' cfg' fs b k) a).fs, isOwn (seqPid env' b.length) f.1 = false := by
  have hp : seqPid env' b.length = seqPid env a.length := by
    unfold seqPid pipelineId; rw [hH, hlen]
  rw [hp]
  exact ckpt_clean_after_success env cfg _ a v hok

/-! ## 3. Recovery ignores whatever is in the directory; crashes and torn / garbage files -/

/-- **The result does not depend on the initial directory at all** (complete, torn, garbage, foreign files, other
    pipelines' files — any two directories give the same outcome). -/
theorem recovery_ignores_state (env : Env) (hsafe : SafeDecoder env) (cfg : Config) (fs₁ fs₂ : FS)
    (chain : List (Node P)) :
    (execSeqCkpt env cfg fs₁ chain).outcome = (execSeqCkpt env cfg fs₂ chain).outcome := by
  rw [ckpt_transparent env hsafe cfg fs₁ chain, ckpt_transparent env hsafe cfg fs₂ chain]

theorem recovery_ignores_state_par (concat : List P → P) (env : Env) (hsafe : SafeDecoder env) (cfg : Config)
    (fs₁ fs₂ : FS) (chain : List (Node P)) (n : Nat) :
    (execParCkpt concat env cfg fs₁ chain n).outcome = (execParCkpt concat env cfg fs₂ chain n).outcome := by
  rw [ckpt_transparent_par concat env hsafe cfg fs₁ chain n, ckpt_transparent_par concat env hsafe cfg fs₂ chain n]

/-- **The only way leftover files can hurt** — for ANY decoder, safe or not: either the run returns exactly the
    plain result, or `auto_recover` is on and the process died inside `load_checkpoint` on the content of the newest
    well-formed checkpoint file of this id. -/
theorem recovery_only_hurts_through_load (env : Env) (cfg : Config) (fs : FS) (chain : List (Node P)) :
    (execSeqCkpt env cfg fs chain).outcome = .finished (execSeq chain) ∨
    ∃ name bytes e, cfg.autoRecover = true ∧ latest true (seqPid env chain.length) fs = some name ∧
      read fs name = some bytes ∧ load env.H env.dec bytes = .error e ∧ kills e = true ∧
      (execSeqCkpt env cfg fs chain).outcome = .died e := by
  rcases recover_cases env cfg (seqPid env chain.length) fs with ⟨lg, hlg⟩ | ⟨name, bytes, e, h1, h2, h3, h4, h5, h6⟩
  · left
    unfold execSeqCkpt
    simp only [hlg]
    rw [runNodes_result, execSeq_eq_seqFold]
    cases h : seqFold chain none with
    | error e => rfl
    | ok r =>
      cases r with
      | none => rfl
      | some b => rfl
  · right
    refine ⟨name, bytes, e, h1, h2, h3, h4, h5, ?_⟩
    unfold execSeqCkpt
    simp only [h6]

/-- whatever a killed run leaves behind differs from the directory it started in only in well-formed checkpoint
    files of its own pipeline id ("the checkpoint files it left") -/
theorem crash_leaves_only_own_files (env : Env) (cfg : Config) (fs : FS) (chain : List (Node P)) (k : Nat) :
    clear (seqPid env chain.length) (crashFs env cfg fs chain k) = clear (seqPid env chain.length) fs :=
  clear_runNodes stepSeqCk env cfg _ _ (chain.take k) 0 none (initSt fs)

/-- **A run dies at any point, the files are damaged in any way, a later run still completes correctly.**
    First run: any environment (its own clock), any configuration, killed after `k` nodes (`k` arbitrary; nothing is
    cleared). Then ANY transformation of the directory (`tamper`: truncate the newest file at any byte, overwrite
    with garbage, add foreign or look-alike files, delete files — any function). The second run, with or without
    `auto_recover`, returns exactly the checkpoint-free result. -/
theorem crash_then_recover (env₁ env₂ : Env) (hsafe : SafeDecoder env₂) (cfg₁ cfg₂ : Config) (fs : FS)
    (chain : List (Node P)) (k : Nat) (tamper : FS → FS) :
    (execSeqCkpt env₂ cfg₂ (tamper (crashFs env₁ cfg₁ fs chain k)) chain).outcome = .finished (execSeq chain) :=
  ckpt_transparent env₂ hsafe cfg₂ _ chain

/-- the same after a failed or killed PARALLEL run (which may have left a `"Failed"` marker) -/
theorem crash_then_recover_par (concat : List P → P) (env₁ env₂ : Env) (hsafe : SafeDecoder env₂) (cfg₁ cfg₂ : Config)
    (fs : FS) (chain : List (Node P)) (n : Nat) (tamper : FS → FS) :
    (execParCkpt concat env₂ cfg₂ (tamper (execParCkpt concat env₁ cfg₁ fs chain n).fs) chain n).outcome =
      .finished (execPar concat chain n) :=
  ckpt_transparent_par concat env₂ hsafe cfg₂ _ chain n

/-- … and if that second run succeeds, the directory is clean again (the crashed run's files included). -/
theorem crash_then_recover_clean (env₁ env₂ : Env) (cfg₁ cfg₂ : Config) (fs : FS) (chain : List (Node P)) (k : Nat)
    (tamper : FS → FS) (v : P)
    (hok : (execSeqCkpt env₂ cfg₂ (tamper (crashFs env₁ cfg₁ fs chain k)) chain).outcome = .finished (.ok v)) :
    ∀ f ∈ (execSeqCkpt env₂ cfg₂ (tamper (crashFs env₁ cfg₁ fs chain k)) chain).fs,
      isOwn (seqPid env₂ chain.length) f.1 = false :=
  ckpt_clean_after_success env₂ cfg₂ _ chain v hok

/-- a file torn at byte `o`: any prefix of its content -/
def tear (name : Name) (o : Nat) (fs : FS) : FS := fs.map (fun f => if f.1 == name then (f.1, f.2.take o) else f)

/-- a file overwritten with arbitrary bytes -/
def overwrite (name : Name) (garbage : Bytes) (fs : FS) : FS :=
  fs.map (fun f => if f.1 == name then (f.1, garbage) else f)

/-- instance of `crash_then_recover` in the property's own words: the newest file torn at ANY byte offset, or
    overwritten with ANY bytes, plus ANY additional files -/
theorem torn_or_garbage_then_recover (env₁ env₂ : Env) (hsafe : SafeDecoder env₂) (cfg₁ cfg₂ : Config) (fs : FS)
    (chain : List (Node P)) (k : Nat) (name : Name) (o : Nat) (garbage : Bytes) (extra : FS) :
    (execSeqCkpt env₂ cfg₂ (tear name o (crashFs env₁ cfg₁ fs chain k) ++ extra) chain).outcome =
        .finished (execSeq chain) ∧
    (execSeqCkpt env₂ cfg₂ (overwrite name garbage (crashFs env₁ cfg₁ fs chain k) ++ extra) chain).outcome =
        .finished (execSeq chain) :=
  ⟨crash_then_recover env₁ env₂ hsafe cfg₁ cfg₂ fs chain k (fun d => tear name o d ++ extra),
   crash_then_recover env₁ env₂ hsafe cfg₁ cfg₂ fs chain k (fun d => overwrite name garbage d ++ extra)⟩

/-! ### `SafeDecoder` is needed: the pinned commit's decoder (DESIGN §8 #8) -/

/-- NEGATION for the pinned commit's unlimited decoder: one nine-byte file (a string length prefix of `2^63`) under
    a well-formed checkpoint name of this pipeline id, `auto_recover` on — the run does not return the plain
    result: the process panics ("capacity overflow") inside `load_checkpoint`. Every chain, hash, policy, clock. -/
theorem legacy_decoder_recovery_dies (H : Bytes → Bytes) (clock : Nat → Nat) (progress : Nat → Nat → UInt8)
    (mem : Nat) (policy : Policy) (max : Option Nat) (chain : List (Node P)) :
    let env : Env := { H := H, dec := Checkpoint.Legacy.cfg mem, clock := clock, progress := progress }
    (execSeqCkpt env { policy := policy, autoRecover := true, max := max }
      [(fileNameOf (seqPid env chain.length) 5, [253, 0, 0, 0, 0, 0, 0, 0, 128])] chain).outcome =
      .died .capacityOverflow := by
  intro env
  have hl := legacy_load_panics H mem
  unfold Checkpoint.Legacy.load at hl
  have hrec : recover env { policy := policy, autoRecover := true, max := max } (seqPid env chain.length)
      [(fileNameOf (seqPid env chain.length) 5, [253, 0, 0, 0, 0, 0, 0, 0, 128])] = .error .capacityOverflow := by
    unfold recover
    simp only [Bool.not_true, Bool.false_eq_true, if_false]
    rw [latest_single_own _ 5 (by decide)]
    simp only [read_single]
    show (match load H (Checkpoint.Legacy.cfg mem) [253, 0, 0, 0, 0, 0, 0, 0, 128] with
      | .ok s => Except.ok (RecLog.loaded s)
      | .error e => if kills e then .error e else .ok (.rejected e)) = _
    rw [hl]; rfl
  unfold execSeqCkpt
  simp only [hrec]

/-! ## 4. The pinned commit: no `CoGroup` arm (DESIGN §8 #7) -/

/-- **PARTIAL (pinned commit)**: on join-free chains the old engine was transparent too. -/
theorem legacy_ckpt_transparent_partial (env : Env) (hsafe : SafeDecoder env) (cfg : Config) (fs : FS)
    (chain : List (Node P)) (hno : hasCoGroup chain = false) :
    (Legacy.execSeqCkpt env cfg fs chain).outcome = .finished (Legacy.lift (execSeq chain)) := by
  obtain ⟨lg, hlg⟩ := recover_ok_of_noCrash env cfg (seqPid env chain.length) fs hsafe
  unfold Legacy.execSeqCkpt
  simp only [hlg]
  rw [legacy_runNodes_result env cfg _ _ chain hno, execSeq_eq_seqFold]
  cases h : seqFold chain none with
  | error e => rfl
  | ok r =>
    cases r with
    | none => rfl
    | some b => rfl

/-- **NEGATION (pinned commit), every join**: if the nodes before the first `CoGroup` run through (they always do
    for a chain the builders produce: a join restarts the chain at a dummy source), the old sequential checkpointing
    engine returns `Err("CoGroup requires subplan execution")` — whatever the join would have produced. -/
theorem legacy_ckpt_fails_on_join (env : Env) (hsafe : SafeDecoder env) (cfg : Config) (fs : FS)
    (pre post : List (Node P)) (l r : List (Node P)) (coL coR : List P → P) (ex : P → P → P)
    (hno : hasCoGroup pre = false) (cur : Option P) (hpre : seqFold pre none = .ok cur) :
    (Legacy.execSeqCkpt env cfg fs (pre ++ .coGroup l r coL coR ex :: post)).outcome =
      .finished (.error .coGroupRequiresSubplan) := by
  obtain ⟨lg, hlg⟩ := recover_ok_of_noCrash env cfg (seqPid env (pre ++ .coGroup l r coL coR ex :: post).length) fs hsafe
  unfold Legacy.execSeqCkpt
  simp only [hlg]
  have key : ∀ (pre : List (Node P)) (hno : hasCoGroup pre = false) (idx : Nat) (c0 : Option P) (st : St)
      (total : Nat) (pid : Bytes), seqFold pre c0 = .ok cur →
      (runNodes Legacy.stepSeqCk env cfg pid total idx (pre ++ .coGroup l r coL coR ex :: post) c0 st).1 =
        .error .coGroupRequiresSubplan := by
    intro pre
    induction pre with
    | nil => intro _ idx c0 st total pid _; rfl
    | cons n rest ih =>
      intro hno idx c0 st total pid hfold
      have hn : hasCoGroup [n] = false := by cases n <;> first | rfl | (simp [hasCoGroup] at hno)
      have hrest : hasCoGroup rest = false := by cases n <;> first | exact hno | (simp [hasCoGroup] at hno)
      rw [List.cons_append]
      unfold runNodes
      rw [legacy_step_of_not_coGroup c0 n hn]
      unfold seqFold at hfold
      rw [List.foldlM_cons] at hfold
      cases h : stepSeq c0 n with
      | error e => rw [h] at hfold; cases hfold
      | ok b =>
        rw [h] at hfold
        simp only [Legacy.lift]
        exact ih hrest (idx + 1) (some b) _ total pid hfold
  rw [key pre hno 0 none (initSt fs) _ _ hpre]

/-- **NEGATION (pinned commit) on the chains the BUILDERS produce**: for every left input, every right input and
    right-side steps, every join kind, every policy / retention / directory — sequential mode with checkpointing
    returned `Err("CoGroup requires subplan execution")` for `left.join_*(right)`. -/
theorem legacy_ckpt_fails_on_builder_join (env : Env) (hsafe : SafeDecoder env) (cfg : Config) (fs : FS)
    (src rsrc : List Val) (k : JoinKind) (rsteps : List Step) :
    (Legacy.execSeqCkpt env cfg fs (optimise (litChain src [.join k rsrc rsteps]))).outcome =
      .finished (.error .coGroupRequiresSubplan) := by
  obtain ⟨l, r, coL, coR, ex, post, h⟩ : ∃ l r coL coR ex post,
      optimise (litChain src [.join k rsrc rsteps]) = [dummySource] ++ .coGroup l r coL coR ex :: post :=
    ⟨_, _, _, _, _, _, rfl⟩
  rw [h]
  exact legacy_ckpt_fails_on_join env hsafe cfg fs [dummySource] post l r coL coR ex rfl (some [.int 0]) rfl

section Witness

/-- a one-join chain over `P := Nat`, shaped as the builders shape it: dummy source, `CoGroup` holding both sides'
    chains, a trailing stateless node -/
def wChain : List (Node Nat) :=
  [ .source 0 1 (fun _ => [0]),
    .coGroup [.source 20 1 (fun _ => [20])] [.source 22 1 (fun _ => [22])] List.sum List.sum (fun a b => a + b),
    .stateless [{ apply := fun x => x + 1 }] ]

/-- the plain engines return a result on it … -/
theorem witness_plain_result : execSeq wChain = .ok 43 ∧ execPar List.sum wChain 4 = .ok 43 := by
  constructor <;> rfl

/-- … the CURRENT checkpointing engine returns the same (instance of `ckpt_transparent`) … -/
theorem witness_current_result (env : Env) (hsafe : SafeDecoder env) (cfg : Config) (fs : FS) :
    (execSeqCkpt env cfg fs wChain).outcome = .finished (.ok 43) := by
  rw [ckpt_transparent env hsafe cfg fs wChain]; rfl

/-- … the pinned commit's engine fails (NEGATION of transparency for the old code). -/
theorem witness_legacy_fails (env : Env) (hsafe : SafeDecoder env) (cfg : Config) (fs : FS) :
    (Legacy.execSeqCkpt env cfg fs wChain).outcome = .finished (.error .coGroupRequiresSubplan) :=
  legacy_ckpt_fails_on_join env hsafe cfg fs [.source 0 1 (fun _ => [0])] _ _ _ _ _ _ rfl (some 0) rfl

end Witness

/-! ## Non-vacuity -/

section NonVacuity

/-- a safe environment exists (identity "hash", the running code's decode limit) -/
def exEnv : Env :=
  { H := id, dec := currentCfg IB.Generated.ckptDecodeLimit, clock := fun k => 1700000000000000000 + k * 1000000,
    progress := fun i t => UInt8.ofNat (i * 100 / t) }

example : SafeDecoder exEnv := current_decoder_safe exEnv _ (Nat.le_refl _) rfl

/-- checkpoints really are written: under `AfterEveryBarrier`, keep-all retention, a run killed right after its
    barrier node leaves exactly the record of that node behind (so the clean-up theorems are not about an engine that
    never saves) -/
example :
    crashFs exEnv { policy := .afterEveryBarrier, autoRecover := true, max := none } [] wChain 2 =
      [(fileNameOf (seqPid exEnv 3) (stampOf (exEnv.clock 0)),
        encode (seqState exEnv (seqPid exEnv 3) 1 3 (stampOf (exEnv.clock 0)) (ascii "CoGroup")))] := rfl

/-- … and after the full run it is gone again -/
example : (execSeqCkpt exEnv { policy := .afterEveryBarrier, autoRecover := true, max := none } [] wChain).fs = [] := by
  rw [ckpt_success_fs exEnv _ [] wChain 43 (witness_current_result exEnv (current_decoder_safe exEnv _ (Nat.le_refl _) rfl) _ [])]
  rfl

/-- the hypotheses of `crash_then_recover_clean` / `success_clears_equal_length_pipelines_files` are satisfiable:
    a run killed after its barrier, the record it left torn at byte 7, then a successful run -/
example :
    (execSeqCkpt exEnv { policy := .timeInterval 0, autoRecover := true, max := some 1 }
      (tear (fileNameOf (seqPid exEnv 3) (stampOf (exEnv.clock 0))) 7
        (crashFs exEnv { policy := .afterEveryBarrier, autoRecover := true, max := none } [] wChain 2)) wChain).outcome
      = .finished (.ok 43) :=
  witness_current_result exEnv (current_decoder_safe exEnv _ (Nat.le_refl _) rfl) _ _

/-- `EveryNNodes 0` never saves (`is_multiple_of(0)` is `== 0`, and index 0 is excluded) -/
example (idx : Nat) (b : Bool) (last : Option Nat) (now : Nat) :
    shouldCheckpoint true (.everyNNodes 0) last now idx b = false := by
  unfold shouldCheckpoint
  cases idx with
  | zero => simp
  | succ k => simp

end NonVacuity

end IB.CheckpointRun
