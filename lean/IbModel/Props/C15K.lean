import IbModel.Generated.Kernels
import IbModel.Model.Sketches
/-!
# C15 — kernel ties (translator route)

Tied here (`combiners/distinct.rs`, the KMV sketch): `KMVApproxDistinctCount::new` `k: k.max(4)` ↔ `kmvK`;
`KMVAcc::try_insert` `if self.heap.len() < self.k` ↔ the room test of `KMV.tryInsert`; `KMVAcc::finish`
`if m == 0` and `if m < self.k` ↔ `KMV.finish`.

Not tied: everything of `combiners/quantiles.rs` (t-digest) — its guards compare `f64`s (`centroids.len() as f64 >
compression * 2.0`, `k_size`), floats are not translated; the KMV estimator `(k - 1) / r_k`; `r < rk` (NotNan<f64>).
-/
set_option autoImplicit false
namespace IB.KTies.C15
open IB.Generated IB.Sketches

theorem k_kmv_k : ∀ k : Nat, K.kmv_k k = kmvK k := by intros; rfl

theorem k_kmv_insert_room : ∀ len k : Nat, K.kmv_insert_room len k = decide (len < k) := by intros; rfl

theorem k_kmv_finish_zero : ∀ m : Nat, K.kmv_finish_zero m = (m == 0) := by intros; rfl

theorem k_kmv_finish_exact : ∀ m k : Nat, K.kmv_finish_exact m k = decide (m < k) := by intros; rfl

section model
variable {α : Type} [BEq α] [LT α] [DecidableLT α]

theorem k_kmv_try_insert_model : ∀ (a : KMV α) (r : α),
    a.tryInsert r =
      if a.set.contains r then a else
      if K.kmv_insert_room a.heap.length a.k then { a with heap := r :: a.heap, set := r :: a.set }
      else match heapMax a.heap with
        | some rk =>
          if r < rk then { a with heap := r :: a.heap.erase rk, set := (r :: a.set).erase rk }
          else { a with set := (r :: a.set).erase r }
        | none => { a with set := r :: a.set } := by
  intro a r
  unfold KMV.tryInsert
  by_cases h1 : a.set.contains r
  · simp [h1]
  · by_cases h2 : a.heap.length < a.k
    · simp [h1, h2, k_kmv_insert_room]
    · simp only [h1, h2, k_kmv_insert_room, if_false, decide_false, Bool.false_eq_true]
      rfl

omit [BEq α] in
theorem k_kmv_finish_model : ∀ (a : KMV α),
    a.finish =
      if K.kmv_finish_zero a.set.length then .zero
      else if K.kmv_finish_exact a.set.length a.k then .exact a.set.length
      else match heapMax a.heap with
        | some rk => .est a.k rk
        | none => .panic := by
  intro a
  unfold KMV.finish
  by_cases h1 : a.set.length = 0
  · simp [h1, K.kmv_finish_zero]
  · by_cases h2 : a.set.length < a.k
    · simp [h1, h2, K.kmv_finish_zero, K.kmv_finish_exact]
    · simp only [h1, h2, K.kmv_finish_zero, K.kmv_finish_exact, beq_iff_eq, if_false, decide_false, Bool.false_eq_true]
      rfl

end model
end IB.KTies.C15
