import IbModel.Generated.Kernels
import IbModel.Model.Window
/-!
# C13 — kernel ties (translator route)

Tied here (`window.rs`, translation mode `checked64`: every `+ - * / %` is the checked `u64` operation of a build with
overflow checks, `none` = panic; `debug_assert!(size_ms > 0)` = `none` when false):
* `div_floor` (whole body) ↔ `Window.divFloor`;
* `Window::tumble` (whole body: `off = offset_ms % size_ms`, `rel = ts - off`, `k = div_floor(rel, size_ms)`,
  `win_start = k * size_ms + off`, `end = win_start + size_ms`) ↔ the checked model `Window.tumble`; the struct
  literal `Self { start, end }` is translated to the pair `(start, end)`.

Not tied: the release-arithmetic variant `tumbleWrapping` and the two `Legacy.*` variants (they are other
compilations / older texts of the same file; their tie stays the differential one of `harness/{relwin,chkwin}`).
-/
set_option autoImplicit false
namespace IB.KTies.C13
open IB.Generated IB.Window

theorem k_window_div_floor : ∀ a b : Nat, K.window_div_floor a b = divFloor a b := by
  intro a b
  unfold K.window_div_floor divFloor K.cdiv K.cmod ckDiv ckMod
  by_cases hb : b = 0
  · simp [hb]
  · simp only [hb, if_false, Option.bind_some, bind, pure]
    by_cases h : a % b ≠ 0 ∧ (decide (a % b > 0) != decide (b > 0)) = true
    · have h' : ((a % b != 0) && (decide (a % b > 0) != decide (b > 0))) = true := by
        simp only [Bool.and_eq_true, bne_iff_ne]; exact ⟨h.1, by simpa using h.2⟩
      rw [if_pos h, if_pos h']; rfl
    · have h' : ¬ ((a % b != 0) && (decide (a % b > 0) != decide (b > 0))) = true := by
        intro hc; apply h
        simp only [Bool.and_eq_true, bne_iff_ne] at hc
        exact ⟨hc.1, by simpa using hc.2⟩
      rw [if_neg h, if_neg h']

theorem k_window_tumble : ∀ ts size off : Nat,
    K.window_tumble ts size off = (tumble ts size off).map fun w => (w.start, w.stop) := by
  intro ts size off
  have hf : K.window_div_floor = divFloor := by funext a b; exact k_window_div_floor a b
  unfold K.window_tumble tumble
  rw [hf]
  by_cases hs : size = 0
  · simp [hs, K.dbgAssert]
  · have hs' : size > 0 := Nat.pos_of_ne_zero hs
    simp only [hs, hs', if_false, K.dbgAssert, decide_true, if_true, K.cmod, K.csub, K.cmul, K.cadd, K.U64,
      ckMod, ckSub, ckMul, ckAdd, U64, bind, Option.bind, pure]
    by_cases h1 : off % size ≤ ts
    · simp only [h1, if_true]
      cases hk : divFloor (ts - off % size) size with
      | none => rfl
      | some k =>
        simp only []
        by_cases h2 : k * size < 18446744073709551616
        · simp only [h2, if_true]
          by_cases h3 : k * size + off % size < 18446744073709551616
          · simp only [h3, if_true]
            by_cases h4 : k * size + off % size + size < 18446744073709551616
            · simp [h4]
            · simp [h4]
          · simp [h3]
        · simp [h2]
    · simp [h1]

end IB.KTies.C13
